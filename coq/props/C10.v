(* C10 property theorems: storage failures fail closed.  Nothing but statements closed by [exact].
   Vocabulary: C10_Prog (programs, plans, run), C10_Handlers (the handlers of both routers),
   C10_spec (input = router x flow x fault plan; spec = the property predicate). *)
From OIDC Require Import Lib C10_spec C10_proofs.

(* The full statement "for every router, flow and fault plan, a reached failure is answered with an
   error and no credential" is FALSE for the library as it is: two open findings (F24 discovery,
   Fxx-C10-1 revocation of a JWT access token), listed in C10_Handlers.open_pair. *)
Theorem C10_fail_closed_refuted :
  exists i, wf_input i = true /\ spec i (model i) = false.
Proof. exact fail_closed_refuted_discovery. Qed.
Print Assumptions C10_fail_closed_refuted.

Theorem C10_fail_closed_refuted_revocation :
  exists i, wf_input i = true /\ spec i (model i) = false.
Proof. exact fail_closed_refuted_revocation. Qed.
Print Assumptions C10_fail_closed_refuted_revocation.

Theorem C10_fail_closed_full_statement_fails :
  ~ (forall i, wf_input i = true -> spec i (model i) = true).
Proof. exact fail_closed_not_unconditional. Qed.
Print Assumptions C10_fail_closed_full_statement_fails.

(* Everything else: for every router, every set of optional storage interfaces (SStd / SMax / SMin),
   every flow variant, cold or warm provider, every plan (k-th
   call for any k, or every call of any method) and every VALUE of the failure (plain error,
   deadline, cancellation, *oidc.Error of any code with or without the redirect-disabled mark,
   ErrDuplicateUserCode, ErrInvalidRefreshToken; bare or wrapped) in which no reached failure is one
   of the two open (flow, method) pairs, the property predicate holds of the model's answer.
   (spec itself exempts the one value the storage interface defines as an answer:
   ErrInvalidRefreshToken from GetRefreshTokenInfo, C10_spec.documented_answer.) *)
Theorem C10_fail_closed_partial :
  forall i, wf_input i = true -> open_finding i = false -> spec i (model i) = true.
Proof. exact fail_closed_partial. Qed.
Print Assumptions C10_fail_closed_partial.

(* The same, spelled out: if an injected failure is reached then the answer is an error redirect to
   the validated URI, a 4xx or a 5xx (or, for introspection only, 200 {active:false}), and carries
   no code / access / refresh / ID token / user claim / active:true. *)
Theorem C10_fail_closed :
  forall r sv f p, wf_flow f = true ->
  hit p (handler r sv f) = true ->
  (forall m kd, In (m, kd) (faults p (handler r sv f)) -> excused f m kd = false) ->
  let a := answer p (handler r sv f) in
  (r_cls a = K302Err \/ r_cls a = K4xx \/ r_cls a = K5xx
   \/ (r_cls a = KInactive /\ is_introspection f = true))
  /\ (forall c, In c (r_creds a) -> forbidden c = false).
Proof. exact fail_closed_prop. Qed.
Print Assumptions C10_fail_closed.

Theorem C10_fail_closed_nonvacuous :
  exists i, wf_input i = true /\ open_finding i = false /\ hit (in_plan i) (in_prog i) = true.
Proof. exact fail_closed_nonvacuous. Qed.
Print Assumptions C10_fail_closed_nonvacuous.

(* The generic fact behind it, for ANY program: if every failure handler of a non-excused call can
   only end in answers satisfying P, then every run that reaches an injected failure (none of them
   excused) ends in an answer satisfying P.  By induction over the program. *)
Theorem C10_fail_closed_any_program :
  forall (P : resp -> bool) (ex : method -> kind -> bool) (g : prog),
  fail_closed_prog P ex g = true ->
  forall p, hit p g = true ->
  (forall m kd, In (m, kd) (faults p g) -> ex m kd = false) ->
  P (answer p g) = true.
Proof. exact fail_closed_run. Qed.
Print Assumptions C10_fail_closed_any_program.

(* A failure that persists for every call of a method the flow uses (so no retry can get past it):
   error answer without credentials, whatever the value - this is the ErrDuplicateUserCode-on-every-
   attempt case of the device authorization endpoint, for all flows and methods. *)
Theorem C10_persistent_failure :
  forall r sv f m kd, wf_flow f = true ->
  In m (journal PNone (handler r sv f)) ->
  open_pair f m = false -> documented_answer m kd = false ->
  closed_answer f (answer (PMethod m kd) (handler r sv f)) = true.
Proof. exact persistent_failure. Qed.
Print Assumptions C10_persistent_failure.

(* Device token poll: a failing GetDeviceAuthorizatonState is answered slow_down when the failure
   is (or wraps) context.DeadlineExceeded and access_denied otherwise (4xx, no credential), on both
   routers, every variant. *)
Theorem C10_device_mapping :
  forall r sv c off oid p kd rest,
  faults p (handler r sv (FDeviceToken c off oid)) = (MGetDeviceAuthorizatonState, kd) :: rest ->
  let a := answer p (handler r sv (FDeviceToken c off oid)) in
  r_cls a = K4xx /\ r_creds a = [] /\
  r_err a = if is_deadline kd then "slow_down" else "access_denied".
Proof. exact device_mapping. Qed.
Print Assumptions C10_device_mapping.

Theorem C10_device_mapping_nonvacuous :
  exists r sv c off oid p kd rest,
    faults p (handler r sv (FDeviceToken c off oid)) = (MGetDeviceAuthorizatonState, kd) :: rest.
Proof. exact device_mapping_nonvacuous. Qed.
Print Assumptions C10_device_mapping_nonvacuous.

(* Journal prefix: up to and including the first failing call, the journal of a faulted run is a
   prefix of the fault-free journal - for every program and every plan. *)
Theorem C10_journal_prefix :
  forall g p,
  map fst (upto_fault (trace p g))
  = firstn (List.length (upto_fault (trace p g))) (journal PNone g).
Proof. exact journal_prefix. Qed.
Print Assumptions C10_journal_prefix.

(* For every handler but the revocations that go on after a failure (KeySet; GetRefreshTokenInfo
   answering ErrInvalidRefreshToken): with the k-th call failing the journal is exactly the first k calls of the fault-free
   run, and the failure is reached iff k is at most the number of fault-free calls. *)
Theorem C10_journal_at_k :
  forall r sv f k kd, goes_on sv f = false ->
  journal (PAt (S k) kd) (handler r sv f) = firstn (S k) (journal PNone (handler r sv f))
  /\ hit (PAt (S k) kd) (handler r sv f) = (S k <=? List.length (journal PNone (handler r sv f))).
Proof. exact journal_at_handlers. Qed.
Print Assumptions C10_journal_at_k.

(* A handler has no state besides the storage: whether the same provider instance served the same
   request before (fault free) does not change the answer to the faulted request. The driver runs
   every case both ways against this one model. *)
Theorem C10_no_hidden_state : forall r sv f p, model (Req r sv f true p) = model (Req r sv f false p).
Proof. exact warm_irrelevant. Qed.
Print Assumptions C10_no_hidden_state.

(* The response_mode (default / query / fragment / form_post) of an authorization request or
   callback, whatever the response type, only shapes the answer of the fault-free path: for every
   router, storage, flow, mode and plan the storage calls are the same, the failure is reached in
   the same runs, and a reached failure is answered exactly as in the original mode - in particular
   the 200 page of form_post (which carries the code / tokens) is never the answer to a failure. *)
Theorem C10_response_mode_only_success :
  forall r sv f m p,
  journal p (handler r sv (set_mode f m)) = journal p (handler r sv f) /\
  hit p (handler r sv (set_mode f m)) = hit p (handler r sv f) /\
  (hit p (handler r sv f) = true ->
   answer p (handler r sv (set_mode f m)) = answer p (handler r sv f)).
Proof. exact response_mode_only_success. Qed.
Print Assumptions C10_response_mode_only_success.

Theorem C10_response_mode_nonvacuous :
  exists p, hit p (handler RProvider SStd (FCallbackCode Web MFormPost)) = true /\
    r_cls (answer PNone (handler RProvider SStd (FCallbackCode Web MFormPost))) = KOk /\
    r_cls (answer PNone (handler RProvider SStd (FCallbackCode Web MDefault))) = K302 /\
    r_cls (answer p (handler RProvider SStd (FCallbackCode Web MFormPost))) = K302Err.
Proof. exact response_mode_nonvacuous. Qed.
Print Assumptions C10_response_mode_nonvacuous.

(* A storage whose failing call has done its work before reporting the failure (SKeep: results and
   side effects come back together with the error - a commit whose acknowledgement timed out, a
   lookup that returns what it found with the error, an out-parameter filled before the failure) is
   answered exactly like one that returns nothing: no handler looks at what a failing call returned.
   The driver runs every flow against such a storage; all theorems above cover SKeep as a value of sv. *)
Theorem C10_failure_results_ignored :
  forall r f p,
  model (Req r SKeep f false p) = model (Req r SStd f false p) /\
  model (Req r SKeep f true p) = model (Req r SStd f true p).
Proof. exact failure_results_ignored. Qed.
Print Assumptions C10_failure_results_ignored.

(* Revocation: Storage.RevokeToken returns an *oidc.Error of the storage's choice.  Whatever its
   type - any of the library's error types, a type of the storage's own, the empty type, or no
   *oidc.Error at all (then server_error) - a reached failure of RevokeToken is answered with a
   status: 5xx exactly for server_error, 4xx for every other type, the type as the error code,
   no credential; on both routers, every client, token kind and hint. *)
Theorem C10_revocation_mapping :
  forall r sv c t hint p kd rest,
  faults p (handler r sv (FRevoke c t hint)) = (MRevokeToken, kd) :: rest ->
  let a := answer p (handler r sv (FRevoke c t hint)) in
  (r_cls a = K4xx \/ r_cls a = K5xx) /\ r_creds a = [] /\ r_err a = code_str (dcode kd) /\
  (r_cls a = K5xx <-> dcode kd = EServerError).
Proof. exact revocation_mapping. Qed.
Print Assumptions C10_revocation_mapping.

Theorem C10_revocation_mapping_nonvacuous :
  exists r sv c t hint p kd rest,
    faults p (handler r sv (FRevoke c t hint)) = (MRevokeToken, kd) :: rest /\ dcode kd = EAccessDenied.
Proof. exact revocation_mapping_nonvacuous. Qed.
Print Assumptions C10_revocation_mapping_nonvacuous.

(* End session, every combination of request parameters (id_token_hint / client_id /
   post_logout_redirect_uri / state, each present or absent), every client, both routers, every
   storage: post_logout_redirect_uri and state do not change the storage calls or the reaction to a
   failure, and a reached failure of ANY call - KeySet for the hint, GetClientByClientID whether the
   client id came from the request or from the hint's azp, TerminateSession[FromRequest] - is answered
   4xx / 5xx without credentials, never with a redirect (not to the default logout URI either). *)
Theorem C10_end_session_variants :
  forall r sv c hint cid plr st p,
  let f := FEndSession c (EndReq hint cid plr st) in
  handler r sv f = handler r sv (FEndSession c (EndReq hint cid false false)) /\
  (hit p (handler r sv f) = true ->
   let a := answer p (handler r sv f) in
   (r_cls a = K4xx \/ r_cls a = K5xx) /\ r_creds a = []).
Proof. exact end_session_variants. Qed.
Print Assumptions C10_end_session_variants.

(* WHAT a failing call returns besides the error is a dimension of its own (C10_Handlers.results_of):
   nothing (untyped nil / zero values), typed nil pointers inside the interface-typed results (SNil:
   `var req *AuthRequest; ...; return req, err` - a nil test on the interface does not see it, a method
   call dereferences nil), non-nil empty objects (SZero), or the complete results (SKeep).  Two storages
   that offer the same optional interfaces are answered alike for every router, flow, provider state and
   plan: no handler looks at - or calls a method of - anything a failing call returned. *)
Theorem C10_failure_results_shape_ignored :
  forall r sv sv' f w p,
  ifaces_of sv = ifaces_of sv' -> model (Req r sv f w p) = model (Req r sv' f w p).
Proof. exact failure_results_shape_ignored. Qed.
Print Assumptions C10_failure_results_shape_ignored.

(* The same for the answer itself: whatever accompanies the error, a well-formed request outside the two
   open findings gets exactly one response - never a panic or a hang -, the one the storage returning
   nothing gets, and when the injected failure (not the documented ErrInvalidRefreshToken answer) was
   reached it is an error redirect to the validated URI / 4xx / 5xx (introspection: or 200
   {active:false}) without code, token, claim or active:true. *)
Theorem C10_fail_closed_any_results :
  forall r sv f w p,
  wf_flow f = true -> open_finding (Req r sv f w p) = false ->
  exists h cls err creds j,
    model (Req r sv f w p) = Obs h true cls err creds j /\
    model (Req r (plain_storage sv) f w p) = Obs h true cls err creds j /\
    (h = true -> is_failure p j = true ->
     (cls = K302Err \/ cls = K4xx \/ cls = K5xx \/ (cls = KInactive /\ is_introspection f = true))
     /\ (forall c, In c creds -> forbidden c = false)).
Proof. exact fail_closed_any_results. Qed.
Print Assumptions C10_fail_closed_any_results.

(* non-vacuity: the authorize callback whose AuthRequestByID fails with a typed nil request (SNil) is a
   well-formed input outside the findings, the failure is reached and the answer is 400 without redirect;
   a wrapped deadline at the client lookup of a code exchange is answered alike for SZero and SStd *)
Theorem C10_fail_closed_any_results_nonvacuous :
  let i := Req RProvider SNil (FCallbackCode Web MDefault) false (PAt 1 (K BPlain false)) in
  wf_input i = true /\ open_finding i = false /\ results_of SNil = RTypedNil /\
  model i = Obs true true K4xx "" [] [MAuthRequestByID] /\
  model (Req RLegacy SZero (FTokenCode Web2 true) true (PAt 2 (K BDeadline true)))
  = model (Req RLegacy SStd (FTokenCode Web2 true) true (PAt 2 (K BDeadline true))).
Proof. exact fail_closed_any_results_nonvacuous. Qed.
Print Assumptions C10_fail_closed_any_results_nonvacuous.

(* Introspection, every router, storage variant (in particular SKeep / SFull: the failing call has
   written into the response it was handed, SFull also active:true), client and plan: a reached failure of
   any call - client authentication, KeySet, SetIntrospectionFromToken - is answered 4xx or 200
   {active:false} and nothing else; the document under construction (the fault-free answer: claims and
   active:true) is never the answer to a failure. *)
Theorem C10_introspection_failure_inactive :
  forall r sv c p,
  hit p (handler r sv (FIntrospect c)) = true ->
  let a := answer p (handler r sv (FIntrospect c)) in
  (r_cls a = K4xx \/ r_cls a = KInactive) /\ r_creds a = [].
Proof. exact introspection_failure_inactive. Qed.
Print Assumptions C10_introspection_failure_inactive.

Theorem C10_introspection_failure_inactive_nonvacuous :
  results_of SFull = RFull /\
  hit (PAt 2 (K BPlain false)) (handler RProvider SFull (FIntrospect Web)) = true /\
  model (Req RProvider SFull (FIntrospect Web) false (PAt 2 (K BPlain false)))
  = Obs true true KInactive "" [] [MAuthorizeClientIDSecret; MSetIntrospectionFromToken] /\
  r_creds (answer PNone (handler RProvider SFull (FIntrospect Web))) = [CClaims; CActive].
Proof. exact introspection_failure_inactive_nonvacuous. Qed.
Print Assumptions C10_introspection_failure_inactive_nonvacuous.
