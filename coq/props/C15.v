(* C15 property theorems. Nothing but statements closed by [exact].
   Vocabulary: C08_OP.v (state machine, [exchange] = token exchange on either router),
   C08_spec.v (subj_live / actor_live: the presented string is a live token of the declared
   type; op_unconfused: outside the input class of finding Fxx-C08-1), C15_spec.v (client_ok,
   decided, contained, promised, the predicate spec; round 11: intent, wire_faithful, expect_view1/2),
   C15_Helper.v (round 11: the client helpers new_request / dispatch, the wire form encode / parse,
   the request views read_full / exch_views). wf_clients: client ids are non-empty. *)
From OIDC Require Import Lib C08_OP C15_Helper.
From OIDC Require C08_spec C08_proofs C15_spec C15_proofs C15_Helper_proofs.
Import C08_spec C08_proofs C15_proofs C15_Helper_proofs.

(* The C15 predicate accepts every run of the model - histories (all client tables with non-empty
   ids, all histories, both routers) and helper cases (a history, then any call of the client
   helpers with word lists: NewTokenExchangeRequest with any options in any order,
   DelegationTokenRequest, ExchangeToken; any credential, router, host) - outside the input
   class of the recorded finding Fxx-C08-1 (outside_findings). *)
Theorem C15_all_histories_partial : forall i : C15_spec.input, wf15 i = true -> outside_findings i = true ->
  C15_spec.spec i (C15_spec.model i) = true.
Proof. exact spec15_model_partial. Qed.
Print Assumptions C15_all_histories_partial.

Theorem C15_all_histories_refuted : exists h : hist_input, wf_input h = true /\
  C15_spec.spec (C15_spec.IHist h) (C15_spec.model (C15_spec.IHist h)) = false.
Proof. exact spec15_hist_refuted. Qed.
Print Assumptions C15_all_histories_refuted.

(* Round 11 - the client helpers.  NewTokenExchangeRequest(subject, type, options...) builds the
   request the caller asked for: of the options of one kind the last one counts, every option
   sets nothing but its own parameter(s), defaults are grant type token-exchange and requested
   type access_token - for every option list. *)
Theorem C15_helper_builds_intent : forall subj styp opts,
  new_request subj styp opts = C15_spec.intent_opts subj styp opts.
Proof. exact build_is_intent. Qed.
Print Assumptions C15_helper_builds_intent.

(* Round trip of a space-delimited list (oidc.SpaceDelimitedArray: strings.Join on the client,
   strings.Split on the provider): the words of the joined list are the list, also the empty one. *)
Theorem C15_scope_list_roundtrip : forall l, wordlist l = true -> words (join_sp l) = l.
Proof. exact words_join. Qed.
Print Assumptions C15_scope_list_roundtrip.

(* Round trip helper -> wire -> provider: for every helper call that asks for a request q (word
   lists) the helper sends a form w, w carries every parameter faithfully (subject token in
   subject_token, actor token in actor_token, lists complete and in order, sent to the token
   endpoint) and the provider's decoder reads exactly q back from it - any number of scopes
   (Fxx-C15-1 repaired: WithScope sends ONE space-delimited scope parameter). *)
Theorem C15_helper_roundtrip : forall call q, C15_spec.intent call = Some q -> wf_req q = true ->
  exists w, dispatch call = Some w /\ parse w = q /\ C15_spec.wire_faithful q w = true.
Proof. exact helper_roundtrip. Qed.
Print Assumptions C15_helper_roundtrip.

(* ExchangeToken refuses (sends nothing) exactly when the caller gave no subject token type *)
Theorem C15_helper_refuses_without_type : forall call, C15_spec.intent call = None <-> dispatch call = None.
Proof. exact dispatch_none. Qed.
Print Assumptions C15_helper_refuses_without_type.

(* ... so the provider decides a helper-built request exactly as the token exchange the caller
   asked for: same subject, declared types, actor, requested type, scopes and audience - after
   any history, with any credential, on both routers. *)
Theorem C15_helper_decided_as_asked : forall cl pol ops host ku r c call q,
  C15_spec.intent call = Some q -> wf_req q = true -> q_grant q = GExchange ->
  exists w v1 v2, C15_spec.wire_faithful q w = true /\
    C15_spec.model (C15_spec.IHelp cl pol ops host ku r c call) =
    C15_spec.OHelp (run_hist (Hist cl pol (ops ++ [(host, ku, Exchange r c (q_subj q) (q_styp q) (q_actor q) (q_requested q) (q_scope q) (q_audience q))])))
          (Some w) v1 v2.
Proof. exact helper_decided_as_asked. Qed.
Print Assumptions C15_helper_decided_as_asked.

(* Why the scopes must travel as one parameter (the encoding before the fix of Fxx-C15-1 sent
   one scope parameter per scope): of a REPEATED scope parameter the provider's decoder reads the
   last value only - every other value is lost. *)
Theorem C15_repeated_scope_parameter_keeps_last : forall w v vs,
  w_scope w = vs ++ [v] -> q_scope (parse w) = words v.
Proof. exact repeated_scope_parameter_keeps_last. Qed.
Print Assumptions C15_repeated_scope_parameter_keeps_last.

(* The request view (the getters of op.TokenExchangeRequest the storage hooks read): for every
   request, state and router - a success consulted the storage at both hooks; whatever the first
   hook (ValidateTokenExchangeRequest) is shown is the data of THIS request: GetExchangeSubject /
   ...TokenType / ...TokenIDOrToken / ...TokenClaims are those of the presented subject token, the
   actor getters those of the presented actor token (all empty without one - nothing swapped,
   nothing left over), GetResourses / GetAudience / GetScopes / GetRequestedTokenType what the
   request carried, GetClientID the authenticated client; the later hooks see the same token data
   and the storage policy's decisions for subject, scopes and requested type. *)
Theorem C15_storage_view_is_this_request : forall cl r g nx c subj styp actor req scopes aud res,
  wf_clients cl = true ->
  let x := snd (exchange cl r (g, nx) c subj styp actor req scopes aud) in
  let vs := exch_views cl r g c subj styp actor req scopes aud res in
  (C15_spec.exch_ok x = true -> fst vs <> None /\ snd vs <> None) /\
  (fst vs = None -> snd vs = None) /\
  (forall v, fst vs = Some v ->
     v = View (C15_spec.subject_of g styp subj) (cred_id c) (C15_spec.expect_tview g styp subj) (actor_expect g actor)
              res aud scopes req) /\
  (forall v, snd vs = Some v ->
     v = View (decided_subject (policy g) (C15_spec.subject_of g styp subj)) (cred_id c) (C15_spec.expect_tview g styp subj)
              (actor_expect g actor) res aud (decided_scopes (policy g) scopes) (effective_type (policy g) req)).
Proof. exact exchange_views. Qed.
Print Assumptions C15_storage_view_is_this_request.

(* success => the client is authenticated as registered, the subject token is a live token of
   the declared type, and so is the actor token if one is given *)
Theorem C15_needs_live_tokens_partial : forall cl r s c subj styp actor req scopes aud s' i x rt lv sc sto,
  wf_clients cl = true -> op_unconfused (Exchange r c subj styp actor req scopes aud) = true ->
  exchange cl r s c subj styp actor req scopes aud = (s', OExch i x rt lv sc sto) ->
  C15_spec.client_ok cl c = true /\ subj_live false (fst s) styp subj = true /\ actor_live (fst s) actor = true.
Proof. exact needs_live_tokens. Qed.
Print Assumptions C15_needs_live_tokens_partial.

(* success => issued_token_type is access, refresh or id and the response holds a non-empty
   token of that kind (refresh: access token plus refresh token); an access token is stored in
   the resulting state with exactly the client, subject, actor, scopes and audience the storage
   policy decided, the refresh token is stored too; the scopes answered are the decided ones and
   issued_token_type is the type the storage policy left in the request - for EVERY storage
   policy (defaulting or not, forcing a type, replacing the subject, emptying the scopes) *)
Theorem C15_declared_is_contained : forall cl r g nx c subj styp actor req scopes aud s' i x rt lv sc sto,
  wf_clients cl = true ->
  exchange cl r (g, nx) c subj styp actor req scopes aud = (s', OExch i x rt lv sc sto) ->
  let want := C15_spec.decided cl g c subj styp actor scopes aud in
  sc = decided_scopes (policy g) scopes /\
  i = effective_type (policy g) req /\
  C15_spec.contained (policy g) want i x rt lv sto = true /\
  (forall t, sto = Some t -> t = want /\ exists n, (x = XOpaque (AT n) (tr_sub want) \/ x = XJwt (AT n) (tr_sub want) (decided_act (policy g) true (tr_actor want)) (TLife (tr_expired want) true)) /\
                                   find_tok n (toks (fst s')) = Some t) /\
  (forall m, rt = RT m -> find_rt m (rtoks (fst s')) <> None).
Proof. exact declared_is_contained. Qed.
Print Assumptions C15_declared_is_contained.

(* a type the provider cannot issue (requested unknown; jwt, a custom type or no type at all after
   the storage policy had its say), storage veto, a subject or actor token that is not a live
   token of the declared type => an OAuth error (status 400/401/403/500 with an error member),
   never a success *)
Theorem C15_unissuable_is_error_partial : forall cl r s c subj styp actor req scopes aud,
  op_unconfused (Exchange r c subj styp actor req scopes aud) = true ->
  C15_spec.issuable (policy (fst s)) req && negb (vetoed (policy (fst s)) scopes) && subj_live false (fst s) styp subj && actor_live (fst s) actor = false ->
  exists st, snd (exchange cl r s c subj styp actor req scopes aud) = OErr st true /\ C15_spec.is_error st = true.
Proof. exact unissuable_is_error. Qed.
Print Assumptions C15_unissuable_is_error_partial.

(* whatever is sent, the answer is a success or an OAuth error - never a panic or another shape *)
Theorem C15_answer_shape : forall cl r s c subj styp actor req scopes aud,
  let x := snd (exchange cl r s c subj styp actor req scopes aud) in
  (exists i a rt lv sc sto, x = OExch i a rt lv sc sto) \/ (exists st, x = OErr st true /\ C15_spec.is_error st = true).
Proof. exact exchange_shape. Qed.
Print Assumptions C15_answer_shape.

(* a valid exchange is served: Basic credentials the storage accepts, live tokens of the
   declared types, issuable or absent requested type, no veto => success on both routers *)
Theorem C15_valid_exchange_succeeds : forall cl r g nx c subj styp actor req scopes aud,
  C15_spec.promised cl g c subj styp actor req scopes = true ->
  exists s' i x rt lv sc sto, exchange cl r (g, nx) c subj styp actor req scopes aud = (s', OExch i x rt lv sc sto).
Proof. exact promised_succeeds. Qed.
Print Assumptions C15_valid_exchange_succeeds.

(* Third-party tokens (round 6): a token the provider cannot verify itself is accepted only through
   a storage that implements TokenExchangeTokensVerifierStorage, and only IN THE ROLE its issuer
   vouches for - as subject token (VerifyExchangeSubjectToken) ... *)
Theorem C15_third_party_subject_role : forall cl r s c cls sub styp actor req scopes aud s' i x rt lv sc sto,
  exchange cl r s c (Ext cls sub) styp actor req scopes aud = (s', OExch i x rt lv sc sto) ->
  p_verifier (policy (fst s)) = true /\ ext_accepts cls false = true /\ (styp = TId \/ styp = TJwt).
Proof. exact ext_subject_role. Qed.
Print Assumptions C15_third_party_subject_role.

(* ... as actor token (VerifyExchangeActorToken) *)
Theorem C15_third_party_actor_role : forall cl r s c subj styp cls sub atyp req scopes aud s' i x rt lv sc sto,
  exchange cl r s c subj styp (Some (Ext cls sub, atyp)) req scopes aud = (s', OExch i x rt lv sc sto) ->
  p_verifier (policy (fst s)) = true /\ ext_accepts cls true = true.
Proof. exact ext_actor_role. Qed.
Print Assumptions C15_third_party_actor_role.

(* the two roles are independent verdicts (a token good as actor only / as subject only exists) *)
Theorem C15_roles_independent : ext_accepts EActor true = true /\ ext_accepts EActor false = false /\
  ext_accepts ESubj false = true /\ ext_accepts ESubj true = false.
Proof. exact ext_roles_independent. Qed.
Print Assumptions C15_roles_independent.

(* every JWT a success response contains - JWT access token or ID token - is expired exactly when
   its client is registered with a negative lifetime, and its exp - iat is the registered lifetime *)
Theorem C15_issued_jwt_lifetime : forall cl r g nx c subj styp actor req scopes aud s' i x rt lv sc sto l,
  wf_clients cl = true ->
  exchange cl r (g, nx) c subj styp actor req scopes aud = (s', OExch i x rt lv sc sto) ->
  (exists a b d, x = XIdTok a b d l) \/ (exists n a b, x = XJwt n a b l) ->
  l = TLife (C08_spec.expired_of cl (C08_spec.cred_id c)) true.
Proof. exact issued_jwt_lifetime. Qed.
Print Assumptions C15_issued_jwt_lifetime.

(* Round 7: every claim-carrying token of a success response (JWT access token, ID token) carries
   as act claim exactly what the STORAGE POLICY decided for the actor token's subject - the
   actor's subject, a mapped id, an actor chain, or no act claim at all (decided_act) - for every
   policy; in particular not the raw actor subject where the policy decided otherwise. *)
Theorem C15_issued_act_is_policy : forall cl r g nx c subj styp actor req scopes aud s' i x rt lv sc sto,
  exchange cl r (g, nx) c subj styp actor req scopes aud = (s', OExch i x rt lv sc sto) ->
  let asub := match actor with Some (ta, aty) => C15_spec.subject_of g aty ta | None => "" end in
  (forall n a b l, x = XJwt n a b l -> b = decided_act (policy g) true asub) /\
  (forall a z b l, x = XIdTok a z b l -> b = decided_act (policy g) false asub).
Proof. exact issued_act_is_policy. Qed.
Print Assumptions C15_issued_act_is_policy.

Theorem C15_act_policies_differ : forall p, p_act p = ActNone -> decided_act p true "bob" = "" /\
  (forall q, p_act q = ActMapped -> decided_act q true "bob" = "mapped:bob") /\
  (forall q, p_act q = ActChain -> decided_act q false "bob" = "bob>gateway") /\
  (forall q, p_act q = ActDefault -> decided_act q true "bob" = "bob" /\ decided_act q false "bob" = "").
Proof. exact act_policies_differ. Qed.
Print Assumptions C15_act_policies_differ.

(* Round 8: a storage veto is answered with an OAuth error and never a success - at WHICHEVER hook
   the storage refuses: in ValidateTokenExchangeRequest (scope "veto") or in the second hook
   CreateTokenExchangeRequest (requests whose decided scopes contain "late", refused with a plain
   error or with an OAuth error, as the storage policy p_late says); every policy, both routers,
   whatever else the request carries. *)
Theorem C15_storage_veto_is_error : forall cl r s c subj styp actor req scopes aud,
  vetoed (policy (fst s)) scopes = true ->
  exists st, snd (exchange cl r s c subj styp actor req scopes aud) = OErr st true /\ C15_spec.is_error st = true.
Proof. exact veto_is_error. Qed.
Print Assumptions C15_storage_veto_is_error.

Theorem C15_late_veto_nonvacuous :
  forall pol, p_late pol <> LateNone -> p_empty pol = false -> vetoed pol ["openid"; "late"] = true.
Proof. exact late_veto_nonvacuous. Qed.
Print Assumptions C15_late_veto_nonvacuous.
