(* C02 property theorems. Nothing but statements closed by [exact].
   [verify k e p] is go-jose's jws.Verify of signature entry e over payload p
   under key k: an arbitrary function, so everything below holds whatever the
   cryptography does.  Vocabulary: C02_Jws (keys, tokens, find_matching_key,
   check_signature, key sets), C02_Verifiers (the five verifiers),
   C02_Ground (exact_keys / loose_keys / kid_consistent / trusted_key). *)
From OIDC Require Import Lib C02_Jws C01_Verifier C02_Verifiers C02_Ground C02_spec C02_proofs.

(* FindMatchingKey: the selected key is in the list, its use is "" or the
   requested one, its type fits the algorithm, its kid does not contradict the
   header's, and unless its non-empty kid equals the header's it is the ONLY key
   of the list that could match *)
Theorem C02_find_key_sound : forall kid use alg keys k,
  find_matching_key kid use alg keys = FOk k ->
  In k keys /\ use_ok use k = true /\ alg_fits (k_ty k) alg = true
  /\ kid_consistent kid k = true
  /\ (exact_kid kid k = false ->
      exact_keys kid use alg keys = [] /\ loose_keys kid use alg keys = [k]).
Proof. exact find_key_sound. Qed.
Print Assumptions C02_find_key_sound.

(* several keys could match and none matches the kid exactly: ErrKeyMultiple, never a guess *)
Theorem C02_find_key_ambiguous : forall kid use alg keys,
  exact_keys kid use alg keys = [] ->
  2 <= List.length (loose_keys kid use alg keys) ->
  find_matching_key kid use alg keys = FMultiple.
Proof. exact find_key_ambiguous. Qed.
Print Assumptions C02_find_key_ambiguous.

Theorem C02_find_key_none : forall kid use alg keys,
  exact_keys kid use alg keys = [] -> loose_keys kid use alg keys = [] ->
  find_matching_key kid use alg keys = FNone.
Proof. exact find_key_none. Qed.
Print Assumptions C02_find_key_none.

(* completeness of the selection: the unique possible key is found *)
Theorem C02_find_key_unique : forall kid use alg keys k,
  exact_keys kid use alg keys = [] -> loose_keys kid use alg keys = [k] ->
  find_matching_key kid use alg keys = FOk k.
Proof. exact find_key_unique. Qed.
Print Assumptions C02_find_key_unique.

(* CheckSignature succeeds only for a token with exactly one signature, whose
   algorithm is in the effective allow-list (default RS256/ES256/PS256), which
   verifies under a key k of the key set that may be used for it (published
   sets: use, type, kid as above; per-client storage: registered under exactly
   (client, kid)), and whose signed payload is byte-for-byte the parsed one *)
Theorem C02_check_signature_sound : forall verify allowed ks t parsed alg,
  check_signature verify allowed ks t parsed = Ok alg ->
  exists e k,
    tok_sigs t = [e] /\ tok_payload t = Some parsed /\ alg = se_alg e
    /\ string_in alg (effective_algs allowed) = true
    /\ In k (ks_keys ks) /\ trusted_key ks e k = true
    /\ verify k e parsed = true.
Proof. exact check_signature_sound. Qed.
Print Assumptions C02_check_signature_sound.

(* HS* (HMAC keyed with a public key), none and anything outside RS/PS/ES/EdDSA
   are rejected by the provider's and the remote key set even when the
   allow-list names them: no key type fits *)
Theorem C02_hmac_rejected : forall verify allowed ks t parsed alg,
  published ks = true ->
  check_signature verify allowed ks t parsed = Ok alg ->
  asym_family alg = true /\ prefix "HS" alg = false /\ alg <> "none".
Proof. exact hmac_rejected. Qed.
Print Assumptions C02_hmac_rejected.

(* assertions and request objects (allow-list nil): RS256, ES256 or PS256 only *)
Theorem C02_default_algs_only : forall verify ks t parsed alg,
  check_signature verify [] ks t parsed = Ok alg ->
  alg = "RS256" \/ alg = "ES256" \/ alg = "PS256".
Proof. exact default_algs_only. Qed.
Print Assumptions C02_default_algs_only.

(* each of the five verifiers returns claims (also VerifyIDTokenHint's
   "expired, but here are the claims") only after CheckSignature succeeded, with
   that verifier's allow-list and key set, on the bytes the claims were decoded from *)
Theorem C02_each_verifier : forall verify k v ks t m now c' alg,
  outcome_claims (run_verifier verify k v ks t m now) = Some (c', alg) ->
  exists bytes c sa,
    m = MidOk bytes c /\ c' = returned_claims k c
    /\ check_signature verify (verifier_algs k v) (verifier_keyset k ks c) t bytes = Ok sa
    /\ (alg = sa \/ alg = "").
Proof. exact each_verifier. Qed.
Print Assumptions C02_each_verifier.

(* the claims handed back are the decoding of exactly the bytes one trusted,
   allowed signature covers *)
Theorem C02_payload_binding : forall verify k v ks t m now c' alg,
  outcome_claims (run_verifier verify k v ks t m now) = Some (c', alg) ->
  exists bytes c e key,
    m = MidOk bytes c /\ c' = returned_claims k c
    /\ tok_sigs t = [e] /\ tok_payload t = Some bytes
    /\ string_in (se_alg e) (effective_algs (verifier_algs k v)) = true
    /\ In key (ks_keys (verifier_keyset k ks c))
    /\ trusted_key (verifier_keyset k ks c) e key = true
    /\ verify key e bytes = true.
Proof. exact payload_binding. Qed.
Print Assumptions C02_payload_binding.

(* JSON-serialisation smuggling: a middle segment that decodes to other bytes
   than the signed payload never yields claims, from any verifier *)
Theorem C02_smuggling_rejected : forall verify k v ks t m now p bytes c,
  tok_payload t = Some p -> m = MidOk bytes c -> bytes <> p ->
  outcome_claims (run_verifier verify k v ks t m now) = None.
Proof. exact smuggling_rejected. Qed.
Print Assumptions C02_smuggling_rejected.

(* Remote key set as a state machine (cache replaced by every successful
   download): CheckSignature believes a signature only under a key of the list the
   key set holds after the call - the cache when no download was needed, else the
   list just served - so a key withdrawn by a newer download is no longer trusted *)
Theorem C02_remote_check_sound : forall verify allowed skip cached served t parsed alg,
  check_signature verify allowed (KSRemote cached served skip) t parsed = Ok alg ->
  exists e k,
    tok_sigs t = [e] /\ tok_payload t = Some parsed /\ alg = se_alg e
    /\ string_in alg (effective_algs allowed) = true
    /\ In k (fst (remote_after verify allowed skip cached served t))
    /\ trusted_key (KSOpenID None) e k = true
    /\ verify k e parsed = true.
Proof. exact remote_check_sound. Qed.
Print Assumptions C02_remote_check_sound.

(* ... and along every sequence of calls on one instance, with the endpoint
   changing what it serves between calls (rotation, withdrawal, fetch failures),
   from any initial cache: each acceptance is justified by the list held then *)
Theorem C02_remote_rotation_sound : forall verify allowed skip steps cached,
  run_justified verify allowed cached steps (remote_run verify allowed skip cached steps).
Proof. exact remote_rotation_sound. Qed.
Print Assumptions C02_remote_rotation_sound.

(* provider options: the verifier a provider hands out for id_token_hints (resp.
   access tokens) believes a token only under a key of the key set configured for
   THAT verifier - WithIDTokenHintKeySet (resp. WithAccessTokenKeySet), else the
   storage keys - and only with an algorithm of ITS allow-list *)
Theorem C02_provider_own_keyset : forall verify p hint t m now c' alg,
  outcome_claims (run_provider_verifier verify p hint t m now) = Some (c', alg) ->
  exists bytes e key,
    m = MidOk bytes c'
    /\ tok_sigs t = [e] /\ tok_payload t = Some bytes
    /\ string_in (se_alg e) (effective_algs (if hint then p_hint_algs p else p_at_algs p)) = true
    /\ In key (ks_keys (match (if hint then p_hint_keyset p else p_at_keyset p) with
                        | Some k => k | None => KSOpenID (p_storage_keys p) end))
    /\ verify key e bytes = true.
Proof. exact provider_own_keyset. Qed.
Print Assumptions C02_provider_own_keyset.

(* "kid-less ambiguity is reported, not guessed", at the level of the key sets:
   the provider's key set answers only through the key that FindMatchingKey
   designates among ALL published keys (a key whose non-empty kid equals the
   header's, else the only possible key) ... *)
Theorem C02_openid_designated : forall verify keys e p k,
  openid_verify verify (Some keys) e p = Some k ->
  In k keys /\ designated (se_kid e) (se_alg e) keys k = true /\ verify k e p = true.
Proof. exact openid_designated. Qed.
Print Assumptions C02_openid_designated.

(* ... and with two or more possible keys and no exact match neither the
   provider's key set nor the remote key set (from a download or from its cache)
   accepts anything, whatever verifies *)
Theorem C02_keyset_ambiguity_rejected : forall verify e p keys,
  exact_keys (se_kid e) "sig" (se_alg e) keys = [] ->
  2 <= List.length (loose_keys (se_kid e) "sig" (se_alg e) keys) ->
  openid_verify verify (Some keys) e p = None
  /\ (forall skip, remote_verify verify [] (Some keys) skip e p = None)
  /\ (forall skip, remote_verify verify keys None skip e p = None).
Proof. exact keyset_ambiguity_rejected. Qed.
Print Assumptions C02_keyset_ambiguity_rejected.

(* ONE instance, several tokens.  A remote key set whose endpoint keeps serving
   the list l answers every call of any sequence as a fresh key set would (cache
   still empty or already l): earlier verifications are no input of a later answer. *)
Theorem C02_remote_steady_stateless : forall verify allowed skip l steps cached,
  cached = [] \/ cached = l ->
  Forall (fun s => rs_served s = Some l) steps ->
  map fst (remote_run verify allowed skip cached steps)
  = map (fun s => check_signature verify allowed (KSRemote [] (Some l) skip) (rs_tok s) (rs_parsed s)) steps.
Proof. exact remote_steady_stateless. Qed.
Print Assumptions C02_remote_steady_stateless.

Theorem C02_verifier_steady : forall verify k v l skip t m now,
  run_verifier verify k v (KSRemote l (Some l) skip) t m now
  = run_verifier verify k v (KSRemote [] (Some l) skip) t m now.
Proof. exact verifier_steady. Qed.
Print Assumptions C02_verifier_steady.

(* Symbolic signature values ([SigBy mat alg prot payload] verifies only under key
   material mat, algorithm alg, protected header prot, payload bytes payload): any
   verifier hands back claims only if the presented signature value was made for
   exactly the presented header and the bytes the claims were decoded from ... *)
Theorem C02_signature_not_transferable : forall k v ks t m now c' alg,
  outcome_claims (run_verifier sym_verify k v ks t m now) = Some (c', alg) ->
  exists bytes c e key,
    m = MidOk bytes c /\ c' = returned_claims k c
    /\ tok_sigs t = [e] /\ In key (ks_keys (verifier_keyset k ks c))
    /\ se_sig e = SigBy (k_mat key) (se_alg e) (se_prot e) bytes.
Proof. exact verifier_signature_not_transferable. Qed.
Print Assumptions C02_signature_not_transferable.

(* ... and on one remote key set instance, at any position n of any history
   (whatever was verified, downloaded or cached before), a token whose signature
   value was made for another header or other payload bytes - e.g. the signature
   segment of a token verified earlier - is rejected *)
Theorem C02_replayed_signature_rejected : forall allowed skip steps cached n s e mat a pr pl res f,
  nth_error steps n = Some s ->
  tok_sigs (rs_tok s) = [e] -> se_sig e = SigBy mat a pr pl ->
  pr <> se_prot e \/ pl <> rs_parsed s ->
  nth_error (remote_run sym_verify allowed skip cached steps) n = Some (res, f) ->
  exists er, res = Err er.
Proof. exact replayed_signature_rejected. Qed.
Print Assumptions C02_replayed_signature_rejected.

(* Multi-tenant provider (per-request issuer, Storage.KeySet depending on the issuer
   in the context, default key set): a verification hands back claims only for a
   token naming the issuer of ITS call and signed by a key of the storage keys of
   THAT issuer.  The statement has no other call in it: verifications running
   before, after or at the same time are no input (the correspondence run holds one
   call inside Storage.KeySet while the others run). *)
Theorem C02_tenant_own_keys : forall verify (hint : bool) allowed c c' alg,
  outcome_claims (run_verifier verify (if hint then VIDTokenHint else VAccessToken)
                    (tenant_verifier allowed c) (KSOpenID (tc_keys c)) (tc_tok c) (tc_mid c) (tc_now0 c))
  = Some (c', alg) ->
  exists bytes e key keys,
    tc_mid c = MidOk bytes c' /\ c_iss c' = tc_issuer c
    /\ tc_keys c = Some keys /\ In key keys
    /\ tok_sigs (tc_tok c) = [e] /\ verify key e bytes = true.
Proof. exact tenant_own_keys. Qed.
Print Assumptions C02_tenant_own_keys.

(* WHOSE request object.  ParseRequestObject on a storage in which no client has
   the empty client id hands back claims only if the object names the client of
   the AUTHORIZATION REQUEST it is attached to as its issuer and its one signature
   verifies under the key the storage holds for (that client, kid of the header).
   An object that names another registered client as issuer - with a client_id
   claim or without one - and is signed with that other client's key is not
   believed. *)
Theorem C02_request_object_client_bound : forall verify a issuer x store t m c' alg,
  forallb (fun y => negb (fst (fst y) =s "")) store = true ->
  parse_request_object verify a issuer (KSProfile x store) t m = Accept c' alg ->
  exists bytes c e key,
    m = MidOk bytes c /\ c' = ro_project a c /\ c_iss c = a_client a
    /\ tok_sigs t = [e] /\ tok_payload t = Some bytes
    /\ In (a_client a, se_kid e, key) store
    /\ verify key e bytes = true.
Proof. exact request_object_client_bound. Qed.
Print Assumptions C02_request_object_client_bound.

(* The per-client storage key set (op.jwtProfileKeySet): CheckSignature succeeds
   if (complete) and only if (sound) the token carries one signature with an
   allowed algorithm over the parsed bytes that verifies under the key the storage
   returns for (client, kid of the header - possibly none).  The key id written
   inside that JWK occurs in neither statement ... *)
Theorem C02_profile_keyset_complete : forall verify allowed client store t e p k,
  tok_sigs t = [e] -> tok_payload t = Some p ->
  string_in (se_alg e) (effective_algs allowed) = true ->
  profile_lookup store client (se_kid e) = Some k -> verify k e p = true ->
  check_signature verify allowed (KSProfile client store) t p = Ok (se_alg e).
Proof. exact profile_keyset_complete. Qed.
Print Assumptions C02_profile_keyset_complete.

Theorem C02_profile_keyset_sound : forall verify allowed client store t p alg,
  check_signature verify allowed (KSProfile client store) t p = Ok alg ->
  exists e k, tok_sigs t = [e] /\ tok_payload t = Some p /\ alg = se_alg e
    /\ profile_lookup store client (se_kid e) = Some k /\ verify k e p = true.
Proof. exact profile_keyset_sound. Qed.
Print Assumptions C02_profile_keyset_sound.

(* ... and it is no input: rewriting the key ids inside the stored JWKs by any
   function (the registration left as it is) changes no answer, for every
   signature check that looks at key type and material only *)
Theorem C02_profile_key_id_no_input : forall verify f allowed client store t p,
  (forall k id e q, verify (mkJwk id (k_use k) (k_ty k) (k_mat k)) e q = verify k e q) ->
  match check_signature verify allowed (KSProfile client (rekid f store)) t p,
        check_signature verify allowed (KSProfile client store) t p with
  | Ok a, Ok b => a = b
  | Err a, Err b => a = b
  | _, _ => False
  end.
Proof. exact profile_key_id_no_input. Qed.
Print Assumptions C02_profile_key_id_no_input.

(* ONE provider (op.NewProvider with any key-set / verifier options, one storage
   with signing keys and registered client keys), ANY sequence of calls to the
   verifiers it hands out (Provider.AccessTokenVerifier / IDTokenHintVerifier /
   JWTProfileVerifier): claims handed back at position n are justified by one
   signature that verifies under a key of the key set, with an algorithm of the
   allow-list, configured for the verifier kind of step n - for an assertion the
   key registered for (the issuer it names, kid of its header).  No other step
   occurs in the justification: which verifier was handed out first and which
   client's key was looked up before are no inputs. *)
Theorem C02_provider_seq_justified : forall verify p store steps n s o c' alg,
  nth_error steps n = Some s ->
  nth_error (map (run_provider_step verify p store) steps) n = Some o ->
  outcome_claims o = Some (c', alg) ->
  exists bytes e key,
    ps_mid s = MidOk bytes c' /\ tok_sigs (ps_tok s) = [e] /\ tok_payload (ps_tok s) = Some bytes
    /\ verify key e bytes = true
    /\ match ps_kind s with
       | PAssertion => In (c_iss c', se_kid e, key) store /\ c_sub c' = c_iss c'
       | PAccess =>
           string_in (se_alg e) (effective_algs (p_at_algs p)) = true
           /\ In key (ks_keys (match p_at_keyset p with Some k => k | None => KSOpenID (p_storage_keys p) end))
       | PHint =>
           string_in (se_alg e) (effective_algs (p_hint_algs p)) = true
           /\ In key (ks_keys (match p_hint_keyset p with Some k => k | None => KSOpenID (p_storage_keys p) end))
       end.
Proof. exact provider_seq_justified. Qed.
Print Assumptions C02_provider_seq_justified.

(* the property predicate evaluated by the correspondence run holds of the model on
   every input whose storage has no client with the empty client id (wf; only
   request-object inputs are constrained) *)
Theorem C02_spec_model : forall i, wf i = true -> spec i (model i) = true.
Proof. exact spec_model. Qed.
Print Assumptions C02_spec_model.
