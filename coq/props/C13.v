From OIDC Require Import Lib C13_RemoteKeys C13_spec.
Theorem C13_placeholder : parse TransportErr = None.
Proof. exact eq_refl. Qed.
Print Assumptions C13_placeholder.
