(* C13 property theorems: rp.remoteKeySet under every schedule.  Statements only;
   proofs are in theories/C13_*proofs.v.  [verify] (jws.Verify) is arbitrary.
   exec verify (init skip) evs = the state after ANY list of events
   (Arrive / Run / RunCtx / Cancel / FetchReturns / Commit), enabled or not. *)
From OIDC Require Import Lib C13_RemoteKeys C13_proofs C13_thm_proofs C13_isolation_proofs C13_spec C13_model_proofs C13_outage_proofs C13_examples.

(* A call finishes Ok only with a key k that FindMatchingKey selects from a key set
   the endpoint really served - the cache the call read or the body of the download it
   waited for - and that verifies the token. *)
Theorem C13_accept_sound : forall verify skip evs t c k,
  let w := exec verify (init skip) evs in
  nth_error (w_callers w) t = Some c -> c_pc c = PDone (ROk k) ->
  verify k (c_tok c) = true /\
  exists ks, find_matching_key (t_kid (c_tok c)) (t_alg (c_tok c)) ks = inl k /\ In k ks /\
    served (w_gens w) ks /\
    ((c_gen c = None /\ c_read c = Some ks) \/
     (exists g, c_gen c = Some g /\ res_of (w_gens w) g = Some (Some ks))).
Proof. exact accept_sound. Qed.
Print Assumptions C13_accept_sound.

(* #fetches = #generations; a generation that has not been committed is THE in-flight one,
   so at most one download is ever outstanding; a call entering the locked section while a
   download is in flight joins it and starts none. *)
Theorem C13_single_flight : forall verify skip evs,
  let w := exec verify (init skip) evs in
  w_fetches w = List.length (w_gens w) /\
  (forall g gn, nth_error (w_gens w) g = Some gn -> g_committed gn = false -> w_inflight w = Some g) /\
  (forall g1 g2 gn1 gn2, nth_error (w_gens w) g1 = Some gn1 -> nth_error (w_gens w) g2 = Some gn2 ->
     g_ans gn1 = None -> g_ans gn2 = None -> g1 = g2) /\
  (forall t c g, nth_error (w_callers w) t = Some c -> c_pc c = PLocked -> w_inflight w = Some g ->
     w_gens (step verify w (Run t)) = w_gens w /\ w_fetches (step verify w (Run t)) = w_fetches w /\
     pc_of (step verify w (Run t)) t = Some (PWaiting g)).
Proof. exact single_flight. Qed.
Print Assumptions C13_single_flight.

(* A call joins at most one download; downloads <= calls; a finished call never moves again;
   a call whose kid is not (uniquely) matched in the set it waited for is not accepted. *)
Theorem C13_one_refresh : forall verify skip evs,
  let w := exec verify (init skip) evs in
  (forall t c, nth_error (w_callers w) t = Some c -> c_joins c <= 1) /\
  w_fetches w <= List.length (w_callers w) /\
  (forall t r evs', pc_of w t = Some (PDone r) -> pc_of (exec verify w evs') t = Some (PDone r)) /\
  (forall t c r g ks e, nth_error (w_callers w) t = Some c -> c_pc c = PDone r -> c_gen c = Some g ->
     res_of (w_gens w) g = Some (Some ks) ->
     find_matching_key (t_kid (c_tok c)) (t_alg (c_tok c)) ks = inr e -> forall k, r <> ROk k).
Proof. exact one_refresh. Qed.
Print Assumptions C13_one_refresh.

(* A call the cache cannot answer goes to the remote set (joining or starting exactly one
   download); when the download it waits for served a matching verifying key it is accepted;
   and under every schedule a call that finished after such a download was accepted unless
   its own context was cancelled. *)
Theorem C13_rotation : forall verify skip evs,
  let w := exec verify (init skip) evs in
  (forall t c, nth_error (w_callers w) t = Some c -> c_pc c = PCached ->
     cached_try verify skip (w_cache w) (c_tok c) = None ->
     let w2 := exec verify w [Run t; Run t] in
     exists g, pc_of w2 t = Some (PWaiting g) /\ w_inflight w2 = Some g /\
               (w_inflight w = None -> w_fetches w2 = S (w_fetches w) /\ g = List.length (w_gens w))) /\
  (forall t c g ks k, nth_error (w_callers w) t = Some c -> c_pc c = PWaiting g ->
     res_of (w_gens w) g = Some (Some ks) ->
     find_matching_key (t_kid (c_tok c)) (t_alg (c_tok c)) ks = inl k -> verify k (c_tok c) = true ->
     pc_of (step verify w (Run t)) t = Some (PDone (ROk k))) /\
  (forall t c r g ks k, nth_error (w_callers w) t = Some c -> c_pc c = PDone r -> c_gen c = Some g ->
     res_of (w_gens w) g = Some (Some ks) ->
     find_matching_key (t_kid (c_tok c)) (t_alg (c_tok c)) ks = inl k -> verify k (c_tok c) = true ->
     r = ROk k \/ (r = RCtx /\ c_cancelled c = true)).
Proof. exact rotation. Qed.
Print Assumptions C13_rotation.

(* The cache changes only when a download that parsed is committed. A download that failed
   (transport error, non-200, not a JSON object with a keys array) leaves the cache as it was,
   fails everybody who waits for it and lets nobody through. *)
Theorem C13_failure_keeps_cache : forall verify skip evs,
  let w := exec verify (init skip) evs in
  (forall e, w_cache (step verify w e) = w_cache w \/
     exists g gn r ks, e = Commit g /\ nth_error (w_gens w) g = Some gn /\ g_ans gn = Some r /\
                       g_committed gn = false /\ parse r = Some ks /\ w_cache (step verify w e) = ks) /\
  (forall g gn r, nth_error (w_gens w) g = Some gn -> g_ans gn = Some r -> parse r = None ->
     w_cache (step verify w (Commit g)) = w_cache w /\
     (forall t c res, nth_error (w_callers w) t = Some c -> c_gen c = Some g -> c_pc c = PDone res ->
        res = RFetch \/ (res = RCtx /\ c_cancelled c = true)) /\
     (forall t c, nth_error (w_callers w) t = Some c -> c_pc c = PWaiting g ->
        pc_of (step verify w (Run t)) t = Some (PDone RFetch))).
Proof. exact failure_keeps_cache. Qed.
Print Assumptions C13_failure_keeps_cache.

(* What counts as failed: transport error, any status but 200, and BadDoc = a body that is not
   exactly one well-formed JSON document that is an object with a "keys" array (not JSON,
   truncated, a complete document followed by more bytes, top-level array/string/number/null,
   "keys" missing / null / not an array: a lone JWK, an error object, {}).  Size, extra
   members and duplicate kids do not make a document malformed.  A well-formed document
   whose keys are all skipped, or with "keys":[], is a VALID empty key set (it does replace
   the cache; this is not a lost cache). *)
Theorem C13_failed_or_malformed :
  parse TransportErr = None /\ (forall b, parse (Http false b) = None) /\
  (forall ok why, parse (Http ok (BadDoc why)) = None) /\
  (forall es, parse (Http true (Doc es)) = Some (keep es)) /\
  parse (Http true (Doc [])) = Some [] /\ (forall n, parse (Http true (Doc (repeat None n))) = Some []) /\
  (forall r ks, parse r = Some ks <-> exists es, r = Http true (Doc es) /\ ks = keep es).
Proof. exact parse_kinds. Qed.
Print Assumptions C13_failed_or_malformed.

(* A JWKS outage.  From any reachable state in which no well-answered download is still
   waiting to be stored: however long the schedule goes on and however many downloads end -
   as long as each of them FAILED (transport error, non-200, any malformed 200 body: empty,
   blank, null, {}, [], truncated, trailing bytes, "keys" missing / null / not an array,
   unreadable) - the cache is exactly what it was, and a token the cache answered then
   (e.g. one the uniquely matching cached key verifies) gets the same answer at its first
   step, with no new request, leaving the cache as it was. *)
Theorem C13_outage_keeps_cached_keys : forall verify skip evs evs',
  let w := exec verify (init skip) evs in
  no_good_pending w -> all_fail evs' ->
  let w2 := exec verify w evs' in
  w_cache w2 = w_cache w /\
  (forall tok res, cached_try verify (w_skip w) (w_cache w) tok = Some res ->
     let t := List.length (w_callers w2) in
     let w3 := exec verify w2 [Arrive tok; Run t] in
     pc_of w3 t = Some (PDone res) /\ w_fetches w3 = w_fetches w2 /\ w_cache w3 = w_cache w) /\
  (forall tok k, find_matching_key (t_kid tok) (t_alg tok) (w_cache w) = inl k -> verify k tok = true ->
     cached_try verify (w_skip w) (w_cache w) tok = Some (ROk k)).
Proof. exact outage_keeps_cached_keys. Qed.
Print Assumptions C13_outage_keeps_cached_keys.

(* Cancel isolation: delete every cancellation of caller t' from ANY schedule - the cache,
   the in-flight slot, all downloads, the request count and every other caller's complete
   state (pc, result, history) are exactly the same.  So a caller's result is a function of
   its own cancellation and the endpoint's answers only. *)
Theorem C13_cancel_isolation : forall verify skip evs t',
  let w1 := exec verify (init skip) evs in
  let w2 := exec verify (init skip) (drop_cancels t' evs) in
  w_cache w1 = w_cache w2 /\ w_inflight w1 = w_inflight w2 /\ w_gens w1 = w_gens w2 /\
  w_fetches w1 = w_fetches w2 /\ List.length (w_callers w1) = List.length (w_callers w2) /\
  forall t, t <> t' -> nth_error (w_callers w1) t = nth_error (w_callers w2) t.
Proof. exact cancel_isolation. Qed.
Print Assumptions C13_cancel_isolation.

(* Tie to the correspondence run: every snapshot the model runner predicts for a script is
   the snapshot of a world reached by some schedule, i.e. of a world all theorems above
   speak about (with the symbolic verify of DESIGN 4.4). *)
Theorem C13_model_is_a_schedule : forall skip ms k s,
  nth_error (run_script (init skip) ms) k = Some s ->
  exists evs d, s = snap_of (exec sym_verify (init skip) evs) d.
Proof. exact model_is_a_schedule. Qed.
Print Assumptions C13_model_is_a_schedule.
