(* C20 property theorems. Nothing but statements closed by [exact]. *)
From OIDC Require Import Lib C20_Effects C20_spec C20_proofs.

(* General lemma (any two operations of the table): operations whose write sets are
   disjoint from each other's read and write sets commute, location by location. *)
Theorem C20_commute : forall a b,
  disjointL (writes a) (reads b ++ writes b) -> disjointL (writes b) (reads a ++ writes a) ->
  forall h x, apply a (apply b h) x = apply b (apply a h) x.
Proof. exact commute. Qed.
Print Assumptions C20_commute.

(* ... and an operation that writes nothing [a] reads leaves [a]'s observable result unchanged. *)
Theorem C20_result_unchanged : forall a b h,
  disjointL (writes b) (reads a) -> result a (apply b h) = result a h.
Proof. exact result_unchanged. Qed.
Print Assumptions C20_result_unchanged.

(* Frame: an operation changes only its write set; no write set contains a package
   variable, a caller-supplied object or a storage-owned object; a constructor writes
   only fields of the instance it is building; an operation of the shared phase, on
   instances whose lazy fields are initialised, writes only mutex-protected state and
   leaves every other location as it was. *)
Theorem C20_frame : forall o,
  (forall h x, apply o h x <> h x -> In x (writes o)) /\
  (forall x, In x (writes o) -> is_shared_state x = false) /\
  (is_ctor o = true -> forall x, In x (writes o) -> exists f, x = LInst (target o) f) /\
  (is_ctor o = false -> forall h, inited o h = true ->
     (forall x, In x (dyn_writes o h) -> locked x = true) /\
     (forall x, locked x = false -> apply o h x = h x)).
Proof. exact frame_thm. Qed.
Print Assumptions C20_frame.

(* The lazy getters of relyingParty: both RP constructors leave the three lazily
   created fields set (given non-nil package default handlers), and no shared-phase
   operation on initialised instances un-sets anything. *)
Theorem C20_lazy_fields_established : forall i c k h o,
  (exists sl t opts, o = NewRPOIDC i sl t opts) \/ (exists cfg opts, o = NewRPOAuth i cfg opts) ->
  h (LG GErrH) <> 0 -> h (LG GUnauthH) <> 0 ->
  inited (RPCall i c k) (apply o h) = true.
Proof. exact inited_established. Qed.
Print Assumptions C20_lazy_fields_established.

Theorem C20_lazy_fields_preserved : forall o o' h,
  is_ctor o' = false -> inited o' h = true -> inited o (apply o' h) = inited o h.
Proof. exact inited_preserved. Qed.
Print Assumptions C20_lazy_fields_preserved.

(* Data-race freedom: take ANY family of shared-phase operations (ops[k] started on a
   heap hs[k] where its lazy fields are initialised) and ANY schedule of their
   accesses (any multiset, any interleaving): no two accesses of different
   operations conflict, i.e. touch the same location, one of them writing, outside
   that location's mutex. *)
Theorem C20_drf : forall (ops : list op) (hs : list heap) (sched : list (nat * access)),
  (forall k a, In (k, a) sched -> exists o h,
      nth_error ops k = Some o /\ nth_error hs k = Some h /\
      is_ctor o = false /\ inited o h = true /\ In a (accesses o h)) ->
  forall i j ki ai kj aj,
    nth_error sched i = Some (ki, ai) -> nth_error sched j = Some (kj, aj) -> ki <> kj ->
    ~ conflict ai aj.
Proof. exact drf_sched. Qed.
Print Assumptions C20_drf.

(* Isolation, schedule form: in ANY interleaving l of tagged operations, the result of
   a probe of group k after the whole interleaving equals its result after group k's
   operations alone, provided the other groups write nothing that group k's writes and
   results depend on ([deps]: sources of its writes and the locations its result reads).
   Groups may be requests on ONE handler value / instance, or instances with identical
   identifiers: creation and use order never matters. *)
Theorem C20_isolation : forall (l : list (nat * op)) (k : nat) (probe : op) (h : heap),
  (forall t a b, In (k, a) ((k, probe) :: l) -> In (t, b) l -> t <> k ->
     disjointL (writes b) (deps a)) ->
  result probe (run_ops (map snd l) h) = result probe (run_ops (of_tag k l) h).
Proof. exact isolation_sched. Qed.
Print Assumptions C20_isolation.

(* ... which holds as soon as the groups are about different instances / storages: they
   may share *http.Client objects, option slices, configs and all package defaults. *)
Theorem C20_separate_instances_isolated : forall a b,
  separate a b = true -> disjointL (writes b) (reads a ++ writes a) /\ disjointL (writes b) (deps a).
Proof. exact separate_isolated. Qed.
Print Assumptions C20_separate_instances_isolated.

(* a request served by a handler value answers with ITS OWN per-request data, whatever else ran *)
Theorem C20_handler_requests_isolated : forall i c k r h, result (HandlerReq i c k r) h = [S r].
Proof. exact handler_result. Qed.
Print Assumptions C20_handler_requests_isolated.

(* Requests on ONE provider / legacy server by ANY number of clients (any grant, any credential kind,
   own or foreign credentials), in any order and number: what a later request is answered does not
   depend on the requests served before it - a request writes nothing but mutex-protected storage
   contents, and no answer is computed from state an earlier request of another client left behind. *)
Theorem C20_provider_requests_history_independent : forall (l : list op) (probe : op) (h : heap),
  Forall (fun o => is_prov_request o = true) l -> is_prov_request probe = true ->
  result probe (run_ops l h) = result probe h.
Proof. exact requests_history_independent. Qed.
Print Assumptions C20_provider_requests_history_independent.

(* ... in particular a client's request is served as THAT client (own = it presents its own credential;
   another client's token is never active for it), or refused, whoever was served before *)
Theorem C20_client_request_served_as_itself : forall i stor cl k own (l : list op) (h : heap),
  Forall (fun o => is_prov_request o = true) l ->
  result (ClientReq i stor cl k own) (run_ops l h) = [match k with KIntrospectOther => 0 | _ => if own then S cl else 0 end].
Proof. exact client_request_result. Qed.
Print Assumptions C20_client_request_served_as_itself.

(* ... and the ANSWER to a request of any class - every validation error of every endpoint included - is its own:
   after any history of requests on any providers it is the answer the request gets alone *)
Theorem C20_answer_is_the_requests_own : forall i stor q r (l : list op) (h : heap),
  Forall (fun o => is_prov_request o = true) l -> result (ProvAns i stor q r) (run_ops l h) = [S r].
Proof. exact answer_result. Qed.
Print Assumptions C20_answer_is_the_requests_own.

(* Package-level helpers (hash selection + HashString, ClaimHash, AES helpers, code challenge) are pure: a call
   makes no access to any shared location - so it cannot race with anything (C20_drf) - and yields the same
   value after ANY history of operations of any instances. *)
Theorem C20_helpers_pure : forall f a,
  (forall h, accesses (HelperCall f a) h = []) /\
  forall (l : list op) h, result (HelperCall f a) (run_ops l h) = [1].
Proof. exact helper_pure. Qed.
Print Assumptions C20_helpers_pure.

(* The property predicate evaluated by the correspondence run holds of the model on
   every input: every snapshot case (all heaps, all operations) and every interleaving
   of groups none of which writes what another depends on ([wf], computed from the table). *)
Theorem C20_spec_sound : forall i, wf i = true -> spec i (model i) = true.
Proof. exact spec_sound. Qed.
Print Assumptions C20_spec_sound.
