(* C17 property theorems. Nothing but statements closed by [exact]. *)
From OIDC Require Import Lib C17_RP C17_Construct C17_Cookie C17_Tail C17_spec C17_proofs C17_ext_proofs.

(* The model's answer satisfies the property predicate on every input: every
   way of building the RP (constructor, option list, discovery document), S256
   table, initial jar and history of operations. *)
(* (round 11: also every option list of the CookieHandler, every history in the
   attribute-aware browser, every verifier option list, every token / userinfo answer;
   wf excludes only rp.UserinfoCallback on an RP built by NewRelyingPartyOAuth - see
   C17_userinfo_oauth_only_panics) *)
Theorem C17_spec_sound : forall i, wf i = true -> spec i (model i) = true.
Proof. exact spec_model_true. Qed.
Print Assumptions C17_spec_sound.

(* All jars, all queries.  Either the jar's "state" cookie was minted under the
   RP's key for the name "state" with exactly the query's state (then the
   application callback, if it runs, gets that state and a token request was
   sent), or - cookie missing, other key, other name, other value, junk - the
   unauthorized handler runs, nothing is sent and no cookie is touched. *)
Theorem C17_state_bound : forall cfg j q ok,
  (exists s h reqs cs,
      jar_get "state" j = Some (Mac (c_key cfg) "state" s) /\ s = form q "state"
      /\ callback cfg j q ok = EvCb h reqs cs /\ h <> HOther
      /\ (forall st, h = HApp st -> st = s /\ reqs <> []))
  \/ (jar_get "state" j <> Some (Mac (c_key cfg) "state" (form q "state"))
      /\ callback cfg j q ok = EvCb (HUnauth "") [] []).
Proof. exact state_bound. Qed.
Print Assumptions C17_state_bound.

(* All jars, all queries.  Every token request carries the query's code, the
   configured redirect URI and client, and was sent only with the state cookie
   above; with PKCE its code_verifier is the value of a "pkce" cookie minted
   under the RP's key for the name "pkce". *)
Theorem C17_token_request_bound : forall cfg j q ok h reqs cs r,
  callback cfg j q ok = EvCb h reqs cs -> In r reqs ->
  jar_get "state" j = Some (Mac (c_key cfg) "state" (form q "state"))
  /\ t_code r = form q "code" /\ t_redirect r = c_redirect cfg /\ t_client r = c_client cfg
  /\ (c_pkce cfg = true ->
      exists v, t_verifier r = Some v /\ jar_get "pkce" j = Some (Mac (c_key cfg) "pkce" v)).
Proof. exact token_request_bound. Qed.
Print Assumptions C17_token_request_bound.

(* Every history (any interleaving of logins, callbacks with or without the
   browser processing the response's cookies, foreign cookie writes that the RP
   would not accept, deletions) from a jar without an acceptable state cookie:
   when a callback sends a token request, its verifier v is the one whose
   S256 hash H v was put into the most recent authorization redirect, and that
   redirect is the one that set the state cookie being redeemed (trace lists,
   per operation, the jar before it and the redirects issued before it, most
   recent first). *)
Theorem C17_pkce_bound : forall H cfg j0 ops j lg q ok ap h reqs cs r,
  c_pkce cfg = true -> honest cfg j0 ops = true ->
  In (j, lg, OCallback q ok ap, EvCb h reqs cs) (trace H cfg j0 [] ops) -> In r reqs ->
  exists s v rest,
    s = form q "state" /\ t_verifier r = Some v
    /\ jar_get "state" j = Some (Mac (c_key cfg) "state" s)
    /\ jar_get "pkce" j = Some (Mac (c_key cfg) "pkce" v)
    /\ lg = (login_cookies cfg s v, auth_params cfg s (Some (H v))) :: rest
    /\ start_login H cfg s v = EvAuth (login_cookies cfg s v) (c_auth cfg) (auth_params cfg s (Some (H v)))
    /\ plookup "code_challenge" (auth_params cfg s (Some (H v))) = Some (H v)
    /\ plookup "code_challenge_method" (auth_params cfg s (Some (H v))) = Some "S256".
Proof. exact pkce_bound. Qed.
Print Assumptions C17_pkce_bound.

(* the events of a trace are the handlers' responses to the jar listed with them,
   and the listed redirects are redirects the RP issued *)
Theorem C17_trace_respond : forall H cfg ops j lg j' lg' o ev,
  In (j', lg', o, ev) (trace H cfg j lg ops) -> ev = respond H cfg j' o.
Proof. exact trace_respond. Qed.
Print Assumptions C17_trace_respond.

Theorem C17_trace_logins : forall H cfg ops j lg,
  Forall (is_redirect H cfg) lg ->
  Forall (fun t => Forall (is_redirect H cfg) (t_logins t)) (trace H cfg j lg ops).
Proof. exact trace_logins. Qed.
Print Assumptions C17_trace_logins.

(* The authorization redirect: state cookie for s, configured endpoint; client,
   redirect URI, scopes and state s in the URL unless a URLParamOpt overrides
   one of those keys; with PKCE the pkce cookie holds v and the URL carries
   H v with method S256 (whatever the URLParamOpts are). *)
Theorem C17_auth_url : forall H cfg s v,
  exists cs ps, start_login H cfg s v = EvAuth cs (c_auth cfg) ps
  /\ In (state_cookie cfg s) cs
  /\ (extra_ok cfg = true ->
        plookup "response_type" ps = Some "code"
        /\ plookup "client_id" ps = Some (c_client cfg)
        /\ (c_redirect cfg <> "" -> plookup "redirect_uri" ps = Some (c_redirect cfg))
        /\ (c_scopes cfg <> [] -> plookup "scope" ps = Some (String.concat " " (c_scopes cfg)))
        /\ form ps "state" = s)
  /\ (c_pkce cfg = true ->
        In (pkce_cookie cfg v) cs
        /\ plookup "code_challenge" ps = Some (H v)
        /\ plookup "code_challenge_method" ps = Some "S256").
Proof. exact auth_url. Qed.
Print Assumptions C17_auth_url.

(* ---- the constructors: rp.NewRelyingPartyOAuth / rp.NewRelyingPartyOIDC ---- *)

(* Whatever the constructor, the option list and the OP's discovery document: the
   RP that is built is the RP the application configured ([intended]: PKCE iff a
   WithPKCE option was passed, the cookie handler of the last option that sets
   one, JWT profile iff WithJWTProfile, client / redirect URI / scopes as given,
   the given or discovered authorization endpoint). *)
Theorem C17_constructed_as_configured : forall s cfg, intended s = Some cfg -> construct s = cfg.
Proof. exact construct_intended. Qed.
Print Assumptions C17_constructed_as_configured.

Theorem C17_constructor_pkce : forall s, c_pkce (construct s) = pkce_enabled (s_opts s).
Proof. exact constructor_pkce. Qed.
Print Assumptions C17_constructor_pkce.

(* Two discovery documents with the same authorization endpoint - whatever they
   announce as code_challenge_methods_supported, scopes_supported,
   response_types_supported, grant_types_supported,
   token_endpoint_auth_methods_supported - give the same RP, and it is the RP that
   NewRelyingPartyOAuth builds for that endpoint. *)
Theorem C17_discovery_irrelevant : forall opts cl rd sc ex d d',
  d_auth d = d_auth d' ->
  construct (Setup (NewOIDC d) opts cl rd sc ex) = construct (Setup (NewOIDC d') opts cl rd sc ex)
  /\ construct (Setup (NewOIDC d) opts cl rd sc ex) = construct (Setup (NewOAuth (d_auth d)) opts cl rd sc ex).
Proof. exact discovery_irrelevant. Qed.
Print Assumptions C17_discovery_irrelevant.

(* WithPKCE passed (anywhere in the option list), any constructor, any document:
   every login sets the pkce cookie for v and its URL carries H v with S256;
   every token request of a callback carries the value of the jar's pkce cookie
   minted under the RP's key. *)
Theorem C17_pkce_any_constructor : forall H s,
  pkce_enabled (s_opts s) = true ->
  (forall st v, exists cs ps,
      start_login H (construct s) st v = EvAuth cs (endpoint (s_ctor s)) ps
      /\ In (pkce_cookie (construct s) v) cs
      /\ plookup "code_challenge" ps = Some (H v)
      /\ plookup "code_challenge_method" ps = Some "S256")
  /\ (forall j q ok h reqs cs r,
      callback (construct s) j q ok = EvCb h reqs cs -> In r reqs ->
      exists v, t_verifier r = Some v
                /\ jar_get "pkce" j = Some (Mac (c_key (construct s)) "pkce" v)).
Proof. exact pkce_any_constructor. Qed.
Print Assumptions C17_pkce_any_constructor.

(* [spec] is not vacuous on the constructor dimension: for an RP built WithPKCE by
   the discovery constructor against an OP announcing only "plain" it rejects a
   login answered with the plain code flow and a token request without
   code_verifier, and accepts the model's answer. *)
Theorem C17_spec_rejects_pkce_fallback :
  spec (Inp fallback_setup [("va", "ha")] [] [OStart "a" ""]) (Obs [fallback_login]) = false
  /\ spec (Inp fallback_setup [("va", "ha")] [("state", Mac 0 "state" "a"); ("pkce", Mac 0 "pkce" "va")]
               [OCallback [("code", "c"); ("state", "a")] true true]) (Obs [fallback_callback]) = false
  /\ spec (Inp fallback_setup [("va", "ha")] [] [OStart "a" "va"])
          (model (Inp fallback_setup [("va", "ha")] [] [OStart "a" "va"])) = true.
Proof. exact spec_rejects_fallback. Qed.
Print Assumptions C17_spec_rejects_pkce_fallback.

(* Limit of C17_pkce_bound (why [honest] is there): replaying a validly minted
   state cookie of an older login next to the newer login's pkce cookie makes
   the strong clause false; the property predicate (which then only demands
   "the verifier is the one stored in the pkce cookie") still holds. *)
Theorem C17_pkce_replay_limit :
  construct replay_setup = replay_cfg
  /\ honest replay_cfg [] replay_ops = false
  /\ spec_run (hfun replay_tab) replay_cfg true [] [] replay_ops (run (hfun replay_tab) replay_cfg [] replay_ops) = false
  /\ spec (Inp replay_setup replay_tab [] replay_ops) (model (Inp replay_setup replay_tab [] replay_ops)) = true.
Proof. exact replay_limit. Qed.
Print Assumptions C17_pkce_replay_limit.

Theorem C17_pkce_bound_nonvacuous :
  c_pkce replay_cfg = true /\ honest replay_cfg [] nv_ops = true
  /\ exists j lg h r cs,
       nth_error (trace (hfun replay_tab) replay_cfg [] [] nv_ops) 2
       = Some (j, lg, OCallback [("state", "b"); ("code", "c")] true true, EvCb h [r] cs)
       /\ t_verifier r = Some "vb".
Proof. exact pkce_bound_nonvacuous. Qed.
Print Assumptions C17_pkce_bound_nonvacuous.

(* ---- other API calls on the same RP value (rp.ClientCredentials, RefreshTokens,
   Userinfo, EndSession, RevokeToken, DeviceAuthorization, CodeExchange,
   GenerateAndStoreCodeChallenge, AuthURL with other options, JWT profile assertion) ---- *)

(* Every history, API calls anywhere in it: the answers to the logins and callbacks
   are those of the history without the API calls. *)
Theorem C17_api_calls_inert : forall H cfg j ops,
  run H cfg j (filter (fun o => negb (is_api o)) ops)
  = filter (fun e => negb (is_probe e)) (run H cfg j ops).
Proof. exact api_inert. Qed.
Print Assumptions C17_api_calls_inert.

(* After any API call, with any jar: rp.AuthURL(state, rp) goes to the configured
   endpoint with the configured client, redirect URI, scopes and that state. *)
Theorem C17_probe_url : forall H cfg j l,
  exists ps, respond H cfg j (OApi l) = EvProbe (c_auth cfg) ps
  /\ plookup "response_type" ps = Some "code"
  /\ plookup "client_id" ps = Some (c_client cfg)
  /\ (c_redirect cfg <> "" -> plookup "redirect_uri" ps = Some (c_redirect cfg))
  /\ (c_scopes cfg <> [] -> plookup "scope" ps = Some (String.concat " " (c_scopes cfg)))
  /\ form ps "state" = probe_state.
Proof. exact probe_url. Qed.
Print Assumptions C17_probe_url.

(* ---- the login request itself as input ---- *)

(* Whatever query parameters the request that hits AuthURLHandler carries
   (code_challenge, code_challenge_method, state, client_id, ... - a crafted login
   link): the answer and the browser's jar afterwards are those of the plain login. *)
Theorem C17_login_query_irrelevant : forall H cfg j s v lq,
  respond H cfg j (OStartQ s v lq) = respond H cfg j (OStart s v)
  /\ jar_after j (OStartQ s v lq) (respond H cfg j (OStartQ s v lq))
     = jar_after j (OStart s v) (respond H cfg j (OStart s v)).
Proof. exact login_query_irrelevant. Qed.
Print Assumptions C17_login_query_irrelevant.

(* Every parameter name occurs at most once in the authorization URL (whatever the
   URLParamOpts are): the value C17_auth_url speaks about is THE value. *)
Theorem C17_auth_url_single_valued : forall H cfg s v k,
  exists cs ps, start_login H cfg s v = EvAuth cs (c_auth cfg) ps /\ count_key k ps <= 1.
Proof. exact auth_url_single_valued. Qed.
Print Assumptions C17_auth_url_single_valued.

(* ================= round 11: the model widened ================= *)
Local Open Scope Z_scope.

(* ---- pkg/http/cookie.go: NewCookieHandler and its options ---- *)

(* Whatever options are passed, in whatever order and however often: Secure unless a
   WithUnsecure was passed; SameSite / MaxAge / Domain / Path are those of the LAST option
   of their kind (defaults Lax / 0 / "" / "/"); WithMaxAge also sets how old a value may be
   when it is decoded (30 days otherwise). *)
Theorem C17_cookie_handler_options : forall opts,
  new_cookie_handler opts
  = CH (negb (existsb is_unsecure opts))
       (dflt (last_samesite opts) SSLax)
       (dflt (last_maxage opts) 0)
       (dflt (last_maxage opts) default_macage)
       (dflt (last_domain opts) "")
       (dflt (last_path opts) "/").
Proof. exact cookie_handler_options. Qed.
Print Assumptions C17_cookie_handler_options.

(* Every Set-Cookie the RP sends in answer to a login or a callback (state and pkce
   cookies, set and deleted) carries the handler's Domain, Path, Secure and SameSite and
   HttpOnly; a deletion differs from a set only in Max-Age (and the empty value): it
   addresses the same Domain and Path. *)
Theorem C17_cookie_attrs : forall H cfg h keeps j o sc,
  In sc (kev_cookies (krespond H cfg h keeps j o)) ->
  a_domain (snd sc) = strip_dot (h_domain h) /\ a_path (snd sc) = h_path h
  /\ a_httponly (snd sc) = true /\ a_secure (snd sc) = h_secure h
  /\ a_samesite (snd sc) = wire_ss (h_samesite h)
  /\ a_maxage (snd sc) = match snd (fst sc) with
                         | Some _ => wire_maxage (h_maxage h)
                         | None => -1
                         end.
Proof. exact cookie_attrs. Qed.
Print Assumptions C17_cookie_attrs.

(* All handlers, jars, requests: SetCookie answered to r1 then DeleteCookie of the same
   handler answered to r2, both filed by the user agent under the same key (same host when
   no Domain is configured; same default path when the configured Path is not absolute):
   nothing is left under that key - the jar is the old jar without that key. *)
Theorem C17_delete_addresses_set : forall h j r1 r2 n c,
  ck_accepted (set_attrs h) r1 = true -> ck_accepted (set_attrs h) r2 = true ->
  ck_dom (set_attrs h) r1 = ck_dom (set_attrs h) r2 ->
  eff_path (set_attrs h) r1 = eff_path (set_attrs h) r2 ->
  let key_ho := ck_hostonly (set_attrs h) in
  let key_d := ck_dom (set_attrs h) r1 in
  let key_p := eff_path (set_attrs h) r1 in
  bj_store r2 (bj_store r1 j (decorate h (n, Some c))) (decorate h (n, None))
  = bj_remove n key_ho key_d key_p j
  /\ forall e, In e (bj_remove n key_ho key_d key_p j) -> same_key n key_ho key_d key_p e = false.
Proof. exact delete_addresses_set. Qed.
Print Assumptions C17_delete_addresses_set.

(* Round trip / decision rule, all option sets: a login answered to r1, w seconds, a
   callback request r2 from the same browser.  If the user agent stored the cookies
   (Domain acceptable, MaxAge >= 0), r2 carries them (domain, path, Secure vs scheme,
   Max-Age vs w unless the client keeps expired cookies) and they are not older than the
   handler's max age, the callback is answered as for the jar holding exactly the login's
   cookies; otherwise the unauthorized handler runs, nothing is sent, no cookie is touched. *)
Theorem C17_cookie_roundtrip : forall H cfg h keeps s v r1 w q ok r2,
  krun H cfg h keeps [] [KLogin s v r1; KWait w; KCallback q ok r2]
  = [ KEvAuth (map (decorate h) (login_cookies cfg s v)) (c_auth cfg)
              (auth_params cfg s (if c_pkce cfg then Some (H v) else None));
      KEvNone;
      if stored h r1 && carried keeps h r1 r2 w && negb (mac_expired (h_macage h) w)
      then match callback cfg (jar_apply [] (login_cookies cfg s v)) q ok with
           | EvCb hd reqs cs => KEvCb hd reqs (map (decorate h) cs)
           | _ => KEvOther
           end
      else KEvCb (HUnauth "") [] [] ].
Proof. exact cookie_roundtrip. Qed.
Print Assumptions C17_cookie_roundtrip.

(* MaxAge semantics: a negative WithMaxAge never round-trips *)
Theorem C17_cookie_stored_iff : forall h r1,
  stored h r1 = ck_accepted (set_attrs h) r1 && (0 <=? h_maxage h).
Proof. exact stored_iff. Qed.
Print Assumptions C17_cookie_stored_iff.

(* ... and with MaxAge >= 0 a user agent that honours Max-Age never presents a cookie the
   same handler finds too old *)
Theorem C17_cookie_live_implies_fresh : forall opts h w,
  h = new_cookie_handler opts -> 0 <= w -> 0 <= h_maxage h ->
  (h_maxage h = 0 \/ w < h_maxage h) -> w <= default_macage ->
  mac_expired (h_macage h) w = false.
Proof. exact live_implies_fresh. Qed.
Print Assumptions C17_cookie_live_implies_fresh.

Theorem C17_cookie_roundtrip_nonvacuous :
  let h := new_cookie_handler [WithPath "/auth"; WithMaxAge 300; WithDomain "rp.example"; WithSameSite SSStrict] in
  let r1 := Req true "login.rp.example" "/auth/login" in
  let r2 := Req true "rp.example" "/auth/callback" in
  stored h r1 = true /\ carried false h r1 r2 100 = true /\ mac_expired (h_macage h) 100 = false
  /\ carried false h r1 r2 400 = false /\ carried true h r1 r2 400 = true /\ mac_expired (h_macage h) 400 = true
  /\ carried false h r1 (Req true "rp.example" "/other") 100 = false
  /\ carried false h r1 (Req false "rp.example" "/auth/callback") 100 = false
  /\ stored (new_cookie_handler [WithMaxAge (-1)]) r1 = false
  /\ stored (new_cookie_handler [WithDomain "other.example"]) r1 = false.
Proof. exact cookie_roundtrip_nonvacuous. Qed.
Print Assumptions C17_cookie_roundtrip_nonvacuous.

(* State bound in the attribute-aware browser, every history: a token request or the
   application callback happens only when the request CARRIED a "state" cookie minted
   under the RP's key with the query's state - in the jar, live for the client, matching
   the request's host / path / scheme, not older than the handler's max age. *)
Theorem C17_ck_state_bound : forall H cfg h keeps ops j0 j q ok r hd reqs cs,
  In (j, KCallback q ok r, KEvCb hd reqs cs) (ktrace H cfg h keeps j0 ops) ->
  (reqs <> [] \/ exists st, hd = HApp st) ->
  exists e, In e j /\ be_name e = "state"%string
    /\ be_val e = Mac (c_key cfg) "state" (form q "state")
    /\ be_live keeps e = true /\ be_matches r e = true
    /\ mac_expired (h_macage h) (be_age e) = false.
Proof. exact ck_state_bound. Qed.
Print Assumptions C17_ck_state_bound.

(* ---- pkg/client/rp/verifier.go: WithIssuedAtOffset / WithIssuedAtMaxAge / WithAuthTimeMaxAge ---- *)
Theorem C17_verifier_options : forall vo,
  new_verifier vo = Vf (dflt (configured_offset vo) 1) (dflt (configured_iat_maxage vo) 0)
                       (dflt (configured_auth_maxage vo) 0).
Proof. exact verifier_options. Qed.
Print Assumptions C17_verifier_options.

(* An RP built by NewRelyingPartyOIDC reaches the application callback only with an ID
   token the provider delivered whose iat / auth_time are within the LAST configured
   WithIssuedAtMaxAge / WithAuthTimeMaxAge (0 = no limit). *)
Theorem C17_verifier_max_ages : forall s vo wrap tr ui j q st reqs cs u info,
  oauth_only s = false ->
  tail_model s vo wrap tr ui j q = TailOut (EvCb (HApp st) reqs cs) u info ->
  exists t, tr_id tr = Some t /\ tr_ok tr = true
    /\ (forall d, configured_iat_maxage vo = Some d -> d <> 0 ->
          exists a, it_iat_age t = Some a /\ a <= d)
    /\ (forall d, configured_auth_maxage vo = Some d -> d <> 0 ->
          exists a, it_auth_age t = Some a /\ a <= d).
Proof. exact verifier_max_ages. Qed.
Print Assumptions C17_verifier_max_ages.

(* ---- rp.UserinfoCallback ---- *)

(* The wrapped application callback runs only with the userinfo of the ID token's
   subject (200, sub equal), fetched with "<token_type> <access_token>", after a
   successful exchange, for the state of the RP's own state cookie. *)
Theorem C17_userinfo_subject_bound : forall s vo tr ui j q st reqs cs u info,
  tail_model s vo true tr ui j q = TailOut (EvCb (HApp st) reqs cs) u info ->
  ui_ok ui = true /\ ui_sub ui = id_sub tr /\ info = Some (ui_sub ui)
  /\ u = [(tr_type tr ++ " " ++ tr_access tr)%string]
  /\ exchange_ok s vo tr = true /\ reqs <> []
  /\ st = form q "state"
  /\ jar_get "state" j = Some (Mac (c_key (construct s)) "state" (form q "state")).
Proof. exact userinfo_subject_bound. Qed.
Print Assumptions C17_userinfo_subject_bound.

(* No userinfo request on behalf of a callback that did not pass the state check and exchange a code. *)
Theorem C17_userinfo_only_after_exchange : forall s vo wrap tr ui j q ev u info,
  tail_model s vo wrap tr ui j q = TailOut ev u info -> u <> [] ->
  wrap = true /\ exchange_ok s vo tr = true
  /\ jar_get "state" j = Some (Mac (c_key (construct s)) "state" (form q "state"))
  /\ exists h reqs cs, ev = EvCb h reqs cs /\ reqs <> [].
Proof. exact userinfo_only_after_exchange. Qed.
Print Assumptions C17_userinfo_only_after_exchange.

Theorem C17_tail_nonvacuous :
  tail_model tail_setup tail_vo true (TokResp true "at" "Bearer" (Some (IdTok "u1" 3600 (Some 10) (Some 100))))
             (UiResp true "u1") tail_jar tail_q
  = TailOut (EvCb (HApp "a") [TokReq "c" "https://rp/cb" "cid" None false] [("state", None)])
            ["Bearer at"%string] (Some "u1"%string)
  /\ tail_model tail_setup tail_vo true (TokResp true "at" "Bearer" (Some (IdTok "u1" 3600 (Some 10) (Some 100))))
                (UiResp true "u2") tail_jar tail_q
     = TailOut (EvCb (HUnauth "a") [TokReq "c" "https://rp/cb" "cid" None false] [("state", None)])
               ["Bearer at"%string] None
  /\ tail_model tail_setup tail_vo true (TokResp true "at" "Bearer" (Some (IdTok "u1" 3600 (Some 45) (Some 100))))
                (UiResp true "u1") tail_jar tail_q
     = TailOut (EvCb (HUnauth "a") [TokReq "c" "https://rp/cb" "cid" None false] [("state", None)]) [] None
  /\ spec (InpTail tail_setup tail_vo true (TokResp true "at" "Bearer" (Some (IdTok "u1" 3600 (Some 10) (Some 100))))
                   (UiResp true "u2") tail_jar tail_q)
          (ObsTail (TailOut (EvCb (HApp "a") [TokReq "c" "https://rp/cb" "cid" None false] [("state", None)])
                            ["Bearer at"%string] (Some "u2"%string))) = false
  /\ spec (InpTail tail_setup tail_vo false (TokResp true "at" "Bearer" (Some (IdTok "u1" 3600 (Some 45) (Some 100))))
                   (UiResp true "u1") tail_jar tail_q)
          (ObsTail (TailOut (EvCb (HApp "a") [TokReq "c" "https://rp/cb" "cid" None false] [("state", None)])
                            [] None)) = false.
Proof. exact tail_nonvacuous. Qed.
Print Assumptions C17_tail_nonvacuous.

(* outside wf: UserinfoCallback on an RP built by NewRelyingPartyOAuth *)
Theorem C17_userinfo_oauth_only_panics :
  wf oauth_userinfo_input = false /\ model oauth_userinfo_input = OPanic
  /\ spec oauth_userinfo_input (model oauth_userinfo_input) = false.
Proof. exact userinfo_oauth_only_panics. Qed.
Print Assumptions C17_userinfo_oauth_only_panics.

(* ---- rp.WithURLParam / WithPromptURLParam / WithResponseModeURLParam ---- *)

(* Only a WithURLParam naming response_type / client_id / redirect_uri / scope / state can
   disturb what C17_auth_url guarantees; the prompt and response_mode options never do. *)
Theorem C17_url_opts_harmless : forall k p jw cl rd sc au l,
  extra_ok (Cfg k p jw cl rd sc au (extras l)) = forallb url_opt_harmless l.
Proof. exact extras_extra_ok. Qed.
Print Assumptions C17_url_opts_harmless.

(* The last WithResponseModeURLParam(m) decides response_mode in the authorization URL
   (with or without a challenge). *)
Theorem C17_response_mode_param : forall k p jw cl rd sc au l m s ch,
  plookup "response_mode"
    (auth_params (Cfg k p jw cl rd sc au (extras (l ++ [UResponseMode m]))) s ch) = Some m.
Proof. exact response_mode_param. Qed.
Print Assumptions C17_response_mode_param.
