(* C17 property theorems. Nothing but statements closed by [exact]. *)
From OIDC Require Import Lib C17_RP C17_Construct C17_spec C17_proofs.

(* The model's answer satisfies the property predicate on every input: every
   way of building the RP (constructor, option list, discovery document), S256
   table, initial jar and history of operations. *)
Theorem C17_spec_sound : forall i, spec i (model i) = true.
Proof. exact spec_model_true. Qed.
Print Assumptions C17_spec_sound.

(* All jars, all queries.  Either the jar's "state" cookie was minted under the
   RP's key for the name "state" with exactly the query's state (then the
   application callback, if it runs, gets that state and a token request was
   sent), or - cookie missing, other key, other name, other value, junk - the
   unauthorized handler runs, nothing is sent and no cookie is touched. *)
Theorem C17_state_bound : forall cfg j q ok,
  (exists s h reqs cs,
      jar_get "state" j = Some (Mac (c_key cfg) "state" s) /\ s = form q "state"
      /\ callback cfg j q ok = EvCb h reqs cs /\ h <> HOther
      /\ (forall st, h = HApp st -> st = s /\ reqs <> []))
  \/ (jar_get "state" j <> Some (Mac (c_key cfg) "state" (form q "state"))
      /\ callback cfg j q ok = EvCb (HUnauth "") [] []).
Proof. exact state_bound. Qed.
Print Assumptions C17_state_bound.

(* All jars, all queries.  Every token request carries the query's code, the
   configured redirect URI and client, and was sent only with the state cookie
   above; with PKCE its code_verifier is the value of a "pkce" cookie minted
   under the RP's key for the name "pkce". *)
Theorem C17_token_request_bound : forall cfg j q ok h reqs cs r,
  callback cfg j q ok = EvCb h reqs cs -> In r reqs ->
  jar_get "state" j = Some (Mac (c_key cfg) "state" (form q "state"))
  /\ t_code r = form q "code" /\ t_redirect r = c_redirect cfg /\ t_client r = c_client cfg
  /\ (c_pkce cfg = true ->
      exists v, t_verifier r = Some v /\ jar_get "pkce" j = Some (Mac (c_key cfg) "pkce" v)).
Proof. exact token_request_bound. Qed.
Print Assumptions C17_token_request_bound.

(* Every history (any interleaving of logins, callbacks with or without the
   browser processing the response's cookies, foreign cookie writes that the RP
   would not accept, deletions) from a jar without an acceptable state cookie:
   when a callback sends a token request, its verifier v is the one whose
   S256 hash H v was put into the most recent authorization redirect, and that
   redirect is the one that set the state cookie being redeemed (trace lists,
   per operation, the jar before it and the redirects issued before it, most
   recent first). *)
Theorem C17_pkce_bound : forall H cfg j0 ops j lg q ok ap h reqs cs r,
  c_pkce cfg = true -> honest cfg j0 ops = true ->
  In (j, lg, OCallback q ok ap, EvCb h reqs cs) (trace H cfg j0 [] ops) -> In r reqs ->
  exists s v rest,
    s = form q "state" /\ t_verifier r = Some v
    /\ jar_get "state" j = Some (Mac (c_key cfg) "state" s)
    /\ jar_get "pkce" j = Some (Mac (c_key cfg) "pkce" v)
    /\ lg = (login_cookies cfg s v, auth_params cfg s (Some (H v))) :: rest
    /\ start_login H cfg s v = EvAuth (login_cookies cfg s v) (c_auth cfg) (auth_params cfg s (Some (H v)))
    /\ plookup "code_challenge" (auth_params cfg s (Some (H v))) = Some (H v)
    /\ plookup "code_challenge_method" (auth_params cfg s (Some (H v))) = Some "S256".
Proof. exact pkce_bound. Qed.
Print Assumptions C17_pkce_bound.

(* the events of a trace are the handlers' responses to the jar listed with them,
   and the listed redirects are redirects the RP issued *)
Theorem C17_trace_respond : forall H cfg ops j lg j' lg' o ev,
  In (j', lg', o, ev) (trace H cfg j lg ops) -> ev = respond H cfg j' o.
Proof. exact trace_respond. Qed.
Print Assumptions C17_trace_respond.

Theorem C17_trace_logins : forall H cfg ops j lg,
  Forall (is_redirect H cfg) lg ->
  Forall (fun t => Forall (is_redirect H cfg) (t_logins t)) (trace H cfg j lg ops).
Proof. exact trace_logins. Qed.
Print Assumptions C17_trace_logins.

(* The authorization redirect: state cookie for s, configured endpoint; client,
   redirect URI, scopes and state s in the URL unless a URLParamOpt overrides
   one of those keys; with PKCE the pkce cookie holds v and the URL carries
   H v with method S256 (whatever the URLParamOpts are). *)
Theorem C17_auth_url : forall H cfg s v,
  exists cs ps, start_login H cfg s v = EvAuth cs (c_auth cfg) ps
  /\ In (state_cookie cfg s) cs
  /\ (extra_ok cfg = true ->
        plookup "response_type" ps = Some "code"
        /\ plookup "client_id" ps = Some (c_client cfg)
        /\ (c_redirect cfg <> "" -> plookup "redirect_uri" ps = Some (c_redirect cfg))
        /\ (c_scopes cfg <> [] -> plookup "scope" ps = Some (String.concat " " (c_scopes cfg)))
        /\ form ps "state" = s)
  /\ (c_pkce cfg = true ->
        In (pkce_cookie cfg v) cs
        /\ plookup "code_challenge" ps = Some (H v)
        /\ plookup "code_challenge_method" ps = Some "S256").
Proof. exact auth_url. Qed.
Print Assumptions C17_auth_url.

(* ---- the constructors: rp.NewRelyingPartyOAuth / rp.NewRelyingPartyOIDC ---- *)

(* Whatever the constructor, the option list and the OP's discovery document: the
   RP that is built is the RP the application configured ([intended]: PKCE iff a
   WithPKCE option was passed, the cookie handler of the last option that sets
   one, JWT profile iff WithJWTProfile, client / redirect URI / scopes as given,
   the given or discovered authorization endpoint). *)
Theorem C17_constructed_as_configured : forall s cfg, intended s = Some cfg -> construct s = cfg.
Proof. exact construct_intended. Qed.
Print Assumptions C17_constructed_as_configured.

Theorem C17_constructor_pkce : forall s, c_pkce (construct s) = pkce_enabled (s_opts s).
Proof. exact constructor_pkce. Qed.
Print Assumptions C17_constructor_pkce.

(* Two discovery documents with the same authorization endpoint - whatever they
   announce as code_challenge_methods_supported, scopes_supported,
   response_types_supported, grant_types_supported,
   token_endpoint_auth_methods_supported - give the same RP, and it is the RP that
   NewRelyingPartyOAuth builds for that endpoint. *)
Theorem C17_discovery_irrelevant : forall opts cl rd sc ex d d',
  d_auth d = d_auth d' ->
  construct (Setup (NewOIDC d) opts cl rd sc ex) = construct (Setup (NewOIDC d') opts cl rd sc ex)
  /\ construct (Setup (NewOIDC d) opts cl rd sc ex) = construct (Setup (NewOAuth (d_auth d)) opts cl rd sc ex).
Proof. exact discovery_irrelevant. Qed.
Print Assumptions C17_discovery_irrelevant.

(* WithPKCE passed (anywhere in the option list), any constructor, any document:
   every login sets the pkce cookie for v and its URL carries H v with S256;
   every token request of a callback carries the value of the jar's pkce cookie
   minted under the RP's key. *)
Theorem C17_pkce_any_constructor : forall H s,
  pkce_enabled (s_opts s) = true ->
  (forall st v, exists cs ps,
      start_login H (construct s) st v = EvAuth cs (endpoint (s_ctor s)) ps
      /\ In (pkce_cookie (construct s) v) cs
      /\ plookup "code_challenge" ps = Some (H v)
      /\ plookup "code_challenge_method" ps = Some "S256")
  /\ (forall j q ok h reqs cs r,
      callback (construct s) j q ok = EvCb h reqs cs -> In r reqs ->
      exists v, t_verifier r = Some v
                /\ jar_get "pkce" j = Some (Mac (c_key (construct s)) "pkce" v)).
Proof. exact pkce_any_constructor. Qed.
Print Assumptions C17_pkce_any_constructor.

(* [spec] is not vacuous on the constructor dimension: for an RP built WithPKCE by
   the discovery constructor against an OP announcing only "plain" it rejects a
   login answered with the plain code flow and a token request without
   code_verifier, and accepts the model's answer. *)
Theorem C17_spec_rejects_pkce_fallback :
  spec (Inp fallback_setup [("va", "ha")] [] [OStart "a" ""]) (Obs [fallback_login]) = false
  /\ spec (Inp fallback_setup [("va", "ha")] [("state", Mac 0 "state" "a"); ("pkce", Mac 0 "pkce" "va")]
               [OCallback [("code", "c"); ("state", "a")] true true]) (Obs [fallback_callback]) = false
  /\ spec (Inp fallback_setup [("va", "ha")] [] [OStart "a" "va"])
          (model (Inp fallback_setup [("va", "ha")] [] [OStart "a" "va"])) = true.
Proof. exact spec_rejects_fallback. Qed.
Print Assumptions C17_spec_rejects_pkce_fallback.

(* Limit of C17_pkce_bound (why [honest] is there): replaying a validly minted
   state cookie of an older login next to the newer login's pkce cookie makes
   the strong clause false; the property predicate (which then only demands
   "the verifier is the one stored in the pkce cookie") still holds. *)
Theorem C17_pkce_replay_limit :
  construct replay_setup = replay_cfg
  /\ honest replay_cfg [] replay_ops = false
  /\ spec_run (hfun replay_tab) replay_cfg true [] [] replay_ops (run (hfun replay_tab) replay_cfg [] replay_ops) = false
  /\ spec (Inp replay_setup replay_tab [] replay_ops) (model (Inp replay_setup replay_tab [] replay_ops)) = true.
Proof. exact replay_limit. Qed.
Print Assumptions C17_pkce_replay_limit.

Theorem C17_pkce_bound_nonvacuous :
  c_pkce replay_cfg = true /\ honest replay_cfg [] nv_ops = true
  /\ exists j lg h r cs,
       nth_error (trace (hfun replay_tab) replay_cfg [] [] nv_ops) 2
       = Some (j, lg, OCallback [("state", "b"); ("code", "c")] true true, EvCb h [r] cs)
       /\ t_verifier r = Some "vb".
Proof. exact pkce_bound_nonvacuous. Qed.
Print Assumptions C17_pkce_bound_nonvacuous.

(* ---- other API calls on the same RP value (rp.ClientCredentials, RefreshTokens,
   Userinfo, EndSession, RevokeToken, DeviceAuthorization, CodeExchange,
   GenerateAndStoreCodeChallenge, AuthURL with other options, JWT profile assertion) ---- *)

(* Every history, API calls anywhere in it: the answers to the logins and callbacks
   are those of the history without the API calls. *)
Theorem C17_api_calls_inert : forall H cfg j ops,
  run H cfg j (filter (fun o => negb (is_api o)) ops)
  = filter (fun e => negb (is_probe e)) (run H cfg j ops).
Proof. exact api_inert. Qed.
Print Assumptions C17_api_calls_inert.

(* After any API call, with any jar: rp.AuthURL(state, rp) goes to the configured
   endpoint with the configured client, redirect URI, scopes and that state. *)
Theorem C17_probe_url : forall H cfg j l,
  exists ps, respond H cfg j (OApi l) = EvProbe (c_auth cfg) ps
  /\ plookup "response_type" ps = Some "code"
  /\ plookup "client_id" ps = Some (c_client cfg)
  /\ (c_redirect cfg <> "" -> plookup "redirect_uri" ps = Some (c_redirect cfg))
  /\ (c_scopes cfg <> [] -> plookup "scope" ps = Some (String.concat " " (c_scopes cfg)))
  /\ form ps "state" = probe_state.
Proof. exact probe_url. Qed.
Print Assumptions C17_probe_url.

(* ---- the login request itself as input ---- *)

(* Whatever query parameters the request that hits AuthURLHandler carries
   (code_challenge, code_challenge_method, state, client_id, ... - a crafted login
   link): the answer and the browser's jar afterwards are those of the plain login. *)
Theorem C17_login_query_irrelevant : forall H cfg j s v lq,
  respond H cfg j (OStartQ s v lq) = respond H cfg j (OStart s v)
  /\ jar_after j (OStartQ s v lq) (respond H cfg j (OStartQ s v lq))
     = jar_after j (OStart s v) (respond H cfg j (OStart s v)).
Proof. exact login_query_irrelevant. Qed.
Print Assumptions C17_login_query_irrelevant.

(* Every parameter name occurs at most once in the authorization URL (whatever the
   URLParamOpts are): the value C17_auth_url speaks about is THE value. *)
Theorem C17_auth_url_single_valued : forall H cfg s v k,
  exists cs ps, start_login H cfg s v = EvAuth cs (c_auth cfg) ps /\ count_key k ps <= 1.
Proof. exact auth_url_single_valued. Qed.
Print Assumptions C17_auth_url_single_valued.
