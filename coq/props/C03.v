(* C03 property theorems: the OP never redirects an authorization response or
   error to an unregistered URI.  Nothing but statements closed by [exact].
   glob = doublestar.Match, loop = HTTPLoopbackOrLocalhost, info = per-URI answers
   of net/url and html/template: arbitrary functions (oracles). *)
From OIDC Require Import Lib C03_Redirect C03_Handlers C03_spec C03_proofs.

(* ValidateAuthReqRedirectURI accepts only registered URIs:
   Registered c u rt = u <> "" /\ Matches c u /\ SchemeTable c u rt, where
   Matches = exact member \/ opted-in glob matches \/ (native /\ loopback with the
   path and raw query of a registered loopback URI), and SchemeTable = (http:// =>
   dev mode \/ native loopback \/ web client on the code flow) /\ (custom scheme => native). *)
Theorem C03_predicate :
  forall (glob : string -> string -> gres) (loop : string -> option (string * string))
         (c : client) (u rt : string),
    validate_redirect glob loop c u rt = VOk -> Registered glob loop c u rt.
Proof. exact predicate_sound. Qed.
Print Assumptions C03_predicate.

(* Every history of Authorize / Login / Callback operations on either router, from the
   empty request store, for every client list, whatever error VALUES the storage returns
   (operations carry storage faults with plain, typed *oidc.Error or redirect-disabled
   errors; notfound = how an unknown client is reported; requests may carry signed request
   objects, which both routers verify and merge BEFORE validating the redirect URI; every Authorize
   / Callback may carry a write fault w: the connection fails while that answer is written): each answer is an error page, the login
   redirect, or a redirect / auto-submitting form whose target is (the canonical
   rendering of) a URI Registered for one of the clients, or a page cut before any form; never a panic. *)
Theorem C03_no_open_redirect :
  forall (glob : string -> string -> gres) (info : string -> uinfo) (reqobj_supported : bool)
         (notfound : errkind) (cs : list client) (ops : list op),
    Forall (safe_out glob info cs) (run glob info reqobj_supported notfound cs [] ops).
Proof. exact run_safe_from_empty. Qed.
Print Assumptions C03_no_open_redirect.

(* Write faults are local. The answers of a history in which the connection fails while some answers
   are written (op_cut o <> W_None) are, position by position, what `deliver` leaves of the answers
   of the same history without any fault (op_clear): status and headers - hence every Location -
   unchanged, an error page reduced to its status, an early-cut form_post page reduced to
   OUndelivered. So an answer that is written without a fault equals the answer of the fault-free
   history: nothing of an undelivered answer (another client's form, code, redirect URI) can show
   up in a later one, and the store is the one of the fault-free history. *)
Theorem C03_write_fault_local :
  forall (glob : string -> string -> gres) (info : string -> uinfo) (reqobj_supported : bool)
         (notfound : errkind) (cs : list client) (ops : list op) (st : list sreq),
    run glob info reqobj_supported notfound cs st ops =
    map (fun p => deliver (fst p) (snd p))
        (combine (map op_cut ops) (run glob info reqobj_supported notfound cs st (map op_clear ops))).
Proof. exact write_fault_local. Qed.
Print Assumptions C03_write_fault_local.

(* The same with the client pinned down: the boolean property predicate that the
   correspondence run evaluates on the implementation's answers holds of the model
   (redirect only to the URI of the very request, registered for that request's client and
   response type; missing / unknown-client / non-matching URI => error page). In the predicate
   "loopback address" is the ground truth u_truth recorded per URI by a classifier that is independent
   of the library (http / https and host exactly localhost, or an IP literal in 127.0.0.0/8 or ::1); the
   model follows the library's HTTPLoopbackOrLocalhost (u_loop). Guard wf: the two agree on every URI
   of the case. A case where they do not is still judged by spec (Example C03_wrong_loopback_flagged in
   the proofs file: the model says accepted, the predicate says violated). *)
Theorem C03_spec_holds : forall i : input, wf i = true -> spec i (model i) = true.
Proof. exact spec_model. Qed.
Print Assumptions C03_spec_holds.

(* A client lookup that fails in any way (storage error of any kind, or client not
   registered, however the storage reports that), or no URI the request mentions (plain
   parameter - every value of it when it is repeated -; redirect_uri inside a request object) being present and matching something
   registered: answered with an error page on both routers, and nothing is stored. *)
Theorem C03_direct_error :
  forall (glob : string -> string -> gres) (info : string -> uinfo) (reqobj_supported : bool)
         (notfound : errkind) (cs : list client) (r : router) (st : list sreq) (q : areq),
    (exists k, q_fault q = AF_GetClient k) \/ find_client cs (q_client q) = None \/
    (exists c, find_client cs (q_client q) = Some c /\
               forall u, In u (candidates q) ->
                 u = "" \/ matches glob (fun u => u_loop (info u)) c u = false) ->
    exists status code, authorize glob info reqobj_supported notfound cs r st q = (st, OPage status code).
Proof. exact direct_error. Qed.
Print Assumptions C03_direct_error.

(* Callback id placement (round 11). A callback names its authorization request by the `id` parameter,
   which may travel in the URL query (what AuthCallbackURL builds), in a form body (login UIs that
   finish with a POST), in both, or repeated: ids = (values in the body, values in the query), in the
   order of Request.Form. Whatever the store, router, storage fault and write fault: the answer either
   sends the user agent nowhere (error page, cut page), or the FIRST of those values is the id of a
   stored request s and the answer points to nothing but the stored URI of s (points_to: the Location /
   form action is the canonical rendering of s_uri s). With C03_no_open_redirect: that URI passed
   validation for the client of s. *)
Theorem C03_callback_addressed :
  forall (glob : string -> string -> gres) (info : string -> uinfo) (reqobj_supported : bool)
         (notfound : errkind) (cs : list client) (st : list sreq) (r : router) (ids : cbids)
         (f : cfault) (w : wcut),
    let x := snd (step glob info reqobj_supported notfound cs st (Callback r ids f w)) in
    no_redirect x = true \/
    exists n s, hd_error (cb_body ids ++ cb_query ids) = Some (Some n) /\ nth_error st n = Some s /\
                points_to info s x = true.
Proof. exact callback_addressed. Qed.
Print Assumptions C03_callback_addressed.

(* Beyond that first value the placement is irrelevant: two callbacks whose first id value is the same
   (query vs body, further values behind it, either router) get the same answer and leave the same store. *)
Theorem C03_callback_placement :
  forall (glob : string -> string -> gres) (info : string -> uinfo) (reqobj_supported : bool)
         (notfound : errkind) (cs : list client) (st : list sreq) (r r' : router) (a b : cbids)
         (f : cfault) (w : wcut),
    cb_id a = cb_id b ->
    step glob info reqobj_supported notfound cs st (Callback r a f w) =
    step glob info reqobj_supported notfound cs st (Callback r' b f w).
Proof. exact callback_placement. Qed.
Print Assumptions C03_callback_placement.

(* No id at all, or an empty first value: an error page and an unchanged store. *)
Theorem C03_callback_no_id :
  forall (glob : string -> string -> gres) (info : string -> uinfo) (reqobj_supported : bool)
         (notfound : errkind) (cs : list client) (st : list sreq) (r : router) (ids : cbids)
         (f : cfault) (w : wcut),
    cb_id ids = None ->
    exists status, step glob info reqobj_supported notfound cs st (Callback r ids f w) = (st, OPage status "").
Proof. exact callback_no_id. Qed.
Print Assumptions C03_callback_no_id.
