(* C08 property theorems. Nothing but statements closed by [exact]. *)
From OIDC Require Import Lib C08_OP C08_spec.
