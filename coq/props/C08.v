(* C08 property theorems. Nothing but statements closed by [exact].
   Vocabulary: C08_OP.v (state machine of both routers over the refstore contract),
   C08_spec.v (ground truth about presented strings: as_access / denotes / subj_live;
   the reference monitor spec).  [live_in g n tr]: the storage g holds access token n
   with record tr and it is not expired. *)
From OIDC Require Import Lib C08_OP C08_spec C08_proofs C08_length_proofs.

(* The reference monitor (property predicate) accepts every run of the model: all client
   tables, all histories on both routers - outside the input class of the recorded finding
   Fxx-C08-1 (a provider-signed JWT presented as the other token kind in a token exchange). *)
Theorem C08_all_histories_partial : forall i : input, unconfused i = true -> spec i (model i) = true.
Proof. exact spec_model_partial. Qed.
Print Assumptions C08_all_histories_partial.

(* ... and without that guard the statement is false (a revoked JWT access token declared as
   id_token is accepted as exchange subject). *)
Theorem C08_all_histories_refuted : exists i : input, spec i (model i) = false.
Proof. exact spec_model_refuted. Qed.
Print Assumptions C08_all_histories_refuted.

(* UserInfo returns claims only for a string that IS a live access token of the storage
   (whatever a forged string decrypts to), and the subject is that token's. *)
Theorem C08_userinfo_live : forall r g t sub, userinfo r g t = OInfo sub ->
  exists n tr, as_access t = AT n /\ live_in g n tr /\ (sub = tr_sub tr \/ sub = "").
Proof. exact userinfo_live. Qed.
Print Assumptions C08_userinfo_live.

(* active:true only for a live token, to a caller the storage authenticated and that is in
   the token's audience; the answer describes that token. *)
Theorem C08_introspect_live : forall cl r g c t sub client sc b,
  introspect cl r g c t = OIntro true sub client sc b ->
  authenticated cl c = true /\
  exists n tr, as_access t = AT n /\ live_in g n tr /\ string_in (cred_id c) (tr_aud tr) = true /\
               sub = tr_sub tr /\ client = tr_client tr /\ sc = tr_scopes tr.
Proof. exact introspect_live. Qed.
Print Assumptions C08_introspect_live.

(* "the authenticated caller", spelled out: active:true is only ever answered to a request that
   presented exactly the non-empty secret its client is registered with, or a client assertion
   that verified - for EVERY client table, also those whose storage holds (and would accept) an
   empty secret for public / private_key_jwt clients, on both routers. *)
Theorem C08_introspect_caller_proved : forall cl r g c t sub client sc b,
  introspect cl r g c t = OIntro true sub client sc b ->
  match c with
  | NoCred => False
  | Basic i s | Post i s | Both i s _ => s <> "" /\ exists k, find_client cl i = Some k /\ c_secret k = s
  | Assertion who _ => exists x, who = Some x
  end.
Proof. exact introspect_caller_proved. Qed.
Print Assumptions C08_introspect_caller_proved.

(* no credential, a client_id alone, an empty secret in the form or in a Basic header: never
   active:true, whatever the storage would say about the empty secret *)
Theorem C08_secretless_never_introspects : forall cl r g c t sub client sc b,
  snd (cred_pair c) = "" -> (match c with Assertion _ _ => False | _ => True end) ->
  introspect cl r g c t <> OIntro true sub client sc b.
Proof. exact secretless_never_introspects. Qed.
Print Assumptions C08_secretless_never_introspects.

(* non-vacuity of the above: a storage that accepts the empty secret of a public client exists
   (the example storage does), that acceptance proves nothing, and the model refuses the request *)
Theorem C08_storage_acceptance_is_not_proof :
  exists cl id, store_accepts cl id "" = true /\ authenticated cl (Basic id "") = false /\
    forall r g t, exists st oa, introspect cl r g (Basic id "") t = OErr st oa.
Proof. exact storage_acceptance_is_not_proof. Qed.
Print Assumptions C08_storage_acceptance_is_not_proof.

Theorem C08_inactive_discloses_nothing : forall cl r g c t sub client sc b,
  introspect cl r g c t = OIntro false sub client sc b -> sub = "" /\ client = "" /\ sc = [] /\ b = true.
Proof. exact inactive_discloses_nothing. Qed.
Print Assumptions C08_inactive_discloses_nothing.

(* token exchange succeeds only with a live subject token of the declared type and, if an
   actor token is given, a live actor token *)
Theorem C08_exchange_live_partial : forall cl r s c subj styp actor req scopes aud s' i x rt lv sc sto,
  op_unconfused (Exchange r c subj styp actor req scopes aud) = true ->
  exchange cl r s c subj styp actor req scopes aud = (s', OExch i x rt lv sc sto) ->
  subj_live false (fst s) styp subj = true /\ actor_live (fst s) actor = true.
Proof. exact exchange_live. Qed.
Print Assumptions C08_exchange_live_partial.

Theorem C08_exchange_live_refuted :
  exists cl s r c subj styp actor req scopes aud,
    (exists s' i x rt lv sc sto, exchange cl r s c subj styp actor req scopes aud = (s', OExch i x rt lv sc sto)) /\
    subj_live false (fst s) styp subj = false.
Proof. exact exchange_live_refuted. Qed.
Print Assumptions C08_exchange_live_refuted.

(* a token that is not live in the storage is refused at all three endpoints, on both routers *)
Theorem C08_dead_token_refused : forall cl g t n,
  as_access t = AT n -> (forall tr, ~ live_in g n tr) ->
  (forall r sub, userinfo r g t <> OInfo sub) /\
  (forall r c sub client sc b, introspect cl r g c t <> OIntro true sub client sc b) /\
  (forall r s c actor req scopes aud s' i x rt lv sc sto, fst s = g ->
     exchange cl r s c t TAccess actor req scopes aud <> (s', OExch i x rt lv sc sto)).
Proof. exact dead_token_refused. Qed.
Print Assumptions C08_dead_token_refused.

(* from then on: once a revocation of token n answered 200, no later state of any
   continuation of the history holds n (so, by C08_dead_token_refused, it is refused everywhere) *)
Theorem C08_revoke_effective : forall cl pol pre r c t h post n,
  let s0 := state_after cl (init pol) pre in
  snd (step cl s0 (Revoke r c t h)) = OOk -> denotes t = AT n ->
  find_tok n (toks (fst s0)) <> None ->
  find_tok n (toks (fst (state_after cl (init pol) (pre ++ Revoke r c t h :: post)))) = None.
Proof. exact revoke_effective. Qed.
Print Assumptions C08_revoke_effective.

(* after an accepted end_session for (user, client), any token of that user and client in a
   later state was minted after the logout *)
Theorem C08_logout_effective : forall cl pol pre r hint cid post u k n tr,
  let s0 := state_after cl (init pol) pre in
  snd (step cl s0 (EndSession r hint cid)) = ORedirect -> session_of (policy (fst s0)) hint cid = Some (u, k) ->
  find_tok n (toks (fst (state_after cl (init pol) (pre ++ EndSession r hint cid :: post)))) = Some tr ->
  tr_client tr = k -> tr_sub tr = u -> snd s0 < n.
Proof. exact logout_effective. Qed.
Print Assumptions C08_logout_effective.

(* every token of every reachable storage was minted by an operation of the history *)
Theorem C08_stored_token_was_issued : forall cl ops s m tr,
  List.In (m, tr) (toks (fst (state_after cl s ops))) ->
  List.In (m, tr) (toks (fst s)) \/
  exists pre o post, ops = pre ++ o :: post /\
    snd (state_after cl s pre) < m /\ m <= snd (fst (step cl (state_after cl s pre) o)).
Proof. exact stored_token_was_issued. Qed.
Print Assumptions C08_stored_token_was_issued.

(* another client's live token: the request is refused and nothing changes *)
Theorem C08_foreign_revoke_refused : forall cl r g c t h g' x,
  revoke cl r g c t h = (g', x) -> foreign_to g (denotes t) (cred_id c) = true -> g' = g /\ x <> OOk.
Proof. exact revoke_foreign_refused. Qed.
Print Assumptions C08_foreign_revoke_refused.

(* a properly authenticated client revoking its own, an unknown or a garbage token gets 200 *)
Theorem C08_unknown_revoke_200 : forall cl r g c t h,
  proper cl c = true -> foreign_to g (denotes t) (cred_id c) = false -> snd (revoke cl r g c t h) = OOk.
Proof. exact revoke_unknown_200. Qed.
Print Assumptions C08_unknown_revoke_200.

(* the storage policy (token-exchange policy, optional interfaces, user agent session) is an
   environment constant of a history *)
Theorem C08_policy_constant : forall cl ops s, policy (fst (state_after cl s ops)) = policy (fst s).
Proof. exact state_after_policy. Qed.
Print Assumptions C08_policy_constant.

(* end_session WITHOUT id_token_hint on a provider whose storage implements
   CanTerminateSessionFromRequest and finds the end user in the request (the user agent's session
   belongs to u): once it answered 302, every token of (u, client_id) in any later state was minted
   after the logout - so, with C08_dead_token_refused, the session's tokens are dead at userinfo,
   introspection and token exchange, on BOTH routers *)
Theorem C08_logout_without_hint_effective : forall cl pol pre r cid post u n tr,
  p_session pol = Some u ->
  let s0 := state_after cl (init pol) pre in
  snd (step cl s0 (EndSession r None cid)) = ORedirect ->
  find_tok n (toks (fst (state_after cl (init pol) (pre ++ EndSession r None cid :: post)))) = Some tr ->
  tr_client tr = cid -> tr_sub tr = u -> snd s0 < n.
Proof. exact logout_without_hint_effective. Qed.
Print Assumptions C08_logout_without_hint_effective.

(* a logout the storage could not perform is not reported as done: where TerminateSessionFromRequest
   fails for the session the request is about, the answer is no redirect and no token is lost
   (both routers) *)
Theorem C08_failed_logout_not_reported : forall cl r g hint cid g' x u c,
  endsession cl r g hint cid = (g', x) -> session_of (policy g) hint cid = Some (u, c) ->
  logout_fails (policy g) c = true -> x <> ORedirect /\ g' = g.
Proof. exact failed_logout_not_reported. Qed.
Print Assumptions C08_failed_logout_not_reported.

(* Round 9 - provider options about key sets.  NewProvider's handling of the options (a fold that
   sets one field per option) yields exactly what the configuration designates: the last
   WithAccessTokenKeySet for access tokens, the last WithIDTokenHintKeySet for hints, else the
   storage's keys - independently of each other. *)
Theorem C08_configuration_is_designation : forall opts, configure opts = designated opts.
Proof. exact configure_designated. Qed.
Print Assumptions C08_configuration_is_designation.

(* a JWT signed with a key that only a custom key set trusts (a retired key) is no access token -
   not read, no userinfo, no active:true, any router, any state - unless the configuration
   designates that key FOR ACCESS TOKENS; what WithIDTokenHintKeySet trusts is irrelevant *)
Theorem C08_extra_key_not_an_access_token : forall opts host ku iss e jti sub azp,
  k_at (designated opts) = false ->
  let t := localize (configure opts) UAT host ku (PJwtX iss e jti sub azp) in
  read_at t = None /\ as_access t = Junk /\
  (forall r g s, userinfo r g t <> OInfo s) /\
  (forall cl r g c s cid sc b, introspect cl r g c t <> OIntro true s cid sc b).
Proof. exact extra_key_not_an_access_token. Qed.
Print Assumptions C08_extra_key_not_an_access_token.

Theorem C08_hint_option_says_nothing_about_access_tokens : forall b, k_at (designated [OptHintKeys b]) = false /\
  k_at (designated [OptHintKeys b; OptATKeys false]) = false /\ k_at (designated [OptATKeys false; OptHintKeys b]) = false.
Proof. exact hint_option_says_nothing_about_access_tokens. Qed.
Print Assumptions C08_hint_option_says_nothing_about_access_tokens.

(* Round 11 - the LENGTH of a presented string (subjects of up to 255 characters and more, hence
   long opaque tokens) plays no role.  Userinfo, introspection and revocation look up the id of a
   sealed text "id:sub"; the subject part does not enter the answer (any state, both routers). *)
Theorem C08_sealed_subject_irrelevant : forall cl r g c id sub1 sub2 h,
  userinfo r g (Opq id sub1) = userinfo r g (Opq id sub2) /\
  introspect cl r g c (Opq id sub1) = introspect cl r g c (Opq id sub2) /\
  revoke cl r g c (Opq id sub1) h = revoke cl r g c (Opq id sub2) h.
Proof. exact sealed_subject_irrelevant. Qed.
Print Assumptions C08_sealed_subject_irrelevant.

(* the model SERVES a sealed text that names a live token, whatever (and however long) its subject
   part: userinfo answers the token's claims, introspection active:true to every caller its router
   authenticates and that is in the token's audience.  (A statement about the model: C08's text
   promises no service; the correspondence run holds the code to it.) *)
Theorem C08_live_sealed_token_served : forall cl r g n tr sub, live_in g n tr ->
  userinfo r g (Opq (AT n) sub) = OInfo (if string_in "openid" (tr_scopes tr) then tr_sub tr else "") /\
  forall c caller,
    (match r with Prov => auth_intro_prov cl c | Leg => auth_intro_leg cl c end) = Some caller ->
    string_in caller (tr_aud tr) = true ->
    introspect cl r g c (Opq (AT n) sub) = OIntro true (tr_sub tr) (tr_client tr) (tr_scopes tr) true.
Proof. exact live_sealed_token_served. Qed.
Print Assumptions C08_live_sealed_token_served.

(* the endpoints AGREE about every presented string: userinfo answers claims exactly for the
   strings token exchange reads as an access token and finds live in the storage *)
Theorem C08_endpoints_agree : forall r g t,
  (exists sub, userinfo r g t = OInfo sub) <->
  (exists id s, read_x g false TAccess t = Some (id, s) /\ x_live g TAccess id = true).
Proof. exact endpoints_agree. Qed.
Print Assumptions C08_endpoints_agree.

(* non-vacuity: a history with a subject of 255 characters (with colons) - issued, served at
   userinfo and introspection, accepted by token exchange; the reference monitor accepts the run *)
Theorem C08_long_subject_nonvacuous :
  String.length long_sub = 255 /\
  firstn 3 (model long_history) = [OIssued (AT 2) NoId; OInfo long_sub; OIntro true long_sub "web" ["openid"] true] /\
  spec long_history (model long_history) = true /\ unconfused long_history = true.
Proof. exact long_subject_nonvacuous. Qed.
Print Assumptions C08_long_subject_nonvacuous.
