(* C11 property theorems (draft). *)
From OIDC Require Import Lib C11_Url C11_Html C11_spec.
