(* C11 property theorems: authorization response parameters arrive intact and
   cannot inject markup.  Nothing but statements closed by [exact].
   Vocabulary: coq/theories/C11_Url.v (net/url, pkg/op builders, user agent
   for a Location), C11_Html.v (html/template, form_post template, user agent
   for an attribute), C11_spec.v (case vocabulary, model, property predicate). *)
From OIDC Require Import Lib C11_Url C11_Html C11_spec C11_Overlap C11_Url_proofs C11_Html_proofs C11_proofs.

(* url.QueryUnescape (url.QueryEscape s) = s for every byte string *)
Theorem C11_query_escape_inverse : forall s, unescape EQuery (escape EQuery s) = Some s.
Proof. exact query_escape_inverse. Qed.
Print Assumptions C11_query_escape_inverse.

(* url.ParseQuery (Values.Encode m) gives back every (key, value) of m, arbitrary
   bytes in keys and values, keys in sorted order, each key's values in order *)
Theorem C11_parse_encode : forall l, parse_query (values_encode l) = sort_pairs l.
Proof. exact parse_encode. Qed.
Print Assumptions C11_parse_encode.

(* Query mode (response_mode=query, or the default of a code response type): for
   every parsed redirect URI, every parameter list, the user agent that cuts the
   Location at '#' and '?' finds the redirect target untouched and, in the raw
   query, exactly the redirect URI's own parameters plus the new ones: as a whole
   (stable-sorted by key) and per key (old values first, order kept). *)
Theorem C11_query_mode : forall u rtype rmode params,
  url_wf u = true -> expected_channel rtype rmode = ChQuery ->
  let loc := auth_response_url u rtype rmode params in
  ua_base loc = u_prefix u
  /\ ua_query loc = sort_pairs (parse_query (u_raw_query u) ++ params)
  /\ forall k, vals k (ua_query loc) = vals k (parse_query (u_raw_query u)) ++ vals k params.
Proof. exact query_mode. Qed.
Print Assumptions C11_query_mode.

(* Fragment mode (response_mode=fragment, or the default of the implicit response
   types), after fix F08: the raw fragment is the once-encoded parameter string,
   the user agent reads exactly the parameters out of it, and the redirect URI's
   query is still there. *)
Theorem C11_fragment_mode : forall u rtype rmode params,
  url_wf u = true -> expected_channel rtype rmode = ChFragment ->
  let loc := auth_response_url u rtype rmode params in
  ua_base loc = u_prefix u
  /\ ua_raw_fragment loc = values_encode params
  /\ ua_fragment loc = sort_pairs params
  /\ ua_query loc = parse_query (u_raw_query u).
Proof. exact fragment_mode. Qed.
Print Assumptions C11_fragment_mode.

(* form_post: a value that HTML text can carry at all (well-formed UTF-8, no NUL,
   no CR - the explicit guard [text_ok]) comes back unchanged when the user agent
   decodes the document, normalises newlines and resolves character references
   in the attribute html/template wrote. *)
Theorem C11_form_post_roundtrip : forall v, text_ok v = true -> ua_attr (attr_escape v) = v.
Proof. exact ua_attr_escape. Qed.
Print Assumptions C11_form_post_roundtrip.

(* form_post: for EVERY byte string (no guard needed) the escaped attribute has no
   quote, apostrophe or angle bracket, and each '&' starts one of the six
   references the escaper writes: nothing can leave the attribute. *)
Theorem C11_form_post_no_breakout : forall v, attr_inert (attr_escape v) = true.
Proof. exact attr_escape_inert. Qed.
Print Assumptions C11_form_post_no_breakout.

(* form_post: whatever string is passed as redirect URI, the action attribute is
   inert; for an http/https/mailto/relative URI made of URL code points it is the
   redirect URI itself. *)
Theorem C11_form_post_action : forall redirect,
  attr_inert (form_action redirect) = true
  /\ (is_safe_url redirect = true -> url_clean redirect = true ->
      ua_attr (form_action redirect) = redirect).
Proof. exact (fun r => conj (form_action_inert r) (form_action_roundtrip r)). Qed.
Print Assumptions C11_form_post_action.

(* The property predicate holds on the model for every call of AuthResponseURL,
   AuthResponseFormPost, AuthResponseCode and AuthRequestError whose input meets
   the guard [wf]: the rendered redirect target has no '?'/'#' and the raw query
   no '#' (url.Parse / URL.String guarantee both); for calls through
   http.Redirect target and query are ASCII; for form_post the redirect URI is an
   http/https/mailto/relative URI of URL code points.
   The statement WITHOUT the scheme guard ("forall i, spec i (model i) = true"
   for form_post with any redirect URI) is false - finding F23, next theorem. *)
Theorem C11_response_intact_partial : forall i, wf i = true -> spec i (model i) = true.
Proof. exact spec_model_partial. Qed.
Print Assumptions C11_response_intact_partial.

(* Sequences on one process: what is owed for a request, and what the model
   answers, does not depend on an earlier response whose write failed. (The
   correspondence run interleaves such failed writes and requires the real
   library to agree.) *)
Theorem C11_history_independent : forall prev n i,
  model (IAfter prev n i) = model i /\ (forall o, spec (IAfter prev n i) o = spec i o).
Proof. exact history_independent. Qed.
Print Assumptions C11_history_independent.

(* Calls overlapping in time on one provider (one held inside the library while
   the other runs): what is owed for a request, and what the model answers, does
   not depend on the other call.  (The correspondence run drives such overlaps -
   nested and crossed - through GET /authorize/callback on both routers and
   requires the real library to agree.) *)
Theorem C11_overlap_independent : forall other i,
  model (IOverlap other i) = model i /\ (forall o, spec (IOverlap other i) o = spec i o).
Proof. exact overlap_independent. Qed.
Print Assumptions C11_overlap_independent.

(* Why that is owed of AuthRequestError: it writes the request's state and
   session_state into an error object (SSet) and encodes that object later
   (SEnc).  When every call works on its own object, then under EVERY schedule
   of the steps of any number of callbacks (each callback encodes after it
   wrote) every callback encodes the values of its own request ... *)
Theorem C11_overlap_isolated : forall req m s,
  program_order [] s = true -> own_values req (run_sched PerCall req m s).
Proof. exact per_call_isolated. Qed.
Print Assumptions C11_overlap_isolated.

(* ... and with one object shared by all calls there is a schedule (the crossed
   one the run drives) in which a callback encodes another request's state. *)
Theorem C11_overlap_shared_object_refuted :
  exists req m s, program_order [] s = true /\ ~ own_values req (run_sched Shared req m s).
Proof. exact shared_object_refuted. Qed.
Print Assumptions C11_overlap_shared_object_refuted.

(* The inbound side: a client that writes its authorization request in the standard
   encoding (url.Values.Encode) is never refused for the encoding and the provider
   reads exactly the parameters written - the state among them - whether the
   request is a GET (query) or a POST (urlencoded body); the decoder's reading of a
   field does not depend on Encode's sorting as long as no other parameter name
   differs from the field's name by case only (see Fxx-C11-2 below). *)
Theorem C11_inbound_standard_encoding : forall l,
  inbound_form false (values_encode l) "" = Some (sort_pairs l)
  /\ inbound_form true "" (values_encode l) = Some (sort_pairs l)
  /\ forall k, fold_lower k = k ->
       (forall p, In p l -> fold_lower (fst p) = k -> fst p = k) ->
       field_value k (sort_pairs l) = field_value k l.
Proof. exact inbound_standard_encoding. Qed.
Print Assumptions C11_inbound_standard_encoding.

(* Fxx-C11-2 (recorded, open): the form decoder matches parameter names with
   strings.EqualFold; a request without state but with a parameter "State" is
   answered with state = that value. *)
Theorem C11_inbound_key_case_refuted : exists i, spec i (model i) = false.
Proof. exact inbound_key_case_refuted. Qed.
Print Assumptions C11_inbound_key_case_refuted.

(* F23 (recorded, open): form_post with a custom-scheme redirect URI posts to
   "#ZgotmplZ", not to the redirect URI. *)
Theorem C11_form_post_custom_scheme_refuted : exists i, spec i (model i) = false.
Proof. exact form_post_custom_scheme_refuted. Qed.
Print Assumptions C11_form_post_custom_scheme_refuted.
