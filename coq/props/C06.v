(* C06 property theorems. Nothing but statements closed by [exact]. *)
From OIDC Require Import Lib Base64 Base64_proofs Cipher C02_Jws C01_Verifier C02_Verifiers
     C06_Token C06_Grant C06_spec C06_proofs C06_model_proofs C06_history_proofs.

(* The provider's readers (userinfo/introspection, revocation, token exchange;
   after fix F15) return exactly (token id, subject) for the opaque token made
   from them - for EVERY subject, colons included, any IV and block cipher. *)
Theorem C06_opaque_roundtrip : forall (E : list nat -> list nat),
  (forall b, List.length (E b) = 16) -> (forall b, all_bytesP (E b)) ->
  forall iv tid sub, List.length iv = 16 -> all_bytesP iv -> no_colon tid = true ->
  reader E (mk_bearer E iv tid sub) = Some (tid, sub).
Proof. exact opaque_roundtrip. Qed.
Print Assumptions C06_opaque_roundtrip.

(* Every ID token of every flow's response (kid = the key Storage.SigningKey answered
   inside CreateIDToken, kat = the one it answered inside CreateJWT; they differ when the
   storage rotates in between): header, signature AND hash family from that one key kid; iss, aud,
   azp, sub, nonce, acr, amr, auth_time from the request; iat = now - skew,
   exp - iat = lifetime + 2 skew; at_hash / c_hash over the access token and code of
   this very response; every standard claim group (profile, email, phone, address)
   only if its scope is among [granted] = id_scopes: request scopes minus the client's
   restriction, minus all userinfo scopes when an access token travels along and
   the assertion flag is off (token exchange: the request's scopes); any other claim
   is a custom claim <n> of a granted scope custom:<n>. *)
Theorem C06_id_token_claims :
  forall (H : hkind -> string -> list nat) (E : list nat -> list nat)
         issuer f cl kat kid u rq state ids en now j ic,
    let r := create_token_response H E issuer f cl kat kid u rq state ids en now in
    r_id r = Some (j, ic) ->
    j = sign_desc kid
    /\ i_iss ic = issuer
    /\ string_in (cl_id cl) (i_aud ic) = true
    /\ i_azp ic = cl_id cl
    /\ i_sub ic = rq_sub rq
    /\ i_nonce ic = (if is_auth_request f then rq_nonce rq else "")
    /\ i_acr ic = (if is_auth_request f then rq_acr rq else "")
    /\ i_amr ic = (if is_exchange f then [] else rq_amr rq)
    /\ i_auth_time ic = (if is_exchange f then (sec now - cl_skew cl)%Z
                         else shifted_auth_time (rq_auth_time rq) (cl_skew cl))
    /\ i_iat ic = (sec now - cl_skew cl)%Z
    /\ (i_exp ic - i_iat ic = cl_id_life cl + 2 * cl_skew cl)%Z
    /\ i_at_hash ic = (if access_wire (r_access r) =s "" then ""
                       else claim_hash H (sk_alg kid) (access_wire (r_access r)))
    /\ i_c_hash ic = (if flow_code f =s "" then "" else claim_hash H (sk_alg kid) (flow_code f))
    /\ (let g := granted f cl rq (access_wire (r_access r)) in
        (i_name ic <> "" \/ i_username ic <> "" -> string_in "profile" g = true)
        /\ (i_email ic <> "" \/ i_email_verified ic = true -> string_in "email" g = true)
        /\ (i_phone ic <> "" \/ i_phone_verified ic = true -> string_in "phone" g = true)
        /\ (i_addr ic <> "" -> string_in "address" g = true)
        /\ (forall e, In e (i_extra ic) -> string_in ("custom:" ++ fst e)%string g = true)).
Proof. exact id_token_claims. Qed.
Print Assumptions C06_id_token_claims.

(* ... and the relying party's check sequence (C01 model: rp.VerifyIDToken and
   rp.VerifyTokens incl. at_hash) accepts it against the published key set, for
   any signature oracle that accepts the provider key's own signatures, for any
   published key set in which exactly one key has the signing key's kid, a signature
   use ("sig" or none) and its type and is its public key (any order, any further
   keys), whenever the configuration is consistent: algorithm allowed, offset >= -skew,
   offset + 2 s <= lifetime + skew, expected nonce/acr, verified within 1 s. *)
Theorem C06_id_token_verifies :
  forall (verify : jwk -> sigentry -> string -> bool) (H : hkind -> string -> list nat)
         (E : list nat -> list nat) issuer f cl kat kid keys u rq state ids en now j ic v vnow,
    let r := create_token_response H E issuer f cl kat kid u rq state ids en now in
    r_id r = Some (j, ic) ->
    sign_complete verify kid -> key_ok kid = true -> published_once kid keys = true ->
    hash_of_alg (sk_alg kid) <> None ->
    rq_sub rq <> "" -> cl_id cl <> "" ->
    rp_consistent issuer f cl kid rq v now vnow ->
    let ks := KSOpenID (Some (served_keys keys)) in
    verify_id_token verify v ks (sym_token j) (MidOk "P" (to_c01 ic)) vnow = Accept (to_c01 ic) (sk_alg kid)
    /\ verify_tokens verify H v ks (sym_token j) (MidOk "P" (to_c01 ic)) (access_wire (r_access r)) vnow
       = Accept (to_c01 ic) (sk_alg kid).
Proof. exact id_token_verifies. Qed.
Print Assumptions C06_id_token_verifies.

(* Custom claims cannot replace registered ones.  The storage names its custom
   claims as it likes (custom:<n> -> claim <n>, ANY string n).  In every ID token of
   every response no surviving custom claim has a name that folds - ASCII case,
   U+017F (long s) = s, U+212A (Kelvin sign) = k, i.e. the way strings.EqualFold and
   encoding/json's member matching compare with an ASCII name - to the name of a
   registered member that is written into that token; and iss, sub, aud, azp,
   client_id, exp, iat always are.  So the library's own (case-insensitive) decoder
   reads issuer, subject, audience ... of the request, whatever the storage's claim
   names are. *)
Theorem C06_custom_claims_never_shadow :
  forall (H : hkind -> string -> list nat) (E : list nat -> list nat)
         issuer f cl kat kid u rq state ids en now j ic,
    let r := create_token_response H E issuer f cl kat kid u rq state ids en now in
    r_id r = Some (j, ic) ->
    (forall e n, In e (i_extra ic) -> In n (id_written ic) -> fold_eq (fst e) n = false)
    /\ (issuer <> "" -> rq_sub rq <> "" -> cl_id cl <> "" ->
        (0 < sec now - cl_skew cl)%Z -> (0 < sec now + cl_skew cl + cl_id_life cl)%Z ->
        (forall n, In n id_core_names -> In n (id_written ic))
        /\ (forall e n, In e (i_extra ic) -> In n id_core_names -> fold_eq (fst e) n = false)).
Proof. exact id_custom_never_shadows. Qed.
Print Assumptions C06_custom_claims_never_shadow.

(* The marshalled claims document = written members, then the surviving custom
   claims: any entry whose key folds to a written member's name is that member's
   own entry - for every member list and every custom claim list. *)
Theorem C06_merged_document_members :
  forall (reg custom : list (string * string)) k v n,
    In (k, v) (reg ++ merge_registered (map fst reg) custom) ->
    In n (map fst reg) -> fold_eq k n = true -> In (k, v) reg.
Proof. exact merged_document_members. Qed.
Print Assumptions C06_merged_document_members.

(* The audience of an ID token: the request's audience, and the client is appended
   unless the audience holds EXACTLY the client id - a case variant of it, the id
   with white space or a trailing slash around it is another party. *)
Theorem C06_audience_exact :
  forall client aud,
    string_in client (append_client client aud) = true
    /\ (string_in client aud = false -> append_client client aud = aud ++ [client])
    /\ (string_in client aud = true -> append_client client aud = aud).
Proof. exact audience_exact. Qed.
Print Assumptions C06_audience_exact.

(* JWT access tokens: iss, sub, aud, client_id from the request / client (the request's FINAL
   subject and scopes - in a token exchange the storage may have retargeted them away from the
   presented subject_token's; act names the presented actor), jti and exp
   = the storage's token id and expiry, iat = nbf = now - skew, private claims only
   for granted custom scopes and never under a name that folds (ASCII case, U+017F = s,
   U+212A = k) to a registered member the token carries; op.VerifyAccessToken (C02 model)
   accepts them. *)
Theorem C06_access_jwt_verifies :
  forall (verify : jwk -> sigentry -> string -> bool) (H : hkind -> string -> list nat)
         (E : list nat -> list nat) issuer f cl kat kid keys u rq state ids en now w j a algs vnow,
    let r := create_token_response H E issuer f cl kat kid u rq state ids en now in
    r_access r = AJwt w j a ->
    let cl' := eff_client f rq cl in
    j = sign_desc kat
    /\ a_iss a = issuer /\ a_sub a = rq_sub rq
    /\ a_aud a = (match rq_aud rq with [] => [cl_id cl'] | l => l end)
    /\ a_client_id a = cl_id cl'
    /\ a_jti a = token_id f cl' rq ids
    /\ a_exp a = st_exp now (cl_at_life cl')
    /\ a_iat a = (sec now - cl_skew cl')%Z /\ a_nbf a = a_iat a
    /\ (forall e, In e (a_extra a) ->
          (if is_exchange f then e = ("act", act_json (rq_actor rq)) /\ rq_actor rq <> ""
           else string_in ("custom:" ++ fst e)%string (restrict (cl_drop_at cl') (rq_scopes rq)) = true)
          /\ forall n, In n (at_written a) -> fold_eq (fst e) n = false)
    /\ (sign_complete verify kat -> key_ok kat = true -> published_once kat keys = true ->
        string_in (sk_alg kat) (effective_algs algs) = true ->
        (0 <= vnow)%Z -> (vnow < st_exp now (cl_at_life cl') * ns)%Z ->
        verify_access_token verify (mkVerifier issuer "" 0 0 0 None None algs)
                            (KSOpenID (Some (served_keys keys)))
                            (sym_token j) (MidOk "P" (at_to_c01 a)) vnow = Accept (at_to_c01 a) (sk_alg kat)).
Proof. exact access_jwt_verifies. Qed.
Print Assumptions C06_access_jwt_verifies.

(* scope = the request's (= stored) scopes; expires_in = stored expiry + skew - now
   (rounded down); refresh token exactly when the flow needs one *)
Theorem C06_response_fields :
  forall (H : hkind -> string -> list nat) (E : list nat -> list nat)
         issuer f cl kat kid u rq state ids en now,
    let r := create_token_response H E issuer f cl kat kid u rq state ids en now in
    let cl' := eff_client f rq cl in
    r_scope r = rq_scopes rq
    /\ (has_access f = true ->
        (st_exp now (cl_at_life cl') + cl_skew cl' - sec now - 1 <= r_expires_in r
         <= st_exp now (cl_at_life cl') + cl_skew cl' - sec now)%Z
        /\ r_refresh r = (if needs_refresh f cl' (rq_scopes rq) then id_rt ids else ""))
    /\ (has_access f = false -> r_expires_in r = 0%Z /\ r_refresh r = "" /\ r_access r = ANone).
Proof. exact response_fields. Qed.
Print Assumptions C06_response_fields.

(* the property predicate holds of the modelled response and of what the modelled
   verifiers / readers say about it, for every well-formed case (all flows,
   token types, keys, skews, lifetimes, scope sets, consistent or not) *)
Theorem C06_spec_model : forall c, wf c = true -> spec (ICase c) (model (ICase c)) = true.
Proof. exact spec_model. Qed.
Print Assumptions C06_spec_model.

Theorem C06_spec_model_nonvacuous :
  wf ex_case = true /\ consistent ex_case = true
  /\ (exists j ic, r_id (model_response ex_case) = Some (j, ic) /\ i_sub ic = "tenant:alice"
                   /\ i_at_hash ic <> "" /\ i_c_hash ic <> "")
  /\ (exists w, r_access (model_response ex_case) = AOpaque w)
  /\ r_refresh (model_response ex_case) = "rt2".
Proof. exact spec_model_nonvacuous. Qed.
Print Assumptions C06_spec_model_nonvacuous.

(* a rotation between the two SigningKey calls of one response *)
Theorem C06_spec_model_rotation_nonvacuous :
  wf ex_case_rot = true /\ consistent ex_case_rot = true /\ at_consistent ex_case_rot = true
  /\ (exists w a, r_access (model_response ex_case_rot) = AJwt w (mkJ "ES384" "sig-1" "JWT" (Some 4%N)) a)
  /\ (exists ic, r_id (model_response ex_case_rot) = Some (mkJ "RS256" "sig-1-next" "JWT" (Some 0%N), ic)
                 /\ i_at_hash ic = claim_hash (lookup_hash (cs_hashes ex_case_rot)) "RS256" "h.p.s"
                 /\ i_addr ic = "").
Proof. exact spec_model_rotation_nonvacuous. Qed.
Print Assumptions C06_spec_model_rotation_nonvacuous.

(* ---- round 11: histories of requests on one grant; requests without an authentication time ---- *)

(* The refresh_token grant at the END OF ANY HISTORY of refresh requests on one grant (g0 = the
   scopes of the authorization; every earlier request with its scope parameter, made by the
   grant's client or by another one; accepted requests rotate the token, which then stands for
   the narrowed scopes): whatever is issued is for scopes of the original authorization; a
   scope parameter is honoured exactly; without one the scopes are what the presented token
   stands for. *)
Theorem C06_refresh_within_grant :
  forall g0 earlier requested s,
    refresh_scopes g0 earlier requested = Some s ->
    incl s g0
    /\ (requested <> [] -> s = requested)
    /\ (requested = [] -> s = grant_after g0 earlier).
Proof. exact refresh_within_grant. Qed.
Print Assumptions C06_refresh_within_grant.

(* A refused request - another client presents the token, or a scope beyond what the token
   stands for is asked (ValidateRefreshTokenScopes sets nothing before every scope is checked) -
   can be struck from any history: the grant, and the outcome of every later request, are the
   same as if it had never been made.  (Also for a storage that hands out its live record.) *)
Theorem C06_refused_request_leaves_grant :
  forall g0 pre e post requested,
    (e_owner e = false \/ validate_refresh_scopes (e_scopes e) (grant_after g0 pre) = None) ->
    grant_after g0 (pre ++ e :: post) = grant_after g0 (pre ++ post)
    /\ refresh_scopes g0 (pre ++ e :: post) requested = refresh_scopes g0 (pre ++ post) requested.
Proof. exact refused_request_leaves_grant. Qed.
Print Assumptions C06_refused_request_leaves_grant.

(* ... and the modelled response at the end of a history: response scope, stored scopes, the
   user claims and the custom claims of its ID token all belong to scopes of the authorization. *)
Theorem C06_refreshed_tokens_within_grant :
  forall g0 earlier requested c r k,
    is_exchange (cs_flow c) = false ->
    model (IRefreshed g0 earlier requested c) = OResp r k ->
    incl (r_scope r) g0
    /\ (forall id e sc, k_stored k = Some (id, e, sc) -> incl sc g0)
    /\ (forall j ic, r_id r = Some (j, ic) ->
          (i_name ic <> "" \/ i_username ic <> "" -> In "profile" g0)
          /\ (i_email ic <> "" \/ i_email_verified ic = true -> In "email" g0)
          /\ (i_phone ic <> "" \/ i_phone_verified ic = true -> In "phone" g0)
          /\ (i_addr ic <> "" -> In "address" g0)
          /\ (forall x, In x (i_extra ic) -> In ("custom:" ++ fst x)%string g0)).
Proof. exact refreshed_tokens_within_grant. Qed.
Print Assumptions C06_refreshed_tokens_within_grant.

(* the property predicate (whose "granted" is RFC 6749 section 6 read on the history: refused
   requests count for nothing) holds of the model at the end of every history *)
Theorem C06_spec_model_refreshed :
  forall g0 earlier requested c,
    (forall s, refresh_scopes g0 earlier requested = Some s -> wf (with_scopes c s) = true) ->
    spec (IRefreshed g0 earlier requested c) (model (IRefreshed g0 earlier requested c)) = true.
Proof. exact spec_model_refreshed. Qed.
Print Assumptions C06_spec_model_refreshed.

Theorem C06_refresh_history_nonvacuous :
  (ex_beyond = mkEarlier true ["openid"; "email"; "phone"] /\ ex_other = mkEarlier false ["openid"]
   /\ ex_g0 = ["openid"; "profile"; "offline_access"])
  /\ refresh_scopes ex_g0 [ex_beyond; ex_other] [] = Some ex_g0
  /\ refresh_scopes ex_g0 [ex_beyond; ex_narrow] [] = Some ["openid"; "offline_access"]
  /\ refresh_scopes ex_g0 [ex_narrow] ["profile"] = None
  /\ wf (with_scopes ex_refresh_case ex_g0) = true
  /\ (exists r k, model (IRefreshed ex_g0 [ex_beyond; ex_other] [] ex_refresh_case) = OResp r k
                  /\ r_scope r = ex_g0
                  /\ exists j ic, r_id r = Some (j, ic) /\ i_name ic = "Alice" /\ i_email ic = "")
  /\ model (IRefreshed ex_g0 [ex_narrow] ["profile"] ex_refresh_case) = ONoTokens 400.
Proof. exact refresh_history_nonvacuous_all. Qed.
Print Assumptions C06_refresh_history_nonvacuous.

(* A request that records no authentication (GetAuthTime() is Go's zero time) never yields an
   ID token that asserts one: auth_time is absent (skew 0) or that zero time moved by the skew -
   nothing after the Unix epoch, in particular never the time of issuance.  A recorded
   authentication time is asserted as it is, moved by the skew. *)
Theorem C06_auth_time_only_from_request :
  forall (H : hkind -> string -> list nat) (E : list nat -> list nat)
         issuer f cl kat kid u rq state ids en now j ic,
    r_id (create_token_response H E issuer f cl kat kid u rq state ids en now) = Some (j, ic) ->
    is_exchange f = false ->
    (rq_auth_time rq = 0%Z ->
       (cl_skew cl = 0%Z -> i_auth_time ic = 0%Z)
       /\ (i_auth_time ic = 0%Z \/ i_auth_time ic = (zero_unix - cl_skew cl)%Z)
       /\ ((zero_unix <= cl_skew cl)%Z -> (i_auth_time ic <= 0)%Z /\ (0 < i_iat ic -> i_auth_time ic < i_iat ic)%Z))
    /\ (rq_auth_time rq <> 0%Z -> i_auth_time ic = (rq_auth_time rq - cl_skew cl)%Z).
Proof. exact auth_time_only_from_request. Qed.
Print Assumptions C06_auth_time_only_from_request.
