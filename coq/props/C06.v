(* C06 property theorems. Nothing but statements closed by [exact]. *)
From OIDC Require Import Lib C06_spec.
