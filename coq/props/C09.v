(* C09 property theorems. Nothing but statements closed by [exact].
   The model follows the code with the repairs F01, F02, F03, F06, F12, F17 applied;
   each *_refuted statement is the witness of the defect in the unrepaired code. *)
From OIDC Require Import Lib C09_Json C09_Codec C09_Verifier C09_Handler C09_Client C09_Crypto C09_spec C09_proofs.

(* (a) every decoder, on every JSON value and whatever time.Parse / language.Parse answer:
   Audience, Time, Locale, Locales, Bool, SpaceDelimitedArray, nested actor claims, and
   every struct decoded over a field table never reach an unchecked assertion / nil dereference *)
Theorem C09_decoders_total :
  forall (rfc3339_ok : string -> bool) (lang_class : string -> nat) (j : json),
    decode_audience true j <> Panic /\ decode_time rfc3339_ok j <> Panic /\
    decode_locale lang_class j <> Panic /\ decode_locales j <> Panic /\
    decode_bool j <> Panic /\ decode_sda j <> Panic /\ actor_field j <> Panic /\
    forall sc multi, decode_struct rfc3339_ok lang_class true sc multi j <> Panic.
Proof. exact decoders_total. Qed.
Print Assumptions C09_decoders_total.

(* Fxx-C09-1: DeviceAuthorizationResponse.UnmarshalJSON, every JSON value (null included), top-level or as a member *)
Theorem C09_device_authz_response_total :
  forall (rfc3339_ok : string -> bool) (lang_class : string -> nat) (j : json),
    decode_device_authz rfc3339_ok lang_class true j <> Panic.
Proof. exact decoders_device_authz. Qed.
Print Assumptions C09_device_authz_response_total.

(* ... decoding through &aux instead of aux: JSON null resets the helper pointer, which is then read *)
Theorem C09_device_authz_response_refuted :
  forall (rfc3339_ok : string -> bool) (lang_class : string -> nat),
    exists j, decode_device_authz rfc3339_ok lang_class false j = Panic.
Proof. exact device_authz_indirect_refuted. Qed.
Print Assumptions C09_device_authz_response_refuted.

(* F01: with the unchecked element assertion, aud = ["a",1] panics *)
Theorem C09_audience_unchecked_refuted : exists j, decode_audience false j = Panic.
Proof. exact audience_unchecked_refuted. Qed.
Print Assumptions C09_audience_unchecked_refuted.

(* (b) every verifier entry point, every token shape (segments, base64, payload not JSON /
   null / scalar / array / object with any members): the claims pointer is never nil when used *)
Theorem C09_verifiers_total :
  forall (rfc3339_ok : string -> bool) (lang_class : string -> nat) (k : vkind) (t : token),
    verify rfc3339_ok lang_class true true k t <> VPanic.
Proof. exact verify_total. Qed.
Print Assumptions C09_verifiers_total.

(* the callers of op.VerifyIDTokenHint (end_session, authorize): whatever the signed hint's issuer, signature, exp and iat
   are, the claims read after a tolerated (expiry-related) failure are not nil *)
Theorem C09_hint_callers_total : forall c h, hint_caller true c h <> HPanic.
Proof. exact hints_total. Qed.
Print Assumptions C09_hint_callers_total.

(* seeded regression: returning nil claims with the tolerated error for a missing / future iat panics the callers *)
Theorem C09_hint_nil_claims_refuted : exists c h, hint_caller false c h = HPanic.
Proof. exact hint_nil_claims_refuted. Qed.
Print Assumptions C09_hint_nil_claims_refuted.

(* F02: without the object guard in ParseToken a null payload panics rp.VerifyIDToken *)
Theorem C09_verifiers_unguarded_refuted :
  forall (rfc3339_ok : string -> bool) (lang_class : string -> nat),
    exists k t, verify rfc3339_ok lang_class false true k t = VPanic.
Proof. exact verifiers_unguarded_refuted. Qed.
Print Assumptions C09_verifiers_unguarded_refuted.

(* (c) both routers and the directly called handler functions, every request shape, with or
   without a failing first storage call; and valid revocation / introspection / userinfo requests
   whose k-th storage call fails: exactly one error response, or the grant logic answers *)
Theorem C09_handlers_total :
  (forall s : shape, match handler true s with OResp _ _ | OGrant | OFault => True | _ => False end) /\
  (forall x : xshape, match xhandler true x with OResp _ _ | OGrant | OFault => True | _ => False end) /\
  (forall x : cshape, match chandler true x with OResp _ _ | OGrant | OFault => True | _ => False end).
Proof. exact handlers_total. Qed.
Print Assumptions C09_handlers_total.

(* error written => nothing after it runs: every check and every storage-error exit of every
   handler returns after answering, and a returning failed check / failed storage call ends the
   run whatever follows it *)
Theorem C09_error_then_stop :
  (forall s : shape, forallb returns (checks true s) = true) /\
  (forall x : xshape, forallb returns (xchecks true x) = true) /\
  (forall pre st c post, forallb passes pre = true -> run (pre ++ CFail st c true :: post) = OResp st c) /\
  (forall pre post, forallb passes pre = true -> run (pre ++ CStore true true true :: post) = OFault).
Proof. exact error_then_stop. Qed.
Print Assumptions C09_error_then_stop.

(* seeded regression: op.Revoke not returning after the 500 for a failed GetRefreshTokenInfo goes on *)
Theorem C09_revoke_unfixed_refuted : exists x, xhandler false x = OContinued.
Proof. exact revoke_unfixed_refuted. Qed.
Print Assumptions C09_revoke_unfixed_refuted.

(* seeded regression: a mismatch message that reads challenge.Method panics LegacyServer.CodeExchange when a
   code_verifier arrives for a request stored without a challenge *)
Theorem C09_code_nil_challenge_refuted : exists x, chandler false x = OPanic.
Proof. exact code_nil_challenge_refuted. Qed.
Print Assumptions C09_code_nil_challenge_refuted.

(* F03: without the return after the parse error, Basic credentials with a bad escape panic CodeExchange *)
Theorem C09_handlers_unfixed_refuted : exists s, handler false s = OPanic.
Proof. exact handlers_unfixed_refuted. Qed.
Print Assumptions C09_handlers_unfixed_refuted.

(* (d) client helpers, every status / body a provider may answer with; and the device flow:
   whatever poll interval the device authorization answer carries (absent, 0, negative, huge) *)
Theorem C09_client_total :
  forall (rfc3339_ok : string -> bool) (lang_class : string -> nat),
    (forall h a expect, call rfc3339_ok lang_class true h a expect <> CPanic) /\
    (forall dev tok, device_flow rfc3339_ok lang_class true dev tok <> CPanic).
Proof. exact client_total. Qed.
Print Assumptions C09_client_total.

(* seeded regression: waiting with time.NewTicker(interval) panics when the answer has no / a non-positive interval *)
Theorem C09_device_ticker_refuted :
  forall (rfc3339_ok : string -> bool) (lang_class : string -> nat),
    exists dev tok, device_flow rfc3339_ok lang_class false dev tok = CPanic.
Proof. exact device_ticker_refuted. Qed.
Print Assumptions C09_device_ticker_refuted.

(* opening an opaque token: every make-up of the string (alphabet characters, skipped CR / LF, other characters) *)
Theorem C09_opaque_total : forall t : otoken, decrypt_aes true t <> Panic.
Proof. exact decrypt_total. Qed.
Print Assumptions C09_opaque_total.

(* seeded regression: testing the minimum length on the encoded string lets "QUJD" + 18 line feeds through to cipherText[:16] *)
Theorem C09_opaque_encoded_check_refuted : exists t, decrypt_aes false t = Panic.
Proof. exact opaque_encoded_check_refuted. Qed.
Print Assumptions C09_opaque_encoded_check_refuted.

(* a helper reports success only for a 200 answer whose whole body is one JSON document
   (trailing bytes after a complete value are an error) *)
Theorem C09_client_success_only_on_documents :
  forall (rfc3339_ok : string -> bool) (lang_class : string -> nat) h a e,
    call rfc3339_ok lang_class true h a e = CRetOk -> a_ok a = true /\ exists j, a_body a = BJson j.
Proof. exact client_success_only_on_documents. Qed.
Print Assumptions C09_client_success_only_on_documents.

(* seeded regression: growing the read buffer to the announced Content-Length panics on an absurd one *)
Theorem C09_client_presize_refuted :
  forall (rfc3339_ok : string -> bool) (lang_class : string -> nat),
    exists h a, http_request_from rfc3339_ok lang_class true true h a = Panic.
Proof. exact presize_refuted. Qed.
Print Assumptions C09_client_presize_refuted.

(* F12: without the null guard in HttpRequest, a 200 answer with body null panics client.Discover *)
Theorem C09_client_unguarded_refuted :
  forall (rfc3339_ok : string -> bool) (lang_class : string -> nat),
    exists h a e, call rfc3339_ok lang_class false h a e = CPanic.
Proof. exact client_unguarded_refuted. Qed.
Print Assumptions C09_client_unguarded_refuted.

(* (e) header values: op.getAccessToken on the very bytes of the Authorization header - for every header and
   every behaviour of strings.ToLower - never slices out of range, and the userinfo endpoint answers it once *)
Theorem C09_bearer_total :
  forall (lower : string -> string) (token_ok : string -> bool) (h : string),
    get_access_token lower false h <> Panic /\
    match bearer_userinfo lower token_ok false h with OResp _ _ | OGrant => True | _ => False end.
Proof. exact bearer_total. Qed.
Print Assumptions C09_bearer_total.

(* what is handed on as the access token is exactly what follows the scheme word in the header *)
Theorem C09_bearer_token_is_suffix :
  forall (lower : string -> string) (h t : string),
    get_access_token lower false h = Ok t -> exists before, h = String.append before (String.append "Bearer " t).
Proof. exact get_access_token_suffix. Qed.
Print Assumptions C09_bearer_token_is_suffix.

(* matching the scheme on a lower-cased copy and slicing the original at that offset is safe exactly under the
   assumption it makes: lower-casing preserves the byte length ... *)
Theorem C09_bearer_ci_safe_if_length_preserved :
  forall (lower : string -> string) (h : string),
    (forall s, String.length (lower s) = String.length s) -> get_access_token lower true h <> Panic.
Proof. exact get_access_token_ci_safe. Qed.
Print Assumptions C09_bearer_ci_safe_if_length_preserved.

(* ... which strings.ToLower does not (0xFF -> U+FFFD): seeded regression, "\xff\xff\xff\xff Bearer abc" *)
Theorem C09_bearer_ci_refuted : exists h, get_access_token lower_ff true h = Panic.
Proof. exact bearer_ci_refuted. Qed.
Print Assumptions C09_bearer_ci_refuted.

(* (c') client authentication by client_assertion: every endpoint that accepts client credentials, both routers,
   private_key_jwt enabled or not, assertion type jwt-bearer / absent / other, assertion absent / valid / failing
   before or at the key lookup, with or without Basic credentials: one error response or the grant logic *)
Theorem C09_client_auth_total :
  forall a : ashape, match ahandler all_return a with OResp _ _ | OGrant => True | _ => False end.
Proof. exact client_auth_total. Qed.
Print Assumptions C09_client_auth_total.

(* an assertion that does not verify ends the run at the caller of VerifyJWTAssertion, whatever follows *)
Theorem C09_assertion_error_then_stop :
  forall s a st c pre post,
    verifies a = false -> forallb passes pre = true ->
    run (pre ++ verify_assertion all_return s a st c ++ post) = OResp st c.
Proof. exact verify_assertion_stops. Qed.
Print Assumptions C09_assertion_error_then_stop.

(* each of the three returns (AuthorizePrivateJWTKey, ClientJWTAuth, ParseTokenRevocationRequest) is needed:
   without it a generated request reads the nil profile (seeded regression: the revocation endpoint) *)
Theorem C09_assertion_every_return_needed :
  forall s : asite, exists a, ashape_wf a = true /\ ahandler (all_but s) a = OPanic.
Proof. exact every_assertion_return_needed. Qed.
Print Assumptions C09_assertion_every_return_needed.

(* (c'') request objects at the authorization endpoint, both routers, GET and POST, RequestObjectSupported on / off,
   whatever the token parses to, each claim check and the signature passing or failing: refused or accepted, and
   accepted exactly when the parameter is empty (treated as absent) or the option is on, the claims are consistent and the
   signature verifies *)
Theorem C09_request_objects_total :
  forall r : rshape, ro_handler true r = HRefused \/ ro_handler true r = HAccepted.
Proof. exact ro_handler_total. Qed.
Print Assumptions C09_request_objects_total.

Theorem C09_request_object_accept_iff :
  forall r : rshape,
    ro_handler true r = HAccepted <->
    ro_empty r || (ro_supported r && ro_parses r && ro_cid_ok r && ro_rt_ok r && ro_iss_ok r && ro_aud_ok r && ro_sig_ok r) = true.
Proof. exact ro_accept_iff. Qed.
Print Assumptions C09_request_object_accept_iff.

(* seeded regression: claim checks returning *oidc.Error into an `error` variable - consistent claims reach
   AuthRequestError / WriteError with a nil pointer *)
Theorem C09_request_object_typed_nil_refuted : exists r, ro_handler false r = HPanic.
Proof. eexists. exact ro_typed_nil_panics. Qed.
Print Assumptions C09_request_object_typed_nil_refuted.

(* (c3) native clients: whatever is registered (https, http loopback, private-use schemes, unparsable entries, in any order
   and number) and whatever redirect_uri is requested, the redirect stage refuses or accepts; an unregistered URI is accepted
   exactly when it is a loopback URI and some registered loopback URI has its path and query *)
Theorem C09_native_redirect_total :
  forall n : nshape, native_redirect true n = HRefused \/ native_redirect true n = HAccepted.
Proof. exact native_redirect_total. Qed.
Print Assumptions C09_native_redirect_total.

Theorem C09_native_unlisted_accept_iff :
  forall n : nshape, n_listed n = false ->
    (native_redirect true n = HAccepted <-> n_loopback n && existsb reg_matches (n_regs n) = true).
Proof. exact native_unlisted_accept_iff. Qed.
Print Assumptions C09_native_unlisted_accept_iff.

(* seeded regression: equalURI evaluated before the `ok` of HTTPLoopbackOrLocalhost - a private-use scheme in the registration *)
Theorem C09_native_unguarded_refuted : exists n, native_redirect false n = HPanic.
Proof. exact native_unguarded_refuted. Qed.
Print Assumptions C09_native_unguarded_refuted.

(* no client helper hangs: every call returns (the observable CHang - blocked past a watchdog, or blocking the next
   call on the same instance - is never the model's answer) *)
Theorem C09_client_returns :
  forall (rfc3339_ok : string -> bool) (lang_class : string -> nat),
    (forall h a expect, call rfc3339_ok lang_class true h a expect <> CHang) /\
    (forall dev tok, device_flow rfc3339_ok lang_class true dev tok <> CHang).
Proof. exact client_returns. Qed.
Print Assumptions C09_client_returns.

(* layer (c''): client credentials by VALUE (Basic header halves are form-urlencoded and decoded with url.QueryUnescape on
   every endpoint of both routers; form credentials are compared as they arrive) *)
Theorem C09_credentials_total :
  forall k : kshape, cred_handler true true k = HRefused \/ cred_handler true true k = HAccepted.
Proof. exact credentials_total. Qed.
Print Assumptions C09_credentials_total.

(* url.QueryUnescape undoes url.QueryEscape on EVERY byte string (space <-> '+', '+' <-> %2B, '%' <-> %25, any byte <-> %XX) *)
Theorem C09_basic_escape_roundtrip : forall s : string, unescape true (query_escape s) = Ok s.
Proof. exact unescape_query_escape. Qed.
Print Assumptions C09_basic_escape_roundtrip.

(* a client that encodes its registered id and secret the RFC 6749 2.3.1 way is accepted on every endpoint of both routers,
   whatever bytes the id and the secret consist of *)
Theorem C09_basic_conforming_client_accepted :
  forall k : kshape, kshape_wf k = true -> k_sent k = SBasic (basic_payload (k_id k) (k_secret k)) ->
    cred_handler true true k = HAccepted.
Proof. exact cred_conforming_accepted. Qed.
Print Assumptions C09_basic_conforming_client_accepted.

(* acceptance only when what arrives DECODES to the registered id (and, wherever the secret is looked at, the registered
   non-empty secret); in particular a header half with a malformed escape, or without a colon, is never accepted *)
Theorem C09_credentials_accepted_only_registered :
  forall k : kshape, cred_handler true true k = HAccepted ->
    match k_sent k with
    | SBasic p => exists i x, cut_colon p = Some (i, x) /\
                              unescape true i = Ok (k_id k) /\ unescape true x = Ok (k_secret k) /\ k_secret k <> ""
    | SPost i x => i = k_id k /\ (post_mode (k_entry k) (k_ep k) = PIdOnly \/ (x = k_secret k /\ x <> ""))
    end.
Proof. exact cred_accepted_only_registered. Qed.
Print Assumptions C09_credentials_accepted_only_registered.

(* seeded regression: the secret half decoded with url.PathUnescape ('+' stays) refuses a conforming client
   whose secret contains a space *)
Theorem C09_basic_path_unescape_refuted :
  exists k, kshape_wf k = true /\ k_sent k = SBasic (basic_payload (k_id k) (k_secret k)) /\
            cred_handler true false k = HRefused.
Proof. exact basic_path_unescape_refuted. Qed.
Print Assumptions C09_basic_path_unescape_refuted.

(* layer (g): op.RegisterServer over a Server that embeds op.UnimplementedServer and implements an arbitrary SUBSET of the
   interface (u_set); the implemented methods answer as the embedded implementation does (ground truth in the input: the
   trace of its calls on this request and its answer) *)
Theorem C09_partial_server_total :
  forall u : ushape, exists st c t, web_server u = UAns st c t.
Proof. exact web_server_total. Qed.
Print Assumptions C09_partial_server_total.

(* the first method the request reaches outside S answers UnimplementedServer's error - 404 server_error, or 400
   unsupported_grant_type / request_not_supported - and nothing else: no success, no token *)
Theorem C09_partial_server_unimplemented :
  forall (u : ushape) (m : smethod),
    walk (u_set u) (calls (u_route u)) (u_trace u) = Some m ->
    web_server u = unimpl_answer m (u_request_param u) /\ in_set (u_set u) m = false /\ In m (calls (u_route u)) /\
    success (web_server u) = false /\ has_token (web_server u) = false.
Proof. exact web_server_unimplemented. Qed.
Print Assumptions C09_partial_server_unimplemented.

(* for ALL subsets S and all requests: a route one of whose methods is outside S never answers below 400 and never
   hands out a token (whether or not the request gets as far as that method) *)
Theorem C09_partial_server_outside_never_succeeds :
  forall u : ushape, ushape_wf u = true ->
    (exists m, In m (calls (u_route u)) /\ in_set (u_set u) m = false) ->
    success (web_server u) = false /\ has_token (web_server u) = false.
Proof. exact web_server_outside_never_succeeds. Qed.
Print Assumptions C09_partial_server_outside_never_succeeds.

(* a route all of whose methods are in S answers exactly as the embedded implementation (LegacyServer in the correspondence run) *)
Theorem C09_partial_server_inside_as_embedded :
  forall u : ushape, (forall m, In m (calls (u_route u)) -> in_set (u_set u) m = true) -> web_server u = u_full u.
Proof. exact web_server_inside. Qed.
Print Assumptions C09_partial_server_inside_as_embedded.

(* the property predicate holds on the model's answer to every input *)
Theorem C09_spec_model : forall i : input, spec i (model i) = true.
Proof. exact spec_model. Qed.
Print Assumptions C09_spec_model.
