From OIDC Require Import Lib C04_spec.
