(* C04 property theorems: a code yields tokens once, only to its client, redirect URI
   and PKCE proof.  Nothing but statements closed by [exact].
   Vocabulary (coq/theories/C04_OP.v): [step H cf r s o] is one request to router r
   (Provider = op.NewProvider's handlers, Legacy = RegisterLegacyServer(NewLegacyServer))
   over storage state s; [exec H cf ops = (h, s)] runs an operation list from the empty
   storage and returns the history h of events (pre-state, router, operation, answer,
   post-state); H is the S256 transform (arbitrary function), cf the provider
   configuration with its client registrations. [cred_proves cf cr id]
   (C04_Ledger.v): credential cr authenticates confidential client id (secret or verified
   assertion), or names public client id. *)
From OIDC Require Import Lib C04_OP C04_Ledger C04_Hist C04_spec C04_proofs C04_spec_proofs.

(* Every successful code exchange, on either router, in every history: the code came
   out of an earlier callback for a request q that is still stored and completed by an
   earlier login; the caller proves q's client; redirect_uri equals q's; a challenge
   demands a matching verifier; a public client needs a challenge; the tokens carry q's
   subject, client, scopes and nonce.  q's redirect_uri / scopes / nonce / challenge are those
   of the authorization request that created it: the query parameters, each superseded by the
   member of the same name of a signed Request Object (eff_uri ... eff_chal, C04_OP.v). *)
Theorem C04_exchange_sound : forall (H : string -> string) (cf : cfg) ops h s,
  exec H cf ops = (h, s) ->
  forall h1 e h2 pl f cr code uri ver t,
    h = h1 ++ e :: h2 -> e_op e = TokenCode pl f cr code uri ver -> e_out e = OTokens t ->
  exists c q,
    code = Some c
    /\ (exists ecb, In ecb h1 /\ e_op ecb = Callback (q_id q) /\ e_out ecb = OCode c)
    /\ find_req (e_pre e) (q_id q) = Some q /\ q_done q = true
    /\ (exists elog, In elog h1 /\ e_op elog = Login (q_id q) (q_sub q) (q_auth q) /\ e_out elog = OLogin true)
    /\ (exists eau uri0 scopes0 nonce0 chal0, In eau h1
          /\ e_op eau = Authorize (q_client q) uri0 scopes0 nonce0 chal0 (q_extra q)
          /\ q_uri q = eff_uri uri0 (q_extra q) /\ q_scopes q = eff_scopes scopes0 (q_extra q)
          /\ q_nonce q = eff_nonce nonce0 (q_extra q) /\ q_chal q = eff_chal chal0 (q_extra q)
          /\ e_out eau = OAuthz (Some (q_id q)))
    /\ cred_proves cf cr (q_client q) = true
    /\ uri = q_uri q
    /\ (forall ch, q_chal q = Some ch -> ver <> "" /\ (if fst ch then H ver else ver) = snd ch)
    /\ (client_public cf (q_client q) = true -> q_chal q <> None)
    /\ t_at_sub t = q_sub q /\ t_sub t = q_sub q
    /\ t_azp t = q_client q /\ In (q_client q) (t_aud t)
    /\ (forall x, t_jwt t = Some x -> x = q_client q)
    /\ t_scope t = q_scopes q /\ t_nonce t = q_nonce q.
Proof. exact exchange_sound. Qed.
Print Assumptions C04_exchange_sound.

(* PKCE parameters that travel INSIDE a signed Request Object (x_ro, accepted only when
   RequestObjectSupported is on and the object verifies) are in force: if the object of the
   authorization request behind the redeemed code carried a code_challenge, the exchange
   presented a non-empty verifier that matches it - under the object's code_challenge_method,
   else the query's, else (no method anywhere) plain. Every client kind, both routers. *)
Theorem C04_request_object_pkce : forall (H : string -> string) (cf : cfg) ops h s,
  exec H cf ops = (h, s) ->
  forall h1 e h2 pl f cr code uri ver t,
    h = h1 ++ e :: h2 -> e_op e = TokenCode pl f cr code uri ver -> e_out e = OTokens t ->
  exists c n eau cl uri0 scopes0 nonce0 chal0 x,
    code = Some c
    /\ (exists ecb, In ecb h1 /\ e_op ecb = Callback n /\ e_out ecb = OCode c)
    /\ In eau h1 /\ e_op eau = Authorize cl uri0 scopes0 nonce0 chal0 x /\ e_out eau = OAuthz (Some n)
    /\ forall ro, x_ro x = Some ro -> ro_cc ro <> "" ->
          ver <> ""
          /\ (if match ro_cm ro with
                 | Some m => m
                 | None => match chal0 with Some ch => fst ch | None => false end
                 end then H ver else ver) = ro_cc ro.
Proof. exact request_object_pkce. Qed.
Print Assumptions C04_request_object_pkce.

(* A request is judged on what it carries itself.  Whatever the history before it - e.g. an
   exchange by the same client with credentials, verifier and redirect_uri immediately before -
   an exchange that does not itself prove the client of the code's request, or presents another
   (or no) redirect_uri, or has no matching verifier for the request's challenge, is refused and
   changes nothing (the machine has no per-connection or pooled request state). *)
Theorem C04_incomplete_exchange_refused : forall (H : string -> string) (cf : cfg) ops h s,
  exec H cf ops = (h, s) ->
  forall h1 e h2 pl f cr c uri ver q,
    h = h1 ++ e :: h2 -> e_op e = TokenCode pl f cr (Some c) uri ver ->
    code_req (e_pre e) c = Some q ->
    (cred_proves cf cr (q_client q) = false \/ uri <> q_uri q
     \/ (exists ch, q_chal q = Some ch /\ (ver = "" \/ (if fst ch then H ver else ver) <> snd ch))) ->
    is_tokens (e_out e) = false /\ e_post e = e_pre e.
Proof. exact incomplete_exchange_refused. Qed.
Print Assumptions C04_incomplete_exchange_refused.

(* The registered auth method is an open string: besides the four values the library names a
   registration may say "" (unset = client_secret_basic), client_secret_jwt, a case variant ...
   (AM_Other).  Such a client is confidential: a successful exchange of its code presented no
   assertion but the client's id and ITS SECRET (header or form), on either router. *)
Theorem C04_other_method_needs_secret : forall (H : string -> string) (cf : cfg) ops h s,
  exec H cf ops = (h, s) ->
  forall h1 e h2 pl f cr c uri ver t q cl,
    h = h1 ++ e :: h2 -> e_op e = TokenCode pl f cr (Some c) uri ver -> e_out e = OTokens t ->
    code_req (e_pre e) c = Some q -> find_client cf (q_client q) = Some cl -> c_auth cl = AM_Other ->
    cr_assert cr = None /\ cred_id_sec cr = (q_client q, c_secret cl).
Proof. exact other_method_needs_secret. Qed.
Print Assumptions C04_other_method_needs_secret.

(* No code appears in two successful exchanges of one history - wherever the parameters
   travel (pl) and whichever storage call fails during either exchange (f). *)
Theorem C04_single_use : forall (H : string -> string) (cf : cfg) ops h s,
  exec H cf ops = (h, s) ->
  forall h1 e1 h2 e2 h3 c pl1 f1 cr1 u1 v1 pl2 f2 cr2 u2 v2,
    h = h1 ++ e1 :: h2 ++ e2 :: h3 ->
    e_op e1 = TokenCode pl1 f1 cr1 (Some c) u1 v1 -> is_tokens (e_out e1) = true ->
    e_op e2 = TokenCode pl2 f2 cr2 (Some c) u2 v2 -> is_tokens (e_out e2) = true -> False.
Proof. exact single_use. Qed.
Print Assumptions C04_single_use.

(* A callback hands out a code only for a stored request that an earlier login completed. *)
Theorem C04_not_done_no_code : forall (H : string -> string) (cf : cfg) ops h s,
  exec H cf ops = (h, s) ->
  forall h1 e h2 n c, h = h1 ++ e :: h2 -> e_op e = Callback n -> e_out e = OCode c ->
  exists q, find_req (e_pre e) n = Some q /\ q_done q = true
    /\ exists elog, In elog h1 /\ e_op elog = Login n (q_sub q) (q_auth q) /\ e_out elog = OLogin true.
Proof. exact not_done_no_code. Qed.
Print Assumptions C04_not_done_no_code.

Theorem C04_not_done_no_code_step : forall (H : string -> string) (cf : cfg) r s n,
  (forall q, find_req s n = Some q -> q_done q = false) ->
  forall c, snd (step H cf r s (Callback n)) <> OCode c.
Proof. exact not_done_no_code_step. Qed.
Print Assumptions C04_not_done_no_code_step.

(* A refused exchange - bad input, or a storage call failing at any point of an otherwise
   valid exchange (f = Some m: code lookup, client lookup, token creation, signing key,
   private claims, removal of the redeemed request) - changes nothing the history can refer
   to; with C04_single_use: the code still yields tokens at most once. *)
Theorem C04_refusal_keeps_state : forall (H : string -> string) (cf : cfg) r s pl f cr code uri ver s' x,
  step H cf r s (TokenCode pl f cr code uri ver) = (s', x) -> is_tokens x = false -> s' = s.
Proof. exact code_refusal_keeps_state. Qed.
Print Assumptions C04_refusal_keeps_state.

(* Where the parameters of a token request travel - body, query string, grant_type in the
   query string only, conflicting grant_type in the query string, decoy credential in the
   body - does not change the answer (grant_type is read first-value/body-first, every
   other field last-value/query-last, on both routers). *)
Theorem C04_placement_irrelevant : forall (H : string -> string) (cf : cfg) r s o,
  step H cf r s o = step H cf r s
    (match o with
     | TokenCode _ f cr code uri ver => TokenCode P_body f cr code uri ver
     | TokenRefresh _ cr rt sc => TokenRefresh P_body cr rt sc
     | other => other
     end).
Proof. exact placement_irrelevant. Qed.
Print Assumptions C04_placement_irrelevant.

(* An authorization request may be sent by GET or by POST, the parameters of a POST split in any
   way between the URL query and the body (x_via).  Neither the answer nor the request that comes
   into being - in particular its PKCE challenge, which later binds the code - depends on it. *)
Theorem C04_authorize_transport_irrelevant : forall (H : string -> string) (cf : cfg) r s cl uri scopes nonce chal x,
  let a := step H cf r s (Authorize cl uri scopes nonce chal x) in
  let b := step H cf r s (Authorize cl uri scopes nonce chal (by_get x)) in
  snd a = snd b
  /\ codes (fst a) = codes (fst b) /\ rtoks (fst a) = rtoks (fst b) /\ next (fst a) = next (fst b)
  /\ map (fun q => (q_id q, q_client q, q_uri q, q_scopes q, q_nonce q, q_chal q, q_done q, q_sub q))
         (reqs (fst a))
     = map (fun q => (q_id q, q_client q, q_uri q, q_scopes q, q_nonce q, q_chal q, q_done q, q_sub q))
         (reqs (fst b)).
Proof. exact authorize_transport_irrelevant. Qed.
Print Assumptions C04_authorize_transport_irrelevant.

(* The property predicate of the check (C04_Ledger.c04_ok folded over the history, the
   function that is evaluated on the implementation's answers) accepts every history of
   the model: all inputs, no side condition. *)
Theorem C04_spec_holds : forall i : input, spec i (model i) = true.
Proof. exact spec_holds. Qed.
Print Assumptions C04_spec_holds.
