(* C12 property theorems. Nothing but statements closed by [exact]. *)
From OIDC Require Import Lib Base64 Base64_proofs Cipher Cipher_proofs C12_spec C12_Codec_proofs C12_proofs C12_Ext_proofs C12_Ext_spec_proofs.

(* ---------------- claims codec ---------------- *)

(* Unmarshal (Marshal t) for each of the eight types ty (ID/access/logout token
   claims, UserInfo, IntrospectionResponse, JWT-profile assertion, JWTTokenRequest,
   ActorClaims), any custom map, any oracles for RFC 3339 / language tags:
   [norm] (C12_Codec.v) says it out: a set member comes back as it was (a nil
   pointer for the root locale), an unset member reads the custom claim of its
   name if there is one, the custom map becomes the whole encoded object.
   [pre] is the username := preferred_username assignment of
   IntrospectionResponse.MarshalJSON; [vals_wf]: scope elements without spaces,
   locale tags that the language package prints as read; [decode_domain]: the
   encoded object has no key that is a non-identical case variant of a member
   name (encoding/json would match it to the member; outside the decode model). *)
Theorem C12_roundtrip_T : forall rfc lt lp ty vals claims,
  decode_domain (schema_of ty) (encode_T ty vals claims) = true ->
  vals_wf lt (schema_of ty) (pre ty vals) = true ->
  decode rfc lt lp (schema_of ty) (JObj (encode_T ty vals claims))
  = norm rfc lt lp (schema_of ty) (pre ty vals) claims.
Proof. exact roundtrip_T. Qed.
Print Assumptions C12_roundtrip_T.

(* nested actors, any depth: ActorClaims.Unmarshal (ActorClaims.Marshal a) *)
Theorem C12_roundtrip_actor : forall a, dec_actor (enc_actor a) = norm_actor a.
Proof. exact actor_roundtrip. Qed.
Print Assumptions C12_roundtrip_actor.

(* json.Marshal writes every actor chain (the model's encoder is total: it has no
   error outcome to give), and for chains whose custom claims do not use the names
   act / iss / sub (in any case variant) Unmarshal returns a chain of the same
   length with the same parties (iss, sub) in the same order and all custom claims
   of every level ([actor_sim]).  No hypothesis says that the parties are distinct:
   svc-a -> svc-b -> svc-a (RFC 8693 4.1 allows it) is covered like any other. *)
Theorem C12_actor_marshal_total : forall a, exists o, enc_actor a = JObj o.
Proof. exact enc_actor_is_obj. Qed.
Print Assumptions C12_actor_marshal_total.

Theorem C12_actor_chain_lossless : forall a, actor_plain a = true ->
  exists a', dec_actor (enc_actor a) = Ok a' /\ chain_ids a' = chain_ids a /\ actor_sim a a' = true.
Proof. exact actor_chain_lossless. Qed.
Print Assumptions C12_actor_chain_lossless.

(* a registered member that is written (set, or not omitempty) is what the
   encoded object holds under its name, whatever the custom map holds *)
Theorem C12_registered_wins : forall ty vals claims f v j,
  In (f, v) (combine (schema_of ty) (pre ty vals)) -> marshal_field f v = Some j ->
  lookup (fname f) (encode_T ty vals claims) = Some j.
Proof. exact registered_wins_T. Qed.
Print Assumptions C12_registered_wins.

(* ... and a custom claim whose name is a case variant (ASCII case, U+017F for s,
   U+212A for k: what encoding/json folds onto a member) of a written registered
   member is not in the encoded object at all (fix Fxx-C12-1) *)
Theorem C12_case_variants_dropped : forall ty vals claims k,
  fold_variant (keys (reg_pairs (schema_of ty) (pre ty vals))) k = true ->
  ~ In k (keys (reg_pairs (schema_of ty) (pre ty vals))) ->
  lookup k (encode_T ty vals claims) = None.
Proof. exact case_variants_dropped. Qed.
Print Assumptions C12_case_variants_dropped.

(* audience as string or array; time as number or RFC 3339 string; Bool as
   true or "true"; locales / scope as space-delimited string (or array) *)
Theorem C12_tolerant_forms : forall rfc lt lp,
  (forall s, dec_field rfc lt lp KAud (JStr s) = Ok (VStrs (Some [s]))) /\
  (forall l, dec_field rfc lt lp KAud (JArr (map JStr l)) = Ok (VStrs (Some l))) /\
  (forall z, dec_field rfc lt lp KTime (JNum z "") = Ok (VTime z)) /\
  (forall s z, rfc s = Some z -> dec_field rfc lt lp KTime (JStr s) = Ok (VTime z)) /\
  (dec_field rfc lt lp KBoolS (JStr "true") = Ok (VBool true) /\
   dec_field rfc lt lp KBoolS (JBool true) = Ok (VBool true)) /\
  (forall l, l <> [] -> forallb space_free l = true ->
     dec_field rfc lt lp KLocales (JStr (join_sp l)) = dec_field rfc lt lp KLocales (JArr (map JStr l)) /\
     dec_field rfc lt lp KLocales (JArr (map JStr l)) = Ok (VStrs (Some (parse_locales lp l)))) /\
  (forall l, l <> [] -> forallb space_free l = true ->
     dec_field rfc lt lp KSDA (JStr (join_sp l)) = Ok (VStrs (Some l))).
Proof. exact tolerant_forms. Qed.
Print Assumptions C12_tolerant_forms.

(* every member decoder, every JSON value: never a panic; an accepted value is
   empty or a documented reading of that JSON value ([from_doc], C12_spec.v) *)
Theorem C12_other_forms_err_or_zero : forall o k j,
  match dec_field_o o k j with
  | Panic => False
  | Err => True
  | Ok v => from_doc o k (Some j) v = true
  end.
Proof. exact other_forms_err_or_zero. Qed.
Print Assumptions C12_other_forms_err_or_zero.

(* every type, every document: never a panic; when accepted, the custom map is
   the document and every member is empty or read from the document's entry *)
Theorem C12_decode_any_document : forall o ty doc,
  match decode_o o (schema_of ty) doc with
  | Panic => False
  | Err => True
  | Ok (vs, cl) => cl = match doc with JObj d => d | _ => [] end /\
                   fields_from o (schema_of ty) vs cl = true
  end.
Proof. exact decode_doc. Qed.
Print Assumptions C12_decode_any_document.

(* the property predicate evaluated by every run holds on the model's answer
   for EVERY codec input: all values of all types (well-formed or not, custom
   keys colliding or not), all documents, all stand-alone decoder inputs *)
Theorem C12_codec_spec_holds : forall i, is_codec i = true -> spec i (model i) = true.
Proof. exact spec_model_codec. Qed.
Print Assumptions C12_codec_spec_holds.

(* ---------------- round 11: constructors, getters, non-JSON codecs (C12_Ext.v) ---------------- *)

(* NewLogoutTokenClaims, all arguments, any clock: Unmarshal (Marshal v) is the
   value the constructor built (an empty audience as the nil audience) and the
   custom map is the written object *)
Theorem C12_new_logout_roundtrip : forall rfc lt lp iss sub aud es en jti sid skew now,
  let v := new_logout iss sub aud es en jti sid skew now in
  decode rfc lt lp (schema_of TLogout) (JObj (encode_T TLogout v [])) =
  Ok (new_logout iss sub (nil_if_empty aud) es en jti sid skew now, encode_T TLogout v []).
Proof. exact new_logout_roundtrip. Qed.
Print Assumptions C12_new_logout_roundtrip.

(* IDTokenClaims.GetUserInfo: every UserInfo member is the ID-token member of its name ... *)
Theorem C12_getuserinfo_members : forall vals claims f d,
  In f (schema_of TUserInfo) ->
  get_val (fname f) (schema_of TUserInfo) (fst (get_userinfo vals claims)) d =
  get_val (fname f) (schema_of TID) vals (zero_of (fkind f)).
Proof. exact getuserinfo_members. Qed.
Print Assumptions C12_getuserinfo_members.

(* ... and the UserInfo document says under every UserInfo member name what the
   ID token says under it (a set registered member wins over a custom claim of
   that name in both; an unset one is filled from the custom claims in both) *)
Theorem C12_getuserinfo_doc_agrees : forall vals claims f,
  List.length vals = List.length (schema_of TID) -> In f (schema_of TUserInfo) ->
  lookup (fname f) (encode_T TUserInfo (fst (get_userinfo vals claims)) (snd (get_userinfo vals claims))) =
  lookup (fname f) (encode_T TID vals claims).
Proof. exact getuserinfo_doc_agrees. Qed.
Print Assumptions C12_getuserinfo_doc_agrees.

(* SpaceDelimitedArray.Value then .Scan (string or []byte column, any previous
   content of the destination): elements without spaces come back unchanged *)
Theorem C12_sda_value_scan : forall init l,
  forallb space_free l = true -> l <> [] -> l <> [""] ->
  sda_scan init (DStr (sda_value (Some l))) = (true, Some l) /\
  sda_scan init (DBytes (sda_value (Some l))) = (true, Some l).
Proof. exact sda_value_scan. Qed.
Print Assumptions C12_sda_value_scan.

(* Scan of every dynamic value: NULL -> nil, a text -> elements that join to the
   text again (the empty text -> no element), anything else -> error and the
   destination untouched *)
Theorem C12_sda_scan_total : forall init d,
  match d with
  | DNil => sda_scan init d = (true, None)
  | DStr s | DBytes s => exists l, sda_scan init d = (true, Some l) /\ (s = "" -> l = []) /\ (s <> "" -> join_sp l = s)
  | _ => sda_scan init d = (false, init)
  end.
Proof. exact sda_scan_total. Qed.
Print Assumptions C12_sda_scan_total.

(* FromTime (AsTime ts) = ts except for the one number that denotes Go's zero
   time; AsTime (FromTime t) = t cut to the second except for the zero time and
   the Unix epoch (Time 0 = unset) *)
Theorem C12_time_as_from : forall ts,
  from_time (fst (as_time ts)) (snd (as_time ts)) = if (ts =? zero_sec)%Z then 0%Z else ts.
Proof. exact time_as_from. Qed.
Print Assumptions C12_time_as_from.

Theorem C12_time_from_as : forall s n,
  as_time (from_time s n) =
  if ((s =? zero_sec)%Z && (n =? 0)%Z) || (s =? 0)%Z then (zero_sec, 0%Z) else (s, 0%Z).
Proof. exact time_from_as. Qed.
Print Assumptions C12_time_from_as.

(* ApplicationType / AccessTokenType: String then <Type>String gives the value
   back for every declared value; the text of an out-of-range number is neither
   a declared name nor accepted; an accepted text is, but for letter case, the
   name of the (declared) value returned; what every Unmarshal* / Scan leaves in
   the destination *)
Theorem C12_enum_roundtrip : forall e n,
  enum_in_range e n = true -> enum_parse e (enum_string e n) = Some n.
Proof. exact enum_roundtrip. Qed.
Print Assumptions C12_enum_roundtrip.

Theorem C12_enum_out_of_range : forall e n,
  enum_in_range e n = false ->
  enum_parse e (enum_string e n) = None /\ string_in (enum_string e n) (enum_names e) = false.
Proof. exact enum_out_of_range. Qed.
Print Assumptions C12_enum_out_of_range.

Theorem C12_enum_parse_sound : forall e s v,
  enum_parse e s = Some v ->
  enum_in_range e v = true /\ lower_norm s = lower_norm (enum_string e v).
Proof. exact enum_parse_sound. Qed.
Print Assumptions C12_enum_parse_sound.

Theorem C12_enum_unmarshal_outcome : forall e init src,
  let r := enum_unmarshal e init src in
  if fst r then src = SScan DNil /\ snd r = init \/ enum_in_range e (snd r) = true
  else snd r = init \/ snd r = 0%Z.
Proof. exact enum_unmarshal_outcome. Qed.
Print Assumptions C12_enum_unmarshal_outcome.

(* ConcatenateJSON on two compactly written objects = the object text whose
   members are the first one's followed by the second one's; a decoder that keeps
   the last of equal keys then reads the second object over the first; texts
   that do not end with } / start with { are rejected and left alone *)
Theorem C12_concat_members : forall ms1 ms2,
  forallb nonempty ms1 = true -> forallb nonempty ms2 = true ->
  fst (concat_json (render ms1) (render ms2)) = Some (render (ms1 ++ ms2)).
Proof. exact concat_members. Qed.
Print Assumptions C12_concat_members.

Theorem C12_concat_second_wins : forall x y k,
  NoDup (keys x) -> NoDup (keys y) ->
  lookup k (members_obj (x ++ y)) =
  match lookup k y with Some v => Some v | None => lookup k x end.
Proof. exact concat_second_wins. Qed.
Print Assumptions C12_concat_second_wins.

Theorem C12_concat_rejects : forall a b,
  ends_with "}"%char a = false \/ starts_with "{"%char b = false ->
  concat_json a b = (None, a).
Proof. exact concat_rejects. Qed.
Print Assumptions C12_concat_rejects.

(* the predicate evaluated on the implementation holds on the extension model
   for every input (it is part of C12_codec_spec_holds through IExt) *)
Theorem C12_ext_spec_holds : forall x, xspec x (xmodel x) = true.
Proof. exact spec_model_ext. Qed.
Print Assumptions C12_ext_spec_holds.

(* ---------------- sealing ---------------- *)

(* base64.RawURLEncoding round trip, every byte string *)
Theorem C12_b64_roundtrip : forall l, all_bytesP l -> b64_decode (b64_encode l) = Some l.
Proof. exact b64_roundtrip. Qed.
Print Assumptions C12_b64_roundtrip.

(* DecryptAES (EncryptAES p k) k = p for every plaintext, IV and block cipher *)
Theorem C12_seal_open : forall (E : list nat -> list nat),
  (forall b, List.length (E b) = 16) -> (forall b, all_bytesP (E b)) ->
  forall iv p, List.length iv = 16 -> all_bytesP iv -> all_bytesP p ->
  open E (seal E iv p) = Some p.
Proof. exact open_seal. Qed.
Print Assumptions C12_seal_open.

(* under another key (block function E') the plaintext comes back exactly when
   the two key streams agree on the bytes used; that this does not happen for
   distinct AES keys is AES's strength, not proved *)
Theorem C12_open_other_key : forall (E E' : list nat -> list nat),
  (forall b, List.length (E b) = 16) -> (forall b, List.length (E' b) = 16) ->
  (forall b, all_bytesP (E b)) ->
  forall iv p, List.length iv = 16 -> all_bytesP iv -> all_bytesP p ->
  (open E' (seal E iv p) = Some p <->
   streams_agree E E' (List.length p) iv (cfb_enc E (List.length p) iv p)).
Proof. exact open_other_key. Qed.
Print Assumptions C12_open_other_key.
