(* C12 property theorems. Nothing but statements closed by [exact]. *)
From OIDC Require Import Lib Base64 Base64_proofs Cipher Cipher_proofs C12_spec C12_proofs.

(* base64.RawURLEncoding round trip, every byte string *)
Theorem C12_b64_roundtrip : forall l, all_bytesP l -> b64_decode (b64_encode l) = Some l.
Proof. exact b64_roundtrip. Qed.
Print Assumptions C12_b64_roundtrip.

(* DecryptAES (EncryptAES p k) k = p for every plaintext, IV and block cipher *)
Theorem C12_seal_open : forall (E : list nat -> list nat),
  (forall b, List.length (E b) = 16) -> (forall b, all_bytesP (E b)) ->
  forall iv p, List.length iv = 16 -> all_bytesP iv -> all_bytesP p ->
  open E (seal E iv p) = Some p.
Proof. exact open_seal. Qed.
Print Assumptions C12_seal_open.
