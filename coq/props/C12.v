(* C12 property theorems. Nothing but statements closed by [exact]. *)
From OIDC Require Import Lib Base64 Base64_proofs Cipher Cipher_proofs C12_spec C12_Codec_proofs C12_proofs.

(* ---------------- claims codec ---------------- *)

(* Unmarshal (Marshal t) for each of the eight types ty (ID/access/logout token
   claims, UserInfo, IntrospectionResponse, JWT-profile assertion, JWTTokenRequest,
   ActorClaims), any custom map, any oracles for RFC 3339 / language tags:
   [norm] (C12_Codec.v) says it out: a set member comes back as it was (a nil
   pointer for the root locale), an unset member reads the custom claim of its
   name if there is one, the custom map becomes the whole encoded object.
   [pre] is the username := preferred_username assignment of
   IntrospectionResponse.MarshalJSON; [vals_wf]: scope elements without spaces,
   locale tags that the language package prints as read; [decode_domain]: the
   encoded object has no key that is a non-identical case variant of a member
   name (encoding/json would match it to the member; outside the decode model). *)
Theorem C12_roundtrip_T : forall rfc lt lp ty vals claims,
  decode_domain (schema_of ty) (encode_T ty vals claims) = true ->
  vals_wf lt (schema_of ty) (pre ty vals) = true ->
  decode rfc lt lp (schema_of ty) (JObj (encode_T ty vals claims))
  = norm rfc lt lp (schema_of ty) (pre ty vals) claims.
Proof. exact roundtrip_T. Qed.
Print Assumptions C12_roundtrip_T.

(* nested actors, any depth: ActorClaims.Unmarshal (ActorClaims.Marshal a) *)
Theorem C12_roundtrip_actor : forall a, dec_actor (enc_actor a) = norm_actor a.
Proof. exact actor_roundtrip. Qed.
Print Assumptions C12_roundtrip_actor.

(* json.Marshal writes every actor chain (the model's encoder is total: it has no
   error outcome to give), and for chains whose custom claims do not use the names
   act / iss / sub (in any case variant) Unmarshal returns a chain of the same
   length with the same parties (iss, sub) in the same order and all custom claims
   of every level ([actor_sim]).  No hypothesis says that the parties are distinct:
   svc-a -> svc-b -> svc-a (RFC 8693 4.1 allows it) is covered like any other. *)
Theorem C12_actor_marshal_total : forall a, exists o, enc_actor a = JObj o.
Proof. exact enc_actor_is_obj. Qed.
Print Assumptions C12_actor_marshal_total.

Theorem C12_actor_chain_lossless : forall a, actor_plain a = true ->
  exists a', dec_actor (enc_actor a) = Ok a' /\ chain_ids a' = chain_ids a /\ actor_sim a a' = true.
Proof. exact actor_chain_lossless. Qed.
Print Assumptions C12_actor_chain_lossless.

(* a registered member that is written (set, or not omitempty) is what the
   encoded object holds under its name, whatever the custom map holds *)
Theorem C12_registered_wins : forall ty vals claims f v j,
  In (f, v) (combine (schema_of ty) (pre ty vals)) -> marshal_field f v = Some j ->
  lookup (fname f) (encode_T ty vals claims) = Some j.
Proof. exact registered_wins_T. Qed.
Print Assumptions C12_registered_wins.

(* ... and a custom claim whose name is a case variant (ASCII case, U+017F for s,
   U+212A for k: what encoding/json folds onto a member) of a written registered
   member is not in the encoded object at all (fix Fxx-C12-1) *)
Theorem C12_case_variants_dropped : forall ty vals claims k,
  fold_variant (keys (reg_pairs (schema_of ty) (pre ty vals))) k = true ->
  ~ In k (keys (reg_pairs (schema_of ty) (pre ty vals))) ->
  lookup k (encode_T ty vals claims) = None.
Proof. exact case_variants_dropped. Qed.
Print Assumptions C12_case_variants_dropped.

(* audience as string or array; time as number or RFC 3339 string; Bool as
   true or "true"; locales / scope as space-delimited string (or array) *)
Theorem C12_tolerant_forms : forall rfc lt lp,
  (forall s, dec_field rfc lt lp KAud (JStr s) = Ok (VStrs (Some [s]))) /\
  (forall l, dec_field rfc lt lp KAud (JArr (map JStr l)) = Ok (VStrs (Some l))) /\
  (forall z, dec_field rfc lt lp KTime (JNum z "") = Ok (VTime z)) /\
  (forall s z, rfc s = Some z -> dec_field rfc lt lp KTime (JStr s) = Ok (VTime z)) /\
  (dec_field rfc lt lp KBoolS (JStr "true") = Ok (VBool true) /\
   dec_field rfc lt lp KBoolS (JBool true) = Ok (VBool true)) /\
  (forall l, l <> [] -> forallb space_free l = true ->
     dec_field rfc lt lp KLocales (JStr (join_sp l)) = dec_field rfc lt lp KLocales (JArr (map JStr l)) /\
     dec_field rfc lt lp KLocales (JArr (map JStr l)) = Ok (VStrs (Some (parse_locales lp l)))) /\
  (forall l, l <> [] -> forallb space_free l = true ->
     dec_field rfc lt lp KSDA (JStr (join_sp l)) = Ok (VStrs (Some l))).
Proof. exact tolerant_forms. Qed.
Print Assumptions C12_tolerant_forms.

(* every member decoder, every JSON value: never a panic; an accepted value is
   empty or a documented reading of that JSON value ([from_doc], C12_spec.v) *)
Theorem C12_other_forms_err_or_zero : forall o k j,
  match dec_field_o o k j with
  | Panic => False
  | Err => True
  | Ok v => from_doc o k (Some j) v = true
  end.
Proof. exact other_forms_err_or_zero. Qed.
Print Assumptions C12_other_forms_err_or_zero.

(* every type, every document: never a panic; when accepted, the custom map is
   the document and every member is empty or read from the document's entry *)
Theorem C12_decode_any_document : forall o ty doc,
  match decode_o o (schema_of ty) doc with
  | Panic => False
  | Err => True
  | Ok (vs, cl) => cl = match doc with JObj d => d | _ => [] end /\
                   fields_from o (schema_of ty) vs cl = true
  end.
Proof. exact decode_doc. Qed.
Print Assumptions C12_decode_any_document.

(* the property predicate evaluated by every run holds on the model's answer
   for EVERY codec input: all values of all types (well-formed or not, custom
   keys colliding or not), all documents, all stand-alone decoder inputs *)
Theorem C12_codec_spec_holds : forall i, is_codec i = true -> spec i (model i) = true.
Proof. exact spec_model_codec. Qed.
Print Assumptions C12_codec_spec_holds.

(* ---------------- sealing ---------------- *)

(* base64.RawURLEncoding round trip, every byte string *)
Theorem C12_b64_roundtrip : forall l, all_bytesP l -> b64_decode (b64_encode l) = Some l.
Proof. exact b64_roundtrip. Qed.
Print Assumptions C12_b64_roundtrip.

(* DecryptAES (EncryptAES p k) k = p for every plaintext, IV and block cipher *)
Theorem C12_seal_open : forall (E : list nat -> list nat),
  (forall b, List.length (E b) = 16) -> (forall b, all_bytesP (E b)) ->
  forall iv p, List.length iv = 16 -> all_bytesP iv -> all_bytesP p ->
  open E (seal E iv p) = Some p.
Proof. exact open_seal. Qed.
Print Assumptions C12_seal_open.

(* under another key (block function E') the plaintext comes back exactly when
   the two key streams agree on the bytes used; that this does not happen for
   distinct AES keys is AES's strength, not proved *)
Theorem C12_open_other_key : forall (E E' : list nat -> list nat),
  (forall b, List.length (E b) = 16) -> (forall b, List.length (E' b) = 16) ->
  (forall b, all_bytesP (E b)) ->
  forall iv p, List.length iv = 16 -> all_bytesP iv -> all_bytesP p ->
  (open E' (seal E iv p) = Some p <->
   streams_agree E E' (List.length p) iv (cfb_enc E (List.length p) iv p)).
Proof. exact open_other_key. Qed.
Print Assumptions C12_open_other_key.
