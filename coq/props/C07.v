(* C07 property theorems: refresh tokens stay bound to their client and can only
   narrow scope.  Nothing but statements closed by [exact].
   Vocabulary as in props/C04.v (machine: coq/theories/C04_OP.v; both routers; H and
   cf arbitrary).  A token response t carries: t_rt (the refresh token it hands out),
   t_scope (scope member), t_at_sub (access-token subject), t_aud / t_azp / t_auth
   (audience, client and auth_time of the id_token). *)
From OIDC Require Import Lib C04_OP C04_Ledger C04_Hist C07_spec C07_Chain C07_Wire C07_proofs C07_Wire_proofs C07_spec_proofs.

(* success => the presented token is live in the storage, the caller proves the client
   it belongs to - the client named in the earlier response that handed the token out -,
   that client is registered for the refresh grant - and the registration has not been
   withdrawn since (DropRefresh) - and the provider flag is on; for every placement pl of
   the parameters (body / query string) *)
Theorem C07_bound : forall (H : string -> string) (cf : cfg) ops h s,
  exec H cf ops = (h, s) ->
  forall h1 e h2 pl cr rt scopes t,
    h = h1 ++ e :: h2 -> e_op e = TokenRefresh pl cr rt scopes -> e_out e = OTokens t ->
  exists n r,
    rt = Some n /\ find_rt (e_pre e) n = Some r
    /\ cred_proves cf cr (r_client r) = true
    /\ client_refresh cf (r_client r) = true /\ ~ In (r_client r) (norefresh (e_pre e))
    /\ f_refresh cf = true
    /\ (exists e0 t0, In e0 h1 /\ e_out e0 = OTokens t0 /\ t_rt t0 = Some n /\ t_azp t0 = r_client r).
Proof. exact bound. Qed.
Print Assumptions C07_bound.

(* success => requested and granted scopes lie within the token's scopes *)
Theorem C07_subset_success : forall (H : string -> string) (cf : cfg) pl r s cr rt scopes s' t,
  step H cf r s (TokenRefresh pl cr rt scopes) = (s', OTokens t) ->
  exists n r0, rt = Some n /\ find_rt s n = Some r0
    /\ subset scopes (r_scopes r0) = true /\ subset (t_scope t) (r_scopes r0) = true.
Proof. exact success_subset. Qed.
Print Assumptions C07_subset_success.

(* the refreshed ID token (t_sub) and access token (t_at_sub) keep the subject of the presented
   token, whatever the narrowed scope - e.g. a list without openid - and whatever the storage's
   userinfo mapping does with the structure it is handed *)
Theorem C07_keeps_subject : forall (H : string -> string) (cf : cfg) pl r s cr rt scopes s' t,
  step H cf r s (TokenRefresh pl cr rt scopes) = (s', OTokens t) ->
  exists n r0, rt = Some n /\ find_rt s n = Some r0 /\ t_sub t = r_sub r0 /\ t_at_sub t = r_sub r0.
Proof. exact keeps_subject. Qed.
Print Assumptions C07_keeps_subject.

(* REGISTERED GRANT LISTS.  A refresh needs the refresh_token grant in the registration NOW:
   whether it was never there (c_refresh = false), withdrawn (DropRefresh) or the registration was
   left with no grant type at all (DropGrants: an empty list is no grant, not a default), a client
   holding a refresh token gets nothing for it - on either router. *)
Theorem C07_withdrawn_refused : forall (H : string -> string) (cf : cfg) r s pl cr n sc t,
  find_rt s n = Some t -> In (r_client t) (norefresh s) ->
  is_tokens (snd (step H cf r s (TokenRefresh pl cr (Some n) sc))) = false.
Proof. exact withdrawn_refused. Qed.
Print Assumptions C07_withdrawn_refused.

Theorem C07_drop_grants_step : forall (H : string -> string) (cf : cfg) r s cl,
  exists s', step H cf r s (DropGrants cl) = (s', ODone) /\ In cl (norefresh s')
    /\ rtoks s' = rtoks s /\ forall c, c_id c = cl -> has_code s' c = false /\ has_refresh s' c = false.
Proof. exact drop_grants_step. Qed.
Print Assumptions C07_drop_grants_step.

(* the refreshed tokens keep the audience of the grant (r_aud; the storage's policy f_aud cf: the
   client alone, a resource server only, several entries ...): a JWT access token carries it
   EXACTLY - the client stands in only for a grant without audience -, the ID token carries it
   with the client added when missing, and the new refresh token stands for the same audience *)
Theorem C07_keeps_audience : forall (H : string -> string) (cf : cfg) pl r s cr rt scopes s' t,
  step H cf r s (TokenRefresh pl cr rt scopes) = (s', OTokens t) ->
  exists n r0, rt = Some n /\ find_rt s n = Some r0
    /\ t_aud t = aud_with (r_client r0) (r_aud r0)
    /\ (t_jwt t <> None -> t_at_aud t = match r_aud r0 with [] => [r_client r0] | _ => r_aud r0 end)
    /\ (exists new, find_rt s' (match t_rt t with Some m => m | None => 0 end) = Some new /\ r_aud new = r_aud r0).
Proof. exact keeps_audience. Qed.
Print Assumptions C07_keeps_audience.

(* CONCURRENCY.  P_overlap marks a request that was sent before the operation preceding it in the
   history and was in flight (authenticated, about to look its refresh token up) while that
   operation - e.g. another client presenting the same token and scope - ran from start to
   end.  It is answered exactly as if it had been sent alone afterwards; and since a step is a
   function of the storage state and the request only, the operation it overlapped with is
   answered exactly as if nothing had been in flight (every theorem of this file applies to it). *)
Theorem C07_overlap_alone : forall (H : string -> string) (cf : cfg) r s cr rt scopes,
  step H cf r s (TokenRefresh P_overlap cr rt scopes) = step H cf r s (TokenRefresh P_body cr rt scopes).
Proof. exact overlap_alone. Qed.
Print Assumptions C07_overlap_alone.

(* requested not within granted: a request that would succeed without a scope parameter
   is answered invalid_scope and the storage is unchanged *)
Theorem C07_subset : forall (H : string -> string) (cf : cfg) pl r s cr n rt scopes s0 t0,
  step H cf r s (TokenRefresh pl cr (Some n) []) = (s0, OTokens t0) ->
  find_rt s n = Some rt -> scopes <> [] -> subset scopes (r_scopes rt) = false ->
  step H cf r s (TokenRefresh pl cr (Some n) scopes) = (s, err r E_scope).
Proof. exact subset_refused. Qed.
Print Assumptions C07_subset.

(* any refused refresh leaves the storage unchanged (nothing is issued) *)
Theorem C07_refusal_keeps_state : forall (H : string -> string) (cf : cfg) pl r s cr rt scopes s' x,
  step H cf r s (TokenRefresh pl cr rt scopes) = (s', x) -> is_tokens x = false -> s' = s.
Proof. exact refusal_keeps_state. Qed.
Print Assumptions C07_refusal_keeps_state.

(* a request is judged on what it carries itself: whatever the history before it (e.g. a
   refresh by the token's client with its credentials immediately before), a refresh whose own
   credential does not prove the client of the presented token is refused, nothing changes *)
Theorem C07_unproven_refused : forall (H : string -> string) (cf : cfg) ops h s,
  exec H cf ops = (h, s) ->
  forall h1 e h2 pl cr n scopes r,
    h = h1 ++ e :: h2 -> e_op e = TokenRefresh pl cr (Some n) scopes ->
    find_rt (e_pre e) n = Some r -> cred_proves cf cr (r_client r) = false ->
    is_tokens (e_out e) = false /\ e_post e = e_pre e.
Proof. exact unproven_refused. Qed.
Print Assumptions C07_unproven_refused.

(* STRAY PARAMETERS.  P_stray names marks a refresh request that carries, next to what the grant
   defines, parameters of another grant or of none (code_verifier, code, redirect_uri, username,
   password, resource ...).  The machine answers it exactly as the same request without them ... *)
Theorem C07_stray_irrelevant : forall (H : string -> string) (cf : cfg) names r s cr rt scopes,
  step H cf r s (TokenRefresh (P_stray names) cr rt scopes) = step H cf r s (TokenRefresh P_body cr rt scopes).
Proof. exact stray_irrelevant. Qed.
Print Assumptions C07_stray_irrelevant.

(* ... in particular nothing of the kind stands in for the secret: when the presented token belongs
   to a client that authenticates by a secret (basic / post / a method the library has no name for),
   a request that names a client but carries no secret - in the header or in the form - and no
   assertion is refused and changes nothing, whatever else it carries and whatever preceded it *)
Theorem C07_stray_no_secret_refused : forall (H : string -> string) (cf : cfg) ops h s,
  exec H cf ops = (h, s) ->
  forall h1 e h2 names cr n scopes r cl,
    h = h1 ++ e :: h2 -> e_op e = TokenRefresh (P_stray names) cr (Some n) scopes ->
    find_rt (e_pre e) n = Some r -> find_client cf (r_client r) = Some cl -> secret_based cl = true ->
    c_secret cl <> "" -> cr_assert cr = None -> snd (cred_id_sec cr) = "" ->
    is_tokens (e_out e) = false /\ e_post e = e_pre e.
Proof. exact stray_no_secret_refused. Qed.
Print Assumptions C07_stray_no_secret_refused.

(* THE BASIC HEADER ON THE WIRE (RFC 6749 2.3.1).  The cases carry the header texts; the identity
   they present is their form-decoding (C04_OP.form_unescape: '+' = space, %XY = byte XY).
   Both encodings a client may use - a space as '+' (plus = true) or as %20 - denote the string
   that was encoded, for every string: *)
Theorem C07_wire_roundtrip : forall plus s, form_unescape (form_escape plus s) = Some s.
Proof. exact wire_roundtrip. Qed.
Print Assumptions C07_wire_roundtrip.

(* an UNENCODED text denotes itself exactly when it has neither '+' nor '%' in it *)
Theorem C07_wire_raw_fixed : forall s,
  form_unescape s = Some s <-> has_char "+"%char s = false /\ has_char "%"%char s = false.
Proof. exact wire_raw_fixed. Qed.
Print Assumptions C07_wire_raw_fixed.

(* success of a refresh that authenticates by a Basic header, for a token of a secret-based client:
   the DECODED header texts are exactly that client's id and secret *)
Theorem C07_wire_bound : forall (H : string -> string) (cf : cfg) ops h s,
  exec H cf ops = (h, s) ->
  forall h1 e h2 pl hi hs fi fs n scopes t r cl,
    h = h1 ++ e :: h2 ->
    e_op e = TokenRefresh pl (MkCred (wire_basic hi hs) fi fs None) (Some n) scopes -> e_out e = OTokens t ->
    find_rt (e_pre e) n = Some r -> find_client cf (r_client r) = Some cl -> secret_based cl = true ->
    wire_basic hi hs <> None ->
    form_unescape hi = Some (r_client r) /\ form_unescape hs = Some (c_secret cl).
Proof. exact wire_bound. Qed.
Print Assumptions C07_wire_bound.

(* so a secret with a '+' or a '%' in it that is put into the header UNENCODED is another secret:
   refused, nothing changes - on both routers alike *)
Theorem C07_raw_secret_refused : forall (H : string -> string) (cf : cfg) ops h s,
  exec H cf ops = (h, s) ->
  forall h1 e h2 pl hi n scopes r cl,
    h = h1 ++ e :: h2 ->
    find_rt (e_pre e) n = Some r -> find_client cf (r_client r) = Some cl -> secret_based cl = true ->
    has_char "+"%char (c_secret cl) || has_char "%"%char (c_secret cl) = true ->
    e_op e = TokenRefresh pl (MkCred (wire_basic hi (c_secret cl)) "" "" None) (Some n) scopes ->
    is_tokens (e_out e) = false /\ e_post e = e_pre e.
Proof. exact raw_secret_refused. Qed.
Print Assumptions C07_raw_secret_refused.

(* THE STORAGE REFUSES THE ROTATION.  TokenRefreshRF is a refresh request during which
   Storage.CreateAccessAndRefreshTokens fails (the presented token was rotated by a competing
   request, revoked or expired after the lookup; a transient fault).  "On success the presented
   token is handed to the storage for rotation and the response carries the storage's new refresh
   token" - so there is no success: no tokens of any kind, and nothing changes (the presented token
   is as usable afterwards as it was before) ... *)
Theorem C07_rotation_refused_no_tokens : forall (H : string -> string) (cf : cfg) r s pl cr rt scopes,
  exists x, step H cf r s (TokenRefreshRF pl cr rt scopes) = (s, x) /\ is_tokens x = false.
Proof. exact rotation_refused_no_tokens. Qed.
Print Assumptions C07_rotation_refused_no_tokens.

(* ... and the answer is server_error where a willing storage would have let the request succeed,
   else the refusal the request earns anyway (wrong client, scope not granted, unknown token ...) *)
Theorem C07_rotation_refused_answer : forall (H : string -> string) (cf : cfg) r s pl cr rt scopes s' x,
  step H cf r s (TokenRefresh pl cr rt scopes) = (s', x) ->
  step H cf r s (TokenRefreshRF pl cr rt scopes) = (s, if is_tokens x then err r E_server else x).
Proof. exact rotation_refused_answer. Qed.
Print Assumptions C07_rotation_refused_answer.

(* a client registered with an auth method the library does not name ("" = unset,
   client_secret_jwt, a case variant of a named value ...: AM_Other) refreshes only with its id
   and its secret *)
Theorem C07_other_method_needs_secret : forall (H : string -> string) (cf : cfg) ops h s,
  exec H cf ops = (h, s) ->
  forall h1 e h2 pl cr n scopes t r cl,
    h = h1 ++ e :: h2 -> e_op e = TokenRefresh pl cr (Some n) scopes -> e_out e = OTokens t ->
    find_rt (e_pre e) n = Some r -> find_client cf (r_client r) = Some cl -> c_auth cl = AM_Other ->
    cr_assert cr = None /\ cred_id_sec cr = (r_client r, c_secret cl).
Proof. exact other_method_needs_secret. Qed.
Print Assumptions C07_other_method_needs_secret.

(* The storage decides what happens to the presented token (f_keep cf, the policy of
   Storage.CreateAccessAndRefreshTokens): a ROTATING storage (f_keep = false) drops exactly the
   presented token and creates one fresh token (id above every stored one), and the response
   carries that one *)
Theorem C07_rotation : forall (H : string -> string) (cf : cfg) ops h s,
  f_keep cf = false ->
  exec H cf ops = (h, s) ->
  forall h1 e h2 pl cr rt scopes t,
    h = h1 ++ e :: h2 -> e_op e = TokenRefresh pl cr rt scopes -> e_out e = OTokens t ->
  exists n m new,
    rt = Some n /\ t_rt t = Some m
    /\ m = S (next (e_pre e)) /\ (forall x, In x (rtoks (e_pre e)) -> r_id x < m)
    /\ rtoks (e_post e) = new :: filter (fun x => negb (Nat.eqb (r_id x) n)) (rtoks (e_pre e))
    /\ r_id new = m
    /\ find_rt (e_post e) n = None /\ find_rt (e_post e) m = Some new.
Proof. exact rotation. Qed.
Print Assumptions C07_rotation.

(* a NON-ROTATING storage (f_keep = true: the presented token is returned as the valid one):
   the token stays stored under its id, now standing for the narrowed grant, no other refresh
   token is touched, and the response carries that very token *)
Theorem C07_keeps : forall (H : string -> string) (cf : cfg) ops h s,
  f_keep cf = true ->
  exec H cf ops = (h, s) ->
  forall h1 e h2 pl cr rt scopes t,
    h = h1 ++ e :: h2 -> e_op e = TokenRefresh pl cr rt scopes -> e_out e = OTokens t ->
  exists n old new,
    rt = Some n /\ t_rt t = Some n
    /\ find_rt (e_pre e) n = Some old /\ find_rt (e_post e) n = Some new
    /\ r_scopes new = t_scope t /\ subset (r_scopes new) (r_scopes old) = true
    /\ r_client new = r_client old /\ r_sub new = r_sub old /\ r_aud new = r_aud old /\ r_auth new = r_auth old
    /\ rtoks (e_post e) = new :: filter (fun x => negb (Nat.eqb (r_id x) n)) (rtoks (e_pre e)).
Proof. exact keeps. Qed.
Print Assumptions C07_keeps.

(* whatever the policy: the response carries the refresh token under which the storage holds
   the new grant after the exchange (scope = the response's scope); it differs from the
   presented one exactly when the storage rotates *)
Theorem C07_carries_storage_token : forall (H : string -> string) (cf : cfg) ops h s,
  exec H cf ops = (h, s) ->
  forall h1 e h2 pl cr rt scopes t,
    h = h1 ++ e :: h2 -> e_op e = TokenRefresh pl cr rt scopes -> e_out e = OTokens t ->
  exists m new, t_rt t = Some m /\ find_rt (e_post e) m = Some new
    /\ r_scopes new = t_scope t /\ r_client new = t_azp t /\ r_sub new = t_at_sub t
    /\ (f_keep cf = false -> rt <> Some m) /\ (f_keep cf = true -> rt = Some m).
Proof. exact carries_storage_token. Qed.
Print Assumptions C07_carries_storage_token.

(* along any chain rt0 -> rt1 -> ... of refreshes in any history the scope only shrinks
   and subject, audience, auth_time and client are preserved - under both storage policies (with
   a non-rotating storage every later response obtained with the same token is a link) *)
Theorem C07_monotone : forall (H : string -> string) (cf : cfg) ops h s,
  exec H cf ops = (h, s) ->
  forall t0 tk, refresh_chain h t0 tk ->
    subset (t_scope tk) (t_scope t0) = true
    /\ t_at_sub tk = t_at_sub t0 /\ t_aud tk = t_aud t0 /\ t_auth tk = t_auth t0 /\ t_azp tk = t_azp t0.
Proof. exact monotone. Qed.
Print Assumptions C07_monotone.

(* a rotated token fails, and the attempt changes nothing (rotating storage) *)
Theorem C07_replay : forall (H : string -> string) (cf : cfg) ops h s,
  f_keep cf = false ->
  exec H cf ops = (h, s) ->
  forall h1 e1 h2 e2 h3 n pl1 cr1 sc1 pl2 cr2 sc2,
    h = h1 ++ e1 :: h2 ++ e2 :: h3 ->
    e_op e1 = TokenRefresh pl1 cr1 (Some n) sc1 -> is_tokens (e_out e1) = true ->
    e_op e2 = TokenRefresh pl2 cr2 (Some n) sc2 ->
    is_tokens (e_out e2) = false /\ e_post e2 = e_pre e2.
Proof. exact replay. Qed.
Print Assumptions C07_replay.

(* a refresh token that the storage revoked or let expire (RevokeRT n, for an id that could
   exist at that time) is refused ever after and the attempt changes nothing - under both
   storage policies.  In the machine "the storage refuses the token" is all there is: whether
   the storage's lookup returns nil or its last known grant NEXT TO the error is not a
   distinction the provider may make. *)
Theorem C07_revoked_refused : forall (H : string -> string) (cf : cfg) ops h s,
  exec H cf ops = (h, s) ->
  forall h1 e1 h2 e2 h3 n pl cr sc,
    h = h1 ++ e1 :: h2 ++ e2 :: h3 ->
    e_op e1 = RevokeRT n -> n <= next (e_pre e1) ->
    e_op e2 = TokenRefresh pl cr (Some n) sc ->
    is_tokens (e_out e2) = false /\ e_post e2 = e_pre e2.
Proof. exact revoked_refused. Qed.
Print Assumptions C07_revoked_refused.

(* The property predicate of the check (C04_Ledger.c07_ok folded over the history)
   accepts every history of the model: all inputs, no side condition. *)
Theorem C07_spec_holds : forall i : input, spec i (model i) = true.
Proof. exact spec_holds. Qed.
Print Assumptions C07_spec_holds.
