(* C07 property theorems: refresh tokens stay bound to their client and can only
   narrow scope.  Nothing but statements closed by [exact].
   Vocabulary as in props/C04.v (machine: coq/theories/C04_OP.v; both routers; H and
   cf arbitrary).  A token response t carries: t_rt (the refresh token it hands out),
   t_scope (scope member), t_at_sub (access-token subject), t_aud / t_azp / t_auth
   (audience, client and auth_time of the id_token). *)
From OIDC Require Import Lib C04_OP C04_Ledger C04_Hist C07_spec C07_Chain C07_proofs C07_spec_proofs.

(* success => the presented token is live in the storage, the caller proves the client
   it belongs to - the client named in the earlier response that handed the token out -,
   that client is registered for the refresh grant - and the registration has not been
   withdrawn since (DropRefresh) - and the provider flag is on; for every placement pl of
   the parameters (body / query string) *)
Theorem C07_bound : forall (H : string -> string) (cf : cfg) ops h s,
  exec H cf ops = (h, s) ->
  forall h1 e h2 pl cr rt scopes t,
    h = h1 ++ e :: h2 -> e_op e = TokenRefresh pl cr rt scopes -> e_out e = OTokens t ->
  exists n r,
    rt = Some n /\ find_rt (e_pre e) n = Some r
    /\ cred_proves cf cr (r_client r) = true
    /\ client_refresh cf (r_client r) = true /\ ~ In (r_client r) (norefresh (e_pre e))
    /\ f_refresh cf = true
    /\ (exists e0 t0, In e0 h1 /\ e_out e0 = OTokens t0 /\ t_rt t0 = Some n /\ t_azp t0 = r_client r).
Proof. exact bound. Qed.
Print Assumptions C07_bound.

(* success => requested and granted scopes lie within the token's scopes *)
Theorem C07_subset_success : forall (H : string -> string) (cf : cfg) pl r s cr rt scopes s' t,
  step H cf r s (TokenRefresh pl cr rt scopes) = (s', OTokens t) ->
  exists n r0, rt = Some n /\ find_rt s n = Some r0
    /\ subset scopes (r_scopes r0) = true /\ subset (t_scope t) (r_scopes r0) = true.
Proof. exact success_subset. Qed.
Print Assumptions C07_subset_success.

(* requested not within granted: a request that would succeed without a scope parameter
   is answered invalid_scope and the storage is unchanged *)
Theorem C07_subset : forall (H : string -> string) (cf : cfg) pl r s cr n rt scopes s0 t0,
  step H cf r s (TokenRefresh pl cr (Some n) []) = (s0, OTokens t0) ->
  find_rt s n = Some rt -> scopes <> [] -> subset scopes (r_scopes rt) = false ->
  step H cf r s (TokenRefresh pl cr (Some n) scopes) = (s, err r E_scope).
Proof. exact subset_refused. Qed.
Print Assumptions C07_subset.

(* any refused refresh leaves the storage unchanged (nothing is issued) *)
Theorem C07_refusal_keeps_state : forall (H : string -> string) (cf : cfg) pl r s cr rt scopes s' x,
  step H cf r s (TokenRefresh pl cr rt scopes) = (s', x) -> is_tokens x = false -> s' = s.
Proof. exact refusal_keeps_state. Qed.
Print Assumptions C07_refusal_keeps_state.

(* success => the storage dropped exactly the presented token and created one fresh
   token (id above every stored one), and the response carries that one *)
Theorem C07_rotation : forall (H : string -> string) (cf : cfg) ops h s,
  exec H cf ops = (h, s) ->
  forall h1 e h2 pl cr rt scopes t,
    h = h1 ++ e :: h2 -> e_op e = TokenRefresh pl cr rt scopes -> e_out e = OTokens t ->
  exists n m new,
    rt = Some n /\ t_rt t = Some m
    /\ m = S (next (e_pre e)) /\ (forall x, In x (rtoks (e_pre e)) -> r_id x < m)
    /\ rtoks (e_post e) = new :: filter (fun x => negb (Nat.eqb (r_id x) n)) (rtoks (e_pre e))
    /\ r_id new = m
    /\ find_rt (e_post e) n = None /\ find_rt (e_post e) m = Some new.
Proof. exact rotation. Qed.
Print Assumptions C07_rotation.

(* along any chain rt0 -> rt1 -> ... of refreshes in any history the scope only shrinks
   and subject, audience, auth_time and client are preserved *)
Theorem C07_monotone : forall (H : string -> string) (cf : cfg) ops h s,
  exec H cf ops = (h, s) ->
  forall t0 tk, refresh_chain h t0 tk ->
    subset (t_scope tk) (t_scope t0) = true
    /\ t_at_sub tk = t_at_sub t0 /\ t_aud tk = t_aud t0 /\ t_auth tk = t_auth t0 /\ t_azp tk = t_azp t0.
Proof. exact monotone. Qed.
Print Assumptions C07_monotone.

(* a rotated token fails, and the attempt changes nothing *)
Theorem C07_replay : forall (H : string -> string) (cf : cfg) ops h s,
  exec H cf ops = (h, s) ->
  forall h1 e1 h2 e2 h3 n pl1 cr1 sc1 pl2 cr2 sc2,
    h = h1 ++ e1 :: h2 ++ e2 :: h3 ->
    e_op e1 = TokenRefresh pl1 cr1 (Some n) sc1 -> is_tokens (e_out e1) = true ->
    e_op e2 = TokenRefresh pl2 cr2 (Some n) sc2 ->
    is_tokens (e_out e2) = false /\ e_post e2 = e_pre e2.
Proof. exact replay. Qed.
Print Assumptions C07_replay.

(* The property predicate of the check (C04_Ledger.c07_ok folded over the history)
   accepts every history of the model: all inputs, no side condition. *)
Theorem C07_spec_holds : forall i : input, spec i (model i) = true.
Proof. exact spec_holds. Qed.
Print Assumptions C07_spec_holds.
