From OIDC Require Import Lib C07_spec.
