(* C18 property theorems: logout redirects only to post-logout URIs registered for
   the proven client.  Nothing but statements closed by [exact].
   pmatch = path.Match, uparse = url.Parse (both arbitrary functions: oracles);
   the outcome of VerifyIDTokenHint is the abstract [hint] of the request. *)
From OIDC Require Import Lib C18_Url C18_Url_proofs C18_Session C18_spec C18_proofs.

(* ts = whether / how the storage implements the optional op.CanTerminateSessionFromRequest
   (absent, echoes the validated session.RedirectURI, answers a URI of its own - the empty
   string included -, fails).  StorageChoice ts loc = the storage itself answered loc.
   A redirect goes to the storage's own choice, to the provider's default logout URI, or to the requested URI, and then
   that URI is registered (exactly or via an opted-in glob) for the client proven by the
   hint's azp or, without a hint, named by client_id; the Location is that URI itself or
   that URI with the state merged into its query (target_of). *)
Theorem C18_redirect_registered :
  forall (pmatch : string -> string -> pres) (uparse : string -> option purl)
         (default_uri : string) (ts : tsfr) (cs : list lclient) (r : router) (q : esreq)
         (loc user sc : string),
    end_session pmatch uparse default_uri ts cs r q = ERedirect loc (user, sc) ->
    StorageChoice ts loc \/
    exists u, target_of uparse q u loc /\
      (u = default_uri \/
       (u = e_uri q /\ e_uri q <> "" /\
        exists c, proven_client q = Some sc /\ find_lclient cs sc = Some c /\
                  RegisteredPost pmatch c u)).
Proof. exact redirect_registered. Qed.
Print Assumptions C18_redirect_registered.

(* l_auth_globs c = the client's RedirectURIGlobs() (globs for the authorization redirect_uri).
   Replace them by anything, for every client: each answer of the end-session endpoint stays the
   same - a post_logout_redirect_uri is judged by l_post and the POST-LOGOUT globs alone. *)
Theorem C18_auth_globs_irrelevant :
  forall (pmatch : string -> string -> pres) (uparse : string -> option purl)
         (default_uri : string) (ts : tsfr) (cs : list lclient) (f : lclient -> list string)
         (r : router) (q : esreq),
    end_session pmatch uparse default_uri ts (map (fun c => with_auth_globs (f c) c) cs) r q =
    end_session pmatch uparse default_uri ts cs r q.
Proof. exact auth_globs_irrelevant. Qed.
Print Assumptions C18_auth_globs_irrelevant.

(* A hint that does not verify (bad signature, foreign issuer, ...) is rejected; a
   client_id contradicting the hint's azp is rejected; expiry of an otherwise valid
   hint changes nothing. *)
Theorem C18_hint_rules :
  forall (pmatch : string -> string -> pres) (uparse : string -> option purl)
         (default_uri : string) (ts : tsfr) (cs : list lclient) (r : router) (q : esreq),
    (e_hint q = HBad ->
       exists s c, end_session pmatch uparse default_uri ts cs r q = EPage s c None) /\
    (forall ex sub azp, e_hint q = HGood ex sub azp -> e_client q <> "" -> e_client q <> azp ->
       exists s c, end_session pmatch uparse default_uri ts cs r q = EPage s c None) /\
    (forall sub azp,
       end_session pmatch uparse default_uri ts cs r (with_hint q (HGood true sub azp)) =
       end_session pmatch uparse default_uri ts cs r (with_hint q (HGood false sub azp))).
Proof. exact hint_rules. Qed.
Print Assumptions C18_hint_rules.

(* opts = the provider options that concern token verification, in the order NewProvider applies
   them: WithAccessTokenKeySet, WithIDTokenHintKeySet, WithAccessTokenVerifierOpts(algorithms),
   WithIDTokenHintVerifierOpts(algorithms).  A key set (keyset) trusts the keys the storage publishes
   while the request is served and / or a fixed list of its own.  model_esreq opts x = request x as
   the validator of a provider built with opts sees it (hint classified by the verifier fields the
   options left behind).

   After ALL options ran, the hint verifier holds the key set of the LAST WithIDTokenHintKeySet -
   the storage's published keys if there is none - and the algorithms of the last
   WithIDTokenHintVerifierOpts: nothing else designates anything for hints. *)
Theorem C18_hint_keyset_designated :
  forall opts : list popt,
    v_hint_keys (configure opts) = designated_keys opts /\
    v_hint_algs (configure opts) = designated_algs opts.
Proof. exact hint_keyset_designated. Qed.
Print Assumptions C18_hint_keyset_designated.

(* Options about ACCESS TOKENS (key set, algorithms) - any number, anywhere among the options,
   carrying any key set - do not change how an id_token_hint is judged: dropping them all gives
   the same validator input for every request. *)
Theorem C18_access_token_options_irrelevant :
  forall (opts : list popt) (x : ereq),
    model_esreq (filter (fun o => negb (at_opt o)) opts) x = model_esreq opts x.
Proof. exact access_token_options_irrelevant. Qed.
Print Assumptions C18_access_token_options_irrelevant.

(* The hint verifier expects the issuer of the CURRENT request: a hint really signed by the
   provider for another issuer (another host of the same dynamic-issuer provider) is rejected,
   whatever the options;
   and (model, C18_spec) every answer of a request sequence depends on its own request only. *)
Theorem C18_foreign_issuer_rejected :
  forall (pmatch : string -> string -> pres) (uparse : string -> option purl)
         (default_uri : string) (ts : tsfr) (cs : list lclient) (opts : list popt) (x : ereq)
         (key alg iss : string) (ex : bool) (sub azp : string),
    r_tok x = TSigned key alg iss ex sub azp -> iss <> r_issuer x ->
    exists s c, end_session pmatch uparse default_uri ts cs (r_router x) (model_esreq opts x) = EPage s c None.
Proof. exact foreign_issuer_rejected. Qed.
Print Assumptions C18_foreign_issuer_rejected.

(* A hint signed with a key that the key set designated for hints does not trust while THIS
   request is served is rejected - e.g. a key only the access-token key set trusts. *)
Theorem C18_untrusted_key_rejected :
  forall (pmatch : string -> string -> pres) (uparse : string -> option purl)
         (default_uri : string) (ts : tsfr) (cs : list lclient) (opts : list popt) (x : ereq)
         (key alg iss : string) (ex : bool) (sub azp : string),
    r_tok x = TSigned key alg iss ex sub azp ->
    ks_trusts (designated_keys opts) (r_keys x) key = false ->
    exists s c, end_session pmatch uparse default_uri ts cs (r_router x) (model_esreq opts x) = EPage s c None.
Proof. exact untrusted_key_rejected. Qed.
Print Assumptions C18_untrusted_key_rejected.

(* A hint signed with an algorithm outside the list configured for the HINT verifier is rejected. *)
Theorem C18_unsupported_alg_rejected :
  forall (pmatch : string -> string -> pres) (uparse : string -> option purl)
         (default_uri : string) (ts : tsfr) (cs : list lclient) (opts : list popt) (x : ereq)
         (key alg iss : string) (ex : bool) (sub azp : string),
    r_tok x = TSigned key alg iss ex sub azp ->
    alg_allowed (designated_algs opts) alg = false ->
    exists s c, end_session pmatch uparse default_uri ts cs (r_router x) (model_esreq opts x) = EPage s c None.
Proof. exact unsupported_alg_rejected. Qed.
Print Assumptions C18_unsupported_alg_rejected.

(* Without a WithIDTokenHintKeySet - whatever WithAccessTokenKeySet was given - the published key
   set is read for every verification: a hint signed with a key the storage
   does not publish while THIS request is served (never published: a foreign key; or published during an
   earlier request of the same provider and withdrawn since) is rejected. *)
Theorem C18_withdrawn_key_rejected :
  forall (pmatch : string -> string -> pres) (uparse : string -> option purl)
         (default_uri : string) (ts : tsfr) (cs : list lclient) (opts : list popt) (x : ereq)
         (key alg iss : string) (ex : bool) (sub azp : string),
    last_hint_keys opts = None ->
    r_tok x = TSigned key alg iss ex sub azp -> ~ In key (r_keys x) ->
    exists s c, end_session pmatch uparse default_uri ts cs (r_router x) (model_esreq opts x) = EPage s c None.
Proof. exact withdrawn_key_rejected. Qed.
Print Assumptions C18_withdrawn_key_rejected.

(* Whenever TerminateSession (or TerminateSessionFromRequest) is called (redirect, or error page after a failing
   TerminateSession) its arguments are the hint's subject and the proven client. *)
Theorem C18_terminates_right_session :
  forall (pmatch : string -> string -> pres) (uparse : string -> option purl)
         (default_uri : string) (ts : tsfr) (cs : list lclient) (r : router) (q : esreq),
    (forall loc user sc, end_session pmatch uparse default_uri ts cs r q = ERedirect loc (user, sc) ->
       user = hint_sub (e_hint q) /\ proven_client q = Some sc) /\
    (forall s c user sc, end_session pmatch uparse default_uri ts cs r q = EPage s c (Some (user, sc)) ->
       user = hint_sub (e_hint q) /\ proven_client q = Some sc).
Proof. exact terminates_right_session. Qed.
Print Assumptions C18_terminates_right_session.

(* A request x carries r_toks x = the values of id_token_hint and r_form x = every other
   parameter as sent (http.Request.Form order: body first, then query); r_tok, r_client, r_uri,
   r_state = the LAST value of the respective name.  A parameter with any other name -
   logout_hint, ui_locales, unknown names - wherever it stands, changes nothing about what the
   validator sees. *)
Theorem C18_extra_parameter_irrelevant :
  forall (keys : keyset) (algs : list string) (x : ereq) (a b : list (string * string)) (k v : string),
    r_form x = a ++ (k, v) :: b ->
    k <> "client_id" -> k <> "post_logout_redirect_uri" -> k <> "state" ->
    to_esreq keys algs (with_form x (a ++ b)) = to_esreq keys algs x.
Proof. exact extra_parameter_irrelevant. Qed.
Print Assumptions C18_extra_parameter_irrelevant.

(* Of a repeated parameter only the last value counts: an earlier value can be dropped. *)
Theorem C18_repeated_parameter_last_counts :
  forall (keys : keyset) (algs : list string) (x : ereq) (a b : list (string * string)) (k v v' : string),
    r_form x = a ++ (k, v) :: b -> In v' (values_of k b) ->
    to_esreq keys algs (with_form x (a ++ b)) = to_esreq keys algs x.
Proof. exact repeated_parameter_last_counts. Qed.
Print Assumptions C18_repeated_parameter_last_counts.

(* The user handed to TerminateSession / TerminateSessionFromRequest is determined by the (last)
   id_token_hint alone - its subject if it is validly signed under the key set designated for
   hints, the empty user otherwise - whatever else (r_form) the request carries. *)
Theorem C18_terminated_user_from_hint_only :
  forall (pmatch : string -> string -> pres) (uparse : string -> option purl)
         (default_uri : string) (ts : tsfr) (cs : list lclient) (opts : list popt) (x : ereq),
    let h := classify (designated_keys opts) (designated_algs opts) (r_issuer x) (r_keys x) (r_tok x) in
    (forall loc user sc,
       end_session pmatch uparse default_uri ts cs (r_router x) (model_esreq opts x) = ERedirect loc (user, sc) ->
       user = hint_sub h) /\
    (forall s c user sc,
       end_session pmatch uparse default_uri ts cs (r_router x) (model_esreq opts x) = EPage s c (Some (user, sc)) ->
       user = hint_sub h).
Proof. exact terminated_user_from_hint_only. Qed.
Print Assumptions C18_terminated_user_from_hint_only.

(* With a state, the Location is the parsed target's prefix, "?", a query string and the
   fragment, and ParseQuery of that query string returns the target's own pairs with
   ("state", state) inserted: the state comes back unchanged, whatever bytes it has. *)
Theorem C18_state_appended :
  forall (pmatch : string -> string -> pres) (uparse : string -> option purl)
         (default_uri : string) (ts : tsfr) (cs : list lclient) (r : router) (q : esreq)
         (loc : string) (t : string * string),
    end_session pmatch uparse default_uri ts cs r q = ERedirect loc t -> e_state q <> "" ->
    StorageChoice ts loc \/
    exists u p qs,
      uparse u = Some p /\
      loc = p_pre p +++ "?" +++ qs +++ match p_frag p with Some f => "#" +++ f | None => "" end /\
      parse_query qs = Some (p_le p ++ ("state", e_state q) :: p_gt p).
Proof. exact state_appended. Qed.
Print Assumptions C18_state_appended.

(* QueryUnescape (QueryEscape s) = s for every byte string (used by the theorem above) *)
Theorem C18_query_escape_roundtrip : forall s : string, query_unescape (query_escape s) = Some s.
Proof. exact unescape_escape. Qed.
Print Assumptions C18_query_escape_roundtrip.

(* The boolean property predicate evaluated on the implementation's answers in the
   correspondence run (including: a valid or expired hint with nothing else wrong must
   be accepted) holds of the model on every input. *)
Theorem C18_spec_holds : forall i : input, spec i (model i) = true.
Proof. exact spec_model. Qed.
Print Assumptions C18_spec_holds.
