(* C18 property theorems: logout redirects only to post-logout URIs registered for
   the proven client.  Nothing but statements closed by [exact].
   pmatch = path.Match, uparse = url.Parse (both arbitrary functions: oracles);
   the outcome of VerifyIDTokenHint is the abstract [hint] of the request. *)
From OIDC Require Import Lib C18_Url C18_Url_proofs C18_Session C18_spec C18_proofs.

(* ts = whether / how the storage implements the optional op.CanTerminateSessionFromRequest
   (absent, echoes the validated session.RedirectURI, answers a URI of its own - the empty
   string included -, fails).  StorageChoice ts loc = the storage itself answered loc.
   A redirect goes to the storage's own choice, to the provider's default logout URI, or to the requested URI, and then
   that URI is registered (exactly or via an opted-in glob) for the client proven by the
   hint's azp or, without a hint, named by client_id; the Location is that URI itself or
   that URI with the state merged into its query (target_of). *)
Theorem C18_redirect_registered :
  forall (pmatch : string -> string -> pres) (uparse : string -> option purl)
         (default_uri : string) (ts : tsfr) (cs : list lclient) (r : router) (q : esreq)
         (loc user sc : string),
    end_session pmatch uparse default_uri ts cs r q = ERedirect loc (user, sc) ->
    StorageChoice ts loc \/
    exists u, target_of uparse q u loc /\
      (u = default_uri \/
       (u = e_uri q /\ e_uri q <> "" /\
        exists c, proven_client q = Some sc /\ find_lclient cs sc = Some c /\
                  RegisteredPost pmatch c u)).
Proof. exact redirect_registered. Qed.
Print Assumptions C18_redirect_registered.

(* A hint that does not verify (bad signature, foreign issuer, ...) is rejected; a
   client_id contradicting the hint's azp is rejected; expiry of an otherwise valid
   hint changes nothing. *)
Theorem C18_hint_rules :
  forall (pmatch : string -> string -> pres) (uparse : string -> option purl)
         (default_uri : string) (ts : tsfr) (cs : list lclient) (r : router) (q : esreq),
    (e_hint q = HBad ->
       exists s c, end_session pmatch uparse default_uri ts cs r q = EPage s c None) /\
    (forall ex sub azp, e_hint q = HGood ex sub azp -> e_client q <> "" -> e_client q <> azp ->
       exists s c, end_session pmatch uparse default_uri ts cs r q = EPage s c None) /\
    (forall sub azp,
       end_session pmatch uparse default_uri ts cs r (with_hint q (HGood true sub azp)) =
       end_session pmatch uparse default_uri ts cs r (with_hint q (HGood false sub azp))).
Proof. exact hint_rules. Qed.
Print Assumptions C18_hint_rules.

(* The hint verifier expects the issuer of the CURRENT request: a hint really signed by the
   provider for another issuer (another host of the same dynamic-issuer provider) is rejected;
   and (model, C18_spec) every answer of a request sequence depends on its own request only. *)
Theorem C18_foreign_issuer_rejected :
  forall (pmatch : string -> string -> pres) (uparse : string -> option purl)
         (default_uri : string) (ts : tsfr) (cs : list lclient) (x : ereq) (key iss : string) (ex : bool) (sub azp : string),
    r_tok x = TSigned key iss ex sub azp -> iss <> r_issuer x ->
    exists s c, end_session pmatch uparse default_uri ts cs (r_router x) (to_esreq x) = EPage s c None.
Proof. exact foreign_issuer_rejected. Qed.
Print Assumptions C18_foreign_issuer_rejected.

(* The published key set is read for every verification: a hint signed with a key the storage
   does not publish while THIS request is served (never published, or published during an
   earlier request of the same provider and withdrawn since) is rejected. *)
Theorem C18_withdrawn_key_rejected :
  forall (pmatch : string -> string -> pres) (uparse : string -> option purl)
         (default_uri : string) (ts : tsfr) (cs : list lclient) (x : ereq) (key iss : string) (ex : bool) (sub azp : string),
    r_tok x = TSigned key iss ex sub azp -> ~ In key (r_keys x) ->
    exists s c, end_session pmatch uparse default_uri ts cs (r_router x) (to_esreq x) = EPage s c None.
Proof. exact withdrawn_key_rejected. Qed.
Print Assumptions C18_withdrawn_key_rejected.

(* Whenever TerminateSession (or TerminateSessionFromRequest) is called (redirect, or error page after a failing
   TerminateSession) its arguments are the hint's subject and the proven client. *)
Theorem C18_terminates_right_session :
  forall (pmatch : string -> string -> pres) (uparse : string -> option purl)
         (default_uri : string) (ts : tsfr) (cs : list lclient) (r : router) (q : esreq),
    (forall loc user sc, end_session pmatch uparse default_uri ts cs r q = ERedirect loc (user, sc) ->
       user = hint_sub (e_hint q) /\ proven_client q = Some sc) /\
    (forall s c user sc, end_session pmatch uparse default_uri ts cs r q = EPage s c (Some (user, sc)) ->
       user = hint_sub (e_hint q) /\ proven_client q = Some sc).
Proof. exact terminates_right_session. Qed.
Print Assumptions C18_terminates_right_session.

(* With a state, the Location is the parsed target's prefix, "?", a query string and the
   fragment, and ParseQuery of that query string returns the target's own pairs with
   ("state", state) inserted: the state comes back unchanged, whatever bytes it has. *)
Theorem C18_state_appended :
  forall (pmatch : string -> string -> pres) (uparse : string -> option purl)
         (default_uri : string) (ts : tsfr) (cs : list lclient) (r : router) (q : esreq)
         (loc : string) (t : string * string),
    end_session pmatch uparse default_uri ts cs r q = ERedirect loc t -> e_state q <> "" ->
    StorageChoice ts loc \/
    exists u p qs,
      uparse u = Some p /\
      loc = p_pre p +++ "?" +++ qs +++ match p_frag p with Some f => "#" +++ f | None => "" end /\
      parse_query qs = Some (p_le p ++ ("state", e_state q) :: p_gt p).
Proof. exact state_appended. Qed.
Print Assumptions C18_state_appended.

(* QueryUnescape (QueryEscape s) = s for every byte string (used by the theorem above) *)
Theorem C18_query_escape_roundtrip : forall s : string, query_unescape (query_escape s) = Some s.
Proof. exact unescape_escape. Qed.
Print Assumptions C18_query_escape_roundtrip.

(* The boolean property predicate evaluated on the implementation's answers in the
   correspondence run (including: a valid or expired hint with nothing else wrong must
   be accepted) holds of the model on every input. *)
Theorem C18_spec_holds : forall i : input, spec i (model i) = true.
Proof. exact spec_model. Qed.
Print Assumptions C18_spec_holds.
