(* C05 property theorems. Nothing but statements closed by [exact].
   Vocabulary (coq/theories/C05_Model.v, C05_spec.v): [model] runs the guard prefix of the
   handler of the given router and endpoint; [success o] = the answer is 2xx; [registered rg g] =
   ValidateGrantType; [cred_valid c rg p pub] = the client authenticated in the way it is
   registered (DESIGN Appendix D); [authenticated rg p] = it proved possession of a credential
   registered for it; [pl] = where grant_type, the client parameters and the grant artefact travel
   (body / URL query / both) - every statement holds for every placement. All statements are relative to the storage contract written as
   [secret_ok] / [assertion_ok] in C05_Model.v. *)
From OIDC Require Import Lib C05_Model C05_spec C05_proofs C05_near_proofs.

(* Token endpoint, every router, configuration, registration, presentation and grant_type
   outside the two recorded gaps: a 2xx answer implies provider flag / storage capability on,
   grant registered, and the credential of the registered method (jwt-bearer: the grant
   assertion is signed by a key registered for its issuer).  [cred_valid] includes the transport
   rule of the property text - "correct secret via Basic or - if enabled - POST": a secret sent
   as a form parameter counts only while Config.AuthMethodPost is on ([secret_as_enabled]).
   [post_gap] (finding Fxx-C05-6): a handler that reads form credentials ([reads_form_secret]: every
   token handler except the Provider router's token exchange and device_code), a client held to a
   secret but not registered client_secret_post, AuthMethodPost off, the exact secret in the form
   only. *)
Theorem C05_token_partial : forall r c rg p g pl pv ar,
  (r = RProvider /\ g = GDevice /\ registered rg GDevice = false -> False) ->
  post_gap (mkInput r EToken c rg p g pl pv ar) = false ->
  names_other p = false ->
  success (model (mkInput r EToken c rg p g pl pv ar)) = true ->
  token_justified c rg p g = true.
Proof. exact token_partial. Qed.
Print Assumptions C05_token_partial.

(* For EVERY input outside the device gap - the post gap included - everything but the transport
   rule holds ([token_justified_lax]: capability, grant registration, known client, the exact secret
   somewhere in the request / a valid assertion / a public client on a grant that admits one). *)
Theorem C05_token_any_transport : forall r c rg p g pl pv ar,
  (r = RProvider /\ g = GDevice /\ registered rg GDevice = false -> False) ->
  names_other p = false ->
  success (model (mkInput r EToken c rg p g pl pv ar)) = true ->
  token_justified_lax c rg p g = true.
Proof. exact token_partial_lax. Qed.
Print Assumptions C05_token_any_transport.

(* Without the post guard the statement is false also outside the device gap (finding Fxx-C05-6:
   AuthMethodPost off, client registered client_secret_basic, exact secret as client_secret in
   the body, authorization_code grant, Provider router -> tokens) ... *)
Theorem C05_token_post_refuted : ~ (forall r c rg p g pl pv ar,
  (r = RProvider /\ g = GDevice /\ registered rg GDevice = false -> False) ->
  names_other p = false ->
  success (model (mkInput r EToken c rg p g pl pv ar)) = true -> token_justified c rg p g = true).
Proof. exact token_post_refuted. Qed.
Print Assumptions C05_token_post_refuted.

(* ... inside that class capability, grant registration, a known client and its exact secret are
   still enforced ... *)
Theorem C05_token_post_gap : forall r c rg p g pl pv ar,
  post_gap (mkInput r EToken c rg p g pl pv ar) = true -> names_other p = false ->
  success (model (mkInput r EToken c rg p g pl pv ar)) = true ->
  capability c g = true /\ registered rg g = true /\ r_known rg = true /\ presents_right_secret p = true.
Proof. exact token_post_gap. Qed.
Print Assumptions C05_token_post_gap.

(* ... and outside it AuthMethodPost = false means what it says: a request whose Authorization
   header does not carry the client's exact secret, and that has no valid assertion, obtains no
   token for any client that is not public - the exact secret as a form parameter buys nothing,
   for a client registered client_secret_post on every router and grant, and for a
   client_secret_basic client on the handlers outside the class (Provider router: token exchange,
   device_code - [C05_post_gap_excludes_unread]). *)
Theorem C05_post_disabled_form_secret_refused : forall r c rg p g pl pv ar,
  f_post c = false -> post_gap (mkInput r EToken c rg p g pl pv ar) = false ->
  secret_in_basic p = false -> presents_ok_assertion p = false ->
  r_meth rg <> MNone -> g <> GBearer -> names_other p = false ->
  success (model (mkInput r EToken c rg p g pl pv ar)) = false.
Proof. exact post_disabled_form_secret_refused. Qed.
Print Assumptions C05_post_disabled_form_secret_refused.

Theorem C05_post_gap_excludes_unread : forall r c rg p g pl pv ar,
  reads_form_secret r g = false -> post_gap (mkInput r EToken c rg p g pl pv ar) = false.
Proof. exact post_gap_excludes_unread. Qed.
Print Assumptions C05_post_gap_excludes_unread.

(* The same without the guard is what the property asks; the code does not meet it
   (finding Fxx-C05-4: Provider router, device_code grant, grant not registered). *)
Theorem C05_token_refuted : ~ (forall r c rg p g pl pv ar,
  names_other p = false ->
  success (model (mkInput r EToken c rg p g pl pv ar)) = true -> token_justified c rg p g = true).
Proof. exact token_refuted. Qed.
Print Assumptions C05_token_refuted.

(* Inside the gap everything except the grant registration is still enforced. *)
Theorem C05_token_gap : forall c rg p pl pv ar,
  registered rg GDevice = false -> names_other p = false ->
  success (model (mkInput RProvider EToken c rg p GDevice pl pv ar)) = true ->
  c_dev c = true /\ cred_valid c rg p true = true.
Proof. exact token_gap. Qed.
Print Assumptions C05_token_gap.

Theorem C05_introspect : forall r c rg p g pl pv ar,
  names_other p = false ->
  success (model (mkInput r EIntrospect c rg p g pl pv ar)) = true -> authenticated rg p = true.
Proof. exact introspect_statement. Qed.
Print Assumptions C05_introspect.

Theorem C05_revoke : forall r c rg p g pl pv ar,
  names_other p = false ->
  success (model (mkInput r ERevoke c rg p g pl pv ar)) = true ->
  authenticated rg p = true \/ (r_known rg = true /\ r_meth rg = MNone /\ identifies p = true).
Proof. exact revoke_statement. Qed.
Print Assumptions C05_revoke.

(* [names_other p]: the request names the second client Y (see C05_acts_for_self) *)
Theorem C05_device_authz : forall r c rg p g pl pv ar,
  names_other p = false ->
  success (model (mkInput r EDeviceAuthz c rg p g pl pv ar)) = true ->
  r_known rg = true /\ identifies p = true /\ registered rg GDevice = true.
Proof. exact device_authz_statement. Qed.
Print Assumptions C05_device_authz.

(* Every answer other than 2xx is a refusal: status >= 400, no token or device code, no
   active:true, nothing revoked, and on the token endpoint an OAuth error document. *)
Theorem C05_refusal_shape : forall i s e tok act w,
  model i = ORes s e tok act w -> s <> S2 ->
  (s = S4 \/ s = S5) /\ tok = false /\ act = false /\ w = WNone /\
  (i_endpoint i = EToken -> oauth_code e = true).
Proof. exact refusal_statement. Qed.
Print Assumptions C05_refusal_shape.

(* The handlers' guard prefixes always answer (no panic, one write). *)
Theorem C05_total : forall i, exists s e tok act w, model i = ORes s e tok act w.
Proof. exact model_total. Qed.
Print Assumptions C05_total.

(* Cross-client requests: a second client Y (registered with method vm, never presenting its
   own credential, registered for every grant or for none) owns the code / refresh token / device code / token of the case, and the
   request mixes a valid credential of X with Y's id. [names_other p]: Y's id sits in the slot
   the parsers read (Basic before form; the last of two client_id values) - the theorems above
   then speak about X only when it is false. [w] = the client the answer acted for. Whatever is
   issued, revoked or reported active in Y's name is justified by Y's own registration for a
   request that merely names Y ([other_gap]: the recorded gap Fxx-C05-4 when the acting client
   is Y: Provider router, device_code grant, Y not registered for it) ... *)
Theorem C05_acts_for_other : forall i s e tok act,
  other_gap i = false ->
  model i = ORes s e tok act WOther -> other_justified i = true.
Proof. exact acts_for_other. Qed.
Print Assumptions C05_acts_for_other.

(* ... hence never for a confidential Y, except a device code (which needs no authentication). *)
Theorem C05_never_for_confidential : forall i s e tok act v,
  other_gap i = false ->
  model i = ORes s e tok act WOther -> victim_of (i_pres i) = Some v -> v_meth v <> MNone ->
  i_endpoint i = EDeviceAuthz.
Proof. exact never_for_confidential. Qed.
Print Assumptions C05_never_for_confidential.

(* ... and a device authorization is stored in Y's name only if Y itself is registered for the
   device grant: the device-authorization endpoint acts only for a known client registered for
   the device grant, whoever authenticated. *)
Theorem C05_device_code_for_other_needs_grant : forall i s e tok act v,
  model i = ORes s e tok act WOther -> victim_of (i_pres i) = Some v -> i_endpoint i = EDeviceAuthz ->
  registered (victim_reg v) GDevice = true.
Proof. exact device_code_for_other_needs_grant. Qed.
Print Assumptions C05_device_code_for_other_needs_grant.

(* The property predicate evaluated by the correspondence run holds of the model on every
   input outside the recorded gaps (device: Fxx-C05-4 / 4b, post: Fxx-C05-6), and fails inside each.
   [art_modelled i]: the state of the artefact (live / undecodable / unknown) is an input for the token sent to
   introspection and revocation and for the jwt-bearer grant assertion; the other grants' artefacts are live
   in every case the correspondence run generates. *)
Theorem C05_spec_model_partial : forall i,
  art_modelled i = true ->
  known_gap i = false -> post_gap i = false -> other_gap i = false -> spec i (model i) = true.
Proof. exact spec_model_wf. Qed.
Print Assumptions C05_spec_model_partial.

Theorem C05_spec_model_refuted : exists i, spec i (model i) = false.
Proof. exact spec_model_refuted. Qed.
Print Assumptions C05_spec_model_refuted.

Theorem C05_spec_model_post_refuted : exists i, known_gap i = false /\ other_gap i = false /\ spec i (model i) = false.
Proof. exact spec_model_post_refuted. Qed.
Print Assumptions C05_spec_model_post_refuted.

(* Sequences of requests on one provider instance: no guard keeps state, the answer to a request
   does not depend on what was served before it ([pv ar]: a fully credentialed request of a third
   client, by assertion / Basic / post). *)
Theorem C05_history_independent : forall r e c rg p g pl pv pv' ar,
  model (mkInput r e c rg p g pl pv ar) = model (mkInput r e c rg p g pl pv' ar).
Proof. exact history_independent. Qed.
Print Assumptions C05_history_independent.

(* Partial credentials. The storage contract lets the empty secret match a client that has no
   secret stored (auth method none / private_key_jwt) ... *)
Theorem C05_storage_accepts_empty_secret : forall rg,
  r_known rg = true -> has_secret (r_meth rg) = false -> storage_secret_ok rg SEmpty = true.
Proof. exact storage_accepts_empty_secret. Qed.
Print Assumptions C05_storage_accepts_empty_secret.

(* ... and yet a hollow credential (client_id only, Basic with an empty password, an empty
   client_secret, a client_assertion_type without client_assertion) obtains neither token
   metadata nor tokens on the grants that require authentication, for any client. *)
Theorem C05_hollow_credential_refused : forall r e c rg p g pl pv ar,
  hollow p = true ->
  e = EIntrospect \/ (e = EToken /\ (g = GTE \/ g = GCC)) ->
  success (model (mkInput r e c rg p g pl pv ar)) = false.
Proof. exact hollow_credential_refused. Qed.
Print Assumptions C05_hollow_credential_refused.

(* The refusals the property text names. *)
Theorem C05_unknown_client_refused : forall r e c rg p g pl pv ar,
  r_known rg = false -> names_other p = false -> success (model (mkInput r e c rg p g pl pv ar)) = false.
Proof. exact unknown_client_refused. Qed.
Print Assumptions C05_unknown_client_refused.

Theorem C05_wrong_secret_refused : forall r e c rg p g pl pv ar,
  has_secret (r_meth rg) = true -> presents_right_secret p = false -> presents_ok_assertion p = false ->
  e <> EDeviceAuthz -> g <> GBearer ->
  success (model (mkInput r e c rg p g pl pv ar)) = false.
Proof. exact wrong_secret_refused. Qed.
Print Assumptions C05_wrong_secret_refused.

Theorem C05_unregistered_grant_refused : forall r c rg p g pl pv ar,
  registered rg g = false -> g <> GBearer -> (r = RProvider /\ g = GDevice -> False) ->
  names_other p = false ->
  success (model (mkInput r EToken c rg p g pl pv ar)) = false.
Proof. exact unregistered_grant_refused. Qed.
Print Assumptions C05_unregistered_grant_refused.

Theorem C05_disabled_grant_refused : forall r c rg p g pl pv ar,
  capability c g = false -> names_other p = false -> success (model (mkInput r EToken c rg p g pl pv ar)) = false.
Proof. exact disabled_grant_refused. Qed.
Print Assumptions C05_disabled_grant_refused.

(* White space and near misses. Secrets and ids are compared byte by byte once the transport
   encoding (base64, %XX, "+") is removed: [SBlank] = a secret that is nothing but white space,
   [SNear] = the right secret with surrounding white space / other letter case / a case-fold
   twin / a trailing slash / one byte more or fewer, [PNearId sl s] = such a near miss of X's id
   (in the Basic header or the form) next to secret s.  None of them is "the right secret"
   ([presents_right_secret]) or names X ([identifies]).
   A client that is not public obtains nothing, anywhere authentication is needed, without its
   exact secret or a valid assertion ... *)
Theorem C05_not_public_needs_credential : forall r e c rg p g pl pv ar,
  r_meth rg <> MNone -> presents_right_secret p = false -> presents_ok_assertion p = false ->
  e <> EDeviceAuthz -> g <> GBearer ->
  success (model (mkInput r e c rg p g pl pv ar)) = false.
Proof. exact not_public_needs_credential. Qed.
Print Assumptions C05_not_public_needs_credential.

(* ... on introspection, token exchange and client_credentials no client at all does: the
   white-space-only secret does not stand in for the empty stored secret of a public or
   private_key_jwt client ([only_wrong_secrets p]: any mixture of blank, near-miss, wrong and
   empty secrets in header and form satisfies the two premises) ... *)
Theorem C05_no_credential_no_authentication : forall r e c rg p g pl pv ar,
  presents_right_secret p = false -> presents_ok_assertion p = false ->
  e = EIntrospect \/ (e = EToken /\ (g = GTE \/ g = GCC)) ->
  success (model (mkInput r e c rg p g pl pv ar)) = false.
Proof. exact no_credential_no_authentication. Qed.
Print Assumptions C05_no_credential_no_authentication.

Theorem C05_only_wrong_secrets_presents_nothing : forall p,
  only_wrong_secrets p = true -> presents_right_secret p = false /\ presents_ok_assertion p = false.
Proof. exact only_wrong_secrets_presents_nothing. Qed.
Print Assumptions C05_only_wrong_secrets_presents_nothing.

(* ... and a near miss of X's id is nobody's id: whatever secret accompanies it (X's exact one
   included), for every registration of X (a public X included), nothing is obtained on any
   endpoint, in the Basic header, the form, or as issuer of the client assertion / of the
   jwt-bearer grant assertion. *)
Theorem C05_near_id_refused : forall r e c rg sl s g pl pv ar,
  success (model (mkInput r e c rg (PNearId sl s) g pl pv ar)) = false.
Proof. exact near_id_refused. Qed.
Print Assumptions C05_near_id_refused.

(* As coded, a blank or near-miss secret is one more wrong secret: not empty, never a match. *)
Theorem C05_blank_and_near_are_wrong : forall rg s,
  s = SBlank \/ s = SNear ->
  storage_secret_ok rg s = false /\ secret_ok rg s = false /\ cc_secret_ok rg s = false /\ nonempty s = Some s.
Proof. exact blank_and_near_are_wrong. Qed.
Print Assumptions C05_blank_and_near_are_wrong.

(* Round 6. [MOther]: Client.AuthMethod() returns a value that is none of the library's four
   constants (unset, client_secret_jwt, tls_client_auth, an unknown string, a case variant) for
   a client with a stored secret; read as the default client_secret_basic: no tokens without
   the exact secret - in particular not for a bare client_id on the device_code grant. *)
Theorem C05_other_method_needs_secret : forall r c rg p g pl pv ar,
  r_meth rg = MOther -> presents_right_secret p = false -> g <> GBearer ->
  success (model (mkInput r EToken c rg p g pl pv ar)) = false.
Proof. exact other_method_needs_secret. Qed.
Print Assumptions C05_other_method_needs_secret.

(* [c_jp c = false]: the provider object handed to NewLegacyServer lacks the optional method
   JWTProfileVerifier (the only optional method the LegacyServer type-asserts on its provider).
   Then a request that carries a client assertion - valid, wrong or junk, with or without
   client_id - obtains nothing on introspection and on the token endpoint: the assertion is never
   dropped in favour of a check of the (absent, hence empty) secret. *)
Theorem C05_bare_provider_assertion_refused : forall e c rg p g pl pv ar,
  c_jp c = false -> carries_assertion p = true -> e = EIntrospect \/ e = EToken ->
  success (model (mkInput RLegacy e c rg p g pl pv ar)) = false.
Proof. exact bare_provider_assertion_refused. Qed.
Print Assumptions C05_bare_provider_assertion_refused.

(* Round 7. [c_sub c]: the JWT profile verifier the provider hands out was built with a custom
   op.SubjectCheck that lets iss <> sub pass. [PXSub v]: a client assertion issued and signed by X
   whose subject is a second registered client Y (registration v), Y owning the artefact. The client
   that authenticates is the one whose key signed: the answer never acts for Y ... *)
Theorem C05_subject_never_acted_for : forall r e c rg v g pl pv ar s ec tok act w,
  model (mkInput r e c rg (PXSub v) g pl pv ar) = ORes s ec tok act w -> w <> WOther.
Proof. exact subject_never_acted_for. Qed.
Print Assumptions C05_subject_never_acted_for.

(* ... and under the default SubjectIsIssuer check such an assertion authenticates nobody. *)
Theorem C05_subject_default_refused : forall r e c rg v g pl pv ar,
  c_sub c = false -> (e = EToken -> g <> GBearer) ->
  success (model (mkInput r e c rg (PXSub v) g pl pv ar)) = false.
Proof. exact subject_default_refused. Qed.
Print Assumptions C05_subject_default_refused.

(* Round 11. [ar]: the state of the token the request carries - live, undecodable ([ArtJunk]), well formed but
   naming nothing live ([ArtGone]).  Introspection and revocation authenticate the caller before they look at the
   token: a caller that is not justified (not authenticated; revocation: nor a public client naming itself) gets
   the same refusal whatever the token is - it cannot tell a live token of this provider from garbage, and it
   never gets a success document, not even active:false ... *)
Theorem C05_unauthenticated_answer_ignores_token : forall r e c rg p g pl pv ar ar',
  e = EIntrospect \/ e = ERevoke -> names_other p = false ->
  justified (mkInput r e c rg p g pl pv ar) = false ->
  model (mkInput r e c rg p g pl pv ar) = model (mkInput r e c rg p g pl pv ar')
  /\ success (model (mkInput r e c rg p g pl pv ar)) = false.
Proof. exact unauthenticated_answer_ignores_token. Qed.
Print Assumptions C05_unauthenticated_answer_ignores_token.

(* ... a client assertion addressed to another issuer ([AWrongAud]: another host, a near miss of the issuer URL,
   the issuer of ANOTHER TENANT of a provider that derives its issuer from the request's host) authenticates
   nobody on any endpoint, whatever the instance served before ([pv], e.g. [PrevOtherHost]: X's own valid request
   at that other tenant) ... *)
Theorem C05_foreign_audience_refused : forall r e c rg p g pl pv ar,
  p = PAssert AWrongAud \/ p = PAssertId AWrongAud -> (e = EToken -> g <> GBearer) ->
  success (model (mkInput r e c rg p g pl pv ar)) = false.
Proof. exact foreign_audience_refused. Qed.
Print Assumptions C05_foreign_audience_refused.

(* ... and the jwt-bearer grant yields no token for a grant assertion that is no JWT, is expired or is addressed
   to another issuer. *)
Theorem C05_bearer_bad_assertion_refused : forall r c rg p pl pv ar,
  ar <> ArtOk -> success (model (mkInput r EToken c rg p GBearer pl pv ar)) = false.
Proof. exact bearer_bad_assertion_refused. Qed.
Print Assumptions C05_bearer_bad_assertion_refused.
