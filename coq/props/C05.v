(* C05 property theorems. Nothing but statements closed by [exact].
   Vocabulary (coq/theories/C05_Model.v, C05_spec.v): [model] runs the guard prefix of the
   handler of the given router and endpoint; [success o] = the answer is 2xx; [registered rg g] =
   ValidateGrantType; [cred_valid c rg p pub] = the client authenticated in the way it is
   registered (DESIGN Appendix D); [authenticated rg p] = it proved possession of a credential
   registered for it; [pl] = where grant_type, the client parameters and the grant artefact travel
   (body / URL query / both) - every statement holds for every placement. All statements are relative to the storage contract written as
   [secret_ok] / [assertion_ok] in C05_Model.v. *)
From OIDC Require Import Lib C05_Model C05_spec C05_proofs C05_near_proofs.

(* Token endpoint, every router, configuration, registration, presentation and grant_type
   outside the recorded gap: a 2xx answer implies provider flag / storage capability on,
   grant registered, and the credential of the registered method (jwt-bearer: the grant
   assertion is signed by a key registered for its issuer). *)
Theorem C05_token_partial : forall r c rg p g pl pv,
  (r = RProvider /\ g = GDevice /\ registered rg GDevice = false -> False) ->
  names_other p = false ->
  success (model (mkInput r EToken c rg p g pl pv)) = true ->
  token_justified c rg p g = true.
Proof. exact token_partial. Qed.
Print Assumptions C05_token_partial.

(* The same without the guard is what the property asks; the code does not meet it
   (finding Fxx-C05-4: Provider router, device_code grant, grant not registered). *)
Theorem C05_token_refuted : ~ (forall r c rg p g pl pv,
  names_other p = false ->
  success (model (mkInput r EToken c rg p g pl pv)) = true -> token_justified c rg p g = true).
Proof. exact token_refuted. Qed.
Print Assumptions C05_token_refuted.

(* Inside the gap everything except the grant registration is still enforced. *)
Theorem C05_token_gap : forall c rg p pl pv,
  registered rg GDevice = false -> names_other p = false ->
  success (model (mkInput RProvider EToken c rg p GDevice pl pv)) = true ->
  c_dev c = true /\ cred_valid c rg p true = true.
Proof. exact token_gap. Qed.
Print Assumptions C05_token_gap.

Theorem C05_introspect : forall r c rg p g pl pv,
  names_other p = false ->
  success (model (mkInput r EIntrospect c rg p g pl pv)) = true -> authenticated rg p = true.
Proof. exact introspect_statement. Qed.
Print Assumptions C05_introspect.

Theorem C05_revoke : forall r c rg p g pl pv,
  names_other p = false ->
  success (model (mkInput r ERevoke c rg p g pl pv)) = true ->
  authenticated rg p = true \/ (r_known rg = true /\ r_meth rg = MNone /\ identifies p = true).
Proof. exact revoke_statement. Qed.
Print Assumptions C05_revoke.

(* [names_other p]: the request names the second client Y (see C05_acts_for_self) *)
Theorem C05_device_authz : forall r c rg p g pl pv,
  names_other p = false ->
  success (model (mkInput r EDeviceAuthz c rg p g pl pv)) = true ->
  r_known rg = true /\ identifies p = true /\ registered rg GDevice = true.
Proof. exact device_authz_statement. Qed.
Print Assumptions C05_device_authz.

(* Every answer other than 2xx is a refusal: status >= 400, no token or device code, no
   active:true, nothing revoked, and on the token endpoint an OAuth error document. *)
Theorem C05_refusal_shape : forall i s e tok act w,
  model i = ORes s e tok act w -> s <> S2 ->
  (s = S4 \/ s = S5) /\ tok = false /\ act = false /\ w = WNone /\
  (i_endpoint i = EToken -> oauth_code e = true).
Proof. exact refusal_statement. Qed.
Print Assumptions C05_refusal_shape.

(* The handlers' guard prefixes always answer (no panic, one write). *)
Theorem C05_total : forall i, exists s e tok act w, model i = ORes s e tok act w.
Proof. exact model_total. Qed.
Print Assumptions C05_total.

(* Cross-client requests: a second client Y (registered with method vm, never presenting its
   own credential, registered for every grant or for none) owns the code / refresh token / device code / token of the case, and the
   request mixes a valid credential of X with Y's id. [names_other p]: Y's id sits in the slot
   the parsers read (Basic before form; the last of two client_id values) - the theorems above
   then speak about X only when it is false. [w] = the client the answer acted for. Whatever is
   issued, revoked or reported active in Y's name is justified by Y's own registration for a
   request that merely names Y ([other_gap]: the recorded gap Fxx-C05-4 when the acting client
   is Y: Provider router, device_code grant, Y not registered for it) ... *)
Theorem C05_acts_for_other : forall i s e tok act,
  other_gap i = false ->
  model i = ORes s e tok act WOther -> other_justified i = true.
Proof. exact acts_for_other. Qed.
Print Assumptions C05_acts_for_other.

(* ... hence never for a confidential Y, except a device code (which needs no authentication). *)
Theorem C05_never_for_confidential : forall i s e tok act v,
  other_gap i = false ->
  model i = ORes s e tok act WOther -> victim_of (i_pres i) = Some v -> v_meth v <> MNone ->
  i_endpoint i = EDeviceAuthz.
Proof. exact never_for_confidential. Qed.
Print Assumptions C05_never_for_confidential.

(* ... and a device authorization is stored in Y's name only if Y itself is registered for the
   device grant: the device-authorization endpoint acts only for a known client registered for
   the device grant, whoever authenticated. *)
Theorem C05_device_code_for_other_needs_grant : forall i s e tok act v,
  model i = ORes s e tok act WOther -> victim_of (i_pres i) = Some v -> i_endpoint i = EDeviceAuthz ->
  registered (victim_reg v) GDevice = true.
Proof. exact device_code_for_other_needs_grant. Qed.
Print Assumptions C05_device_code_for_other_needs_grant.

(* The property predicate evaluated by the correspondence run holds of the model on every
   input outside the gap, and fails inside it. *)
Theorem C05_spec_model_partial : forall i,
  known_gap i = false -> other_gap i = false -> spec i (model i) = true.
Proof. exact spec_model. Qed.
Print Assumptions C05_spec_model_partial.

Theorem C05_spec_model_refuted : exists i, spec i (model i) = false.
Proof. exact spec_model_refuted. Qed.
Print Assumptions C05_spec_model_refuted.

(* Sequences of requests on one provider instance: no guard keeps state, the answer to a request
   does not depend on what was served before it ([pv]: a fully credentialed request of a third
   client, by assertion / Basic / post). *)
Theorem C05_history_independent : forall r e c rg p g pl pv pv',
  model (mkInput r e c rg p g pl pv) = model (mkInput r e c rg p g pl pv').
Proof. exact history_independent. Qed.
Print Assumptions C05_history_independent.

(* Partial credentials. The storage contract lets the empty secret match a client that has no
   secret stored (auth method none / private_key_jwt) ... *)
Theorem C05_storage_accepts_empty_secret : forall rg,
  r_known rg = true -> has_secret (r_meth rg) = false -> storage_secret_ok rg SEmpty = true.
Proof. exact storage_accepts_empty_secret. Qed.
Print Assumptions C05_storage_accepts_empty_secret.

(* ... and yet a hollow credential (client_id only, Basic with an empty password, an empty
   client_secret, a client_assertion_type without client_assertion) obtains neither token
   metadata nor tokens on the grants that require authentication, for any client. *)
Theorem C05_hollow_credential_refused : forall r e c rg p g pl pv,
  hollow p = true ->
  e = EIntrospect \/ (e = EToken /\ (g = GTE \/ g = GCC)) ->
  success (model (mkInput r e c rg p g pl pv)) = false.
Proof. exact hollow_credential_refused. Qed.
Print Assumptions C05_hollow_credential_refused.

(* The refusals the property text names. *)
Theorem C05_unknown_client_refused : forall r e c rg p g pl pv,
  r_known rg = false -> names_other p = false -> success (model (mkInput r e c rg p g pl pv)) = false.
Proof. exact unknown_client_refused. Qed.
Print Assumptions C05_unknown_client_refused.

Theorem C05_wrong_secret_refused : forall r e c rg p g pl pv,
  has_secret (r_meth rg) = true -> presents_right_secret p = false -> presents_ok_assertion p = false ->
  e <> EDeviceAuthz -> g <> GBearer ->
  success (model (mkInput r e c rg p g pl pv)) = false.
Proof. exact wrong_secret_refused. Qed.
Print Assumptions C05_wrong_secret_refused.

Theorem C05_unregistered_grant_refused : forall r c rg p g pl pv,
  registered rg g = false -> g <> GBearer -> (r = RProvider /\ g = GDevice -> False) ->
  names_other p = false ->
  success (model (mkInput r EToken c rg p g pl pv)) = false.
Proof. exact unregistered_grant_refused. Qed.
Print Assumptions C05_unregistered_grant_refused.

Theorem C05_disabled_grant_refused : forall r c rg p g pl pv,
  capability c g = false -> names_other p = false -> success (model (mkInput r EToken c rg p g pl pv)) = false.
Proof. exact disabled_grant_refused. Qed.
Print Assumptions C05_disabled_grant_refused.

(* White space and near misses. Secrets and ids are compared byte by byte once the transport
   encoding (base64, %XX, "+") is removed: [SBlank] = a secret that is nothing but white space,
   [SNear] = the right secret with surrounding white space / other letter case / a case-fold
   twin / a trailing slash / one byte more or fewer, [PNearId sl s] = such a near miss of X's id
   (in the Basic header or the form) next to secret s.  None of them is "the right secret"
   ([presents_right_secret]) or names X ([identifies]).
   A client that is not public obtains nothing, anywhere authentication is needed, without its
   exact secret or a valid assertion ... *)
Theorem C05_not_public_needs_credential : forall r e c rg p g pl pv,
  r_meth rg <> MNone -> presents_right_secret p = false -> presents_ok_assertion p = false ->
  e <> EDeviceAuthz -> g <> GBearer ->
  success (model (mkInput r e c rg p g pl pv)) = false.
Proof. exact not_public_needs_credential. Qed.
Print Assumptions C05_not_public_needs_credential.

(* ... on introspection, token exchange and client_credentials no client at all does: the
   white-space-only secret does not stand in for the empty stored secret of a public or
   private_key_jwt client ([only_wrong_secrets p]: any mixture of blank, near-miss, wrong and
   empty secrets in header and form satisfies the two premises) ... *)
Theorem C05_no_credential_no_authentication : forall r e c rg p g pl pv,
  presents_right_secret p = false -> presents_ok_assertion p = false ->
  e = EIntrospect \/ (e = EToken /\ (g = GTE \/ g = GCC)) ->
  success (model (mkInput r e c rg p g pl pv)) = false.
Proof. exact no_credential_no_authentication. Qed.
Print Assumptions C05_no_credential_no_authentication.

Theorem C05_only_wrong_secrets_presents_nothing : forall p,
  only_wrong_secrets p = true -> presents_right_secret p = false /\ presents_ok_assertion p = false.
Proof. exact only_wrong_secrets_presents_nothing. Qed.
Print Assumptions C05_only_wrong_secrets_presents_nothing.

(* ... and a near miss of X's id is nobody's id: whatever secret accompanies it (X's exact one
   included), for every registration of X (a public X included), nothing is obtained on any
   endpoint, in the Basic header, the form, or as issuer of the client assertion / of the
   jwt-bearer grant assertion. *)
Theorem C05_near_id_refused : forall r e c rg sl s g pl pv,
  success (model (mkInput r e c rg (PNearId sl s) g pl pv)) = false.
Proof. exact near_id_refused. Qed.
Print Assumptions C05_near_id_refused.

(* As coded, a blank or near-miss secret is one more wrong secret: not empty, never a match. *)
Theorem C05_blank_and_near_are_wrong : forall rg s,
  s = SBlank \/ s = SNear ->
  storage_secret_ok rg s = false /\ secret_ok rg s = false /\ cc_secret_ok rg s = false /\ nonempty s = Some s.
Proof. exact blank_and_near_are_wrong. Qed.
Print Assumptions C05_blank_and_near_are_wrong.

(* Round 6. [MOther]: Client.AuthMethod() returns a value that is none of the library's four
   constants (unset, client_secret_jwt, tls_client_auth, an unknown string, a case variant) for
   a client with a stored secret; read as the default client_secret_basic: no tokens without
   the exact secret - in particular not for a bare client_id on the device_code grant. *)
Theorem C05_other_method_needs_secret : forall r c rg p g pl pv,
  r_meth rg = MOther -> presents_right_secret p = false -> g <> GBearer ->
  success (model (mkInput r EToken c rg p g pl pv)) = false.
Proof. exact other_method_needs_secret. Qed.
Print Assumptions C05_other_method_needs_secret.

(* [c_jp c = false]: the provider object handed to NewLegacyServer lacks the optional method
   JWTProfileVerifier (the only optional method the LegacyServer type-asserts on its provider).
   Then a request that carries a client assertion - valid, wrong or junk, with or without
   client_id - obtains nothing on introspection and on the token endpoint: the assertion is never
   dropped in favour of a check of the (absent, hence empty) secret. *)
Theorem C05_bare_provider_assertion_refused : forall e c rg p g pl pv,
  c_jp c = false -> carries_assertion p = true -> e = EIntrospect \/ e = EToken ->
  success (model (mkInput RLegacy e c rg p g pl pv)) = false.
Proof. exact bare_provider_assertion_refused. Qed.
Print Assumptions C05_bare_provider_assertion_refused.

(* Round 7. [c_sub c]: the JWT profile verifier the provider hands out was built with a custom
   op.SubjectCheck that lets iss <> sub pass. [PXSub v]: a client assertion issued and signed by X
   whose subject is a second registered client Y (registration v), Y owning the artefact. The client
   that authenticates is the one whose key signed: the answer never acts for Y ... *)
Theorem C05_subject_never_acted_for : forall r e c rg v g pl pv s ec tok act w,
  model (mkInput r e c rg (PXSub v) g pl pv) = ORes s ec tok act w -> w <> WOther.
Proof. exact subject_never_acted_for. Qed.
Print Assumptions C05_subject_never_acted_for.

(* ... and under the default SubjectIsIssuer check such an assertion authenticates nobody. *)
Theorem C05_subject_default_refused : forall r e c rg v g pl pv,
  c_sub c = false -> (e = EToken -> g <> GBearer) ->
  success (model (mkInput r e c rg (PXSub v) g pl pv)) = false.
Proof. exact subject_default_refused. Qed.
Print Assumptions C05_subject_default_refused.
