(* C01 property theorems. Nothing but statements closed by [exact].
   [verify] (go-jose's signature check on one key) and [H] (the hash functions)
   are arbitrary functions.  Times: [now], offset and max ages in ns, claim times
   in s; [instant], [round_s], [is_zero_time] in C01_Verifier; [id_token_valid],
   [id_token_margin], [at_hash_matches] in C01_proofs. *)
From OIDC Require Import Lib Base64 Base64_proofs C02_Jws C01_Verifier C02_Ground C01_Options C01_spec C02_proofs
  C01_options_proofs C01_proofs C01_athash_proofs C01_optlift_proofs.

(* rp.VerifyIDToken returns claims c only if c is the parsed payload unchanged,
   the token carries exactly one signature with an allowed algorithm verifying
   under a trusted key of the key set over exactly the parsed bytes, and:
   iss = issuer, sub present, client in aud, azp = client when present, azp
   present when several audiences, now+offset < exp, iat present and not after
   round(now+offset), not before round(now-maxAgeIAT) when configured, nonce and
   acr as configured, auth_time present and not before round(now-maxAge) when configured *)
Theorem C01_sound : forall verify v ks t m now c alg,
  verify_id_token verify v ks t m now = Accept c alg ->
  (exists bytes e k,
      m = MidOk bytes c
      /\ tok_sigs t = [e] /\ tok_payload t = Some bytes
      /\ alg = se_alg e /\ string_in alg (effective_algs (v_algs v)) = true
      /\ In k (ks_keys ks) /\ trusted_key ks e k = true /\ verify k e bytes = true)
  /\ id_token_valid v c now.
Proof. exact id_token_sound. Qed.
Print Assumptions C01_sound.

(* with a non-negative offset an accepted token is not expired at the time of the call *)
Theorem C01_not_expired : forall verify v ks t m now c alg,
  verify_id_token verify v ks t m now = Accept c alg ->
  (0 <= v_offset v)%Z -> (zero_unix * ns <= now)%Z ->
  c_exp c <> 0%Z /\ (now < c_exp c * ns)%Z.
Proof. exact id_token_not_expired. Qed.
Print Assumptions C01_not_expired.

(* Claim times and the clock are unbounded integers (Z) - the model's arithmetic
   is the ground truth for times of ANY magnitude (year 1, negative NumericDates,
   2262 and later, +-2^53): nothing wraps around.  A zero or negative exp is never
   accepted after 1970; the expiry check is exactly now + offset < exp. *)
Theorem C01_negative_exp_rejected : forall verify v ks t m now c alg,
  verify_id_token verify v ks t m now = Accept c alg ->
  (0 <= v_offset v)%Z -> (0 <= now)%Z -> (0 < c_exp c)%Z.
Proof. exact negative_exp_rejected. Qed.
Print Assumptions C01_negative_exp_rejected.

Theorem C01_expiration_exact : forall c off now,
  chk_expiration c off now = None <-> (now + off < instant (c_exp c))%Z.
Proof. exact expiration_exact. Qed.
Print Assumptions C01_expiration_exact.

(* acceptance is exactly: parsed, signature check passed, all conditions hold *)
Theorem C01_accept_iff : forall verify v ks t m now c alg,
  verify_id_token verify v ks t m now = Accept c alg <->
  exists bytes,
    m = MidOk bytes c
    /\ check_signature verify (v_algs v) ks t bytes = Ok alg
    /\ id_token_valid v c now.
Proof. exact verify_id_token_accept. Qed.
Print Assumptions C01_accept_iff.

(* rp.VerifyTokens: additionally a present at_hash is the base64url left half of
   the hash (chosen by the verified signature's algorithm) of exactly this access token *)
Theorem C01_tokens_sound : forall verify H v ks t m access_token now c alg,
  verify_tokens verify H v ks t m access_token now = Accept c alg ->
  verify_id_token verify v ks t m now = Accept c alg
  /\ at_hash_matches H c alg access_token.
Proof. exact tokens_sound. Qed.
Print Assumptions C01_tokens_sound.

(* a token whose signature check passes and which meets every condition with one
   second of margin on each time bound is accepted, claims unchanged *)
Theorem C01_complete : forall verify v ks t bytes c now alg,
  check_signature verify (v_algs v) ks t bytes = Ok alg ->
  id_token_margin v c now ->
  verify_id_token verify v ks t (MidOk bytes c) now = Accept c alg.
Proof. exact id_token_complete. Qed.
Print Assumptions C01_complete.

Theorem C01_tokens_complete : forall verify H v ks t bytes c access_token now alg,
  check_signature verify (v_algs v) ks t bytes = Ok alg ->
  id_token_margin v c now ->
  at_hash_matches H c alg access_token ->
  verify_tokens verify H v ks t (MidOk bytes c) access_token now = Accept c alg.
Proof. exact tokens_complete. Qed.
Print Assumptions C01_tokens_complete.

(* at_hash covers EVERY byte of the access token, whatever its length: for hash
   functions H returning byte strings, one ID token with an at_hash is accepted
   together with two access tokens a1, a2 (of any length, sharing any prefix) only
   if the left halves of their digests coincide ... *)
Theorem C01_at_hash_binds_access_token : forall verify H v ks t m a1 a2 now c alg c2 alg2,
  (forall hk s, all_bytesP (H hk s)) ->
  verify_tokens verify H v ks t m a1 now = Accept c alg ->
  verify_tokens verify H v ks t m a2 now = Accept c2 alg2 ->
  c_at_hash c <> "" ->
  c2 = c /\ alg2 = alg
  /\ exists hk, hash_of_alg alg = Some hk /\ left_half (H hk a1) = left_half (H hk a2).
Proof. exact at_hash_binds_access_token. Qed.
Print Assumptions C01_at_hash_binds_access_token.

(* ... and with any access token whose digest differs in the left half the same
   ID token is refused with ErrAtHash *)
Theorem C01_at_hash_other_token_rejected : forall verify H v ks t m a1 a2 now c alg hk,
  (forall hk s, all_bytesP (H hk s)) ->
  verify_tokens verify H v ks t m a1 now = Accept c alg ->
  c_at_hash c <> "" -> hash_of_alg alg = Some hk ->
  left_half (H hk a1) <> left_half (H hk a2) ->
  verify_tokens verify H v ks t m a2 now = Reject EAtHash.
Proof. exact at_hash_other_token_rejected. Qed.
Print Assumptions C01_at_hash_other_token_rejected.

(* the property predicate evaluated by the correspondence run (soundness at the
   weakest, completeness at the strongest end of the clock bracket [now0,now1])
   holds of the model for every input whose bracket is ordered and lies after
   year 1 - single calls, sequences of calls on ONE verifier / key set (each
   answer of a sequence judged from its own call only), and calls on a verifier
   built by rp.NewIDTokenVerifier from an option list (configuration read back,
   answer judged for the configuration the option list documents, accessors of
   the returned claims compared with the payload) *)
Theorem C01_spec_model : forall i, wf i -> spec i (model i) = true.
Proof. exact spec_model. Qed.
Print Assumptions C01_spec_model.

(* ---------- the verifier's configuration comes from an option list ----------
   [new_id_token_verifier issuer client opts] (C01_Options): the struct literal of
   rp.NewIDTokenVerifier followed by the loop that applies every option;
   [configured issuer client opts] (C01_spec): per setting, the value of the LAST
   option naming it, else the default (offset 1 s, max ages 0, nonce "" expected,
   no ACR requirement, default algorithm list). *)

(* the loop computes exactly that configuration - the one C01_sound / C01_complete speak about *)
Theorem C01_options_configured : forall issuer client opts,
  new_id_token_verifier issuer client opts = configured issuer client opts.
Proof. exact options_configured. Qed.
Print Assumptions C01_options_configured.

(* each option sets exactly its own field and leaves all the others unchanged *)
Theorem C01_option_sets_own_field : forall v o,
  let v' := apply_opt v o in
  v_issuer v' = v_issuer v /\ v_client v' = v_client v
  /\ v_offset v' = match o with WithIssuedAtOffset d => d | _ => v_offset v end
  /\ v_max_iat v' = match o with WithIssuedAtMaxAge d => d | _ => v_max_iat v end
  /\ v_nonce v' = match o with WithNonce n => n | _ => v_nonce v end
  /\ v_acr v' = match o with WithACRVerifier l => l | _ => v_acr v end
  /\ v_max_age v' = match o with WithAuthTimeMaxAge d => d | _ => v_max_age v end
  /\ v_algs v' = match o with WithSupportedSigningAlgorithms l => l | _ => v_algs v end.
Proof. exact option_sets_own_field. Qed.
Print Assumptions C01_option_sets_own_field.

(* the order of two neighbouring options for different fields does not matter *)
Theorem C01_options_order_insensitive : forall issuer client l1 o1 o2 l2,
  opt_kind o1 <> opt_kind o2 ->
  new_id_token_verifier issuer client (l1 ++ o1 :: o2 :: l2)
  = new_id_token_verifier issuer client (l1 ++ o2 :: o1 :: l2).
Proof. exact options_order_insensitive. Qed.
Print Assumptions C01_options_order_insensitive.

(* last one wins: an option followed anywhere later by one for the same field has no effect *)
Theorem C01_options_last_wins : forall issuer client l1 o1 l2 o2 l3,
  opt_kind o1 = opt_kind o2 ->
  new_id_token_verifier issuer client (l1 ++ o1 :: l2 ++ o2 :: l3)
  = new_id_token_verifier issuer client (l1 ++ l2 ++ o2 :: l3).
Proof. exact options_last_wins. Qed.
Print Assumptions C01_options_last_wins.

(* C01_sound for a verifier described by its option list *)
Theorem C01_options_sound : forall verify issuer client opts ks t m now c alg,
  verify_id_token verify (new_id_token_verifier issuer client opts) ks t m now = Accept c alg ->
  (exists bytes e k,
      m = MidOk bytes c
      /\ tok_sigs t = [e] /\ tok_payload t = Some bytes
      /\ alg = se_alg e
      /\ string_in alg (effective_algs (v_algs (configured issuer client opts))) = true
      /\ In k (ks_keys ks) /\ trusted_key ks e k = true /\ verify k e bytes = true)
  /\ id_token_valid (configured issuer client opts) c now.
Proof. exact options_sound. Qed.
Print Assumptions C01_options_sound.

(* C01_complete for a verifier described by its option list *)
Theorem C01_options_complete : forall verify issuer client opts ks t bytes c now alg,
  check_signature verify (v_algs (configured issuer client opts)) ks t bytes = Ok alg ->
  id_token_margin (configured issuer client opts) c now ->
  verify_id_token verify (new_id_token_verifier issuer client opts) ks t (MidOk bytes c) now = Accept c alg.
Proof. exact options_complete. Qed.
Print Assumptions C01_options_complete.

Theorem C01_options_tokens_sound : forall verify H issuer client opts ks t m access_token now c alg,
  verify_tokens verify H (new_id_token_verifier issuer client opts) ks t m access_token now = Accept c alg ->
  id_token_valid (configured issuer client opts) c now /\ at_hash_matches H c alg access_token.
Proof. exact options_tokens_sound. Qed.
Print Assumptions C01_options_tokens_sound.

Theorem C01_options_tokens_complete : forall verify H issuer client opts ks t bytes c access_token now alg,
  check_signature verify (v_algs (configured issuer client opts)) ks t bytes = Ok alg ->
  id_token_margin (configured issuer client opts) c now ->
  at_hash_matches H c alg access_token ->
  verify_tokens verify H (new_id_token_verifier issuer client opts) ks t (MidOk bytes c) access_token now
  = Accept c alg.
Proof. exact options_tokens_complete. Qed.
Print Assumptions C01_options_tokens_complete.

(* WithAuthTimeMaxAge d (d <> 0, no later option of that kind): an accepted token
   carries an auth_time not before round(now - d); WithIssuedAtMaxAge likewise for iat *)
Theorem C01_options_auth_age_enforced : forall verify issuer client l1 d l2 ks t m now c alg,
  (forall o, In o l2 -> opt_kind o <> KMaxAge) -> d <> 0%Z ->
  verify_id_token verify (new_id_token_verifier issuer client (l1 ++ WithAuthTimeMaxAge d :: l2)) ks t m now
  = Accept c alg ->
  is_zero_time (c_auth_time c) = false /\ (round_s (now - d) <= instant (c_auth_time c))%Z.
Proof. exact options_auth_age_enforced. Qed.
Print Assumptions C01_options_auth_age_enforced.

Theorem C01_options_iat_age_enforced : forall verify issuer client l1 d l2 ks t m now c alg,
  (forall o, In o l2 -> opt_kind o <> KMaxIat) -> d <> 0%Z ->
  verify_id_token verify (new_id_token_verifier issuer client (l1 ++ WithIssuedAtMaxAge d :: l2)) ks t m now
  = Accept c alg ->
  is_zero_time (c_iat c) = false /\ (round_s (now - d) <= instant (c_iat c))%Z.
Proof. exact options_iat_age_enforced. Qed.
Print Assumptions C01_options_iat_age_enforced.

(* ---------- "claims returned unchanged", at the accessors ----------
   [getters c alg p] (C01_Options): GetIssuer ... GetAccessTokenHash,
   GetSignatureAlgorithm and GetUserInfo of claims c carrying SignatureAlg alg
   (p: the profile members of the payload); times as (IsZero, Unix seconds).
   What the relying party reads through them after an acceptance is the parsed
   payload (getters_report: the run's predicate) and satisfies what was validated:
   issuer, subject (also in the UserInfo), audience, azp, iat and exp present
   with exp after now + offset, auth_time present when a max age is configured. *)
Theorem C01_accepted_getters : forall verify v ks t m now c alg p,
  verify_id_token verify v ks t m now = Accept c alg ->
  let g := getters c alg p in
  (exists bytes, m = MidOk bytes c)
  /\ getters_report c alg p g = true
  /\ g_iss g = v_issuer v /\ g_sub g <> "" /\ ui_sub g = g_sub g /\ In (v_client v) (g_aud g)
  /\ (g_azp g <> "" -> g_azp g = v_client v)
  /\ gt_zero (g_iat g) = false /\ gt_unix (g_iat g) = c_iat c
  /\ ((zero_unix * ns <= now + v_offset v)%Z ->
      gt_zero (g_exp g) = false /\ gt_unix (g_exp g) = c_exp c /\ (now + v_offset v < gt_unix (g_exp g) * ns)%Z)
  /\ (v_max_age v <> 0%Z -> gt_zero (g_auth_time g) = false /\ gt_unix (g_auth_time g) = c_auth_time c).
Proof. exact accepted_getters. Qed.
Print Assumptions C01_accepted_getters.

(* every accessor reports the claim of the payload: strings, audience list and
   profile members unchanged; a present time claim as that second, an absent one as no time *)
Theorem C01_getters_strings : forall c alg p,
  let g := getters c alg p in
  g_iss g = c_iss c /\ g_sub g = c_sub c /\ g_aud g = c_aud c /\ g_nonce g = c_nonce c
  /\ g_acr g = c_acr c /\ g_azp g = c_azp c /\ g_alg g = alg /\ g_at_hash g = c_at_hash c
  /\ ui_sub g = c_sub c /\ ui_ext g = c_extra c
  /\ ui_name g = p_name p /\ ui_given g = p_given p /\ ui_family g = p_family p
  /\ ui_username g = p_username p /\ ui_email g = p_email p /\ ui_email_verified g = p_email_verified p
  /\ ui_phone g = p_phone p /\ ui_phone_verified g = p_phone_verified p
  /\ ui_address g = p_address p /\ ui_updated_at g = p_updated_at p /\ ui_members g = p_members p.
Proof. exact getters_strings. Qed.
Print Assumptions C01_getters_strings.

Theorem C01_getters_times : forall c alg p,
  let g := getters c alg p in
  (c_exp c <> 0%Z -> gt_unix (g_exp g) = c_exp c) /\ (c_exp c = 0%Z -> gt_zero (g_exp g) = true)
  /\ (c_iat c <> 0%Z -> gt_unix (g_iat g) = c_iat c) /\ (c_iat c = 0%Z -> gt_zero (g_iat g) = true)
  /\ (c_auth_time c <> 0%Z -> gt_unix (g_auth_time g) = c_auth_time c)
  /\ (c_auth_time c = 0%Z -> gt_zero (g_auth_time g) = true).
Proof. exact getters_times. Qed.
Print Assumptions C01_getters_times.

(* a payload that does not decode as ID-token claims - also: a member present
   with a JSON type that does not fit its claim (azp / at_hash / nonce / acr as
   array, number, object, bool; auth_time as array, object, bool, non-date string):
   [MidJson] - is refused by VerifyIDToken and VerifyTokens under every
   configuration; an ill-typed claim is never treated as absent *)
Theorem C01_undecodable_rejected : forall verify H v ks t m now,
  (forall bytes c, m <> MidOk bytes c) ->
  verify_id_token verify v ks t m now = Reject (mid_error m)
  /\ forall access_token, verify_tokens verify H v ks t m access_token now = Reject (mid_error m).
Proof. exact undecodable_rejected. Qed.
Print Assumptions C01_undecodable_rejected.
