(* C01 property theorems. Nothing but statements closed by [exact].
   [verify] (go-jose's signature check on one key) and [H] (the hash functions)
   are arbitrary functions.  Times: [now], offset and max ages in ns, claim times
   in s; [instant], [round_s], [is_zero_time] in C01_Verifier; [id_token_valid],
   [id_token_margin], [at_hash_matches] in C01_proofs. *)
From OIDC Require Import Lib Base64 Base64_proofs C02_Jws C01_Verifier C02_Ground C01_spec C02_proofs C01_proofs C01_athash_proofs.

(* rp.VerifyIDToken returns claims c only if c is the parsed payload unchanged,
   the token carries exactly one signature with an allowed algorithm verifying
   under a trusted key of the key set over exactly the parsed bytes, and:
   iss = issuer, sub present, client in aud, azp = client when present, azp
   present when several audiences, now+offset < exp, iat present and not after
   round(now+offset), not before round(now-maxAgeIAT) when configured, nonce and
   acr as configured, auth_time present and not before round(now-maxAge) when configured *)
Theorem C01_sound : forall verify v ks t m now c alg,
  verify_id_token verify v ks t m now = Accept c alg ->
  (exists bytes e k,
      m = MidOk bytes c
      /\ tok_sigs t = [e] /\ tok_payload t = Some bytes
      /\ alg = se_alg e /\ string_in alg (effective_algs (v_algs v)) = true
      /\ In k (ks_keys ks) /\ trusted_key ks e k = true /\ verify k e bytes = true)
  /\ id_token_valid v c now.
Proof. exact id_token_sound. Qed.
Print Assumptions C01_sound.

(* with a non-negative offset an accepted token is not expired at the time of the call *)
Theorem C01_not_expired : forall verify v ks t m now c alg,
  verify_id_token verify v ks t m now = Accept c alg ->
  (0 <= v_offset v)%Z -> (zero_unix * ns <= now)%Z ->
  c_exp c <> 0%Z /\ (now < c_exp c * ns)%Z.
Proof. exact id_token_not_expired. Qed.
Print Assumptions C01_not_expired.

(* Claim times and the clock are unbounded integers (Z) - the model's arithmetic
   is the ground truth for times of ANY magnitude (year 1, negative NumericDates,
   2262 and later, +-2^53): nothing wraps around.  A zero or negative exp is never
   accepted after 1970; the expiry check is exactly now + offset < exp. *)
Theorem C01_negative_exp_rejected : forall verify v ks t m now c alg,
  verify_id_token verify v ks t m now = Accept c alg ->
  (0 <= v_offset v)%Z -> (0 <= now)%Z -> (0 < c_exp c)%Z.
Proof. exact negative_exp_rejected. Qed.
Print Assumptions C01_negative_exp_rejected.

Theorem C01_expiration_exact : forall c off now,
  chk_expiration c off now = None <-> (now + off < instant (c_exp c))%Z.
Proof. exact expiration_exact. Qed.
Print Assumptions C01_expiration_exact.

(* acceptance is exactly: parsed, signature check passed, all conditions hold *)
Theorem C01_accept_iff : forall verify v ks t m now c alg,
  verify_id_token verify v ks t m now = Accept c alg <->
  exists bytes,
    m = MidOk bytes c
    /\ check_signature verify (v_algs v) ks t bytes = Ok alg
    /\ id_token_valid v c now.
Proof. exact verify_id_token_accept. Qed.
Print Assumptions C01_accept_iff.

(* rp.VerifyTokens: additionally a present at_hash is the base64url left half of
   the hash (chosen by the verified signature's algorithm) of exactly this access token *)
Theorem C01_tokens_sound : forall verify H v ks t m access_token now c alg,
  verify_tokens verify H v ks t m access_token now = Accept c alg ->
  verify_id_token verify v ks t m now = Accept c alg
  /\ at_hash_matches H c alg access_token.
Proof. exact tokens_sound. Qed.
Print Assumptions C01_tokens_sound.

(* a token whose signature check passes and which meets every condition with one
   second of margin on each time bound is accepted, claims unchanged *)
Theorem C01_complete : forall verify v ks t bytes c now alg,
  check_signature verify (v_algs v) ks t bytes = Ok alg ->
  id_token_margin v c now ->
  verify_id_token verify v ks t (MidOk bytes c) now = Accept c alg.
Proof. exact id_token_complete. Qed.
Print Assumptions C01_complete.

Theorem C01_tokens_complete : forall verify H v ks t bytes c access_token now alg,
  check_signature verify (v_algs v) ks t bytes = Ok alg ->
  id_token_margin v c now ->
  at_hash_matches H c alg access_token ->
  verify_tokens verify H v ks t (MidOk bytes c) access_token now = Accept c alg.
Proof. exact tokens_complete. Qed.
Print Assumptions C01_tokens_complete.

(* at_hash covers EVERY byte of the access token, whatever its length: for hash
   functions H returning byte strings, one ID token with an at_hash is accepted
   together with two access tokens a1, a2 (of any length, sharing any prefix) only
   if the left halves of their digests coincide ... *)
Theorem C01_at_hash_binds_access_token : forall verify H v ks t m a1 a2 now c alg c2 alg2,
  (forall hk s, all_bytesP (H hk s)) ->
  verify_tokens verify H v ks t m a1 now = Accept c alg ->
  verify_tokens verify H v ks t m a2 now = Accept c2 alg2 ->
  c_at_hash c <> "" ->
  c2 = c /\ alg2 = alg
  /\ exists hk, hash_of_alg alg = Some hk /\ left_half (H hk a1) = left_half (H hk a2).
Proof. exact at_hash_binds_access_token. Qed.
Print Assumptions C01_at_hash_binds_access_token.

(* ... and with any access token whose digest differs in the left half the same
   ID token is refused with ErrAtHash *)
Theorem C01_at_hash_other_token_rejected : forall verify H v ks t m a1 a2 now c alg hk,
  (forall hk s, all_bytesP (H hk s)) ->
  verify_tokens verify H v ks t m a1 now = Accept c alg ->
  c_at_hash c <> "" -> hash_of_alg alg = Some hk ->
  left_half (H hk a1) <> left_half (H hk a2) ->
  verify_tokens verify H v ks t m a2 now = Reject EAtHash.
Proof. exact at_hash_other_token_rejected. Qed.
Print Assumptions C01_at_hash_other_token_rejected.

(* the property predicate evaluated by the correspondence run (soundness at the
   weakest, completeness at the strongest end of the clock bracket [now0,now1])
   holds of the model for every input whose bracket is ordered and lies after
   year 1 - single calls and sequences of calls on ONE verifier / key set (each
   answer of a sequence judged from its own call only) *)
Theorem C01_spec_model : forall i, wf i -> spec i (model i) = true.
Proof. exact spec_model. Qed.
Print Assumptions C01_spec_model.
