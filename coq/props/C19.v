(* C19 property theorems. Nothing but statements closed by [exact]. *)
From OIDC Require Import Lib C19_Discovery C19_Conf C19_spec C19_Conf_proofs C19_proofs.

(* On either router and in every configuration: a token-endpoint grant type (anything but
   implicit) is advertised in grant_types_supported exactly when a complete request of a client
   registered for it is NOT answered with unsupported_grant_type. *)
Theorem C19_grants_exact : forall (r : router) (c : config) (g : grant),
  g <> GImplicit -> (In g (doc_grants_g c) <-> dispatch r c g <> AUnsupported).
Proof. exact grants_exact. Qed.
Print Assumptions C19_grants_exact.

(* the same on the strings of the document and of the grant_type parameter, for every string *)
Theorem C19_grants_exact_strings : forall (r : router) (c : config) (s : string),
  classify s <> GImplicit ->
  (string_in s (doc_grants c) = true <-> dispatch r c (classify s) <> AUnsupported).
Proof. exact grants_exact_strings. Qed.
Print Assumptions C19_grants_exact_strings.

(* every advertised endpoint URL is issuer + path of a route registered and served for that endpoint
   (or the absolute URL the endpoint was configured with, its path being routed) *)
Theorem C19_endpoints_served : forall (r : router) (c : config) (q : request) (n : epname) (u : string),
  doc_endpoint r c q n = Some u ->
  exists p, ep_route (ep_of (c_eps c) n) = Some (relative p)
            /\ In (Some n, relative p) (routes r c)
            /\ served r c (relative p) = true
            /\ (u = absolute (doc_issuer r c q) p \/ ep_of (c_eps c) n = EpURL p u).
Proof. exact endpoints_served. Qed.
Print Assumptions C19_endpoints_served.

(* a nil endpoint is neither advertised nor routed, and only nil endpoints are not advertised *)
Theorem C19_nil_endpoint : forall (r : router) (c : config) (q : request) (n : epname),
  (ep_of (c_eps c) n = EpNil -> doc_endpoint r c q n = None /\ forall p, ~ In (Some n, p) (routes r c))
  /\ (doc_endpoint r c q n = None -> ep_of (c_eps c) n = EpNil).
Proof. exact nil_endpoint_both. Qed.
Print Assumptions C19_nil_endpoint.

(* an advertised code_challenge_method is enforced at the token endpoint for EVERY kind of client
   (client_secret_basic / post / private_key_jwt / public) and every verifier situation, a missing
   code_verifier included: tokens are issued exactly when the verifier relates to the challenge as
   that method prescribes (and the client's own authentication method is enabled) *)
Theorem C19_pkce_honoured : forall (r : router) (c : config) (k : client_kind) (m : string) (v : vrel),
  string_in m (doc_pkce c) = true ->
  pkce_issued r c k (Some m) v = rel_matches m v && client_ok c k.
Proof. exact pkce_honoured. Qed.
Print Assumptions C19_pkce_honoured.

(* no downgrade: without a verifier, or with one that only matches in the plain way, no tokens *)
Theorem C19_pkce_no_downgrade : forall (r : router) (c : config) (k : client_kind) (m : string) (v : vrel),
  string_in m (doc_pkce c) = true -> (v = VAbsent \/ v = VPlain \/ v = VNone) ->
  pkce_issued r c k (Some m) v = false.
Proof. exact pkce_no_downgrade. Qed.
Print Assumptions C19_pkce_no_downgrade.

(* request_parameter_supported is true exactly when a correctly signed request object is honoured,
   for every kind of client and wherever OIDC Core 6.1 lets the parameters live (all outside;
   redirect_uri only inside the object; state only inside) *)
Theorem C19_request_object_honoured : forall (r : router) (c : config) (k : client_kind) (p : ro_placement),
  ro_legal p = true ->
  (doc_reqparam c = true <-> reqobj_outcome r c k p = RoHonoured).
Proof. exact request_object_honoured. Qed.
Print Assumptions C19_request_object_honoured.

(* not advertised: refused with request_not_supported when all parameters are also outside ... *)
Theorem C19_request_object_refused : forall (r : router) (c : config) (k : client_kind),
  doc_reqparam c = false -> reqobj_outcome r c k PBoth = RoNotSupported.
Proof. exact request_object_refused. Qed.
Print Assumptions C19_request_object_refused.

(* ... and never honoured, whatever the placement *)
Theorem C19_request_object_not_advertised : forall (r : router) (c : config) (k : client_kind) (p : ro_placement),
  doc_reqparam c = false -> reqobj_outcome r c k p <> RoHonoured.
Proof. exact request_object_not_advertised. Qed.
Print Assumptions C19_request_object_not_advertised.

(* PKCE parameters carried by the signed request object (wholly or partly; what the object says supersedes the
   query, OIDC Core 6.1): with request_parameter_supported advertised, the other parameters placed as 6.1 allows
   and the effective method advertised, the whole code flow yields tokens exactly when the verifier satisfies
   that method against the effective challenge - for every router, configuration and client kind *)
Theorem C19_request_object_pkce_honoured : forall (r : router) (c : config) (k : client_kind) (p : ro_placement)
    (qm om : option string) (qc oc : option vrel) (sent : bool) (m : string) (rel : vrel),
  doc_reqparam c = true -> ro_legal p = true ->
  merge qm om = Some m -> string_in m (doc_pkce c) = true -> merge qc oc = Some rel ->
  ro_pkce_issued r c k p qm om qc oc sent = rel_matches m (if sent then rel else VAbsent) && client_ok c k.
Proof. exact request_object_pkce_honoured. Qed.
Print Assumptions C19_request_object_pkce_honoured.

(* no downgrade through the request object: the challenge replayed as verifier, an unrelated or no verifier get nothing *)
Theorem C19_request_object_pkce_no_downgrade : forall (r : router) (c : config) (k : client_kind) (p : ro_placement)
    (qm om : option string) (qc oc : option vrel) (sent : bool) (m : string) (rel : vrel),
  doc_reqparam c = true -> ro_legal p = true ->
  merge qm om = Some m -> string_in m (doc_pkce c) = true -> merge qc oc = Some rel ->
  (sent = false \/ rel = VPlain \/ rel = VNone \/ rel = VAbsent) ->
  ro_pkce_issued r c k p qm om qc oc sent = false.
Proof. exact request_object_pkce_no_downgrade. Qed.
Print Assumptions C19_request_object_pkce_no_downgrade.

(* the document's issuer is the issuer put into tokens, whichever router serves which *)
Theorem C19_issuer_same : forall (r r' : router) (c : config) (q : request),
  doc_issuer r c q = token_issuer r' c q.
Proof. exact issuer_same. Qed.
Print Assumptions C19_issuer_same.

(* ... and that for EVERY flow that hands out tokens - authorization code, refresh token, client
   credentials, jwt-bearer, token exchange (access / refresh / ID token requested), device code, implicit
   (id_token / id_token token) - on either router, for every client kind, issuer strategy and request:
   the iss of the ID token and of a JWT access token is the issuer of the document served for that request *)
Theorem C19_issuer_same_every_flow : forall (r r' : router) (c : config) (q : request) (k : client_kind) (jwt : bool)
    (fl : flow) (id_iss at_iss : option string) (t : string),
  flow_model r c q k jwt fl = FRIssued id_iss at_iss ->
  (id_iss = Some t \/ at_iss = Some t) -> t = doc_issuer r' c q.
Proof. exact issuer_same_every_flow. Qed.
Print Assumptions C19_issuer_same_every_flow.

(* not vacuously: a flow that is available does hand out an ID token and / or an access token, and they carry it *)
Theorem C19_flow_carries_issuer : forall (r : router) (c : config) (q : request) (k : client_kind) (jwt : bool) (fl : flow),
  flow_ok r c k fl = true ->
  exists id_iss at_iss, flow_model r c q k jwt fl = FRIssued id_iss at_iss
    /\ (has_id_token fl = true -> id_iss = Some (doc_issuer r c q))
    /\ (has_access_token fl = true -> jwt = true -> at_iss = Some (doc_issuer r c q)).
Proof. exact flow_carries_issuer. Qed.
Print Assumptions C19_flow_carries_issuer.

(* tokens are handed out only through grant types the document advertises (and the token endpoint handles) *)
Theorem C19_flow_through_advertised_grant : forall (r : router) (c : config) (k : client_kind) (fl : flow),
  flow_ok r c k fl = true ->
  In (grant_of fl) (doc_grants_g c)
  /\ (grant_of fl <> GImplicit -> dispatch r c (grant_of fl) = AHandled).
Proof. exact flow_through_advertised_grant. Qed.
Print Assumptions C19_flow_through_advertised_grant.

(* StaticIssuer / ValidateIssuer accept exactly: non-empty, parseable, with a hostname, https (or
   http with the insecure opt-in), and no '?' and no '#' anywhere in the string *)
Theorem C19_issuer_validation : forall (raw : string) (o : url_oracle) (insecure : bool),
  validate_issuer raw o insecure = IssOk <->
  raw <> EmptyString /\ o_error o = false /\ o_hostname o <> EmptyString
  /\ (o_scheme o = "https" \/ (o_scheme o = "http" /\ insecure = true))
  /\ has_char qmark raw = false /\ has_char hash raw = false.
Proof. exact validate_issuer_ok. Qed.
Print Assumptions C19_issuer_validation.

(* http without the insecure opt-in is refused however the scheme is spelled (RFC 3986 3.1: HTTP://, Http://,
   hTTp:// are http), for every issuer string on which url.Parse's answer agrees with the spelling (wf) *)
Theorem C19_http_any_spelling_needs_opt_in : forall (api : iss_api) (raw : string) (hostless : bool) (o : url_oracle),
  (api = ApiValidate \/ api = ApiNewProvider) ->
  wf (IIssuer api raw hostless o false) = true -> starts_with_http raw = true ->
  validate_issuer raw o false <> IssOk.
Proof. exact http_any_spelling_needs_opt_in. Qed.
Print Assumptions C19_http_any_spelling_needs_opt_in.

(* the path given to IssuerFromHost / IssuerFromForwardedOrHost: no '?' and no '#' *)
Theorem C19_issuer_path_validation : forall (raw : string) (o : url_oracle),
  validate_issuer_path raw o = IssOk <->
  o_error o = false /\ has_char qmark raw = false /\ has_char hash raw = false.
Proof. exact validate_issuer_path_ok. Qed.
Print Assumptions C19_issuer_path_validation.

(* client.Discover accepts a document exactly when its issuer is the one asked for *)
Theorem C19_rp_rejects_foreign_issuer : forall (asked doc_iss : string),
  discover_check asked doc_iss = true <-> doc_iss = asked.
Proof. exact discover_check_iff. Qed.
Print Assumptions C19_rp_rejects_foreign_issuer.

(* the property predicate holds of the model's answer for every well-formed case input *)
Theorem C19_spec_model : forall i : input, wf i = true -> spec i (model i) = true.
Proof. exact spec_model. Qed.
Print Assumptions C19_spec_model.

(* ---- round 11: the document CreateDiscoveryConfig / createDiscoveryConfigV2 build for an ARBITRARY
   op.Configuration cf (every method answer an independent input), under a request whose issuer is k_issuer cf *)

(* grant_types_supported lists a flag-guarded grant type exactly when the configuration enables it;
   authorization_code and implicit always; nothing but the seven known names *)
Theorem C19_conf_grants_exact : forall (v : variant) (cf : conf) (id : string),
  let g := d_grants (conf_doc v cf id) in
  string_in s_code g = true /\ string_in s_implicit g = true
  /\ string_in s_refresh g = k_refresh cf /\ string_in s_cc g = k_cc cf /\ string_in s_te g = k_te cf
  /\ string_in s_bearer g = k_bearer cf /\ string_in s_device g = k_dev cf
  /\ only known_grants g = true.
Proof. exact conf_grants_exact. Qed.
Print Assumptions C19_conf_grants_exact.

(* client authentication methods as the code lists them: client_secret_post iff AuthMethodPostSupported (token,
   revocation), private_key_jwt iff AuthMethodPrivateKeyJWTSupported - the TOKEN endpoint's flag - at all three endpoints *)
Theorem C19_conf_methods_exact : forall (v : variant) (cf : conf) (id : string),
  let d := conf_doc v cf id in
  string_in m_post (d_token_methods d) = k_post cf /\ string_in m_pkjwt (d_token_methods d) = k_pkjwt cf
  /\ string_in m_post (d_revoke_methods d) = k_post cf /\ string_in m_pkjwt (d_revoke_methods d) = k_pkjwt cf
  /\ string_in m_post (d_intro_methods d) = false /\ string_in m_pkjwt (d_intro_methods d) = k_pkjwt cf
  /\ only known_methods (d_token_methods d) = true /\ only known_methods (d_revoke_methods d) = true
  /\ only known_methods (d_intro_methods d) = true.
Proof. exact conf_methods_exact. Qed.
Print Assumptions C19_conf_methods_exact.

(* every algorithm list, code_challenge_methods_supported, the boolean members and ui_locales_supported are exactly
   what the configuration answers, each behind its own flag *)
Theorem C19_conf_algs_exact : forall (v : variant) (cf : conf) (id : string),
  let d := conf_doc v cf id in
  d_token_algs d = (if k_pkjwt cf then k_token_algs cf else [])
  /\ d_intro_algs d = (if k_ipk cf then k_intro_algs cf else [])
  /\ d_revoke_algs d = (if k_rpk cf then k_revoke_algs cf else [])
  /\ d_reqobj_algs d = (if k_reqobj cf then k_reqobj_algs cf else [])
  /\ d_pkce d = (if k_s256 cf then ["S256"] else [])
  /\ d_reqparam d = k_reqobj cf /\ d_bcl d = k_bcl cf /\ d_bcls d = k_bcls cf
  /\ d_locales d = k_locales cf
  /\ (forall l, k_sigalgs cf = Some l -> d_id_algs d = l).
Proof. exact conf_algs_exact. Qed.
Print Assumptions C19_conf_algs_exact.

(* nothing of a feature the configuration switches off is in the document *)
Theorem C19_conf_no_leak : forall (v : variant) (cf : conf) (id : string),
  let d := conf_doc v cf id in
  (k_pkjwt cf = false -> d_token_algs d = [] /\ string_in m_pkjwt (d_token_methods d) = false)
  /\ (k_ipk cf = false -> d_intro_algs d = [])
  /\ (k_rpk cf = false -> d_revoke_algs d = [])
  /\ (k_reqobj cf = false -> d_reqobj_algs d = [] /\ d_reqparam d = false)
  /\ (k_s256 cf = false -> d_pkce d = [])
  /\ (k_post cf = false -> string_in m_post (d_token_methods d) = false /\ string_in m_post (d_revoke_methods d) = false).
Proof. exact conf_no_leak. Qed.
Print Assumptions C19_conf_no_leak.

(* the document's issuer is the request's; the eight endpoint members are the configured endpoints (V1: the
   Configuration's answers, V2: the LegacyServer's own op.Endpoints) made absolute against that issuer; an endpoint
   is missing from the document exactly when it is nil *)
Theorem C19_conf_endpoints : forall (v : variant) (cf : conf) (id : string),
  d_issuer (conf_doc v cf id) = k_issuer cf
  /\ firstn 8 (d_endpoints (conf_doc v cf id)) = map (want_ep (k_issuer cf)) (firstn 8 (eps9_list (truth_eps v cf))).
Proof. exact conf_endpoints. Qed.
Print Assumptions C19_conf_endpoints.

Theorem C19_conf_endpoint_absent_iff_nil : forall (iss : string) (e : ep), want_ep iss e = EmptyString <-> e = EpNil.
Proof. exact want_ep_empty_iff. Qed.
Print Assumptions C19_conf_endpoint_absent_iff_nil.

(* AuthCallbackURL: the login callback of a path endpoint is the request's issuer + the callback route + ?id=<request id>,
   and that route is registered by both routers, whatever the custom path and the issuer *)
Theorem C19_callback_url_is_callback_route : forall (iss p id : string),
  callback_url iss (EpPath p) id = (trim_suffix_slash iss ++ (relative p ++ callback_suffix) ++ "?id=" ++ id)%string.
Proof. exact callback_route. Qed.
Print Assumptions C19_callback_url_is_callback_route.

Theorem C19_callback_route_served : forall (r : router) (c : config) (p : string),
  e_auth (c_eps c) = EpPath p -> served r c (relative p ++ callback_suffix)%string = true.
Proof. exact callback_route_served. Qed.
Print Assumptions C19_callback_route_served.

(* the property predicate holds of the model's document for EVERY configuration (no guard) *)
Theorem C19_conf_spec_model : forall (v : variant) (cf : conf) (id : string),
  spec (IConf v cf id) (model (IConf v cf id)) = true.
Proof. exact conf_spec_model. Qed.
Print Assumptions C19_conf_spec_model.

(* OBSERVATION about the model, outside the property text: with the token endpoint's private_key_jwt flag off and the
   revocation (introspection) endpoint's own flag on, that endpoint's signing algorithms are listed while private_key_jwt
   is not among its methods; the last clause is the shape of the library's own Provider with AuthMethodPrivateKeyJWT off *)
Theorem C19_conf_alg_lists_follow_endpoint_flags_observation :
  (forall v cf id, k_pkjwt cf = false -> k_rpk cf = true ->
     string_in m_pkjwt (d_revoke_methods (conf_doc v cf id)) = false
     /\ d_revoke_algs (conf_doc v cf id) = k_revoke_algs cf)
  /\ (forall v cf id, k_pkjwt cf = false -> k_ipk cf = true ->
     string_in m_pkjwt (d_intro_methods (conf_doc v cf id)) = false
     /\ d_intro_algs (conf_doc v cf id) = k_intro_algs cf)
  /\ d_revoke_algs (conf_doc V1 conf_provider_like "req1") = ["RS256"].
Proof. exact conf_alg_lists_follow_endpoint_flags_observation. Qed.
Print Assumptions C19_conf_alg_lists_follow_endpoint_flags_observation.
