(* C14 property theorems: JWT assertions and request objects count only when
   signed by the named client.  Nothing but statements closed by [exact].
   [verify] is ANY signature-verification function (go-jose's in the code);
   [sym_verify k d] is the symbolic instance "k is the signer's key and the
   signed bytes are intact" the correspondence run uses.  Times in ns (Z),
   claim times in whole seconds, [round_s] = Go's Round(time.Second). *)
From OIDC Require Import Lib C14_spec C14_proofs.
Local Open Scope Z_scope.

(* op.VerifyJWTAssertion accepts => the signature verifies, under an accepted
   algorithm, with the key storage holds for (iss, kid); the provider's issuer is in
   aud; unexpired; issued neither in the future nor longer ago than the max age;
   sub = iss unless a custom subject check is configured; a verifier with NO subject
   check (nil CheckSubject: op.SubjectCheck(nil) or a struct literal) accepts nothing at
   all (the call panics, C14_nil_subject_check).  Returned claims = the token's claims. *)
Theorem C14_assertion_sound :
  forall (verify : keyid -> sigdesc -> bool) v t now tok c,
  verify_assertion verify v t now tok = Ok c ->
  exists d, tok = TJws d c
    /\ (exists k, lookup_key t (c_iss c) (sd_kid d) = Some k /\ verify k d = true)
    /\ In (sd_alg d) accepted_algs
    /\ In (v_issuer v) (c_aud c)
    /\ c_exp c <> 0 /\ now + v_offset v < c_exp c * second
    /\ c_iat c <> 0 /\ c_iat c * second <= round_s (now + v_offset v)
    /\ (v_max_age v <> 0 -> round_s (now - v_max_age v) <= c_iat c * second)
    /\ (v_sub v = SubIsIssuer -> c_sub c = c_iss c)
    /\ v_sub v <> SubNil.
Proof. exact assertion_sound. Qed.
Print Assumptions C14_assertion_sound.

(* symbolic reading: the signer's key IS the key registered for the named client *)
Theorem C14_assertion_signed_by_named_client :
  forall v t now tok c,
  verify_assertion sym_verify v t now tok = Ok c ->
  exists d, tok = TJws d c /\ lookup_key t (c_iss c) (sd_kid d) = Some (sd_signer d) /\ sd_intact d = true.
Proof. exact assertion_sound_symbolic. Qed.
Print Assumptions C14_assertion_signed_by_named_client.

(* the identity ClientJWTAuth returns, the JWTProfile grant hands to storage,
   AuthorizePrivateJWTKey looks up (= LegacyServer router) and the Provider router
   authenticates is exactly the verified assertion's issuer - a client_id parameter sent
   along is not an input of any of these functions *)
Theorem C14_assertion_identity :
  forall (verify : keyid -> sigdesc -> bool) v t cl now tok id,
  (client_jwt_auth verify v t now tok = Ok id \/ jwt_profile_grant verify v t now tok = Ok id
   \/ authorize_private_jwt_key verify v t cl now tok = Ok id
   \/ provider_router_auth verify v t cl now tok = Ok id) ->
  exists c, verify_assertion verify v t now tok = Ok c /\ id = c_iss c.
Proof. exact assertion_identity. Qed.
Print Assumptions C14_assertion_identity.

(* every endpoint of the two real routers that takes an assertion (device authorization,
   code exchange, refresh, revocation, introspection, jwt-bearer grant; [ep_auth] says which
   authentication function the endpoint applies): the identity the request acts under is
   the issuer of an assertion [verify_assertion] accepted; the code / refresh token / token
   it redeems, revokes or reads belongs to exactly that client; where the endpoint goes
   through AuthorizePrivateJWTKey the client is registered for private_key_jwt.  Neither
   the client_id form parameter nor anything of an earlier request is an input. *)
Theorem C14_router_endpoint :
  forall (verify : keyid -> sigdesc -> bool) legacy ep owner v t cl now tok id,
  router_endpoint_auth verify legacy ep owner v t cl now tok = Ok id ->
  (exists c, verify_assertion verify v t now tok = Ok c /\ id = c_iss c)
  /\ (ep_owned ep = true -> id = owner)
  /\ (ep_auth legacy ep = AKPk -> lookup_client cl id = Some private_key_jwt)
  /\ (ep_auth legacy ep = AKLookup -> exists m, lookup_client cl id = Some m).
Proof. exact router_endpoint. Qed.
Print Assumptions C14_router_endpoint.

(* One verifier / provider instance serving any sequence of requests (different
   issuers of assertions, different request issuers of a dynamic-issuer provider):
   step n is decided by step n alone - expected audience = the issuer of THAT request,
   key set = the keys of THAT assertion's issuer; nothing is remembered. *)
Theorem C14_sequence_independent :
  forall (verify : keyid -> sigdesc -> bool) t pre s post,
  nth (List.length pre) (verify_sequence verify t (pre ++ s :: post)) (Err EOther)
  = verify_assertion verify (fst (fst s)) t (snd (fst s)) (snd s).
Proof. exact sequence_independent. Qed.
Print Assumptions C14_sequence_independent.

(* AuthorizePrivateJWTKey additionally requires the client to be registered for private_key_jwt *)
Theorem C14_client_auth :
  forall (verify : keyid -> sigdesc -> bool) v t cl now tok id,
  authorize_private_jwt_key verify v t cl now tok = Ok id ->
  (exists c, verify_assertion verify v t now tok = Ok c /\ id = c_iss c)
  /\ lookup_client cl id = Some private_key_jwt.
Proof. exact client_auth. Qed.
Print Assumptions C14_client_auth.

(* ParseRequestObject overrides parameters => the object is signed (accepted alg) with
   the key storage holds for (requesting client, kid), iss = inner client_id = outer
   client_id, the provider's issuer is in aud, response_type absent or equal; the
   result is exactly CopyRequestObjectToAuthRequest.  Storage contract: no key is
   registered under the empty client id. *)
Theorem C14_request_object :
  forall (verify : keyid -> sigdesc -> bool) t issuer outer tok a,
  no_empty_client t = true ->
  parse_request_object verify t issuer outer tok = Ok a ->
  exists d ro, tok = TJws d ro
    /\ (exists k, lookup_key t (ar_client_id outer) (sd_kid d) = Some k /\ verify k d = true)
    /\ In (sd_alg d) accepted_algs
    /\ ro_iss ro = ar_client_id outer
    /\ ar_client_id (ro_req ro) = ar_client_id outer
    /\ In issuer (ro_aud ro)
    /\ (ar_response_type (ro_req ro) = "" \/ ar_response_type (ro_req ro) = ar_response_type outer)
    /\ a = copy_request_object outer (ro_req ro).
Proof. exact request_object_sound. Qed.
Print Assumptions C14_request_object.

(* conversely, under those conditions the parameters are overridden and `request` is cleared *)
Theorem C14_request_object_complete :
  forall (verify : keyid -> sigdesc -> bool) t issuer outer d ro,
  ro_iss ro = ar_client_id outer ->
  ar_client_id (ro_req ro) = ar_client_id outer ->
  (ar_response_type (ro_req ro) = "" \/ ar_response_type (ro_req ro) = ar_response_type outer) ->
  In issuer (ro_aud ro) ->
  sd_wf d = true -> In (sd_alg d) accepted_algs ->
  (exists k, lookup_key t (ar_client_id outer) (sd_kid d) = Some k /\ verify k d = true) ->
  run_request_object verify t issuer outer (TJws d ro)
  = (None, copy_request_object outer (ro_req ro), true).
Proof. exact request_object_complete. Qed.
Print Assumptions C14_request_object_complete.

(* in every other case the request is rejected and nothing was overridden *)
Theorem C14_request_object_rejected_untouched :
  forall (verify : keyid -> sigdesc -> bool) t issuer outer tok,
  (exists a, parse_request_object verify t issuer outer tok = Ok a)
  \/ (exists e, run_request_object verify t issuer outer tok = (Some e, outer, false)).
Proof. exact request_object_rejected_untouched. Qed.
Print Assumptions C14_request_object_rejected_untouched.

(* an accepted object never changes client_id or response_type *)
Theorem C14_request_object_keeps_client :
  forall outer inner,
  ar_client_id (copy_request_object outer inner) = ar_client_id outer
  /\ ar_response_type (copy_request_object outer inner) = ar_response_type outer.
Proof. exact copy_keeps_client. Qed.
Print Assumptions C14_request_object_keeps_client.

(* what the client helpers build (iss = sub = client, aud has the issuer, iat = the
   build instant tb in seconds, exp at most 1 h later and still ahead) is accepted
   when the key is registered, the algorithm is accepted, the offset is >= 0 and the
   max age is 0 or >= 1 h (the provider uses 1 h / 1 s).  [verify] must accept what
   the registered key really signed. *)
Theorem C14_interop :
  forall (verify : keyid -> sigdesc -> bool) v t now tb client kid key alg auds e,
  (v_sub v = SubIsIssuer \/ v_sub v = SubAny) ->
  (forall d, sd_intact d = true -> verify (sd_signer d) d = true) ->
  lookup_key t client kid = Some key ->
  In alg accepted_algs -> In (v_issuer v) auds ->
  0 <= v_offset v -> (v_max_age v = 0 \/ 3600 * second <= v_max_age v) ->
  second <= tb -> tb <= now ->
  now + v_offset v < e * second -> e <= tb / second + 3600 ->
  let c := mkClaims client client auds (tb / second) e in
  verify_assertion verify v t now (TJws (mkSig true alg kid key true) c) = Ok c.
Proof. exact interop. Qed.
Print Assumptions C14_interop.

(* ... and for EVERY max age (also one of a few seconds) that covers the real age of the
   assertion: what a helper call writes for ITS OWN clock reading tb ([helper_claims]:
   iss = sub = client, iat = floor tb, exp = iat + life; [helper_token]: signed with the
   registered key) is accepted at [now] when the max age is 0 or >= (now - tb) + 1.5 s
   and the asked lifetime has not run out. *)
Theorem C14_interop_fresh :
  forall (verify : keyid -> sigdesc -> bool) v t now tb client kid key alg auds life,
  (v_sub v = SubIsIssuer \/ v_sub v = SubAny) ->
  (forall d, sd_intact d = true -> verify (sd_signer d) d = true) ->
  lookup_key t client kid = Some key ->
  In alg accepted_algs -> In (v_issuer v) auds ->
  0 <= v_offset v ->
  (v_max_age v = 0 \/ now - tb + second + half_second <= v_max_age v) ->
  second <= tb -> tb <= now ->
  now + v_offset v < (tb / second + life) * second ->
  verify_assertion verify v t now (helper_token client auds life alg kid key tb)
  = Ok (helper_claims client auds life tb).
Proof. exact interop_fresh. Qed.
Print Assumptions C14_interop_fresh.

(* ONE long-lived helper instance (token source, signer, relying party ...) called any
   number of times at the clock readings tb_1 .. tb_n, the n-th assertion presented at
   now_n to the verifier configuration v_n of that request ([calls] = (v_n, now_n, tb_n)):
   every one of them is accepted ([helper_step_ok] = the premises of C14_interop_fresh
   per step).  [helper_sequence] signs a new assertion per call; the example
   [interop_fresh_nonvacuous] shows that re-sending the first one would be refused. *)
Theorem C14_helper_sequence_accepted :
  forall (verify : keyid -> sigdesc -> bool) t client kid key alg auds life (calls : list (vcfg * Z * Z)),
  (forall d, sd_intact d = true -> verify (sd_signer d) d = true) ->
  lookup_key t client kid = Some key -> In alg accepted_algs ->
  Forall (helper_step_ok life (fun v => In (v_issuer v) auds)) calls ->
  verify_sequence verify t
    (combine (map fst calls) (helper_sequence client auds life alg kid key (map snd calls)))
  = map (fun s => Ok (helper_claims client auds life (snd s))) calls.
Proof. exact helper_sequence_accepted. Qed.
Print Assumptions C14_helper_sequence_accepted.

(* the theorem guard [helper_built_ok] of C14_spec_holds is exactly what [helper_claims_opt]
   (= [helper_claims] when no delegated subject was asked, [h_sub h = None]) gives for a
   clock reading inside the bracket of the call *)
Theorem C14_helper_claims_built_ok :
  forall v h client auds life alg kid key tb,
  In alg accepted_algs -> In (v_issuer v) auds ->
  h_t0 h <= tb -> tb <= h_t1 h -> h_life h = life -> h_client h = client ->
  helper_built_ok v h (mkSig true alg kid key true) (helper_claims_opt client (h_sub h) auds life tb) = true.
Proof. exact helper_claims_built_ok. Qed.
Print Assumptions C14_helper_claims_built_ok.

(* the op.SubjectCheck(f) option REPLACES the verifier's subject check: of any number of
   such options the last one is in force - whatever was configured before it, the built-in
   default op.SubjectIsIssuer included, is gone; without the option the default stays *)
Theorem C14_subject_option_replaces :
  forall before s,
  subject_options (before ++ [s]) = s /\ subject_options [] = SubIsIssuer.
Proof. exact subject_option_replaces. Qed.
Print Assumptions C14_subject_option_replaces.

(* the configured check - and nothing besides it - decides about the subject of an accepted
   assertion: default => sub = iss; accept-all => any; a check for one subject => that one;
   no check => nothing is accepted *)
Theorem C14_assertion_subject_decided :
  forall (verify : keyid -> sigdesc -> bool) v t now tok c,
  verify_assertion verify v t now tok = Ok c ->
  subject_allowed (v_sub v) (c_iss c) (c_sub c) = true.
Proof. exact assertion_subject_decided. Qed.
Print Assumptions C14_assertion_subject_decided.

(* delegation: what a helper call writes when the caller passes
   oidc.JWTProfileDelegatedSubject(s) ([dsub = Some s]; iss stays the client) - or no such
   option ([None]: sub = iss) - is, under the remaining premises of C14_interop_fresh,
   accepted EXACTLY when the verifier's configured subject check allows the asked subject:
   a custom check that allows s accepts the delegated assertion (the default is no longer
   consulted), the default check and a custom check for another subject refuse it. *)
Theorem C14_interop_delegated :
  forall (verify : keyid -> sigdesc -> bool) v t now tb client dsub kid key alg auds life,
  (forall d, sd_intact d = true -> verify (sd_signer d) d = true) ->
  lookup_key t client kid = Some key ->
  In alg accepted_algs -> In (v_issuer v) auds ->
  0 <= v_offset v ->
  (v_max_age v = 0 \/ now - tb + second + half_second <= v_max_age v) ->
  second <= tb -> tb <= now ->
  now + v_offset v < (tb / second + life) * second ->
  (verify_assertion verify v t now (helper_token_opt client dsub auds life alg kid key tb)
   = Ok (helper_claims_opt client dsub auds life tb)
   <-> subject_allowed (v_sub v) client (asked_sub dsub client) = true).
Proof. exact interop_delegated. Qed.
Print Assumptions C14_interop_delegated.

(* a verifier that does not return is one without a subject check, however it was built;
   and the model of every entry point then answers "panicked", never an identity *)
Theorem C14_nil_subject_check :
  forall (verify : keyid -> sigdesc -> bool) v t now tok,
  (verify_assertion verify v t now tok = Err EPanicked -> v_sub v = SubNil)
  /\ (v_sub v = SubNil -> forall c, verify_assertion verify v t now tok <> Ok c).
Proof. exact nil_subject_check. Qed.
Print Assumptions C14_nil_subject_check.

(* the property predicate the check evaluates on the implementation's answers holds
   for the model on every input (clock bracket ordered; storage contract; what a helper
   call is assumed to send - [helper_built_ok]: accepted algorithm (see
   C14_interop_eddsa_refuted), iss = the client the helper was configured with, sub = the
   subject the caller asked the helper for (the client when none was asked), the configured issuer in aud, iat = a clock
   reading of THAT call and exp at least the asked lifetime later; the run checks every
   real helper path, called repeatedly on long-lived instances, against exactly this: the
   aud clause is what a helper that addresses only the token endpoint breaks, the
   freshness clause what a helper that re-sends an earlier assertion breaks).  The
   must-accept clause of [spec] holds for every max age that covers the time since the
   call, not only for the provider's default of 1 h. *)
Theorem C14_spec_holds :
  forall i, wf i = true -> helper_alg_accepted i = true -> spec i (model i) = true.
Proof. exact spec_model. Qed.
Print Assumptions C14_spec_holds.

(* recorded finding Fxx-C14-1: without the algorithm guard the interop clause fails -
   a helper-built EdDSA assertion for a registered Ed25519 key is rejected *)
Theorem C14_interop_eddsa_refuted :
  exists i, wf i = true /\ spec i (model i) = false.
Proof. exact eddsa_refuted_ex. Qed.
Print Assumptions C14_interop_eddsa_refuted.
