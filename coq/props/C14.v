(* C14 property theorems: JWT assertions and request objects count only when
   signed by the named client.  Nothing but statements closed by [exact].
   [verify] is ANY signature-verification function (go-jose's in the code);
   [sym_verify k d] is the symbolic instance "k is the signer's key and the
   signed bytes are intact" the correspondence run uses.  Times in ns (Z),
   claim times in whole seconds, [round_s] = Go's Round(time.Second). *)
From OIDC Require Import Lib C14_spec C14_proofs.
Local Open Scope Z_scope.

(* op.VerifyJWTAssertion accepts => the signature verifies, under an accepted
   algorithm, with the key storage holds for (iss, kid); the provider's issuer is in
   aud; unexpired; issued neither in the future nor longer ago than the max age;
   sub = iss unless a custom subject check is configured.  Returned claims = the
   token's claims. *)
Theorem C14_assertion_sound :
  forall (verify : keyid -> sigdesc -> bool) v t now tok c,
  verify_assertion verify v t now tok = Ok c ->
  exists d, tok = TJws d c
    /\ (exists k, lookup_key t (c_iss c) (sd_kid d) = Some k /\ verify k d = true)
    /\ In (sd_alg d) accepted_algs
    /\ In (v_issuer v) (c_aud c)
    /\ c_exp c <> 0 /\ now + v_offset v < c_exp c * second
    /\ c_iat c <> 0 /\ c_iat c * second <= round_s (now + v_offset v)
    /\ (v_max_age v <> 0 -> round_s (now - v_max_age v) <= c_iat c * second)
    /\ (v_sub v = SubIsIssuer -> c_sub c = c_iss c).
Proof. exact assertion_sound. Qed.
Print Assumptions C14_assertion_sound.

(* symbolic reading: the signer's key IS the key registered for the named client *)
Theorem C14_assertion_signed_by_named_client :
  forall v t now tok c,
  verify_assertion sym_verify v t now tok = Ok c ->
  exists d, tok = TJws d c /\ lookup_key t (c_iss c) (sd_kid d) = Some (sd_signer d) /\ sd_intact d = true.
Proof. exact assertion_sound_symbolic. Qed.
Print Assumptions C14_assertion_signed_by_named_client.

(* the identity ClientJWTAuth returns, the JWTProfile grant hands to storage,
   AuthorizePrivateJWTKey looks up (= LegacyServer router) and the Provider router
   authenticates is exactly the verified assertion's issuer - a client_id parameter sent
   along is not an input of any of these functions *)
Theorem C14_assertion_identity :
  forall (verify : keyid -> sigdesc -> bool) v t cl now tok id,
  (client_jwt_auth verify v t now tok = Ok id \/ jwt_profile_grant verify v t now tok = Ok id
   \/ authorize_private_jwt_key verify v t cl now tok = Ok id
   \/ provider_router_auth verify v t cl now tok = Ok id) ->
  exists c, verify_assertion verify v t now tok = Ok c /\ id = c_iss c.
Proof. exact assertion_identity. Qed.
Print Assumptions C14_assertion_identity.

(* One verifier / provider instance serving any sequence of requests (different
   issuers of assertions, different request issuers of a dynamic-issuer provider):
   step n is decided by step n alone - expected audience = the issuer of THAT request,
   key set = the keys of THAT assertion's issuer; nothing is remembered. *)
Theorem C14_sequence_independent :
  forall (verify : keyid -> sigdesc -> bool) t pre s post,
  nth (List.length pre) (verify_sequence verify t (pre ++ s :: post)) (Err EOther)
  = verify_assertion verify (fst (fst s)) t (snd (fst s)) (snd s).
Proof. exact sequence_independent. Qed.
Print Assumptions C14_sequence_independent.

(* AuthorizePrivateJWTKey additionally requires the client to be registered for private_key_jwt *)
Theorem C14_client_auth :
  forall (verify : keyid -> sigdesc -> bool) v t cl now tok id,
  authorize_private_jwt_key verify v t cl now tok = Ok id ->
  (exists c, verify_assertion verify v t now tok = Ok c /\ id = c_iss c)
  /\ lookup_client cl id = Some private_key_jwt.
Proof. exact client_auth. Qed.
Print Assumptions C14_client_auth.

(* ParseRequestObject overrides parameters => the object is signed (accepted alg) with
   the key storage holds for (requesting client, kid), iss = inner client_id = outer
   client_id, the provider's issuer is in aud, response_type absent or equal; the
   result is exactly CopyRequestObjectToAuthRequest.  Storage contract: no key is
   registered under the empty client id. *)
Theorem C14_request_object :
  forall (verify : keyid -> sigdesc -> bool) t issuer outer tok a,
  no_empty_client t = true ->
  parse_request_object verify t issuer outer tok = Ok a ->
  exists d ro, tok = TJws d ro
    /\ (exists k, lookup_key t (ar_client_id outer) (sd_kid d) = Some k /\ verify k d = true)
    /\ In (sd_alg d) accepted_algs
    /\ ro_iss ro = ar_client_id outer
    /\ ar_client_id (ro_req ro) = ar_client_id outer
    /\ In issuer (ro_aud ro)
    /\ (ar_response_type (ro_req ro) = "" \/ ar_response_type (ro_req ro) = ar_response_type outer)
    /\ a = copy_request_object outer (ro_req ro).
Proof. exact request_object_sound. Qed.
Print Assumptions C14_request_object.

(* conversely, under those conditions the parameters are overridden and `request` is cleared *)
Theorem C14_request_object_complete :
  forall (verify : keyid -> sigdesc -> bool) t issuer outer d ro,
  ro_iss ro = ar_client_id outer ->
  ar_client_id (ro_req ro) = ar_client_id outer ->
  (ar_response_type (ro_req ro) = "" \/ ar_response_type (ro_req ro) = ar_response_type outer) ->
  In issuer (ro_aud ro) ->
  sd_wf d = true -> In (sd_alg d) accepted_algs ->
  (exists k, lookup_key t (ar_client_id outer) (sd_kid d) = Some k /\ verify k d = true) ->
  run_request_object verify t issuer outer (TJws d ro)
  = (None, copy_request_object outer (ro_req ro), true).
Proof. exact request_object_complete. Qed.
Print Assumptions C14_request_object_complete.

(* in every other case the request is rejected and nothing was overridden *)
Theorem C14_request_object_rejected_untouched :
  forall (verify : keyid -> sigdesc -> bool) t issuer outer tok,
  (exists a, parse_request_object verify t issuer outer tok = Ok a)
  \/ (exists e, run_request_object verify t issuer outer tok = (Some e, outer, false)).
Proof. exact request_object_rejected_untouched. Qed.
Print Assumptions C14_request_object_rejected_untouched.

(* an accepted object never changes client_id or response_type *)
Theorem C14_request_object_keeps_client :
  forall outer inner,
  ar_client_id (copy_request_object outer inner) = ar_client_id outer
  /\ ar_response_type (copy_request_object outer inner) = ar_response_type outer.
Proof. exact copy_keeps_client. Qed.
Print Assumptions C14_request_object_keeps_client.

(* what the client helpers build (iss = sub = client, aud has the issuer, iat = the
   build instant tb in seconds, exp at most 1 h later and still ahead) is accepted
   when the key is registered, the algorithm is accepted, the offset is >= 0 and the
   max age is 0 or >= 1 h (the provider uses 1 h / 1 s).  [verify] must accept what
   the registered key really signed. *)
Theorem C14_interop :
  forall (verify : keyid -> sigdesc -> bool) v t now tb client kid key alg auds e,
  (forall d, sd_intact d = true -> verify (sd_signer d) d = true) ->
  lookup_key t client kid = Some key ->
  In alg accepted_algs -> In (v_issuer v) auds ->
  0 <= v_offset v -> (v_max_age v = 0 \/ 3600 * second <= v_max_age v) ->
  second <= tb -> tb <= now ->
  now + v_offset v < e * second -> e <= tb / second + 3600 ->
  let c := mkClaims client client auds (tb / second) e in
  verify_assertion verify v t now (TJws (mkSig true alg kid key true) c) = Ok c.
Proof. exact interop. Qed.
Print Assumptions C14_interop.

(* the property predicate the check evaluates on the implementation's answers holds
   for the model on every input (clock bracket ordered; storage contract; what the
   helpers are assumed to build - [helper_built_ok]: accepted algorithm (see
   C14_interop_eddsa_refuted), sub = iss, the configured issuer in aud; the run checks
   every real helper path against exactly this, the aud clause being what a helper that
   addresses only the token endpoint breaks) *)
Theorem C14_spec_holds :
  forall i, wf i = true -> helper_alg_accepted i = true -> spec i (model i) = true.
Proof. exact spec_model. Qed.
Print Assumptions C14_spec_holds.

(* recorded finding Fxx-C14-1: without the algorithm guard the interop clause fails -
   a helper-built EdDSA assertion for a registered Ed25519 key is rejected *)
Theorem C14_interop_eddsa_refuted :
  exists i, wf i = true /\ spec i (model i) = false.
Proof. exact eddsa_refuted_ex. Qed.
Print Assumptions C14_interop_eddsa_refuted.
