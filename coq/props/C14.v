From OIDC Require Import Lib C14_Sig C14_Assertion C14_Request C14_spec.
Theorem C14_placeholder : True.
Proof. exact I. Qed.
Print Assumptions C14_placeholder.
