(* C16 property theorems (device grant). Nothing but statements closed by [exact].

   Vocabulary (coq/theories/C16_Device.v, C16_spec.v, C16_proofs.v):
   [reach g cl tr st]  - the trace tr (newest event first; an event is an
       operation paired with the answer it got) leads the provider with
       configuration g and registered clients cl from the empty storage to st;
       every history executed by [run] is such a trace (C16_histories_are_traces).
   [poll g cl st r cr dc now f host fwd] - the answer of router r to a
       device-code token request with credentials cr for device code dc at time
       now (ns), arriving under Host host / Forwarded host fwd; f = an injected
       failure of GetDeviceAuthorizatonState: FFail e with e the error value the
       storage returned, as a chain of wrappers (fmt.Errorf %w, *oidc.Error with
       Parent) down to a leaf; is_deadline e = errors.Is(e, context.DeadlineExceeded),
       i.e. the cause is the time-out, whatever wraps it. A token
       answer [RTokens t] is projected to t_sub (subject of the access token),
       t_client (the client the access token is recorded for), t_scopes (scope of
       the answer), t_granted (scopes recorded with the access token), t_id
       ((sub, iss) of the ID token), t_at_iss (iss of a JWT access token),
       t_refresh (a refresh token came along).
   [issued_ev tr dc uc cid scopes exp] - in the past a device authorization
       request by the client claiming to be cid, asking for scopes, was answered
       with device code dc and user code uc, expiring at exp.
   [approved_ev tr uc sub] / [denied_ev tr uc] - in the past the user approved
       (as subject sub) / denied the user code uc, and that user code existed.
   Client side (coq/theories/C16_Client.v):
   [poll_loop g cl p budget st iv t rounds] - rp.DeviceAccessToken /
       client.PollDeviceAccessTokenEndpoint of the relying party p (client id and
       secret of its configuration, device code, router, Host / Forwarded host of
       its token endpoint) started on storage st with interval iv (ms) under a
       caller deadline of budget ms, t = time of the previous poll (0 at the
       start); [rounds] says for each poll what the user did since the previous
       one ([r_before]: approvals / denials), the provider's clock and an injected
       storage failure. Result: (number of polls made, LTokens t | LErr code |
       LTimeout | LOther).
   [answers g cl p st rounds] - the answers those polls get; [interim x] - x is
       authorization_pending or slow_down; [due_at iv t prior] - when the poll
       following the interim answers prior falls due: one interval after the
       previous poll, every slow_down adding 5000 ms to all later intervals;
       [state_after st rounds] / [users st us] - the storage after the user's doings.
   [rp_registered c p] - p is configured with the registered id and secret of c.
   Overlapping requests (coq/theories/C16_Overlap.v):
   [run_sched g cl st inflight polls evs] - the answers of an execution in which
       the polls of [polls] overlap with each other and with other operations:
       SArrive i = poll i enters the provider and is held inside the storage's
       GetDeviceAuthorizatonState, SServe i = its lookup is served and it is
       answered, SOp o = operation o runs from start to end at this point;
       [inflight] = the polls held at the start. [lin polls evs] - the sequential
       history in which every request stands at the moment of its lookup. *)
From OIDC Require Import Lib C16_UserCode C16_UserCode_proofs C16_Device C16_Client C16_Overlap C16_spec C16_proofs C16_Client_proofs.

(* Tokens only after the user approved that very device code: a token answer
   implies that this device code was issued (to the polling client, with the
   scopes now granted) together with a user code which the user then approved as
   the subject the tokens carry, and never denied; and storage did not fail. *)
Theorem C16_tokens_only_after_approval : forall g cl tr st, reach g cl tr st ->
  forall r cr dc now f host fwd t,
  poll g cl st r cr dc now f host fwd = RTokens t ->
  exists uc exp,
    issued_ev tr dc uc (claimed cr) (t_scopes t) exp /\ approved_ev tr uc (t_sub t) /\
    ~ denied_ev tr uc /\ f = FNone.
Proof. exact tokens_only_after_approval. Qed.
Print Assumptions C16_tokens_only_after_approval.

(* ... and only to the client that started the flow: the tokens belong to the
   client the poll claims to be, the device code was issued to that same client,
   and the poll proves that identity (a client registered with auth method none
   by naming itself, any other client by its registered secret). *)
Theorem C16_only_to_initiator : forall g cl tr st, reach g cl tr st ->
  forall r cr dc now f host fwd t,
  poll g cl st r cr dc now f host fwd = RTokens t ->
  t_client t = claimed cr /\
  (exists uc exp, issued_ev tr dc uc (claimed cr) (t_scopes t) exp) /\
  exists c, find_client cl (claimed cr) = Some c /\ proves_identity c cr = true.
Proof. exact only_to_initiator. Qed.
Print Assumptions C16_only_to_initiator.

(* The issued tokens carry the approving user's subject and the requested
   scopes: for the list [requested] of the device authorization request that
   was answered with this device code, the scope of the token answer and the
   scopes recorded with the access token ARE that list (element by element:
   nothing dropped, added, reordered or merged, whatever repetitions or order
   the request had - hence equal as sets); the ID token exists iff openid was
   requested and carries the approving subject; ID token and JWT access token
   name the issuer of THIS token request ([request_issuer]: static, or derived
   from this request's Host / Forwarded host - never empty, never another
   request's); a refresh token comes along iff offline_access was requested and
   the client has the refresh_token grant. *)
Theorem C16_tokens_carry_subject_and_scopes : forall g cl tr st, reach g cl tr st ->
  forall r cr dc now f host fwd t,
  poll g cl st r cr dc now f host fwd = RTokens t ->
  exists uc exp requested c,
    issued_ev tr dc uc (claimed cr) requested exp /\ approved_ev tr uc (t_sub t) /\
    find_client cl (claimed cr) = Some c /\
    t_scopes t = requested /\ t_granted t = requested /\
    (forall s, In s requested <-> In s (t_scopes t)) /\
    t_id t = (if string_in "openid" requested then Some (t_sub t, request_issuer g host fwd) else None) /\
    t_at_iss t = (if c_jwt c then Some (request_issuer g host fwd) else None) /\
    t_refresh t = (string_in "offline_access" requested && c_refresh c).
Proof. exact tokens_carry. Qed.
Print Assumptions C16_tokens_carry_subject_and_scopes.

(* the scope comparison of the property predicate decides equality as sets *)
Theorem C16_same_scopes_is_set_equality : forall a b,
  same_scopes a b = true <-> (forall s, In s a <-> In s b).
Proof. exact same_scopes_iff. Qed.
Print Assumptions C16_same_scopes_is_set_equality.

(* The answers to a poll by a registered device client c presenting itself
   canonically (public: bare client_id; with a secret: HTTP Basic), on either
   router: slow_down on a storage time-out; refused (access_denied) for a code
   that was never issued or only to other clients; and for the authorization d
   the storage holds under the code for c: access_denied after denial, tokens
   (approving subject, requested scopes) after approval, otherwise
   expired_token after expiry and authorization_pending before. *)
Theorem C16_poll_answers : forall g cl tr st, reach g cl tr st ->
  forall r cr dc now f host fwd c,
  find_client cl (claimed cr) = Some c -> canonical c cr = true -> c_dev c = true ->
  client_ok c = true -> dc <> "" ->
  let x := poll g cl st r cr dc now f host fwd in
  (forall e, f = FFail e -> is_deadline e = true -> x = RErr "slow_down") /\
  (f = FNone ->
     ((forall uc cid sc ex, issued_ev tr dc uc cid sc ex -> cid <> c_id c) ->
        x = RErr "access_denied") /\
     (forall d, find_dev st dc = Some d -> d_client d = c_id c ->
        (denied_ev tr (d_user d) -> x = RErr "access_denied") /\
        (~ denied_ev tr (d_user d) -> (exists sub, approved_ev tr (d_user d) sub) ->
           approved_ev tr (d_user d) (d_subject d) /\
           exists t, x = RTokens t /\ t_sub t = d_subject d /\ t_client t = c_id c /\
                     t_scopes t = d_scopes d /\ t_granted t = d_scopes d) /\
        (~ denied_ev tr (d_user d) -> (forall sub, ~ approved_ev tr (d_user d) sub) ->
           x = RErr (if (now >? d_expires d)%Z then "expired_token" else "authorization_pending")))).
Proof. exact poll_answers. Qed.
Print Assumptions C16_poll_answers.

(* User-code format, for every alphabet, length, dash interval and random
   stream: a produced code consists of n runes of the alphabet laid out with a
   dash exactly before each index that is a positive multiple of dash
   ([layout], [dash_before]); its runes are exactly those n; no dash at all
   when dash = 0 or dash >= n. A code is produced only for a non-empty alphabet
   and n >= 1 (fixed F17: otherwise an error, never a panic). *)
Theorem C16_user_code_format : forall charset n dash rnd ts,
  user_code_toks charset n dash rnd = Some ts ->
  charset <> [] /\ 1 <= n /\
  exists rs, List.length rs = n /\ Forall (fun r => In r charset) rs /\
             ts = layout dash 0 rs /\ filter is_rune ts = map Rune rs /\
             (dash = 0 \/ n <= dash -> ts = map Rune rs).
Proof. exact user_code_format_full. Qed.
Print Assumptions C16_user_code_format.

(* the decidable format check used on the implementation's answers accepts every
   code the model can produce (alphabet runes given by prefix-free encodings, UTF-8) *)
Theorem C16_user_code_check : forall charset n dash rnd s,
  prefix_free charset = true ->
  new_user_code charset n dash rnd = Some s -> user_code_ok charset n dash s = true.
Proof. exact new_user_code_ok. Qed.
Print Assumptions C16_user_code_check.

(* Device authorization response: 22 URL-safe characters of device code, a user
   code of the configured format, verification URI = scheme://host of the issuer
   derived from THIS request (static issuer, request Host, or Forwarded host -
   [request_origin]) followed by the form path (the issuer's own path is
   replaced), or the configured absolute form URL; complete URI = that +
   ?user_code=<code>; configured lifetime and interval; and exactly that
   authorization (claimed client, requested scopes, not yet approved or denied)
   is what the storage now holds. Nothing of an earlier request enters. *)
Theorem C16_response_fields : forall g cl st r cr scopes now life rnd host fwd st' dc uc vu vuc e i,
  authz g cl st r cr scopes now life rnd host fwd = (st', RDevice dc uc vu vuc e i) ->
  device_code_ok dc = true /\
  (exists rs, List.length rs = g_amount g /\ Forall (fun x => In x (g_charset g)) rs /\
              uc = toks_str (layout (g_dash g) 0 rs)) /\
  vu = match g_form g with
       | FormPath p => (request_origin g host fwd ++ p)%string
       | FormURL u => u
       end /\
  is_prefix (request_origin g host fwd) (request_issuer g host fwd) = true /\
  vuc = (vu ++ "?user_code=" ++ uc)%string /\
  e = life /\ i = g_interval g /\
  st' = mkDev dc uc (claimed cr) scopes (now + ns_of_s life)%Z false false "" :: st.
Proof. exact response_fields_full. Qed.
Print Assumptions C16_response_fields.

(* every executed history is a reachable trace *)
Theorem C16_histories_are_traces : forall g cl ops,
  reach g cl (rev (combine ops (run g cl [] ops))) (final g cl [] ops).
Proof. exact histories_reach. Qed.
Print Assumptions C16_histories_are_traces.

(* An ID token only for the scope openid: whether a token answer carries an ID
   token is decided by MEMBERSHIP of "openid" in the list the device
   authorization asked for - a scope that merely contains that text
   (custom_openid_scope, openid., urn:x:openid:y) does not ask for one. *)
Theorem C16_id_token_only_for_openid : forall g cl tr st, reach g cl tr st ->
  forall r cr dc now f host fwd t,
  poll g cl st r cr dc now f host fwd = RTokens t ->
  exists uc exp requested,
    issued_ev tr dc uc (claimed cr) requested exp /\
    (t_id t <> None <-> In "openid" requested).
Proof. exact id_token_iff_openid. Qed.
Print Assumptions C16_id_token_only_for_openid.

(* The relying party's poll loop, for every script of user actions and storage
   time-outs, every interval and caller deadline: after any sequence of interim
   answers (authorization_pending, slow_down - in any order and number) the loop
   returns the first definite answer - tokens, or the error - provided the poll
   that receives it falls due before the deadline; it has then made exactly one
   poll per answer. *)
Theorem C16_loop_returns_first_definite_answer : forall g cl p budget pre st iv t r rest,
  (0 <= iv)%Z ->
  forallb interim (answers g cl p st pre) = true ->
  (due_at iv t (answers g cl p st pre) < budget)%Z ->
  interim (rp_poll g cl (users (state_after st pre) (r_before r)) p r) = false ->
  poll_loop g cl p budget st iv t (pre ++ r :: rest) =
    (S (List.length pre), result_of (rp_poll g cl (users (state_after st pre) (r_before r)) p r)).
Proof. exact loop_first_final. Qed.
Print Assumptions C16_loop_returns_first_definite_answer.

(* ... and it gives up (the caller's deadline) only after interim answers and
   only when the next poll would fall due at or after the deadline (or the script
   of the provider's answers has ended): never while a poll is still due. *)
Theorem C16_loop_gives_up_only_at_deadline : forall g cl p budget rounds st iv t n,
  poll_loop g cl p budget st iv t rounds = (n, LTimeout) ->
  n <= List.length rounds /\
  forallb interim (answers g cl p st (firstn n rounds)) = true /\
  (n = List.length rounds \/ (budget <= due_at iv t (answers g cl p st (firstn n rounds)))%Z).
Proof. exact loop_timeout_inv. Qed.
Print Assumptions C16_loop_gives_up_only_at_deadline.

(* Tokens only after approval, for the whole loop: when the loop returns tokens
   after the history tr, then - with tr' the approvals and denials of the user
   during the loop up to its last poll - the device code was issued BEFORE the
   loop to the relying party's client with the scopes now granted, its user code
   was approved by the tokens' subject and never denied, and the tokens belong to
   that client. *)
Theorem C16_loop_tokens_only_after_approval : forall g cl tr st, reach g cl tr st ->
  forall p budget iv t rounds n tk,
  poll_loop g cl p budget st iv t rounds = (n, LTokens tk) ->
  1 <= n <= List.length rounds /\
  exists tr', Forall user_event tr' /\
    exists uc exp,
      issued_ev tr (p_dc p) uc (p_id p) (t_scopes tk) exp /\
      approved_ev (tr' ++ tr) uc (t_sub tk) /\ ~ denied_ev (tr' ++ tr) uc /\
      t_client tk = p_id p.
Proof. exact loop_tokens_only_after_approval. Qed.
Print Assumptions C16_loop_tokens_only_after_approval.

(* An approved code is redeemed by the client that started the flow: the relying
   party of a registered device client, configured with its registered
   credentials, obtains the tokens (approving subject, requested scopes) at the
   first poll that finds the code approved and not denied, whatever interim
   answers came before - in particular after a slow_down -, provided that poll
   falls due before the caller's deadline; on both routers. *)
Theorem C16_loop_redeems_approved_code : forall g cl p c budget iv pre r rest,
  find_client cl (p_id p) = Some c -> rp_registered c p = true -> c_dev c = true ->
  client_ok c = true -> p_dc p <> "" ->
  (0 <= iv)%Z ->
  forall st,
  forallb interim (answers g cl p st pre) = true ->
  (due_at iv 0 (answers g cl p st pre) < budget)%Z ->
  forall d, find_dev (users (state_after st pre) (r_before r)) (p_dc p) = Some d ->
  d_client d = c_id c -> d_done d = true -> d_denied d = false -> r_fault r = FNone ->
  exists tk, poll_loop g cl p budget st iv 0 (pre ++ r :: rest) = (S (List.length pre), LTokens tk) /\
             t_sub tk = d_subject d /\ t_client tk = c_id c /\
             t_scopes tk = d_scopes d /\ t_granted tk = d_scopes d.
Proof. exact loop_redeems_approved_code. Qed.
Print Assumptions C16_loop_redeems_approved_code.

(* Overlapping requests, for EVERY schedule: whatever polls are in flight - of the
   same device code or another one, by the same client or another - an execution
   answers exactly as the sequential history in which every request stands at its
   storage lookup; a poll in flight shares nothing with the others. *)
Theorem C16_overlap_is_sequential : forall g cl polls evs st inflight,
  run_sched g cl st inflight polls evs = run g cl st (lin polls evs).
Proof. exact run_sched_lin. Qed.
Print Assumptions C16_overlap_is_sequential.

(* Tokens only to the initiating client under every overlap: in every schedule, a
   poll that is answered with tokens - pre = all that took effect before its
   lookup - comes from the client it claims to be (identity proven), the device
   code was issued to that client in pre with the scopes granted, its user code
   was approved in pre by the tokens' subject and not denied. Being in flight
   together with the owner's poll for the same code earns another client nothing. *)
Theorem C16_overlap_tokens_only_to_initiator :
  forall g cl polls evs inflight pre r cr dc now f host fwd post t,
  lin polls evs = pre ++ OpPoll r cr dc now f host fwd :: post ->
  nth_error (run_sched g cl [] inflight polls evs) (List.length pre) = Some (RTokens t) ->
  let tr := rev (combine pre (run g cl [] pre)) in
  t_client t = claimed cr /\
  (exists c, find_client cl (claimed cr) = Some c /\ proves_identity c cr = true) /\
  exists uc exp, issued_ev tr dc uc (claimed cr) (t_scopes t) exp /\
                 approved_ev tr uc (t_sub t) /\ ~ denied_ev tr uc.
Proof. exact overlap_tokens. Qed.
Print Assumptions C16_overlap_tokens_only_to_initiator.

(* the property predicate evaluated by the correspondence run holds of the
   model on every well-formed input (histories, direct user-code calls, poll
   loops of the relying party, histories with overlapping requests) *)
Theorem C16_spec_holds : forall i, wf i = true -> spec i (model i) = true.
Proof. exact spec_model. Qed.
Print Assumptions C16_spec_holds.
