(* C04 / C07: reachable histories and the storage/history invariant. *)
From OIDC Require Import Lib C04_OP C04_Ledger C04_OP_proofs.

Lemma find_filter_none {A} (f p : A -> bool) l : find f l = None -> find f (filter p l) = None.
Proof.
  induction l as [|a l IH]; cbn; [reflexivity|].
  destruct (f a) eqn:Hf; [discriminate|]. intro Hn. destruct (p a); cbn; [rewrite Hf|]; auto.
Qed.

(* what a token response says about the refresh token it carries *)
Definition matches (t0 : tokresp) (rec : rtok) : Prop :=
  t_scope t0 = r_scopes rec /\ t_at_sub t0 = r_sub rec /\ t_auth t0 = r_auth rec
  /\ t_azp t0 = r_client rec /\ t_aud t0 = aud_with (r_client rec) (r_aud rec).

(* ... and about any refresh token of that id still stored later on: a non-rotating storage keeps
   the id while the grant may have been narrowed since *)
Definition covers (t0 : tokresp) (rec : rtok) : Prop :=
  subset (r_scopes rec) (t_scope t0) = true /\ t_at_sub t0 = r_sub rec /\ t_auth t0 = r_auth rec
  /\ t_azp t0 = r_client rec /\ t_aud t0 = aud_with (r_client rec) (r_aud rec).

Lemma matches_covers t0 rec : matches t0 rec -> covers t0 rec.
Proof. intros [M1 M]. split; [rewrite M1; apply subset_refl | exact M]. Qed.

(* request q came into being through authorization request o: its parameters are o's query
   parameters, superseded member by member by o's Request Object *)
Definition made_by (q : areq) (o : op) : Prop :=
  exists uri scopes nonce chal,
    o = Authorize (q_client q) uri scopes nonce chal (q_extra q)
    /\ q_uri q = eff_uri uri (q_extra q) /\ q_scopes q = eff_scopes scopes (q_extra q)
    /\ q_nonce q = eff_nonce nonce (q_extra q) /\ q_chal q = eff_chal chal (q_extra q).

Section R.
Variable H : string -> string.
Variable cf : cfg.

Definition mkev s r o x s' := {| e_pre := s; e_r := r; e_op := o; e_out := x; e_post := s' |}.

Inductive reach : list event -> st -> Prop :=
| reach_nil : reach [] init
| reach_snoc h s r o s' x :
    reach h s -> step H cf r s o = (s', x) -> reach (h ++ [mkev s r o x s']) s'.

Lemma exec_from_reach ops : forall h s, reach h s ->
  forall h' s', exec_from H cf h s ops = (h', s') -> reach h' s'.
Proof.
  induction ops as [|[r o] ops IH]; intros h s Hr h' s'; unfold exec_from; cbn [fold_left].
  - intros [= <- <-]. exact Hr.
  - unfold exec1 at 2. destruct (step H cf r s o) as [s1 x] eqn:Hs.
    apply IH. eapply reach_snoc; eauto.
Qed.

Lemma exec_reach ops h s : exec H cf ops = (h, s) -> reach h s.
Proof. apply exec_from_reach. constructor. Qed.

Lemma reach_split h s : reach h s -> forall h1 e h2, h = h1 ++ e :: h2 ->
  reach h1 (e_pre e) /\ step H cf (e_r e) (e_pre e) (e_op e) = (e_post e, e_out e).
Proof.
  induction 1 as [|h s r o s' x Hr IH Hs]; intros h1 e h2 Heq.
  - destruct h1; discriminate.
  - apply app_snoc_split in Heq as [[-> [-> ->]] | [h2' [-> ->]]].
    + cbn. auto.
    + eapply IH. reflexivity.
Qed.

(* ------------------------------------------------------------ the invariant *)
Definition req_ok (h : list event) (s : st) := forall q, In q (reqs s) ->
  q_id q <= next s
  /\ (exists e, In e h /\ made_by q (e_op e) /\ e_out e = OAuthz (Some (q_id q)))
  /\ (q_done q = true -> exists e, In e h /\ e_op e = Login (q_id q) (q_sub q) (q_auth q) /\ e_out e = OLogin true).

Definition codes_ok (h : list event) (s : st) := forall c n, In (c, n) (codes s) ->
  c <= ncode s
  /\ (exists q, find_req s n = Some q /\ q_done q = true)
  /\ (exists e, In e h /\ e_op e = Callback n /\ e_out e = OCode c).

Definition codes_fun (s : st) := forall c n n', In (c, n) (codes s) -> In (c, n') (codes s) -> n = n'.

Definition used_ok (h : list event) (s : st) := forall e pl f cr c uri ver,
  In e h -> e_op e = TokenCode pl f cr (Some c) uri ver -> is_tokens (e_out e) = true ->
  c <= ncode s /\ forall n, ~ In (c, n) (codes s).

Definition rts_ok (h : list event) (s : st) := forall t, In t (rtoks s) ->
  r_id t <= next s
  /\ exists e t0, In e h /\ e_out e = OTokens t0 /\ t_rt t0 = Some (r_id t) /\ matches t0 t.

Definition issued_ok (h : list event) (s : st) := forall e t0 n,
  In e h -> e_out e = OTokens t0 -> t_rt t0 = Some n ->
  n <= next s /\ forall rec, find_rt s n = Some rec -> covers t0 rec.

Definition rotated_ok (h : list event) (s : st) := forall e pl cr n sc,
  In e h -> e_op e = TokenRefresh pl cr (Some n) sc -> is_tokens (e_out e) = true ->
  f_keep cf = false ->      (* a rotating storage *)
  n <= next s /\ find_rt s n = None.

(* a stored token that the storage revoked (or let expire) is gone for good *)
Definition dead_ok (h : list event) (s : st) := forall e n,
  In e h -> e_op e = RevokeRT n -> e_out e = ODone -> n <= next (e_pre e) -> n <= next s /\ find_rt s n = None.

Record Inv (h : list event) (s : st) : Prop := {
  i_req : req_ok h s; i_codes : codes_ok h s; i_fun : codes_fun s; i_used : used_ok h s;
  i_rts : rts_ok h s; i_issued : issued_ok h s; i_rot : rotated_ok h s; i_dead : dead_ok h s }.

Lemma in_snoc {A} (x e : A) h : In x (h ++ [e]) <-> In x h \/ x = e.
Proof. rewrite in_app_iff. cbn. intuition. Qed.

Lemma find_req_in s n q : find_req s n = Some q -> In q (reqs s) /\ q_id q = n.
Proof. intro Hf. apply find_some in Hf as [Hin E]. apply Nat.eqb_eq in E. auto. Qed.

Lemma find_rt_in s n t : find_rt s n = Some t -> In t (rtoks s) /\ r_id t = n.
Proof. intro Hf. apply find_some in Hf as [Hin E]. apply Nat.eqb_eq in E. auto. Qed.

Lemma code_req_in s cd q : code_req s cd = Some q -> In (cd, q_id q) (codes s) /\ find_req s (q_id q) = Some q.
Proof.
  unfold code_req. destruct (lookup cd (codes s)) as [m|] eqn:Hl; [|discriminate].
  intro Hf. pose proof (find_req_in _ _ _ Hf) as [_ Hid]. subst m. split; [now apply lookup_in | exact Hf].
Qed.

Lemma find_req_other n (l : list areq) m :
  n <> m -> find (fun q => Nat.eqb (q_id q) n) (filter (fun x => negb (Nat.eqb (q_id x) m)) l)
            = find (fun q => Nat.eqb (q_id q) n) l.
Proof.
  intro Hne. apply find_filter_keep. intros x E. apply Nat.eqb_eq in E. rewrite E.
  apply negb_true_iff, Nat.eqb_neq. exact Hne.
Qed.

Lemma set_login_id n sub st q : q_id (set_login n sub st q) = q_id q.
Proof. unfold set_login. destruct (Nat.eqb (q_id q) n); reflexivity. Qed.

Lemma find_req_login s n sub stamp m :
  find (fun q => Nat.eqb (q_id q) m) (map (set_login n sub stamp) (reqs s))
  = option_map (set_login n sub stamp) (find_req s m).
Proof. unfold find_req. apply find_map_same. intro x. now rewrite set_login_id. Qed.

(* ---- state shapes after the two issuing transitions ---- *)
Lemma issue_code_shape s q c :
  let s' := fst (issue_code cf s q c) in
  reqs s' = filter (fun x => negb (Nat.eqb (q_id x) (q_id q))) (reqs s)
  /\ codes s' = filter (fun p => negb (Nat.eqb (snd p) (q_id q))) (codes s)
  /\ ncode s' = ncode s /\ next s <= next s'
  /\ exists t0, snd (issue_code cf s q c) = OTokens t0
     /\ ((t_rt t0 = None /\ rtoks s' = rtoks s)
         \/ (exists new, t_rt t0 = Some (S (next s)) /\ rtoks s' = new :: rtoks s /\ r_id new = S (next s)
                         /\ S (next s) <= next s' /\ matches t0 new)).
Proof.
  unfold issue_code. cbn [fst snd reqs codes rtoks next ncode].
  destruct (string_in "offline_access" (q_scopes q) && has_refresh s c).
  - repeat split; try lia. eexists. split; [reflexivity|]. right. eexists. cbn.
    repeat split; try reflexivity; lia.
  - repeat split; try lia. eexists. split; [reflexivity|]. left. cbn. auto.
Qed.

Lemma issue_refresh_shape s t c sc :
  let s' := fst (issue_refresh cf s t c sc) in
  reqs s' = reqs s /\ codes s' = codes s /\ ncode s' = ncode s /\ next s < next s'
  /\ exists t0 new, snd (issue_refresh cf s t c sc) = OTokens t0
     /\ t_rt t0 = Some (r_id new) /\ matches t0 new
     /\ rtoks s' = new :: filter (fun x => negb (Nat.eqb (r_id x) (r_id t))) (rtoks s)
     /\ r_scopes new = sc /\ r_sub new = r_sub t /\ r_auth new = r_auth t /\ r_client new = r_client t /\ r_aud new = r_aud t
     /\ ((f_keep cf = false /\ r_id new = S (next s) /\ next s' = S (S (next s)))
         \/ (f_keep cf = true /\ r_id new = r_id t /\ next s' = S (next s))).
Proof.
  unfold issue_refresh. cbn [fst snd reqs codes rtoks next ncode].
  split; [reflexivity|]. split; [reflexivity|]. split; [reflexivity|].
  split; [destruct (f_keep cf); lia|].
  eexists.
  exists {| r_id := if f_keep cf then r_id t else S (next s); r_client := r_client t; r_sub := r_sub t; r_aud := r_aud t;
            r_auth := r_auth t; r_scopes := sc |}.
  split; [reflexivity|]. cbn. repeat split; try reflexivity.
  destruct (f_keep cf); [right | left]; auto.
Qed.

Lemma inv_init : Inv [] init.
Proof. constructor; repeat intro; cbn in *; contradiction. Qed.

Ltac old := match goal with Hold : forall e, In e ?h -> In e (?h ++ [?ev]) |- _ =>
  repeat match goal with
  | |- exists e, In e (h ++ [ev]) /\ _ => eexists; split; [apply Hold; eassumption | try eassumption; auto]
  end end.

Ltac oldrt := match goal with
  | Hold : forall e, In e ?h -> In e (?h ++ [?ev]), B1 : In ?e ?h, B2 : e_out ?e = OTokens ?t0 /\ _ |- _ =>
      exists e, t0; split; [apply Hold; exact B1 | exact B2] end.

Lemma inv_same h s r o x :
  Inv h s -> (match x with OAuthz None | OLogin false | OCbErr | OCbFail | OErr _ _ => True | _ => False end) ->
  Inv (h ++ [mkev s r o x s]) s.
Proof.
  intros [Ireq Icodes Ifun Iused Irts Iissued Irot Idead] Hx.
  set (ev := mkev s r o x s).
  assert (Hold : forall e, In e h -> In e (h ++ [ev])) by (intros; apply in_snoc; auto).
    constructor.
    + intros q Hin. destruct (Ireq q Hin) as [A [[e [B1 B2]] C]]. split; [exact A|]. split; [old|].
      intro Hd. destruct (C Hd) as [e' [C1 C2]]. old.
    + intros c n Hin. destruct (Icodes c n Hin) as [A [B [e [C1 C2]]]]. split; [exact A | split; [exact B | old]].
    + exact Ifun.
    + intros e pl0 f0 cr c uri ver Hin Ho Hk. apply in_snoc in Hin as [Hin | ->]; [eauto|].
      cbn in Hk. destruct x; try discriminate. contradiction.
    + intros t Hin. destruct (Irts t Hin) as [A [e [t0 [B1 B2]]]]. split; [exact A | oldrt].
    + intros e t0 n Hin Ho Hk. apply in_snoc in Hin as [Hin | ->]; [eauto|].
      cbn in Ho. subst x. contradiction.
    + intros e pl0 cr n sc Hin Ho Hk Hkp. apply in_snoc in Hin as [Hin | ->]; [eauto|].
      cbn in Hk. destruct x; try discriminate. contradiction.
    + intros e n1 Hin Ho Hdn Hle. apply in_snoc in Hin as [Hin | ->]; [eauto|].
      cbn in Hdn. subst x. contradiction.
Qed.

Lemma inv_step h s r o s' x :
  Inv h s -> trans H cf s o s' x -> Inv (h ++ [mkev s r o x s']) s'.
Proof.
  intros [Ireq Icodes Ifun Iused Irts Iissued Irot Idead] Ht.
  set (ev := mkev s r o x s').
  assert (Hold : forall e, In e h -> In e (h ++ [ev])) by (intros; apply in_snoc; auto).
  assert (Hnew : In ev (h ++ [ev])) by (apply in_snoc; auto).
  destruct Ht as [o x Hx Hns | pl0 cr0 n0 sc0 t0 Hrt0 Hn0 | cl uri scopes nonce chal ax | n sub stamp q Hq | n q Hq Hd
                 | pl f cr cd uri ver q c Hcr Hfc Hp Hu Hch Hpub | pl cr n scopes t c sc Hrt Hfc Hr Hfl Hp Hn
                 | cl | cl | nrev].
  - (* nothing happened *)
    apply inv_same; [constructor; assumption | exact Hx].
  - (* invalid_scope: nothing happened *)
    apply inv_same; [constructor; assumption | exact I].
  - (* authorize *)
    constructor; unfold req_ok, codes_ok, codes_fun, used_ok, rts_ok, issued_ok, rotated_ok, dead_ok, find_req, find_rt;
      cbn [reqs codes rtoks next ncode].
    + intros q [<- | Hin]; cbn.
      * split; [lia|]. split; [|discriminate]. exists ev. split; [exact Hnew|]. split; [|reflexivity].
        exists uri, scopes, nonce, chal. cbn. auto.
      * destruct (Ireq q Hin) as [A [[e [B1 B2]] C]]. split; [lia|]. split; [old|].
        intro Hd. destruct (C Hd) as [e' [C1 C2]]. old.
    + intros c n Hin. destruct (Icodes c n Hin) as [A [[q [B1 B2]] [e [C1 C2]]]].
      split; [exact A|]. split; [|old]. exists q. split; [|exact B2].
      unfold find_req. cbn [reqs find q_id].
      destruct (find_req_in _ _ _ B1) as [Hqin Hqid]. destruct (Ireq q Hqin) as [Hle _].
      destruct (Nat.eqb (S (next s)) n) eqn:E; [apply Nat.eqb_eq in E; lia | exact B1].
    + exact Ifun.
    + intros e pl0 f0 cr c uri' ver Hin Ho Hk. apply in_snoc in Hin as [Hin | ->]; [eauto | discriminate].
    + intros t Hin. destruct (Irts t Hin) as [A [e [t0 [B1 B2]]]]. split; [lia | oldrt].
    + intros e t0 n Hin Ho Hk. apply in_snoc in Hin as [Hin | ->]; [|discriminate].
      destruct (Iissued e t0 n Hin Ho Hk) as [A B]. split; [lia | exact B].
    + intros e pl0 cr n sc Hin Ho Hk Hkp. apply in_snoc in Hin as [Hin | ->]; [|discriminate].
      destruct (Irot e pl0 cr n sc Hin Ho Hk Hkp) as [A B]. split; [lia | exact B].
    + intros e n1 Hin Ho Hdn Hle. apply in_snoc in Hin as [Hin | ->]; [|discriminate].
      destruct (Idead e n1 Hin Ho Hdn Hle) as [A B]. split; [lia | exact B].
  - (* login *)
    constructor; unfold req_ok, codes_ok, codes_fun, used_ok, rts_ok, issued_ok, rotated_ok, dead_ok, find_req, find_rt;
      cbn [reqs codes rtoks next ncode].
    + intros q' Hin. apply in_map_iff in Hin as [q0 [<- Hin]].
      destruct (Ireq q0 Hin) as [A [[e [B1 B2]] C]]. unfold set_login.
      destruct (Nat.eqb (q_id q0) n) eqn:E; cbn.
      * apply Nat.eqb_eq in E. split; [exact A|]. split; [old|]. intros _. exists ev. subst n. auto.
      * split; [exact A|]. split; [old|]. intro Hd0. destruct (C Hd0) as [e' [C1 C2]]. old.
    + intros c m Hin. destruct (Icodes c m Hin) as [A [[q0 [B1 B2]] [e [C1 C2]]]].
      split; [exact A|]. split; [|old]. exists (set_login n sub stamp q0).
      split; [unfold find_req; cbn [reqs]; rewrite find_req_login, B1; reflexivity|].
      unfold set_login. destruct (Nat.eqb (q_id q0) n); [reflexivity | exact B2].
    + exact Ifun.
    + intros e pl0 f0 cr c uri' ver Hin Ho Hk. apply in_snoc in Hin as [Hin | ->]; [eauto | discriminate].
    + intros t Hin. destruct (Irts t Hin) as [A [e [t0 [B1 B2]]]]. split; [exact A | oldrt].
    + intros e t0 m Hin Ho Hk. apply in_snoc in Hin as [Hin | ->]; [eauto | discriminate].
    + intros e pl0 cr m sc Hin Ho Hk Hkp. apply in_snoc in Hin as [Hin | ->]; [eauto | discriminate].
    + intros e n1 Hin Ho Hdn Hle. apply in_snoc in Hin as [Hin | ->]; [|discriminate].
      destruct (Idead e n1 Hin Ho Hdn Hle) as [A B]. split; [lia | exact B].
  - (* callback *)
    constructor; unfold req_ok, codes_ok, codes_fun, used_ok, rts_ok, issued_ok, rotated_ok, dead_ok, find_req, find_rt;
      cbn [reqs codes rtoks next ncode].
    + intros q' Hin. destruct (Ireq q' Hin) as [A [[e [B1 B2]] C]]. split; [exact A|]. split; [old|].
      intro Hd0. destruct (C Hd0) as [e' [C1 C2]]. old.
    + intros c m [[= <- <-] | Hin].
      * split; [lia|]. split; [eauto | exists ev; auto].
      * destruct (Icodes c m Hin) as [A [B [e [C1 C2]]]]. split; [lia | split; [exact B | old]].
    + intros c m m' [E | Hin] [E' | Hin'].
      * congruence.
      * inversion E; subst. destruct (Icodes _ _ Hin') as [A _]. lia.
      * inversion E'; subst. destruct (Icodes _ _ Hin) as [A _]. lia.
      * eapply Ifun; eauto.
    + intros e pl0 f0 cr c uri' ver Hin Ho Hk. apply in_snoc in Hin as [Hin | ->]; [|discriminate].
      destruct (Iused e pl0 f0 cr c uri' ver Hin Ho Hk) as [A B]. split; [lia|].
      intros m [E | Hin']; [inversion E; lia | eapply B; eauto].
    + intros t Hin. destruct (Irts t Hin) as [A [e [t0 [B1 B2]]]]. split; [exact A | oldrt].
    + intros e t0 m Hin Ho Hk. apply in_snoc in Hin as [Hin | ->]; [eauto | discriminate].
    + intros e pl0 cr m sc Hin Ho Hk Hkp. apply in_snoc in Hin as [Hin | ->]; [eauto | discriminate].
    + intros e n1 Hin Ho Hdn Hle. apply in_snoc in Hin as [Hin | ->]; [|discriminate].
      destruct (Idead e n1 Hin Ho Hdn Hle) as [A B]. split; [lia | exact B].
  - (* code exchange *)
    destruct (issue_code_shape s q c) as [Sreq [Scodes [Sncode [Snext [t0 [Sout Srt]]]]]].
    destruct (code_req_in _ _ _ Hcr) as [Hcin Hqf].
    fold ev. set (s1 := fst (issue_code cf s q c)) in *. set (x1 := snd (issue_code cf s q c)) in *.
    assert (Hfr : forall m, m <> q_id q -> find_req s1 m = find_req s m).
    { intros m Hne. unfold find_req. rewrite Sreq. now apply find_req_other. }
    constructor.
    + intros q' Hin. rewrite Sreq in Hin. apply filter_In in Hin as [Hin _].
      destruct (Ireq q' Hin) as [A [[e [B1 B2]] C]]. split; [lia|]. split; [old|].
      intro Hd0. destruct (C Hd0) as [e' [C1 C2]]. old.
    + intros c' m Hin. rewrite Scodes in Hin. apply filter_In in Hin as [Hin Hne]. cbn in Hne.
      apply negb_true_iff, Nat.eqb_neq in Hne.
      destruct (Icodes c' m Hin) as [A [[q0 [B1 B2]] [e [C1 C2]]]].
      split; [lia|]. split; [|old]. exists q0. rewrite Hfr; auto.
    + intros c' m m' Hin Hin'. rewrite Scodes in Hin, Hin'.
      apply filter_In in Hin as [Hin _]. apply filter_In in Hin' as [Hin' _]. eapply Ifun; eauto.
    + intros e pl0 f0 cr' c' uri' ver' Hin Ho Hk. rewrite Sncode. apply in_snoc in Hin as [Hin | ->].
      * destruct (Iused e pl0 f0 cr' c' uri' ver' Hin Ho Hk) as [A B]. split; [exact A|].
        intros m Hin'. rewrite Scodes in Hin'. apply filter_In in Hin' as [Hin' _]. eapply B; eauto.
      * cbn in Ho. injection Ho as <- <- <- <- <- <-.
        destruct (Icodes _ _ Hcin) as [A _]. split; [exact A|].
        intros m Hin'. rewrite Scodes in Hin'. apply filter_In in Hin' as [Hin' Hne]. cbn in Hne.
        apply negb_true_iff, Nat.eqb_neq in Hne. apply Hne. eapply Ifun; eauto.
    + intros t Hin. destruct Srt as [[_ Srt] | [new [St0 [Srt [Hid [Hle Hm]]]]]]; rewrite Srt in Hin.
      * destruct (Irts t Hin) as [A [e [t1 [B1 B2]]]]. split; [lia | oldrt].
      * destruct Hin as [<- | Hin].
        -- split; [lia|]. exists ev, t0. rewrite Hid. auto.
        -- destruct (Irts t Hin) as [A [e [t1 [B1 B2]]]]. split; [lia | oldrt].
    + intros e t1 m Hin Ho Hk. apply in_snoc in Hin as [Hin | ->].
      * destruct (Iissued e t1 m Hin Ho Hk) as [A B]. split; [lia|].
        intros rec Hf. apply B. destruct Srt as [[_ Srt] | [new [St0 [Srt [Hid [Hle Hm]]]]]];
          unfold find_rt in Hf |- *; rewrite Srt in Hf; [exact Hf|].
        cbn [find] in Hf. rewrite Hid in Hf.
        destruct (Nat.eqb (S (next s)) m) eqn:E; [apply Nat.eqb_eq in E; lia | exact Hf].
      * change (e_out ev) with x1 in Ho. rewrite Sout in Ho. injection Ho as <-.
        destruct Srt as [[Hnone _] | [new [St0 [Srt [Hid [Hle Hm]]]]]]; [congruence|].
        rewrite St0 in Hk. injection Hk as <-. split; [exact Hle|].
        intros rec Hf. unfold find_rt in Hf. rewrite Srt in Hf. cbn [find] in Hf.
        rewrite Hid, Nat.eqb_refl in Hf. injection Hf as <-. now apply matches_covers.
    + intros e pl0 cr' m sc Hin Ho Hk Hkp. apply in_snoc in Hin as [Hin | ->]; [|discriminate].
      destruct (Irot e pl0 cr' m sc Hin Ho Hk Hkp) as [A B]. split; [lia|].
      destruct Srt as [[_ Srt] | [new [St0 [Srt [Hid [Hle Hm]]]]]]; unfold find_rt in B |- *; rewrite Srt; [exact B|].
      cbn [find]. rewrite Hid. destruct (Nat.eqb (S (next s)) m) eqn:E; [apply Nat.eqb_eq in E; lia | exact B].
    + intros e n1 Hin Ho Hdn Hle. apply in_snoc in Hin as [Hin | ->]; [|discriminate].
      destruct (Idead e n1 Hin Ho Hdn Hle) as [A B]. split; [lia|].
      destruct Srt as [[_ Srt] | [new [St0 [Srt [Hid [Hle' Hm]]]]]]; unfold find_rt in B |- *; rewrite Srt; [exact B|].
      cbn [find]. rewrite Hid. destruct (Nat.eqb (S (next s)) n1) eqn:E; [apply Nat.eqb_eq in E; lia | exact B].
  - (* refresh *)
    destruct (issue_refresh_shape s t c sc)
      as [Sreq [Scodes [Sncode [Snext [t0 [new [Sout [St0 [Hm [Srt [Nsc [Nsub [Nauth [Ncl [Naud Hpol]]]]]]]]]]]]]]].
    destruct (find_rt_in _ _ _ Hrt) as [Htin Htid].
    destruct (Irts t Htin) as [Htle _].
    destruct (narrowed_subset _ _ _ Hn) as [Hscsub _].
    fold ev. set (s1 := fst (issue_refresh cf s t c sc)) in *. set (x1 := snd (issue_refresh cf s t c sc)) in *.
    assert (Hidle : r_id new <= next s1) by (destruct Hpol as [[_ [-> ->]] | [_ [-> ->]]]; lia).
    assert (Hfnew : find_rt s1 (r_id new) = Some new).
    { unfold find_rt. rewrite Srt. cbn [find]. now rewrite Nat.eqb_refl. }
    assert (Hfo : forall m, m <= next s -> m <> n -> find_rt s1 m = find_rt s m).
    { intros m Hle Hne. unfold find_rt. rewrite Srt. cbn [find].
      destruct (Nat.eqb (r_id new) m) eqn:E.
      { apply Nat.eqb_eq in E. destruct Hpol as [[_ [Hi _]] | [_ [Hi _]]]; rewrite Hi in E; lia. }
      apply find_filter_keep. intros y Ey. apply Nat.eqb_eq in Ey. rewrite Ey, Htid.
      apply negb_true_iff, Nat.eqb_neq. exact Hne. }
    assert (Hfn : f_keep cf = false -> find_rt s1 n = None).
    { intro Hkp. destruct Hpol as [[_ [Hi _]] | [Hk' _]]; [|congruence].
      unfold find_rt. rewrite Srt. cbn [find]. rewrite Hi.
      destruct (Nat.eqb (S (next s)) n) eqn:E; [apply Nat.eqb_eq in E; lia|].
      apply find_filter_drop. intros y Ey. apply Nat.eqb_eq in Ey. rewrite Ey, Htid, Nat.eqb_refl. reflexivity. }
    assert (Hfk : f_keep cf = true -> find_rt s1 n = Some new).
    { intro Hkp. destruct Hpol as [[Hk' _] | [_ [Hi _]]]; [congruence|]. rewrite <- Htid, <- Hi. exact Hfnew. }
    constructor.
    + intros q' Hin. rewrite Sreq in Hin. destruct (Ireq q' Hin) as [A [[e [B1 B2]] C]].
      split; [lia|]. split; [old|]. intro Hd0. destruct (C Hd0) as [e' [C1 C2]]. old.
    + intros c' m Hin. rewrite Scodes in Hin. destruct (Icodes c' m Hin) as [A [[q0 [B1 B2]] [e [C1 C2]]]].
      split; [lia|]. split; [|old]. exists q0. unfold find_req in *. rewrite Sreq. auto.
    + intros c' m m' Hin Hin'. rewrite Scodes in Hin, Hin'. eapply Ifun; eauto.
    + intros e pl0 f0 cr' c' uri' ver' Hin Ho Hk. rewrite Sncode, Scodes. apply in_snoc in Hin as [Hin | ->]; [eauto | discriminate].
    + intros t' Hin. rewrite Srt in Hin. destruct Hin as [<- | Hin].
      * split; [exact Hidle|]. exists ev, t0. auto.
      * apply filter_In in Hin as [Hin _]. destruct (Irts t' Hin) as [A [e [t1 [B1 B2]]]]. split; [lia | oldrt].
    + intros e t1 m Hin Ho Hk. apply in_snoc in Hin as [Hin | ->].
      * destruct (Iissued e t1 m Hin Ho Hk) as [A B]. split; [lia|].
        intros rec Hf. destruct (Nat.eq_dec m n) as [-> | Hne].
        -- destruct (f_keep cf) eqn:Hkp.
           ++ rewrite (Hfk eq_refl) in Hf. injection Hf as <-.
              destruct (B t Hrt) as [C1 [C2 [C3 [C4 C5]]]]. unfold covers.
              rewrite Nsc, Nsub, Nauth, Ncl, Naud. split; [eapply subset_trans; eauto | auto].
           ++ rewrite (Hfn eq_refl) in Hf. discriminate.
        -- apply B. rewrite <- Hfo; auto.
      * change (e_out ev) with x1 in Ho. rewrite Sout in Ho. injection Ho as <-. rewrite St0 in Hk. injection Hk as <-.
        split; [exact Hidle|]. intros rec Hf. rewrite Hfnew in Hf. injection Hf as <-. now apply matches_covers.
    + intros e pl0 cr' m sc' Hin Ho Hk Hkp. apply in_snoc in Hin as [Hin | ->].
      * destruct (Irot e pl0 cr' m sc' Hin Ho Hk Hkp) as [A B]. split; [lia|].
        destruct (Nat.eq_dec m n) as [-> | Hne]; [now apply Hfn|]. rewrite Hfo; auto.
      * cbn in Ho. injection Ho as <- <- <- <-. split; [lia | now apply Hfn].
    + intros e n1 Hin Ho Hdn Hle. apply in_snoc in Hin as [Hin | ->]; [|discriminate].
      destruct (Idead e n1 Hin Ho Hdn Hle) as [A B]. split; [lia|].
      rewrite Hfo; [exact B | exact A | congruence].
  - (* the refresh grant of a client is withdrawn: storage objects untouched *)
    constructor; unfold req_ok, codes_ok, codes_fun, used_ok, rts_ok, issued_ok, rotated_ok, dead_ok, find_req, find_rt;
      cbn [reqs codes rtoks next ncode].
    + intros q Hin. destruct (Ireq q Hin) as [A [[e [B1 B2]] C]]. split; [exact A|]. split; [old|].
      intro Hd. destruct (C Hd) as [e' [C1 C2]]. old.
    + intros c n Hin. destruct (Icodes c n Hin) as [A [B [e [C1 C2]]]]. split; [exact A | split; [exact B | old]].
    + exact Ifun.
    + intros e pl0 f0 cr c uri ver Hin Ho Hk. apply in_snoc in Hin as [Hin | ->]; [eauto | discriminate].
    + intros t Hin. destruct (Irts t Hin) as [A [e [t0 [B1 B2]]]]. split; [exact A | oldrt].
    + intros e t0 n Hin Ho Hk. apply in_snoc in Hin as [Hin | ->]; [eauto | discriminate].
    + intros e pl0 cr n sc Hin Ho Hk Hkp. apply in_snoc in Hin as [Hin | ->]; [eauto | discriminate].
    + intros e n1 Hin Ho Hdn Hle. apply in_snoc in Hin as [Hin | ->]; [|discriminate].
      destruct (Idead e n1 Hin Ho Hdn Hle) as [A B]. split; [lia | exact B].
  - (* every grant type of a client is withdrawn: storage objects untouched *)
    constructor; unfold req_ok, codes_ok, codes_fun, used_ok, rts_ok, issued_ok, rotated_ok, dead_ok, find_req, find_rt;
      cbn [reqs codes rtoks next ncode].
    + intros q Hin. destruct (Ireq q Hin) as [A [[e [B1 B2]] C]]. split; [exact A|]. split; [old|].
      intro Hd. destruct (C Hd) as [e' [C1 C2]]. old.
    + intros c n Hin. destruct (Icodes c n Hin) as [A [B [e [C1 C2]]]]. split; [exact A | split; [exact B | old]].
    + exact Ifun.
    + intros e pl0 f0 cr c uri ver Hin Ho Hk. apply in_snoc in Hin as [Hin | ->]; [eauto | discriminate].
    + intros t Hin. destruct (Irts t Hin) as [A [e [t0 [B1 B2]]]]. split; [exact A | oldrt].
    + intros e t0 n Hin Ho Hk. apply in_snoc in Hin as [Hin | ->]; [eauto | discriminate].
    + intros e pl0 cr n sc Hin Ho Hk Hkp. apply in_snoc in Hin as [Hin | ->]; [eauto | discriminate].
    + intros e n1 Hin Ho Hdn Hle. apply in_snoc in Hin as [Hin | ->]; [|discriminate].
      destruct (Idead e n1 Hin Ho Hdn Hle) as [A B]. split; [lia | exact B].
  - (* a refresh token is revoked / expires: it is gone, everything else untouched *)
    assert (Hfk : forall m, m <> nrev -> find_rt
              {| reqs := reqs s; codes := codes s; rtoks := filter (fun x => negb (Nat.eqb (r_id x) nrev)) (rtoks s);
                 next := next s; ncode := ncode s; norefresh := norefresh s |} m = find_rt s m).
    { intros m Hne. unfold find_rt. cbn [rtoks]. apply find_filter_keep. intros y Ey. apply Nat.eqb_eq in Ey.
      rewrite Ey. apply negb_true_iff, Nat.eqb_neq. exact Hne. }
    assert (Hfd : find_rt
              {| reqs := reqs s; codes := codes s; rtoks := filter (fun x => negb (Nat.eqb (r_id x) nrev)) (rtoks s);
                 next := next s; ncode := ncode s; norefresh := norefresh s |} nrev = None).
    { unfold find_rt. cbn [rtoks]. apply find_filter_drop. intros y Ey. apply Nat.eqb_eq in Ey.
      rewrite Ey, Nat.eqb_refl. reflexivity. }
    constructor.
    + intros q Hin. destruct (Ireq q Hin) as [A [[e [B1 B2]] C]]. split; [exact A|]. split; [old|].
      intro Hd. destruct (C Hd) as [e' [C1 C2]]. old.
    + intros c n Hin. destruct (Icodes c n Hin) as [A [B [e [C1 C2]]]]. split; [exact A | split; [exact B | old]].
    + exact Ifun.
    + intros e pl0 f0 cr c uri ver Hin Ho Hk. apply in_snoc in Hin as [Hin | ->]; [eauto | discriminate].
    + intros t Hin. cbn [rtoks] in Hin. apply filter_In in Hin as [Hin _].
      destruct (Irts t Hin) as [A [e [t0 [B1 B2]]]]. split; [exact A | oldrt].
    + intros e t0 n Hin Ho Hk. apply in_snoc in Hin as [Hin | ->]; [|discriminate].
      destruct (Iissued e t0 n Hin Ho Hk) as [A B]. split; [exact A|]. intros rec Hf.
      destruct (Nat.eq_dec n nrev) as [-> | Hne]; [rewrite Hfd in Hf; discriminate|].
      rewrite Hfk in Hf; auto.
    + intros e pl0 cr n sc Hin Ho Hk Hkp. apply in_snoc in Hin as [Hin | ->]; [|discriminate].
      destruct (Irot e pl0 cr n sc Hin Ho Hk Hkp) as [A B]. split; [exact A|].
      destruct (Nat.eq_dec n nrev) as [-> | Hne]; [exact Hfd | rewrite Hfk; auto].
    + intros e n1 Hin Ho Hdn Hle. apply in_snoc in Hin as [Hin | ->].
      * destruct (Idead e n1 Hin Ho Hdn Hle) as [A B]. split; [exact A|].
        destruct (Nat.eq_dec n1 nrev) as [-> | Hne]; [exact Hfd | rewrite Hfk; auto].
      * cbn in Ho. injection Ho as <-. cbn in Hle. split; [exact Hle | exact Hfd].
Qed.

Lemma reach_inv h s : reach h s -> Inv h s.
Proof.
  induction 1 as [|h s r o s' x Hr IH Hs]; [apply inv_init|].
  apply inv_step; [exact IH | eapply step_trans; eauto].
Qed.

End R.
