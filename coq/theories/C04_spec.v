(* C04: a code yields tokens once, only to its client, redirect URI and PKCE proof. *)
From OIDC Require Export C04_Hist.

Definition input := hinput.
Definition observed := hobserved.
Definition model : input -> observed := hmodel.

(* the property on what the implementation answered (C04_Ledger.c04_ok) *)
Definition spec (i : input) (o : observed) : bool :=
  match o with
  | Obs xs => check (c04_ok (table_hash (i_hash i)) (i_cfg i)) ledger0 (i_ops i) xs
  end.

Definition obs_eqb := hobs_eqb.
Definition path := hpath.

Definition case_mismatches := run_mismatches model obs_eqb.
Definition case_violations := run_violations spec.
Definition case_paths := run_paths model path.
