(* C05: definitions and tactics shared by the proof files. *)
From OIDC Require Import Lib C05_Model C05_spec.

(* the grant list is only consulted through [registered] *)
Global Opaque registered.

(* the one recorded gap (finding Fxx-C05-4): the Provider router's device_code handler does
   not consult the grant registration *)
Definition known_gap (i : input) : bool :=
  match i_router i, i_endpoint i, i_grant i with
  | RProvider, EToken, GDevice => negb (registered (i_reg i) GDevice)
  | _, _, _ => false
  end.

(* the same gap when the request names the second client Y and acts for it *)
Definition other_gap (i : input) : bool :=
  match i_router i, i_endpoint i, i_grant i with
  | RProvider, EToken, GDevice =>
      match names_other_client (i_pres i) with
      | Some v => negb (registered (victim_reg v) GDevice)
      | None => false
      end
  | _, _, _ => false
  end.

(* ---------------- round 11: the transport of the secret.
   The property asks for "the correct secret via Basic or - if enabled - POST".  As coded
   Config.AuthMethodPost only stops clients REGISTERED client_secret_post; a client registered
   client_secret_basic (or with a method outside the constants) that sends its exact secret as a
   form parameter while AuthMethodPost is off is served by every handler that reads form
   credentials (finding Fxx-C05-6).  [cred_valid_lax] / [token_justified_lax] / [justified_lax] are
   the justification WITHOUT the transport rule (what rounds 1-10 proved, and what the code enforces
   everywhere outside the device gap); [post_gap] is the input class of the finding. *)
Definition cred_valid_lax (c : cfg) (rg : reg) (p : pres) (public_allowed : bool) : bool :=
  r_known rg &&
  match r_meth rg with
  | MBasic | MOther => presents_right_secret p
  | MPost => presents_right_secret p && f_post c
  | MPKJWT => presents_ok_assertion p && r_key rg && f_pkjwt c
  | MNone => public_allowed && identifies p
  end.
Definition token_justified_lax (c : cfg) (rg : reg) (p : pres) (g : grant) : bool :=
  match g with
  | GBearer => r_known rg && r_key rg && negb (names_nobody p)
  | _ => capability c g && registered rg g && cred_valid_lax c rg p (grant_public g)
  end.
Definition justified_lax (i : input) : bool :=
  match i_endpoint i with
  | EToken => token_justified_lax (i_cfg i) (i_reg i) (i_pres i) (i_grant i)
  | EIntrospect => introspect_justified (i_reg i) (i_pres i)
  | ERevoke => revoke_justified (i_reg i) (i_pres i)
  | EDeviceAuthz => device_authz_justified (i_reg i) (i_pres i)
  end.

(* the token-endpoint handlers that take client_id / client_secret from the form (the others read
   the Authorization header or an assertion only: Provider router token exchange and device_code) *)
Definition reads_form_secret (r : router) (g : grant) : bool :=
  match r, g with
  | RProvider, (GCode | GRefresh | GCC) => true
  | RLegacy, (GCode | GRefresh | GCC | GTE | GDevice) => true
  | _, _ => false
  end.
(* a client whose secret is not bound to the form by its registration *)
Definition secret_not_post (m : amethod) : bool := match m with MBasic | MOther => true | _ => false end.
(* the exact secret travels in the form only, the provider has not enabled client_secret_post *)
Definition form_only_while_post_off (c : cfg) (p : pres) : bool :=
  negb (f_post c) && secret_in_form p && negb (secret_in_basic p).
(* finding Fxx-C05-6 *)
Definition post_gap (i : input) : bool :=
  match i_endpoint i with
  | EToken => reads_form_secret (i_router i) (i_grant i) && secret_not_post (r_meth (i_reg i))
              && form_only_while_post_off (i_cfg i) (i_pres i)
  | _ => false
  end.

Definition success (o : observed) : bool :=
  match o with ORes S2 _ _ _ _ => true | _ => false end.

(* split on whatever the goal still branches on *)
Ltac unfold_defs :=
  unfold authenticate, eff_pres, p_token, p_code, p_refresh, p_cc, p_te, p_bearer, p_device, p_introspect, p_revoke,
    p_device_authz, l_token, l_with_client, l_parse, l_verify_client, l_introspect, l_revoke, l_device_authz, nobody_reg, names_nobody,
    private_jwt, by_secret, client_id_from_request, device_client_authenticated, parse_creds, secret_check, cc_secret_check, secret_ok,
    cc_secret_ok, storage_secret_ok, assertion_opt_ok, assertion_ok, nonempty, bearer_ok, r4, r5, read_grant, visible, seen, src_dispatch_p, src_dispatch_l,
    src_with_client, src_verify_client, src_client, src_artefact, src_device_code_p,
    other_justified, justified, victim_of, by_grant_assertion,
    token_justified, cred_valid, token_justified_lax, cred_valid_lax, justified_lax, secret_as_enabled, authenticated, introspect_justified, revoke_justified, device_authz_justified,
    refusal_shape, revoke_outcome, art_ok in *.

Ltac split_goal :=
  cbn; unfold_defs;
  repeat (cbn;
    match goal with
    | |- context [andb ?b _] => is_var b; destruct b
    | |- context [andb _ ?b] => is_var b; destruct b
    | |- context [negb ?b] => is_var b; destruct b
    | |- context [if ?b then _ else _] => is_var b; destruct b
    | |- context [if ?b then _ else _] => destruct b eqn:?
    | |- context [match ?x with _ => _ end] => destruct x eqn:?
    end);
  cbn in *; intros;
  repeat match goal with
         | H : context [negb ?b] |- _ => is_var b; destruct b; cbn in *
         | H : context [andb ?b _] |- _ => is_var b; destruct b; cbn in *
         end;
  repeat match goal with
         | H : negb _ = false |- _ => apply negb_false_iff in H
         | H : negb _ = true |- _ => apply negb_true_iff in H
         end;
  repeat match goal with H : registered ?a ?b = _ |- context [registered ?a ?b] => rewrite H end;
  cbn; try reflexivity; try discriminate; try congruence.

Ltac open_input i :=
  destruct i as [r e c rg p g pl pv ar]; destruct pl as [gp cp ap]; destruct c as [fpost fpk fref ccc cte cdev cjp csub];
  destruct rg as [known meth app gs key].
