(* C05: definitions and tactics shared by the proof files. *)
From OIDC Require Import Lib C05_Model C05_spec.

(* the grant list is only consulted through [registered] *)
Global Opaque registered.

(* the one recorded gap (finding Fxx-C05-4): the Provider router's device_code handler does
   not consult the grant registration *)
Definition known_gap (i : input) : bool :=
  match i_router i, i_endpoint i, i_grant i with
  | RProvider, EToken, GDevice => negb (registered (i_reg i) GDevice)
  | _, _, _ => false
  end.

(* the same gap when the request names the second client Y and acts for it *)
Definition other_gap (i : input) : bool :=
  match i_router i, i_endpoint i, i_grant i with
  | RProvider, EToken, GDevice =>
      match names_other_client (i_pres i) with
      | Some v => negb (registered (victim_reg v) GDevice)
      | None => false
      end
  | _, _, _ => false
  end.

Definition success (o : observed) : bool :=
  match o with ORes S2 _ _ _ _ => true | _ => false end.

(* split on whatever the goal still branches on *)
Ltac unfold_defs :=
  unfold authenticate, eff_pres, p_token, p_code, p_refresh, p_cc, p_te, p_bearer, p_device, p_introspect, p_revoke,
    p_device_authz, l_token, l_with_client, l_parse, l_verify_client, l_introspect, l_revoke, l_device_authz, nobody_reg, names_nobody,
    private_jwt, by_secret, client_id_from_request, device_client_authenticated, parse_creds, secret_check, cc_secret_check, secret_ok,
    cc_secret_ok, storage_secret_ok, assertion_opt_ok, assertion_ok, nonempty, bearer_ok, r4, r5, read_grant, visible, seen, src_dispatch_p, src_dispatch_l,
    src_with_client, src_verify_client, src_client, src_artefact, src_device_code_p,
    other_justified, justified, victim_of, by_grant_assertion,
    token_justified, cred_valid, authenticated, introspect_justified, revoke_justified, device_authz_justified,
    refusal_shape in *.

Ltac split_goal :=
  cbn; unfold_defs;
  repeat (cbn;
    match goal with
    | |- context [andb ?b _] => is_var b; destruct b
    | |- context [andb _ ?b] => is_var b; destruct b
    | |- context [negb ?b] => is_var b; destruct b
    | |- context [if ?b then _ else _] => is_var b; destruct b
    | |- context [if ?b then _ else _] => destruct b eqn:?
    | |- context [match ?x with _ => _ end] => destruct x eqn:?
    end);
  cbn in *; intros;
  repeat match goal with
         | H : context [negb ?b] |- _ => is_var b; destruct b; cbn in *
         | H : context [andb ?b _] |- _ => is_var b; destruct b; cbn in *
         end;
  repeat match goal with
         | H : negb _ = false |- _ => apply negb_false_iff in H
         | H : negb _ = true |- _ => apply negb_true_iff in H
         end;
  repeat match goal with H : registered ?a ?b = _ |- context [registered ?a ?b] => rewrite H end;
  cbn; try reflexivity; try discriminate; try congruence.

Ltac open_input i :=
  destruct i as [r e c rg p g pl pv]; destruct pl as [gp cp ap]; destruct c as [fpost fpk fref ccc cte cdev cjp csub];
  destruct rg as [known meth app gs key].
