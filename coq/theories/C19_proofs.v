(* C19 proofs. Everything is by case analysis on the configuration record / router / grant
   class and by induction on strings and lists; nothing is enumerated by computation. *)
From OIDC Require Import Lib C19_Discovery C19_spec.
From OIDC Require Import C19_Conf_proofs.

(* ------------------------------------------------------------------ strings *)

Lemma is_empty_true s : is_empty s = true <-> s = EmptyString.
Proof. destruct s; cbn; split; intro H; try reflexivity; discriminate. Qed.

Lemma is_empty_false s : is_empty s = false <-> s <> EmptyString.
Proof.
  destruct s; cbn; split; intro H.
  - discriminate.
  - now contradiction H.
  - discriminate.
  - reflexivity.
Qed.

Lemma cut_none c s : snd (cut c s) = None -> has_char c s = false /\ fst (cut c s) = s.
Proof.
  induction s as [|a s IH]; cbn.
  - auto.
  - destruct (Ascii.eqb a c); cbn.
    + discriminate.
    + intro H. destruct (IH H) as [H1 H2]. now rewrite H1, H2.
Qed.

Lemma cut_some c s q : snd (cut c s) = Some q -> has_char c s = true.
Proof.
  induction s as [|a s IH]; cbn.
  - discriminate.
  - destruct (Ascii.eqb a c); cbn; auto.
Qed.

Lemma has_char_false_cut c s : has_char c s = false -> snd (cut c s) = None.
Proof.
  induction s as [|a s IH]; cbn.
  - reflexivity.
  - destruct (Ascii.eqb a c); cbn; [discriminate | exact IH].
Qed.

Lemma cut_some_empty c s : snd (cut c s) = Some EmptyString -> ends_with_char c s = true.
Proof.
  induction s as [|a s IH].
  - cbn. discriminate.
  - cbn [cut]. destruct (Ascii.eqb a c) eqn:E; cbn [snd fst].
    + intro H. injection H as Hs. subst s. cbn. exact E.
    + intro H. specialize (IH H). destruct s as [|b s'].
      * cbn in H. discriminate.
      * exact IH.
Qed.

Lemma ends_with_has_char c s : ends_with_char c s = true -> has_char c s = true.
Proof.
  induction s as [|a s IH].
  - cbn. discriminate.
  - destruct s as [|b s'].
    + cbn. intro H. now rewrite H.
    + intro H. change (ends_with_char c (String b s') = true) in H.
      change (Ascii.eqb a c || has_char c (String b s') = true).
      rewrite (IH H). apply orb_true_r.
Qed.

(* ------------------------------------------------------------------ issuer validation *)

(* ValidateIssuerPath + the trailing-'#' test accept exactly the strings without '?' and '#' *)
Lemma path_ok_iff raw :
  path_ok raw = true <-> has_char hash raw = false /\ has_char qmark raw = false.
Proof.
  unfold path_ok, split_url, split_query. cbn [u_force_query u_raw_query u_has_fragment].
  split.
  - intro H.
    destruct (snd (cut hash raw)) as [f|] eqn:Hf.
    + exfalso. destruct f as [|x f'].
      * apply cut_some_empty in Hf. rewrite Hf in H. cbn in H. discriminate.
      * rewrite !andb_true_iff in H. destruct H as [[[_ H] _] _]. cbn in H. discriminate.
    + destruct (cut_none _ _ Hf) as [Hh Hfst]. rewrite Hfst in H. split; [exact Hh|].
      destruct (snd (cut qmark raw)) as [q|] eqn:Hq.
      * exfalso. destruct q as [|x q'].
        -- rewrite !andb_true_iff in H. destruct H as [_ H]. cbn in H. discriminate.
        -- rewrite !andb_true_iff in H. destruct H as [[_ H] _]. cbn in H. discriminate.
      * now destruct (cut_none _ _ Hq).
  - intros [Hh Hq].
    pose proof (has_char_false_cut _ _ Hh) as Hf. rewrite Hf.
    destruct (cut_none _ _ Hf) as [_ Hfst]. rewrite Hfst.
    rewrite (has_char_false_cut _ _ Hq). cbn.
    destruct (ends_with_char hash raw) eqn:E; [|reflexivity].
    apply ends_with_has_char in E. congruence.
Qed.

Lemma validate_issuer_ok raw o insecure :
  validate_issuer raw o insecure = IssOk <->
  raw <> EmptyString /\ o_error o = false /\ o_hostname o <> EmptyString
  /\ (o_scheme o = "https" \/ (o_scheme o = "http" /\ insecure = true))
  /\ has_char qmark raw = false /\ has_char hash raw = false.
Proof.
  unfold validate_issuer. split.
  - intro H.
    destruct (is_empty raw) eqn:E1; [discriminate|].
    destruct (o_error o) eqn:E2; [discriminate|].
    destruct (is_empty (o_hostname o)) eqn:E3; [discriminate|].
    destruct (negb (String.eqb (o_scheme o) "https") && negb (insecure && String.eqb (o_scheme o) "http")) eqn:E4; [discriminate|].
    destruct (path_ok raw) eqn:E5; [|discriminate].
    apply is_empty_false in E1. apply is_empty_false in E3. apply path_ok_iff in E5.
    repeat split; try tauto.
    apply andb_false_iff in E4. destruct E4 as [E4|E4].
    + left. apply negb_false_iff in E4. now apply String.eqb_eq.
    + right. apply negb_false_iff in E4. apply andb_true_iff in E4. destruct E4 as [Ei Es].
      split; [now apply String.eqb_eq | exact Ei].
  - intros (H1 & H2 & H3 & H4 & H5 & H6).
    apply is_empty_false in H1. apply is_empty_false in H3. rewrite H1, H2, H3.
    assert (E4 : negb (String.eqb (o_scheme o) "https") && negb (insecure && String.eqb (o_scheme o) "http") = false).
    { destruct H4 as [H4|[H4 H4']].
      - rewrite H4. reflexivity.
      - rewrite H4, H4'. reflexivity. }
    rewrite E4.
    assert (E5 : path_ok raw = true) by (apply path_ok_iff; tauto).
    now rewrite E5.
Qed.

Lemma validate_issuer_path_ok raw o :
  validate_issuer_path raw o = IssOk <->
  o_error o = false /\ has_char qmark raw = false /\ has_char hash raw = false.
Proof.
  unfold validate_issuer_path. split.
  - intro H. destruct (o_error o); [discriminate|].
    destruct (path_ok raw) eqn:E; [|discriminate]. apply path_ok_iff in E. tauto.
  - intros (H1 & H2 & H3). rewrite H1.
    assert (E : path_ok raw = true) by (apply path_ok_iff; tauto). now rewrite E.
Qed.

(* ------------------------------------------------------------------ grants *)

Lemma grants_exact r c g :
  g <> GImplicit -> (In g (doc_grants_g c) <-> dispatch r c g <> AUnsupported).
Proof.
  intro Hg. destruct c as [s256 post pk refr ro cc te dev eps st ins].
  unfold doc_grants_g, dispatch, dispatch_provider, dispatch_legacy, legacy_verify_client, legacy_method, when.
  cbn [f_refresh c_cc c_te c_dev].
  destruct r; destruct g; try (contradiction Hg; reflexivity);
    destruct refr; destruct cc; destruct te; destruct dev; cbn;
    (split; [intro H; try discriminate; repeat (destruct H as [H|H]; try discriminate H); try contradiction
            | intro H; try (contradiction H; reflexivity); tauto ]).
Qed.

(* the two routers answer every grant class alike *)
Lemma dispatch_router_independent c g : dispatch RProvider c g = dispatch RLegacy c g.
Proof.
  destruct c as [s256 post pk refr ro cc te dev eps st ins].
  unfold dispatch, dispatch_provider, dispatch_legacy, legacy_verify_client, legacy_method, when.
  cbn [f_refresh c_cc c_te c_dev].
  destruct g; try reflexivity; destruct cc; reflexivity.
Qed.

Lemma grant_string_classify g s : grant_string g = Some s -> classify s = g.
Proof.
  destruct g; cbn; intro H; try discriminate; injection H as <-; reflexivity.
Qed.

Lemma classify_grant_string s g : classify s = g -> g <> GOther -> grant_string g = Some s.
Proof.
  unfold classify.
  destruct (String.eqb_spec s s_code) as [->|_]; [intros <- _; reflexivity|].
  destruct (String.eqb_spec s s_implicit) as [->|_]; [intros <- _; reflexivity|].
  destruct (String.eqb_spec s s_refresh) as [->|_]; [intros <- _; reflexivity|].
  destruct (String.eqb_spec s s_cc) as [->|_]; [intros <- _; reflexivity|].
  destruct (String.eqb_spec s s_te) as [->|_]; [intros <- _; reflexivity|].
  destruct (String.eqb_spec s s_bearer) as [->|_]; [intros <- _; reflexivity|].
  destruct (String.eqb_spec s s_device) as [->|_]; [intros <- _; reflexivity|].
  intros <- H. now contradiction H.
Qed.

Lemma string_in_iff s l : string_in s l = true <-> In s l.
Proof.
  unfold string_in. rewrite existsb_exists. split.
  - intros [x [Hx He]]. apply String.eqb_eq in He. now subst.
  - intro H. exists s. split; [exact H | apply String.eqb_refl].
Qed.

Lemma doc_grants_in c s :
  In s (doc_grants c) <-> exists g, In g (doc_grants_g c) /\ grant_string g = Some s.
Proof.
  unfold doc_grants. rewrite in_flat_map. split.
  - intros [g [Hg Hs]]. exists g. split; [exact Hg|].
    destruct (grant_string g) as [s'|]; cbn in Hs; [|contradiction].
    destruct Hs as [->|[]]. reflexivity.
  - intros [g [Hg Hs]]. exists g. split; [exact Hg|]. rewrite Hs. now left.
Qed.

(* the advertised strings are exactly the names of the advertised grant classes *)
Lemma advertised_string_iff c s :
  string_in s (doc_grants c) = true <-> (In (classify s) (doc_grants_g c) /\ classify s <> GOther).
Proof.
  rewrite string_in_iff, doc_grants_in. split.
  - intros [g [Hg Hs]]. pose proof (grant_string_classify _ _ Hs) as Hc. rewrite Hc. split; [exact Hg|].
    intro E. rewrite E in Hs. cbn in Hs. discriminate Hs.
  - intros [Hin Hne]. exists (classify s). split; [exact Hin|]. now apply classify_grant_string.
Qed.

Lemma other_not_advertised c : ~ In GOther (doc_grants_g c).
Proof.
  unfold doc_grants_g. rewrite !in_app_iff. cbn.
  destruct (f_refresh c), (c_cc c), (c_te c), (c_dev c); cbn; intuition discriminate.
Qed.

Lemma grants_exact_strings r c s :
  classify s <> GImplicit ->
  (string_in s (doc_grants c) = true <-> dispatch r c (classify s) <> AUnsupported).
Proof.
  intro Hi. rewrite advertised_string_iff, <- (grants_exact r c _ Hi). split.
  - tauto.
  - intro H. split; [exact H|]. intro E. rewrite E in H. now apply other_not_advertised in H.
Qed.

Lemma dispatch_never_panics r c g : dispatch r c g <> APanic.
Proof.
  destruct c as [s256 post pk refr ro cc te dev eps st ins].
  unfold dispatch, dispatch_provider, dispatch_legacy, legacy_verify_client, legacy_method, when.
  cbn [f_refresh c_cc c_te c_dev].
  destruct r; destruct g; destruct refr; destruct cc; destruct te; destruct dev; discriminate.
Qed.

Lemma dispatch_implicit r c : dispatch r c GImplicit = AUnsupported.
Proof. destruct r; reflexivity. Qed.

Lemma spec_grant_model r c s : spec_grant (doc_grants c) s (dispatch r c (classify s)) = true.
Proof.
  unfold spec_grant.
  destruct (dispatch r c (classify s)) eqn:E.
  - destruct (classify s) eqn:Ec; try reflexivity;
      (apply negb_true_iff; apply not_true_is_false; intro Hin;
       apply (grants_exact_strings r c s) in Hin; [rewrite Ec in Hin; now apply Hin | rewrite Ec; discriminate]).
  - destruct (classify s) eqn:Ec;
      try (apply (grants_exact_strings r c s); [rewrite Ec; discriminate | rewrite Ec, E; discriminate]).
    rewrite dispatch_implicit in E. discriminate.
  - now apply dispatch_never_panics in E.
Qed.

Lemma spec_grants_model r c gs :
  spec_grants (doc_grants c) gs (map (fun s => dispatch r c (classify s)) gs) = true.
Proof.
  induction gs as [|s gs IH]; cbn [spec_grants map].
  - reflexivity.
  - now rewrite spec_grant_model, IH.
Qed.

(* ------------------------------------------------------------------ endpoints *)

Lemma all_epnames_complete n : In n all_epnames.
Proof. destruct n; cbn; tauto. Qed.

Lemma ep_route_in_routes r c n p :
  ep_route (ep_of (c_eps c) n) = Some p -> In (Some n, p) (routes r c).
Proof.
  intro H. assert (Hin : In (Some n, p) (ep_routes c)).
  { unfold ep_routes. apply in_flat_map. exists n. split; [apply all_epnames_complete|]. rewrite H. now left. }
  destruct r; cbn [routes]; apply in_or_app; now right.
Qed.

Lemma served_route r c n p :
  ep_route (ep_of (c_eps c) n) = Some p -> served r c p = true.
Proof.
  intro H. unfold served. apply existsb_exists. exists (Some n, p). split.
  - now apply ep_route_in_routes.
  - cbn. apply String.eqb_refl.
Qed.

Lemma routes_named r c n p : In (Some n, p) (routes r c) -> ep_route (ep_of (c_eps c) n) = Some p.
Proof.
  assert (Hf : In (Some n, p) (fixed_routes c) -> False).
  { unfold fixed_routes. cbn. intuition discriminate. }
  assert (He : In (Some n, p) (ep_routes c) -> ep_route (ep_of (c_eps c) n) = Some p).
  { unfold ep_routes. rewrite in_flat_map. intros [m [_ Hm]].
    destruct (ep_route (ep_of (c_eps c) m)) as [p'|] eqn:E; cbn in Hm; [|contradiction].
    destruct Hm as [Hm|[]]. injection Hm as -> ->. exact E. }
  destruct r; cbn [routes]; rewrite in_app_iff; intros [H|H]; auto; contradiction.
Qed.

(* advertised => issuer + path (or the configured absolute URL) of a registered, served route *)
Lemma endpoints_served r c q n u :
  doc_endpoint r c q n = Some u ->
  exists p, ep_route (ep_of (c_eps c) n) = Some (relative p)
            /\ In (Some n, relative p) (routes r c)
            /\ served r c (relative p) = true
            /\ (u = absolute (doc_issuer r c q) p \/ ep_of (c_eps c) n = EpURL p u).
Proof.
  unfold doc_endpoint, doc_issuer. intro H.
  destruct (ep_of (c_eps c) n) as [|p|p u'] eqn:E; cbn in H.
  - discriminate.
  - injection H as <-. exists p. rewrite <- E.
    assert (Hr : ep_route (ep_of (c_eps c) n) = Some (relative p)) by now rewrite E.
    repeat split; [exact Hr | now apply ep_route_in_routes | now apply (served_route r c n) | now left].
  - exists p. rewrite <- E.
    assert (Hr : ep_route (ep_of (c_eps c) n) = Some (relative p)) by now rewrite E.
    repeat split; [exact Hr | now apply ep_route_in_routes | now apply (served_route r c n) |].
    destruct (is_empty u'); injection H as <-; [now left | right; exact E].
Qed.

(* nil endpoint: neither advertised nor routed *)
Lemma nil_endpoint r c q n :
  ep_of (c_eps c) n = EpNil ->
  doc_endpoint r c q n = None /\ forall p, ~ In (Some n, p) (routes r c).
Proof.
  intro E. split.
  - unfold doc_endpoint. now rewrite E.
  - intros p H. apply routes_named in H. rewrite E in H. discriminate.
Qed.

Lemma not_advertised_is_nil r c q n : doc_endpoint r c q n = None -> ep_of (c_eps c) n = EpNil.
Proof.
  unfold doc_endpoint. destruct (ep_of (c_eps c) n) as [|p|p u]; cbn; [reflexivity | discriminate |].
  destruct (is_empty u); discriminate.
Qed.

(* ------------------------------------------------------------------ PKCE, request objects, issuer, Discover *)

Lemma pkce_advertised_methods c m : string_in m (doc_pkce c) = true -> m = "S256" /\ f_s256 c = true.
Proof.
  unfold doc_pkce. destruct (f_s256 c); cbn; [|discriminate].
  rewrite orb_false_r. intro H. apply String.eqb_eq in H. now split.
Qed.

(* for every client kind and every verifier situation (absent included): a code bound to an
   advertised method yields tokens exactly when the verifier satisfies the method *)
Lemma pkce_honoured r c k m v :
  string_in m (doc_pkce c) = true ->
  pkce_issued r c k (Some m) v = rel_matches m v && client_ok c k.
Proof.
  intro H. destruct (pkce_advertised_methods c m H) as [-> _].
  unfold pkce_issued. rewrite andb_comm. f_equal; destruct v; reflexivity.
Qed.

(* in particular no tokens without a verifier, and none for a verifier that only matches as "plain" *)
Lemma pkce_no_downgrade r c k m v :
  string_in m (doc_pkce c) = true -> (v = VAbsent \/ v = VPlain \/ v = VNone) -> pkce_issued r c k (Some m) v = false.
Proof.
  intros H Hv. rewrite (pkce_honoured r c k m v H). destruct (pkce_advertised_methods c m H) as [-> _].
  destruct Hv as [ -> | [ -> | -> ] ]; reflexivity.
Qed.

(* the endpoints also honour "plain", which is never advertised *)
Lemma pkce_plain_honoured r c k v : pkce_issued r c k (Some "plain") v = rel_matches "plain" v && client_ok c k.
Proof. unfold pkce_issued. rewrite andb_comm. f_equal; destruct v; reflexivity. Qed.

(* for every client kind and every placement of the parameters that OIDC Core 6.1 allows *)
Lemma request_object_honoured r c k p :
  ro_legal p = true ->
  (doc_reqparam c = true <-> reqobj_outcome r c k p = RoHonoured).
Proof.
  unfold doc_reqparam, reqobj_outcome. intro Hl.
  destruct p; try discriminate Hl; destruct r; destruct (f_reqobj c); cbn; split; intro H;
    try reflexivity; discriminate.
Qed.

(* not advertised and every parameter also outside the object: refused as request_not_supported *)
Lemma request_object_refused r c k :
  doc_reqparam c = false -> reqobj_outcome r c k PBoth = RoNotSupported.
Proof. unfold doc_reqparam, reqobj_outcome. intros ->. destruct r; reflexivity. Qed.

(* without advertised support no request object is honoured, wherever its parameters are *)
Lemma request_object_not_advertised r c k p :
  doc_reqparam c = false -> reqobj_outcome r c k p <> RoHonoured.
Proof.
  unfold doc_reqparam, reqobj_outcome. intros ->. destruct r; destruct p; cbn; discriminate.
Qed.

(* advertised support and a legal placement: the object is honoured *)
Lemma advertised_legal_honoured r c k p :
  doc_reqparam c && ro_legal p = true -> reqobj_outcome r c k p = RoHonoured.
Proof.
  intro H. apply andb_true_iff in H. destruct H as [Ha Hl].
  now apply (request_object_honoured r c k p Hl).
Qed.

(* PKCE parameters that travel inside the request object (or partly there): with request-object support
   advertised, a legal placement of the other parameters and the EFFECTIVE method (object supersedes query)
   advertised, tokens are issued exactly when the verifier satisfies that method against the EFFECTIVE challenge *)
Lemma request_object_pkce_honoured r c k p qm om qc oc sent m rel :
  doc_reqparam c = true -> ro_legal p = true ->
  merge qm om = Some m -> string_in m (doc_pkce c) = true -> merge qc oc = Some rel ->
  ro_pkce_issued r c k p qm om qc oc sent = rel_matches m (if sent then rel else VAbsent) && client_ok c k.
Proof.
  intros Ha Hl Hm Hin Hc. unfold ro_pkce_issued.
  rewrite (advertised_legal_honoured r c k p) by (rewrite Ha, Hl; reflexivity).
  rewrite Hc, Hm. now apply pkce_honoured.
Qed.

(* in particular: no downgrade - the challenge replayed as verifier, an unrelated or a missing verifier get nothing *)
Lemma request_object_pkce_no_downgrade r c k p qm om qc oc sent m rel :
  doc_reqparam c = true -> ro_legal p = true ->
  merge qm om = Some m -> string_in m (doc_pkce c) = true -> merge qc oc = Some rel ->
  (sent = false \/ rel = VPlain \/ rel = VNone \/ rel = VAbsent) ->
  ro_pkce_issued r c k p qm om qc oc sent = false.
Proof.
  intros Ha Hl Hm Hin Hc Hv.
  rewrite (request_object_pkce_honoured r c k p qm om qc oc sent m rel Ha Hl Hm Hin Hc).
  destruct (pkce_advertised_methods c m Hin) as [-> _].
  destruct Hv as [-> | [-> | [-> | ->]]]; try reflexivity; destruct sent; reflexivity.
Qed.

(* what the object says supersedes the query: with method and challenge in the object the query's play no part *)
Lemma request_object_supersedes r c k p qm qm' qc qc' m rel sent :
  ro_pkce_issued r c k p qm (Some m) qc (Some rel) sent = ro_pkce_issued r c k p qm' (Some m) qc' (Some rel) sent.
Proof. reflexivity. Qed.

Lemma issuer_same r r' c q : doc_issuer r c q = token_issuer r' c q.
Proof. reflexivity. Qed.

Lemma issuer_strategy c q :
  doc_issuer RProvider c q =
  match c_strategy c with
  | SStatic s => s
  | SHost p => dynamic_issuer (q_host q) p (c_insecure c)
  | SForwarded p => dynamic_issuer (match q_fwd q with Some h => h | None => q_host q end) p (c_insecure c)
  end.
Proof.
  unfold doc_issuer, issuer_of. destruct (c_strategy c); try reflexivity. destruct (q_fwd q); reflexivity.
Qed.

Lemma discover_check_iff asked d : discover_check asked d = true <-> d = asked.
Proof. unfold discover_check. apply String.eqb_eq. Qed.

(* ------------------------------------------------------------------ every flow that hands out tokens *)

(* whatever flow, router, client kind and access-token type: a JWT that is handed out names the issuer of
   the document (of either router) served for the same request *)
Lemma issuer_same_every_flow r r' c q k jwt fl id_iss at_iss t :
  flow_model r c q k jwt fl = FRIssued id_iss at_iss ->
  (id_iss = Some t \/ at_iss = Some t) -> t = doc_issuer r' c q.
Proof.
  unfold flow_model, token_issuer, doc_issuer. destruct (flow_ok r c k fl); [|discriminate].
  intro H. injection H as <- <-. intros [H|H].
  - destruct (has_id_token fl); [injection H as <-; reflexivity | discriminate].
  - destruct (has_access_token fl && jwt); [injection H as <-; reflexivity | discriminate].
Qed.

(* an available flow does hand out tokens, and the ID token / the JWT access token carry that issuer *)
Lemma flow_carries_issuer r c q k jwt fl :
  flow_ok r c k fl = true ->
  exists id_iss at_iss, flow_model r c q k jwt fl = FRIssued id_iss at_iss
    /\ (has_id_token fl = true -> id_iss = Some (doc_issuer r c q))
    /\ (has_access_token fl = true -> jwt = true -> at_iss = Some (doc_issuer r c q)).
Proof.
  intro H. unfold flow_model. rewrite H. eexists. eexists. split; [reflexivity|]. split.
  - intros ->. reflexivity.
  - intros -> ->. reflexivity.
Qed.

Lemma every_flow_has_a_token fl : has_id_token fl || has_access_token fl = true.
Proof. destruct fl; reflexivity. Qed.

(* tokens come only through grant types the document advertises, and the token endpoint handles them *)
Lemma flow_through_advertised_grant r c k fl :
  flow_ok r c k fl = true ->
  In (grant_of fl) (doc_grants_g c)
  /\ (grant_of fl <> GImplicit -> dispatch r c (grant_of fl) = AHandled).
Proof.
  unfold flow_ok. intro H. apply andb_true_iff in H. destruct H as [H _].
  apply andb_true_iff in H. destruct H as [_ He].
  assert (Hin : In (grant_of fl) (doc_grants_g c)).
  { unfold doc_grants_g. rewrite !in_app_iff.
    destruct fl; cbn [flow_enabled grant_of] in *; try rewrite He; cbn; tauto. }
  split; [exact Hin|].
  intro Hn. pose proof (proj1 (grants_exact r c (grant_of fl) Hn) Hin) as Hd.
  pose proof (dispatch_never_panics r c (grant_of fl)) as Hp.
  destruct (dispatch r c (grant_of fl)); [now contradiction Hd | reflexivity | now contradiction Hp].
Qed.

Lemma spec_flow_model r c q k jwt fl : spec_flow (issuer_of c q) (flow_model r c q k jwt fl) = true.
Proof.
  unfold flow_model, token_issuer. destruct (flow_ok r c k fl); [|reflexivity].
  cbn [spec_flow]. destruct (has_id_token fl); destruct (has_access_token fl && jwt); cbn [iss_is];
    rewrite ?String.eqb_refl; reflexivity.
Qed.

Lemma spec_flows_model r c q k jwt fls :
  forallb (spec_flow (issuer_of c q)) (map (flow_model r c q k jwt) fls) = true.
Proof.
  induction fls as [|fl fls IH]; cbn [map forallb]; [reflexivity|].
  now rewrite spec_flow_model, IH.
Qed.

(* ------------------------------------------------------------------ spec (model i) *)

Definition wf_ep (e : ep) : bool :=
  match e with EpURL _ u => negb (is_empty u) | _ => true end.

Definition not_nil (e : ep) : bool := match e with EpNil => false | _ => true end.

(* configurations the model is meant for: absolute endpoint URLs are non-empty; on the Provider
   router no endpoint is nil (the With*Endpoint options refuse nil) *)
Definition wf_config (r : router) (c : config) : bool :=
  forallb (fun n => wf_ep (ep_of (c_eps c) n)) all_epnames
  && match r with
     | RProvider => forallb (fun n => not_nil (ep_of (c_eps c) n)) all_epnames
     | RLegacy => true
     end.

(* each non-nil endpoint is probed at its own route *)
Fixpoint wf_probes (es : list ep) (probes : list string) : bool :=
  match es, probes with
  | [], [] => true
  | e :: es', p :: probes' =>
      match ep_route e with Some rt => String.eqb p rt | None => true end && wf_probes es' probes'
  | _, _ => false
  end.

Definition wf (i : input) : bool :=
  match i with
  | IDoc r c q probes => wf_config r c && wf_probes (map (ep_of (c_eps c)) all_epnames) probes
  | IIssuer api raw hostless o insecure =>
      (* the oracle agrees with how the driver built the string *)
      implb hostless (o_error o || is_empty (o_hostname o))
      && implb (starts_with_http raw) (o_error o || String.eqb (o_scheme o) "http")
  | _ => true
  end.

Lemma spec_eps_model r c iss names : forall probes,
  forallb (fun n => wf_ep (ep_of (c_eps c) n)) names = true ->
  wf_probes (map (ep_of (c_eps c)) names) probes = true ->
  spec_eps iss (map (ep_of (c_eps c)) names)
           (map (fun n => ep_absolute iss (ep_of (c_eps c) n)) names)
           (map (served r c) probes) probes = true.
Proof.
  induction names as [|n names IH]; intros [|p probes] Hw Hp; cbn in *; try discriminate; try reflexivity.
  apply andb_true_iff in Hw. destruct Hw as [Hw1 Hw2].
  apply andb_true_iff in Hp. destruct Hp as [Hp1 Hp2].
  rewrite (IH probes Hw2 Hp2), andb_true_r.
  destruct (ep_of (c_eps c) n) as [|pp|pp u] eqn:E; cbn in *.
  - reflexivity.
  - apply String.eqb_eq in Hp1. subst p.
    rewrite !String.eqb_refl. cbn. apply (served_route r c n). now rewrite E.
  - apply String.eqb_eq in Hp1. subst p.
    destruct (is_empty u); [discriminate|]. cbn.
    rewrite !String.eqb_refl. cbn. apply (served_route r c n). now rewrite E.
Qed.

Lemma spec_fetched_model r c names :
  spec_fetched (map (ep_of (c_eps c)) names)
               (map (fun n => ep_absolute (issuer_of c (mkRequest EmptyString None)) (ep_of (c_eps c) n)) names)
               (map (fun n => fetched_model r c (ep_of (c_eps c) n)) names) = true
  /\ forall iss, spec_fetched (map (ep_of (c_eps c)) names)
               (map (fun n => ep_absolute iss (ep_of (c_eps c) n)) names)
               (map (fun n => fetched_model r c (ep_of (c_eps c) n)) names) = true.
Proof.
  assert (H : forall iss, spec_fetched (map (ep_of (c_eps c)) names)
               (map (fun n => ep_absolute iss (ep_of (c_eps c) n)) names)
               (map (fun n => fetched_model r c (ep_of (c_eps c) n)) names) = true).
  { intro iss. induction names as [|n names IH]; cbn [map spec_fetched]; [reflexivity|].
    rewrite IH, andb_true_r.
    destruct (ep_of (c_eps c) n) as [|p|p u] eqn:E; cbn.
    - reflexivity.
    - rewrite (served_route r c n (relative p)); [reflexivity | now rewrite E].
    - destruct (is_empty u); reflexivity. }
  split; [apply H | exact H].
Qed.

Lemma spec_model i : wf i = true -> spec i (model i) = true.
Proof.
  destruct i as [r c q probes | r c gs | r c k ch v | r c k pl q | api raw hostless o insecure | asked d | r c k p qm om qc oc sent | r c q k jwt fls | v cf id]; cbn [wf model spec].
  - intro H. apply andb_true_iff in H. destruct H as [Hc Hp].
    unfold wf_config in Hc. apply andb_true_iff in Hc. destruct Hc as [Hc _].
    unfold doc_endpoint, doc_issuer, token_issuer.
    rewrite String.eqb_refl.
    rewrite (spec_eps_model r c (issuer_of c q) all_epnames probes Hc Hp).
    rewrite (proj2 (spec_fetched_model r c all_epnames) (issuer_of c q)). cbn.
    destruct (has_auth_and_token c); [apply String.eqb_refl | reflexivity].
  - intros _. apply spec_grants_model.
  - intros _. destruct ch as [m|]; [|reflexivity].
    destruct (string_in m (doc_pkce c)) eqn:E; [|reflexivity].
    rewrite (pkce_honoured r c k m v E). apply eqb_reflx.
  - intros _. unfold reqobj_outcome, doc_reqparam. destruct r; destruct (f_reqobj c); destruct pl; reflexivity.
  - intro H. apply andb_true_iff in H. destruct H as [Hh Hs].
    destruct (bad_issuer api raw hostless insecure) eqn:B; [|reflexivity].
    apply negb_true_iff.
    destruct api; cbn [bad_issuer] in B.
    1,2: destruct (validate_issuer raw o insecure) eqn:V; try reflexivity; exfalso;
         apply validate_issuer_ok in V; destruct V as (V1 & V2 & V3 & V4 & V5 & V6);
         apply is_empty_false in V1; apply is_empty_false in V3;
         rewrite V1, V5, V6, V2, V3 in *; cbn in B, Hh, Hs;
         rewrite !orb_false_r in B; apply orb_true_iff in B; destruct B as [B|B];
         [ rewrite B in Hh; discriminate
         | apply andb_true_iff in B; destruct B as [B1 B2]; rewrite B1 in Hs; cbn in Hs;
           apply String.eqb_eq in Hs; apply negb_true_iff in B2; subst insecure;
           destruct V4 as [V4|[_ V4]]; [rewrite V4 in Hs; discriminate | discriminate] ].
    1,2: destruct (validate_issuer_path raw o) eqn:V; try reflexivity; exfalso;
         apply validate_issuer_path_ok in V; destruct V as (_ & V5 & V6);
         rewrite V5, V6 in B; discriminate.
  - intros _. unfold discover_check. rewrite (String.eqb_sym d asked).
    destruct (String.eqb asked d); reflexivity.
  - intros _. destruct (doc_reqparam c && ro_legal p) eqn:E; [|reflexivity].
    apply andb_true_iff in E. destruct E as [Ha Hl].
    destruct (merge qc oc) as [rel|] eqn:Hc; destruct (merge qm om) as [m|] eqn:Hm;
      try (destruct (ro_pkce_issued r c k p qm om qc oc sent); reflexivity).
    destruct (string_in m (doc_pkce c)) eqn:Hin; [|destruct (ro_pkce_issued r c k p qm om qc oc sent); reflexivity].
    rewrite (request_object_pkce_honoured r c k p qm om qc oc sent m rel Ha Hl Hm Hin Hc).
    destruct (rel_matches m (if sent then rel else VAbsent) && client_ok c k); reflexivity.
  - intros _. unfold doc_issuer. rewrite String.eqb_refl, map_length, Nat.eqb_refl.
    rewrite spec_flows_model. reflexivity.
  - intros _. apply conf_spec_model.
Qed.

(* plain http needs the opt-in however the scheme is spelled (HTTP://, Http://, hTTp:// ...), for every
   issuer string whose url.Parse oracle agrees with its spelling (wf) *)
Lemma http_any_spelling_needs_opt_in api raw hostless o :
  (api = ApiValidate \/ api = ApiNewProvider) ->
  wf (IIssuer api raw hostless o false) = true -> starts_with_http raw = true ->
  validate_issuer raw o false <> IssOk.
Proof.
  intros Hapi Hwf Hh V.
  assert (Hs : spec (IIssuer api raw hostless o false) (model (IIssuer api raw hostless o false)) = true)
    by (apply spec_model; exact Hwf).
  cbn [spec model] in Hs.
  assert (B : bad_issuer api raw hostless false = true).
  { destruct Hapi as [-> | ->]; cbn [bad_issuer]; rewrite Hh; cbn; apply orb_true_r. }
  rewrite B in Hs. destruct Hapi as [-> | ->]; rewrite V in Hs; discriminate.
Qed.

Example http_any_spelling_nonvacuous :
  starts_with_http "HTTP://op.example.com" = true /\ starts_with_http "hTTp://op.example.com" = true
  /\ starts_with_http "https://op.example.com" = false /\ starts_with_http "xhttp://op" = false
  /\ validate_issuer "Http://op.example.com" (mkOracle "http" "op.example.com" false) false = IssHTTPS
  /\ validate_issuer "Http://op.example.com" (mkOracle "http" "op.example.com" false) true = IssOk.
Proof. repeat split; reflexivity. Qed.

Lemma nil_endpoint_both r c q n :
  (ep_of (c_eps c) n = EpNil -> doc_endpoint r c q n = None /\ forall p, ~ In (Some n, p) (routes r c))
  /\ (doc_endpoint r c q n = None -> ep_of (c_eps c) n = EpNil).
Proof. split; [apply nil_endpoint | apply not_advertised_is_nil]. Qed.

(* ------------------------------------------------------------------ non-vacuity *)

Definition default_eps := mkEndpoints (EpPath "authorize") (EpPath "oauth/token") (EpPath "oauth/introspect")
  (EpPath "userinfo") (EpPath "revoke") (EpPath "end_session") (EpPath "keys") (EpPath "/device_authorization").

Definition cfg_all := mkConfig true true true true true true true true default_eps (SStatic "https://op.example.com") false.
Definition cfg_none := mkConfig false false false false false false false false
  (mkEndpoints (EpPath "/custom/auth") (EpPath "custom/token") EpNil (EpURL "me" "https://edge.example.net/me") EpNil EpNil
               (EpPath "keys") EpNil)
  (SForwarded "oidc") true.

Example grants_exact_nonvacuous :
  In GRefresh (doc_grants_g cfg_all) /\ dispatch RLegacy cfg_all GRefresh = AHandled
  /\ ~ In GRefresh (doc_grants_g cfg_none) /\ dispatch RLegacy cfg_none GRefresh = AUnsupported.
Proof. cbn. repeat split; try tauto. intuition discriminate. Qed.

Example endpoints_served_nonvacuous :
  doc_endpoint RLegacy cfg_none (mkRequest "req.example.com" (Some "fwd.example.com")) NToken
  = Some "http://fwd.example.com/oidc/custom/token"
  /\ doc_endpoint RLegacy cfg_none (mkRequest "req.example.com" None) NDevice = None.
Proof. split; reflexivity. Qed.

Example pkce_honoured_nonvacuous : string_in "S256" (doc_pkce cfg_all) = true.
Proof. reflexivity. Qed.

Example issuer_validation_nonvacuous :
  validate_issuer "https://op.example.com/oidc" (mkOracle "https" "op.example.com" false) false = IssOk
  /\ validate_issuer "https://op.example.com?" (mkOracle "https" "op.example.com" false) false = IssPath
  /\ validate_issuer "https://op.example.com#" (mkOracle "https" "op.example.com" false) false = IssPath
  /\ validate_issuer "https://:8080" (mkOracle "https" "" false) false = IssMissingHost.
Proof. repeat split; reflexivity. Qed.

Example request_object_pkce_nonvacuous :
  ro_pkce_issued RProvider cfg_all CPublic PRedirectInner None (Some "S256") None (Some VS256) true = true
  /\ ro_pkce_issued RLegacy cfg_all CBasic PStateInner None (Some "S256") None (Some VPlain) true = false
  /\ ro_pkce_issued RLegacy cfg_all CBasic PBoth (Some "plain") (Some "S256") (Some VPlain) (Some VS256) true = true
  /\ ro_pkce_issued RLegacy cfg_none CBasic PBoth None (Some "S256") None (Some VS256) true = false.
Proof. repeat split; reflexivity. Qed.

Example every_flow_nonvacuous :
  forallb (flow_ok RLegacy cfg_all CBasic) all_flows = true
  /\ flow_model RProvider cfg_all (mkRequest "req.example.com" None) CPublic true FDevice
     = FRIssued (Some "https://op.example.com") (Some "https://op.example.com")
  /\ flow_model RLegacy cfg_none (mkRequest "req.example.com" (Some "fwd.example.com")) CBasic true FImplicitTok
     = FRIssued (Some "http://fwd.example.com/oidc") (Some "http://fwd.example.com/oidc")
  /\ flow_model RLegacy cfg_none (mkRequest "req.example.com" None) CBasic true FDevice = FRNone.
Proof. repeat split; reflexivity. Qed.

Example spec_model_nonvacuous :
  let i := IDoc RLegacy cfg_none (mkRequest "req.example.com" None)
                ["/custom/auth"; "/custom/token"; "/oauth/introspect"; "/me"; "/revoke"; "/end_session"; "/keys"; "/device_authorization"] in
  wf i = true /\ path i (model i) <> 0.
Proof. split; [reflexivity | cbn; discriminate]. Qed.
