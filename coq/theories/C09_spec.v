(* C09: case vocabulary, executable model runner and property predicate.
   The model follows the code WITH the repairs F01, F02, F03, F06, F12, F17. *)
From OIDC Require Export Lib C09_Json C09_Codec C09_Verifier C09_Handler C09_Client C09_Crypto C09_Header C09_Auth C09_ReqObj C09_Redirect C09_Cred C09_Server.

(* per-case oracle tables, filled by the harness with the real functions' answers
   for every string of the document *)
Record tables := { tb_time : list (string * bool); tb_lang : list (string * nat) }.

Definition time_of (t : tables) (s : string) : bool :=
  match assoc s (tb_time t) with Some b => b | None => false end.
Definition lang_of (t : tables) (s : string) : nat :=
  match assoc s (tb_lang t) with Some n => n | None => 2 end.

(* per-case oracle: does the provider accept this string as an access token *)
Definition opens_of (l : list (string * bool)) (s : string) : bool :=
  match assoc s l with Some b => b | None => false end.

Inductive dkind :=
| DAudience | DTime | DLocale | DLocales | DBool | DSDA
| DIDToken | DAccessToken | DTokenClaims | DJWTRequest | DRequestObject | DActor | DUserinfo | DIntrospection
| DDeviceAuthz | DLogoutToken | DJWTProfileAssertion | DDiscovery | DTokenResponse | DTokenExchange.

Inductive cls := KOk | KErr | KPanic.

Definition cls_of {A} (r : result A) : cls :=
  match r with Ok _ => KOk | Err => KErr | Panic => KPanic end.

Definition decode (t : tables) (d : dkind) (j : json) : cls :=
  let st sc multi := cls_of (decode_struct (time_of t) (lang_of t) true sc multi j) in
  match d with
  | DAudience => cls_of (decode_audience true j)
  | DTime => cls_of (decode_time (time_of t) j)
  | DLocale => cls_of (decode_locale (lang_of t) j)
  | DLocales => cls_of (decode_locales j)
  | DBool => cls_of (decode_bool j)
  | DSDA => cls_of (decode_sda j)
  | DIDToken => st sc_id_token true
  | DAccessToken => st sc_access_token true
  | DTokenClaims => st sc_token_claims false
  | DJWTRequest => st sc_jwt_request true
  | DRequestObject => st sc_request_object false
  | DActor => cls_of (actor_field j)
  | DUserinfo => st sc_userinfo true
  | DIntrospection => st sc_introspection true
  | DDeviceAuthz => cls_of (decode_device_authz (time_of t) (lang_of t) true j)
  | DLogoutToken => st sc_logout_token true
  | DJWTProfileAssertion => st sc_jwt_profile_assertion true
  | DDiscovery => st sc_discovery false
  | DTokenResponse => st sc_token_response false
  | DTokenExchange => st sc_token_exchange false
  end.

(* free-form fuzz of the routers: only the class of the answer is observed *)
Inductive rkind := RSingle | RPanic | RDouble | RContinued | RHang.

Inductive input :=
| IDecode (d : dkind) (member : bool) (j : json) (t : tables)
    (* json.Unmarshal(serialise j, &value of kind d); member: the value is a (non-pointer) member of an enclosing object *)
| IVerify (k : vkind) (tok : token) (t : tables)     (* verifier entry point on a token of that shape *)
| IHandler (s : shape)                               (* request of that shape to that router / handler function *)
| IExit (x : xshape)                                 (* valid authenticated request whose x_fault-th storage call fails *)
| IHint (c : hcaller) (e : entry) (h : hint)         (* signed id_token_hint with those claims at end_session / authorize *)
| ICode (x : cshape)                                 (* redemption of a live code: stored challenge x verifier sent x client kind *)
| IBearer (e : entry) (h : string) (opens : list (string * bool))
    (* GET /userinfo with the Authorization header h; opens = which strings the provider accepts as an access token *)
| IAuth (a : ashape)                                 (* otherwise valid request with live artefacts: assertion type x assertion x Basic x private_key_jwt option *)
| IReqObj (r : rshape)                               (* valid authorization request carrying a `request` object of that make-up *)
| INative (n : nshape)                               (* authorization request of a native client: registration x requested redirect_uri *)
| IRoute (e : entry) (class : nat) (req : string)    (* arbitrary route x method x header x body; class = generator family (>0);
                                                        req = digest of the request bytes (identifies the case; never inspected) *)
| IClient (h : helper) (a : answer) (expect : string) (t : tables)
| IDevice (dev tok : answer) (t : tables)             (* device authorization answer, then polling the token endpoint with its interval *)
| IOpaque (o : otoken)                               (* crypto.DecryptAES of a string of that make-up *)
| IUserCode (charset_len amount dash : Z)            (* op.NewUserCode *)
| ICred (k : kshape)                                (* otherwise valid request of a client registered per case: the BYTES of its id / secret x how they are sent *)
| IServer (u : ushape).                              (* a request to op.RegisterServer over a Server implementing the method SUBSET u_set (the rest is UnimplementedServer's) *)

Inductive observed :=
| ODecode (c : cls)
| OVerify (r : vres)
| OHandler (o : outcome)
| ORoute (k : rkind)
| OClient (c : cres)
| OHint (r : hres)
| OUserCode (c : cls)
| OServer (a : uans).

Definition model (i : input) : observed :=
  match i with
  | IDecode d _ j t => ODecode (decode t d j)
  | IVerify k tok t => OVerify (verify (time_of t) (lang_of t) true true k tok)
  | IHandler s => OHandler (handler true s)
  | IExit x => OHandler (xhandler true x)
  | ICode x => OHandler (chandler true x)
  | IHint c _ h => OHint (hint_caller true c h)
  | IBearer _ h opens => OHandler (bearer_userinfo (fun s => s) (opens_of opens) false h)
  | IAuth a => OHandler (ahandler all_return a)
  | IReqObj r => OHint (ro_handler true r)
  | INative n => OHint (native_redirect true n)
  | IRoute _ _ _ => ORoute RSingle
  | IClient h a e t => OClient (call (time_of t) (lang_of t) true h a e)
  | IDevice dev tok t => OClient (device_flow (time_of t) (lang_of t) true dev tok)
  | IOpaque o => ODecode (cls_of (decrypt_aes true o))
  | IUserCode n amount dash =>
      OUserCode (if (n <=? 0)%Z || (amount <=? 0)%Z then KErr else KOk)
  | ICred k => OHint (cred_handler true true k)
  | IServer u => OServer (web_server u)
  end.

(* ground truth of an IServer input: the pipeline of the route reaches a method that is outside the implemented set
   (every earlier method is implemented and returned without error on this request) *)
Fixpoint reached_outside (S : list smethod) (ms : list smethod) (trace : list bool) : bool :=
  match ms, trace with
  | m :: ms', ok :: tr' => negb (in_set S m) || (ok && reached_outside S ms' tr')
  | _, _ => false
  end.

(* The property, on what the implementation answered: never a panic, never two
   responses, never on into the grant logic after an error answer; and the kind of
   the answer matches the kind of the question. *)
Definition spec (i : input) (o : observed) : bool :=
  match i, o with
  | IDecode _ _ _ _, ODecode c => match c with KPanic => false | _ => true end
  | IVerify _ _ _, OVerify r => match r with VPanic => false | _ => true end
  | IHandler _, OHandler h => single h
  | IExit _, OHandler h => single h
  | ICode _, OHandler h => single h
  | IHint _ _ _, OHint r => match r with HRefused | HAccepted => true | _ => false end
  | IBearer _ _ _, OHandler h => single h
  | IAuth _, OHandler h => single h
  | IReqObj _, OHint r => match r with HRefused | HAccepted => true | _ => false end
  | INative _, OHint r => match r with HRefused | HAccepted => true | _ => false end
  | IRoute _ _ _, ORoute k => match k with RSingle => true | _ => false end
  | IClient _ a _ _, OClient c =>      (* a 200 body that is not a JSON document must come back as an error *)
      match c with
      | CPanic | CHang => false
      | CRetOk => negb (a_ok a) || well_formed (a_body a)
      | CRetErr => true
      end
  | IDevice _ _ _, OClient c => match c with CPanic | CHang => false | _ => true end
  | IOpaque _, ODecode c => match c with KPanic => false | _ => true end
  | IUserCode _ _ _, OUserCode c => match c with KPanic => false | _ => true end
  | ICred _, OHint r => match r with HRefused | HAccepted => true | _ => false end
      (* the text asks for a well-formed answer, not for acceptance: whether the RIGHT credentials are accepted is the
         model's (and C05's) business - a deviation there shows as a model / implementation mismatch *)
  | IServer u, OServer a =>         (* one well-formed answer; where an unimplemented method is reached: an error, never a token *)
      match a with
      | UAns st _ tok =>
          if reached_outside (u_set u) (calls (u_route u)) (u_trace u) then (400 <=? st) && negb tok else true
      | _ => false
      end
  | _, _ => false
  end.

Definition wf (i : input) : bool :=
  match i with
  | IHandler s => shape_wf s
  | IAuth a => ashape_wf a
  | ICred k => kshape_wf k
  | IServer u => ushape_wf u
  | _ => true
  end.

Definition cls_eqb (a b : cls) : bool :=
  match a, b with KOk, KOk | KErr, KErr | KPanic, KPanic => true | _, _ => false end.
Definition vres_eqb (a b : vres) : bool :=
  match a, b with VParseErr, VParseErr | VPast, VPast | VPanic, VPanic => true | _, _ => false end.
Definition cres_eqb (a b : cres) : bool :=
  match a, b with CRetOk, CRetOk | CRetErr, CRetErr | CPanic, CPanic | CHang, CHang => true | _, _ => false end.
Definition rkind_eqb (a b : rkind) : bool :=
  match a, b with RSingle, RSingle | RPanic, RPanic | RDouble, RDouble | RContinued, RContinued | RHang, RHang => true | _, _ => false end.
Definition errcode_eqb (a b : errcode) : bool :=
  match a, b with
  | EInvalidRequest, EInvalidRequest | EInvalidClient, EInvalidClient | EInvalidGrant, EInvalidGrant
  | EUnsupportedGrantType, EUnsupportedGrantType | EServerError, EServerError
  | EUnauthorizedClient, EUnauthorizedClient | EAccessDenied, EAccessDenied
  | EOther, EOther | ENoCode, ENoCode => true
  | _, _ => false
  end.
Definition outcome_eqb (a b : outcome) : bool :=
  match a, b with
  | OResp s1 c1, OResp s2 c2 => Nat.eqb s1 s2 && errcode_eqb c1 c2
  | OGrant, OGrant | OFault, OFault | OPanic, OPanic | ODouble, ODouble | OContinued, OContinued => true
  | _, _ => false
  end.

Definition uans_eqb (a b : uans) : bool :=
  match a, b with
  | UAns s1 c1 t1, UAns s2 c2 t2 => Nat.eqb s1 s2 && errcode_eqb c1 c2 && Bool.eqb t1 t2
  | UPanic, UPanic | UDouble, UDouble | UContinued, UContinued => true
  | _, _ => false
  end.

Definition obs_eqb (a b : observed) : bool :=
  match a, b with
  | OServer x, OServer y => uans_eqb x y
  | ODecode x, ODecode y => cls_eqb x y
  | OVerify x, OVerify y => vres_eqb x y
  | OHandler x, OHandler y => outcome_eqb x y
  | ORoute x, ORoute y => rkind_eqb x y
  | OClient x, OClient y => cres_eqb x y
  | OUserCode x, OUserCode y => cls_eqb x y
  | OHint x, OHint y => match x, y with
                        | HRefused, HRefused | HAccepted, HAccepted | HPanic, HPanic | HDouble, HDouble => true
                        | _, _ => false
                        end
  | _, _ => false
  end.

(* decision-path class; 0 = the trivial first-guard reject *)
Definition path (i : input) (o : observed) : nat :=
  match i, o with
  | IDecode _ _ j _, ODecode c =>
      match j with
      | JNull => 0
      | _ => match c with KOk => 1 | KErr => 2 | KPanic => 3 end
      end
  | IVerify _ tok _, OVerify r =>
      if negb (t_segments tok =? 3) then 0
      else match r with VParseErr => 4 | VPast => 5 | VPanic => 6 end
  | IHandler s, OHandler h =>
      match h with
      | OGrant => 7
      | OFault => 16
      | OResp st _ => match sh_ep s with ENoGrant => 0 | _ => 8 + (if st =? 400 then 0 else 1) end
      | _ => 10
      end
  | IExit x, OHandler h => match h with OFault => 17 | OGrant => 18 + (if x_fault x =? 0 then 0 else 1) | _ => 10 end
  | ICode x, OHandler h => match h with OGrant => 40 | OResp _ EInvalidGrant => 41 | _ => 42 end
  | IHint _ _ h, OHint r => match r with HRefused => 50 | HAccepted => 51 + (match h_iat h with TPast => 0 | _ => 1 end) | _ => 53 end
  | IBearer _ h _, OHandler o =>
      match o with OGrant => 60 | OResp _ _ => if count "Bearer " h =? 1 then 61 else 62 | _ => 63 end
  | IAuth a, OHandler o =>
      match o with OGrant => 64 | OResp _ _ => if sent (au_assert a) then 65 else 66 | _ => 67 end
  | IReqObj r, OHint o =>
      match o with HAccepted => 70 | HRefused => if ro_supported r && ro_parses r then 71 else 72 | _ => 73 end
  | INative n, OHint o =>
      match o with HAccepted => if n_listed n then 74 else 75 | HRefused => if n_loopback n then 76 else 77 | _ => 78 end
  | IRoute _ c _, _ => 20 + c
  | IClient _ a _ _, OClient c =>
      if negb (a_ok a) then 11
      else match c with CRetOk => 12 | CRetErr => 13 | _ => 14 end
  | IUserCode _ _ _, _ => 15
  | IDevice _ _ _, OClient c => match c with CRetOk => 43 | CRetErr => 44 | _ => 45 end
  | IOpaque o, ODecode c => match c with KOk => 46 | KErr => if ot_other o then 47 else 48 | KPanic => 49 end
  | IServer u, OServer a =>
      match calls (u_route u) with
      | [] => 0
      | _ => if reached_outside (u_set u) (calls (u_route u)) (u_trace u) then 90
             else if success a then 91 else match u_trace u with [] => 93 | _ => 92 end
      end
  | ICred k, OHint o =>
      match k_sent k, o with
      | SBasic _, HAccepted => 80
      | SPost _ _, HAccepted => 81
      | SBasic p, HRefused => match basic_decode true true p with Some _ => 82 | None => 83 end
      | SPost _ _, HRefused => 84
      | _, _ => 85
      end
  | _, _ => 0
  end.

Definition case_mismatches := run_mismatches model obs_eqb.
Definition case_violations := run_violations spec.
Definition case_paths := run_paths model path.
