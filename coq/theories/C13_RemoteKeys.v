(* C13: rp.remoteKeySet (pkg/client/rp/jwks.go) as a small-step concurrent machine.
   Model only; proofs are in C13_proofs.v.

   Go                                         Gallina
   oidc.FindMatchingKey / algToKeyType        find_matching_key / alg_fits
   remoteKeySet.verifySignatureCached         cached_try      (after keysFromCache)
   remoteKeySet.exactMatch                    exact_match
   verifySignatureRemote (after the wait)     remote_result
   keysFromCache (mutex section)              Run t  at PCached
   keysFromRemote, mutex section              Run t  at PLocked
   keysFromRemote, select: <-inflight.wait()  Run t  at PWaiting g
   keysFromRemote, select: <-ctx.Done()       RunCtx t at PWaiting g
   ctx cancel of caller t                     Cancel t
   fetchRemoteKeys returns; inflight.done()   FetchReturns g resp
   updateKeys, mutex tail (cache, inflight)   Commit g
   jsonWebKeySet.UnmarshalJSON + HttpRequest  parse

   The model follows the code WITH repo_patches/fix-F13: the download runs
   under a context detached from its first caller, so Cancel never touches a
   generation. *)
From OIDC Require Import Lib.

Inductive kty := KRsa | KEc | KOkp.

(* a published key: kid, key type, "use", identity of the key material *)
Record jwk := mkJwk { k_kid : string; k_kty : kty; k_use : string; k_mat : nat }.
(* a token as the key set sees it: header kid, header alg, who signed it *)
Record token := mkTok { t_kid : string; t_alg : string; t_signer : nat }.

Definition kty_eqb (a b : kty) : bool :=
  match a, b with KRsa, KRsa | KEc, KEc | KOkp, KOkp => true | _, _ => false end.

Definition jwk_eqb (a b : jwk) : bool :=
  String.eqb (k_kid a) (k_kid b) && kty_eqb (k_kty a) (k_kty b)
  && String.eqb (k_use a) (k_use b) && Nat.eqb (k_mat a) (k_mat b).

(* oidc.algToKeyType *)
Definition alg_fits (k : kty) (alg : string) : bool :=
  match k with
  | KRsa => prefix "RS" alg || prefix "PS" alg
  | KEc => prefix "ES" alg
  | KOkp => String.eqb alg "EdDSA"
  end.

Definition use_ok (k : jwk) : bool :=
  String.eqb (k_use k) "sig" || String.eqb (k_use k) "".

Inductive fmk_err := ErrNone | ErrMultiple.

(* the loop of oidc.FindMatchingKey; [valid] accumulates validKeys *)
Fixpoint fmk_go (kid alg : string) (keys valid : list jwk) : jwk + list jwk :=
  match keys with
  | [] => inr valid
  | k :: r =>
      if negb (use_ok k) then fmk_go kid alg r valid
      else if negb (alg_fits (k_kty k) alg) then fmk_go kid alg r valid
      else if String.eqb (k_kid k) kid && negb (String.eqb kid "") then inl k
      else if String.eqb (k_kid k) "" || String.eqb kid "" then fmk_go kid alg r (valid ++ [k])
      else fmk_go kid alg r valid
  end.

Definition find_matching_key (kid alg : string) (keys : list jwk) : jwk + fmk_err :=
  match fmk_go kid alg keys [] with
  | inl k => inl k
  | inr [k] => inl k
  | inr [] => inr ErrNone
  | inr _ => inr ErrMultiple
  end.

(* what the JWKS endpoint answers to one download *)
(* why a 200 body is NOT a key set document (the catalogue of "malformed JWKS download");
   the machine treats them all alike - the download failed - the case files say which it was *)
Inductive malformed :=
| BadEmpty          (* zero bytes *)
| BadBlank          (* nothing but white space (space, tab, CR, LF) *)
| BadNotJson        (* text, HTML, unquoted / single-quoted member names, a BOM, ... *)
| BadTruncated      (* a key set document cut anywhere before its end *)
| BadTrailing       (* a complete document followed by further bytes *)
| BadNull           (* the JSON document null (with or without surrounding white space) *)
| BadScalar         (* top-level string / number / true / false *)
| BadArray          (* top-level array (of the keys, or empty) *)
| BadNoKeys         (* an object without a "keys" member: {}, an error object, a lone JWK *)
| BadKeysNull       (* "keys":null *)
| BadKeysNotArray   (* "keys": an object / string / number / true *)
| BadUnreadable.    (* the body cannot be read to its end (connection dies after the header) *)
Inductive body := BadDoc (why : malformed) | Doc (entries : list (option jwk)).
  (* Doc es: the body is exactly ONE well-formed JSON document, an object whose
     "keys" member is an array; es = its elements, an entry None being a key
     the decoder skips (unknown kty / undecodable key).  Size, other members,
     duplicate kids, the Content-Type header do not matter.
     BadDoc: everything else. *)
Inductive resp := TransportErr | Http (ok200 : bool) (b : body).

Fixpoint keep (es : list (option jwk)) : list jwk :=
  match es with
  | [] => []
  | Some k :: r => k :: keep r
  | None :: r => keep r
  end.

(* HttpRequest + jsonWebKeySet.UnmarshalJSON: None = the download failed *)
Definition parse (r : resp) : option (list jwk) :=
  match r with
  | Http true (Doc es) => Some (keep es)
  | _ => None
  end.

Inductive result :=
| ROk (k : jwk)      (* payload returned; k is the key that verified *)
| RCtx               (* ctx.Err() *)
| RFetch             (* unable to fetch key *)
| RNoKey | RMultiple (* FindMatchingKey errors after the refresh *)
| RSig.              (* signature verification failed *)

Inductive pc := PCached | PLocked | PWaiting (g : nat) | PDone (r : result).

Record caller := mkCaller {
  c_tok : token; c_pc : pc; c_cancelled : bool;
  (* history variables, never read by the machine *)
  c_read : option (list jwk);   (* the cache this call read *)
  c_gen : option nat;           (* the generation (download) it joined *)
  c_joins : nat }.              (* how many generations it joined *)

Record gen := mkGen {
  g_owner : nat;                (* the caller that started it *)
  g_ans : option resp;          (* None = fetching; Some = done, result published *)
  g_committed : bool }.         (* updateKeys' mutex tail has run *)

Record world := mkWorld {
  w_skip : bool;                (* SkipRemoteCheck option *)
  w_cache : list jwk;           (* cachedKeys *)
  w_inflight : option nat;      (* r.inflight *)
  w_gens : list gen;
  w_callers : list caller;
  w_fetches : nat;              (* requests started at the endpoint *)
  w_pre : list nat }.           (* contexts cancelled before their call began *)

Inductive event :=
| Arrive (tok : token)          (* a new VerifySignature call; its tid = number of earlier calls *)
| Run (t : nat)
| RunCtx (t : nat)
| Cancel (t : nat)
| FetchReturns (g : nat) (r : resp)
| Commit (g : nat).

Fixpoint upd {A} (l : list A) (n : nat) (f : A -> A) : list A :=
  match l, n with
  | [], _ => []
  | x :: r, 0 => f x :: r
  | x :: r, S n' => x :: upd r n' f
  end.

Definition res_of (gs : list gen) (g : nat) : option (option (list jwk)) :=
  match nth_error gs g with
  | Some gn => option_map parse (g_ans gn)
  | None => None
  end.

Definition set_callers (w : world) (cs : list caller) : world :=
  mkWorld (w_skip w) (w_cache w) (w_inflight w) (w_gens w) cs (w_fetches w) (w_pre w).
Definition set_gens (w : world) (gs : list gen) : world :=
  mkWorld (w_skip w) (w_cache w) (w_inflight w) gs (w_callers w) (w_fetches w) (w_pre w).
Definition set_pc (p : pc) (c : caller) : caller :=
  mkCaller (c_tok c) p (c_cancelled c) (c_read c) (c_gen c) (c_joins c).

Section Machine.
  Variable verify : jwk -> token -> bool.   (* jws.Verify(&key) succeeded *)

  (* remoteKeySet.exactMatch *)
  Definition exact_match (skip : bool) (jwk_id jws_id : string) : bool :=
    if String.eqb jwk_id "" && String.eqb jws_id "" then skip else String.eqb jwk_id jws_id.

  (* verifySignatureCached on the cache value read; None = go to the remote set *)
  Definition cached_try (skip : bool) (keys : list jwk) (tok : token) : option result :=
    match keys with
    | [] => None
    | _ =>
        match find_matching_key (t_kid tok) (t_alg tok) keys with
        | inr _ => None
        | inl k =>
            if verify k tok then Some (ROk k)
            else if exact_match skip (k_kid k) (t_kid tok) then Some RSig
            else None
        end
    end.

  (* verifySignatureRemote once keysFromRemote returned (keys, err) *)
  Definition remote_result (res : option (list jwk)) (tok : token) : result :=
    match res with
    | None => RFetch
    | Some ks =>
        match find_matching_key (t_kid tok) (t_alg tok) ks with
        | inr ErrNone => RNoKey
        | inr ErrMultiple => RMultiple
        | inl k => if verify k tok then ROk k else RSig
        end
    end.

  Definition run_caller (w : world) (t : nat) (c : caller) : world :=
    match c_pc c with
    | PCached =>
        let ks := w_cache w in
        let p := match cached_try (w_skip w) ks (c_tok c) with Some r => PDone r | None => PLocked end in
        set_callers w (upd (w_callers w) t
          (fun c => mkCaller (c_tok c) p (c_cancelled c) (Some ks) None (c_joins c)))
    | PLocked =>
        match w_inflight w with
        | Some g =>
            set_callers w (upd (w_callers w) t
              (fun c => mkCaller (c_tok c) (PWaiting g) (c_cancelled c) (c_read c) (Some g) (S (c_joins c))))
        | None =>
            let g := List.length (w_gens w) in
            mkWorld (w_skip w) (w_cache w) (Some g) (w_gens w ++ [mkGen t None false])
              (upd (w_callers w) t
                (fun c => mkCaller (c_tok c) (PWaiting g) (c_cancelled c) (c_read c) (Some g) (S (c_joins c))))
              (S (w_fetches w)) (w_pre w)
        end
    | PWaiting g =>
        match res_of (w_gens w) g with
        | Some res => set_callers w (upd (w_callers w) t (set_pc (PDone (remote_result res (c_tok c)))))
        | None => w
        end
    | PDone _ => w
    end.

  Definition step (w : world) (e : event) : world :=
    match e with
    | Arrive tok =>
        let t := List.length (w_callers w) in
        set_callers w (w_callers w ++ [mkCaller tok PCached (existsb (Nat.eqb t) (w_pre w)) None None 0])
    | Run t =>
        match nth_error (w_callers w) t with
        | Some c => run_caller w t c
        | None => w
        end
    | RunCtx t =>
        match nth_error (w_callers w) t with
        | Some c =>
            match c_pc c with
            | PWaiting _ => if c_cancelled c then set_callers w (upd (w_callers w) t (set_pc (PDone RCtx))) else w
            | _ => w
            end
        | None => w
        end
    | Cancel t =>
        if t <? List.length (w_callers w) then
          set_callers w (upd (w_callers w) t
            (fun c => mkCaller (c_tok c) (c_pc c) true (c_read c) (c_gen c) (c_joins c)))
        else mkWorld (w_skip w) (w_cache w) (w_inflight w) (w_gens w) (w_callers w) (w_fetches w) (t :: w_pre w)
    | FetchReturns g r =>
        match nth_error (w_gens w) g with
        | Some gn =>
            match g_ans gn with
            | None => set_gens w (upd (w_gens w) g (fun gn => mkGen (g_owner gn) (Some r) (g_committed gn)))
            | Some _ => w
            end
        | None => w
        end
    | Commit g =>
        match nth_error (w_gens w) g with
        | Some gn =>
            match g_ans gn, g_committed gn with
            | Some r, false =>
                mkWorld (w_skip w)
                  (match parse r with Some ks => ks | None => w_cache w end)
                  None
                  (upd (w_gens w) g (fun gn => mkGen (g_owner gn) (g_ans gn) true))
                  (w_callers w) (w_fetches w) (w_pre w)
            | _, _ => w
            end
        | None => w
        end
    end.

  Definition exec (w : world) (evs : list event) : world := fold_left step evs w.

  Definition init (skip : bool) : world := mkWorld skip [] None [] [] 0 [].
End Machine.

(* vocabulary of the theorems *)
Definition served (gs : list gen) (ks : list jwk) : Prop :=
  exists g gn r, nth_error gs g = Some gn /\ g_ans gn = Some r /\ parse r = Some ks.

Definition pc_of (w : world) (t : nat) : option pc :=
  option_map c_pc (nth_error (w_callers w) t).

Fixpoint sumj (l : list caller) : nat :=
  match l with [] => 0 | c :: r => c_joins c + sumj r end.

Definition is_cancel_of (t : nat) (e : event) : bool :=
  match e with Cancel t' => Nat.eqb t t' | _ => false end.
Definition drop_cancels (t : nat) (evs : list event) : list event :=
  filter (fun e => negb (is_cancel_of t e)) evs.
