(* C19: case vocabulary, model runner and the property predicate.
   spec is written from the property text: it looks at what the implementation
   answered (observed) and at the ground truth the driver put into the input; it never calls model. *)
From OIDC Require Import Lib.
From OIDC Require Export C19_Discovery C19_Tokens C19_Conf.  (* the case files import this module only *)

Inductive iss_api := ApiValidate | ApiNewProvider | ApiHostPath | ApiForwardedPath.

Inductive input :=
| IDoc (r : router) (c : config) (q : request) (probes : list string)
    (* fetch the document while sending q; probes = the path asked for each of the 8 endpoints
       (its configured route; any path for a nil endpoint); run a code flow and read the ID token's iss *)
| IGrants (r : router) (c : config) (gs : list string)
    (* a complete token request per grant type string, client registered for everything *)
| IPkce (r : router) (c : config) (k : client_kind) (ch : option string) (v : vrel)
    (* code flow of a client of kind k (correct credentials); ch = code_challenge_method sent with a
       challenge (None: no challenge); v = how the token request's verifier relates to it / absent *)
| IReqObj (r : router) (c : config) (k : client_kind) (p : ro_placement) (q : request)
    (* authorization request of a client of kind k carrying a request object signed with its registered key *)
| IIssuer (api : iss_api) (raw : string) (hostless : bool) (o : url_oracle) (insecure : bool)
    (* issuer string (or path for the dynamic strategies) given to the constructor;
       hostless: the driver built it without a host; o: what url.Parse says *)
| IDiscover (asked doc_iss : string)
    (* client.Discover(asked) against a server whose document says doc_iss *)
| IRoFlow (r : router) (c : config) (k : client_kind) (p : ro_placement)
    (qm om : option string) (qc oc : option vrel) (sent : bool)
    (* full code flow (authorize -> login -> callback -> token) of a client of kind k whose authorization request
       carries a signed request object with its own state, nonce, scope and redirect_uri (the other parameters
       placed as p says); code_challenge_method in the query (qm) / in the object (om), relation of the token
       request's verifier to the code_challenge in the query (qc) / in the object (oc), verifier sent or not *)
| ITokens (r : router) (c : config) (q : request) (k : client_kind) (jwt : bool) (fls : list flow)
    (* while sending q: fetch the document, then run every flow of fls as a client of kind k
       (registered for everything, credentials sent the way it is registered) whose access tokens are
       JWTs iff jwt, and read the iss claim of every JWT that comes back *)
| IConf (v : variant) (cf : conf) (id : string).
    (* round 11: the document built by CreateDiscoveryConfig (V1) / LegacyServer.Discovery -> createDiscoveryConfigV2
       (V2 es) for a hand-written op.Configuration whose every answer is cf's, under a context whose issuer is
       k_issuer cf; and the login callback URL AuthCallbackURL builds for request id *)

Inductive observed :=
| ODoc (ok : bool) (iss : string) (adv : list (option string)) (routed : list bool)
       (fetched : list (option string * bool)) (tok_iss : option string)
    (* fetched: per endpoint, the path left of the advertised URL after removing the document's issuer
       (None: not advertised or not under the issuer) and whether the handler routes exactly that path *)
| OGrants (advertised : list string) (answers : list answer)
| OPkce (advertised : list string) (issued : bool)
| OReqObj (advertised : bool) (res : ro_result)
| OIssuer (res : iss_result) (split : option url_split)
| ODiscover (accepted : bool)
| ORoFlow (adv_pkce : list string) (adv_ro : bool) (res : option bool)
    (* res: None = no tokens; Some carried = tokens, and whether callback and tokens carry what the OBJECT said
       (state in the callback, nonce in the ID token, scope of the response, redirect target) *)
| OTokens (ok : bool) (iss : string) (results : list flow_result)
| OConf (d : ddoc)
| OPanic.

(* ------------------------------------------------------------------ model *)

Definition has_auth_and_token (c : config) : bool :=
  match e_auth (c_eps c), e_token (c_eps c) with
  | EpNil, _ | _, EpNil => false
  | _, _ => true
  end.

(* fetching the advertised URL of a path endpoint = asking for its route; absolute-URL endpoints
   point elsewhere (not under the issuer) and are not fetched *)
Definition fetched_model (r : router) (c : config) (e : ep) : option string * bool :=
  match e with
  | EpPath p => (Some (relative p), served r c (relative p))
  | _ => (None, false)
  end.

Definition model (i : input) : observed :=
  match i with
  | IDoc r c q probes =>
      ODoc true (doc_issuer r c q) (map (doc_endpoint r c q) all_epnames) (map (served r c) probes)
           (map (fun n => fetched_model r c (ep_of (c_eps c) n)) all_epnames)
           (if has_auth_and_token c then Some (token_issuer r c q) else None)
  | IGrants r c gs => OGrants (doc_grants c) (map (fun s => dispatch r c (classify s)) gs)
  | IPkce r c k ch v => OPkce (doc_pkce c) (pkce_issued r c k ch v)
  | IReqObj r c k p q => OReqObj (doc_reqparam c) (reqobj_outcome r c k p)
  | IIssuer api raw _ o insecure =>
      OIssuer (match api with
               | ApiValidate | ApiNewProvider => validate_issuer raw o insecure
               | ApiHostPath | ApiForwardedPath => validate_issuer_path raw o
               end)
              (if o_error o then None else Some (split_url raw))
  | IDiscover asked d => ODiscover (discover_check asked d)
  | IRoFlow r c k p qm om qc oc sent =>
      ORoFlow (doc_pkce c) (doc_reqparam c) (if ro_pkce_issued r c k p qm om qc oc sent then Some true else None)
  | ITokens r c q k jwt fls => OTokens true (doc_issuer r c q) (map (flow_model r c q k jwt) fls)
  | IConf v cf id => OConf (conf_doc v cf id)
  end.

(* ------------------------------------------------------------------ the property *)

(* an advertised endpoint URL is the issuer-relative address of a route the handler serves
   (for an endpoint configured with an absolute URL: that URL, and its route is served) *)
Definition spec_ep (iss : string) (e : ep) (adv : option string) (routed : bool) (probe : string) : bool :=
  match adv with
  | None => true
  | Some u =>
      match e with
      | EpNil => false
      | EpPath p => String.eqb u (absolute iss p) && String.eqb probe (relative p) && routed
      | EpURL p u' => String.eqb u u' && String.eqb probe (relative p) && routed
      end
  end.

Fixpoint spec_eps (iss : string) (es : list ep) (adv : list (option string)) (routed : list bool)
         (probes : list string) : bool :=
  match es, adv, routed, probes with
  | [], [], [], [] => true
  | e :: es', a :: adv', b :: routed', p :: probes' =>
      spec_ep iss e a b p && spec_eps iss es' adv' routed' probes'
  | _, _, _, _ => false
  end.

(* fetching exactly the advertised URL of a path endpoint reaches a route of the handler *)
Definition spec_fetch (e : ep) (adv : option string) (f : option string * bool) : bool :=
  match adv, e with
  | Some _, EpPath _ => match f with (Some _, true) => true | _ => false end
  | _, _ => true
  end.

Fixpoint spec_fetched (es : list ep) (adv : list (option string)) (fs : list (option string * bool)) : bool :=
  match es, adv, fs with
  | [], [], [] => true
  | e :: es', a :: adv', f :: fs' => spec_fetch e a f && spec_fetched es' adv' fs'
  | _, _, _ => false
  end.

(* advertised token-endpoint grant types are exactly those not answered with unsupported_grant_type;
   implicit is not a token-endpoint grant *)
Definition spec_grant (advertised : list string) (s : string) (a : answer) : bool :=
  match a with
  | APanic => false
  | AHandled => match classify s with GImplicit => false | _ => string_in s advertised end
  | AUnsupported => match classify s with GImplicit => true | _ => negb (string_in s advertised) end
  end.

Fixpoint spec_grants (advertised : list string) (gs : list string) (answers : list answer) : bool :=
  match gs, answers with
  | [], [] => true
  | s :: gs', a :: as' => spec_grant advertised s a && spec_grants advertised gs' as'
  | _, _ => false
  end.

(* RFC 3986 3.1: scheme names are case-insensitive ("HTTP://", "Http://" are http) *)
Definition lower_ascii (a : ascii) : ascii :=
  let n := nat_of_ascii a in
  if (65 <=? n) && (n <=? 90) then ascii_of_nat (n + 32) else a.

(* the string is written with the scheme http, however the scheme is spelled *)
Definition starts_with_http (s : string) : bool :=
  match s with
  | String a (String b (String c (String d (String e _)))) =>
      Ascii.eqb (lower_ascii a) "h" && Ascii.eqb (lower_ascii b) "t" && Ascii.eqb (lower_ascii c) "t"
      && Ascii.eqb (lower_ascii d) "p" && Ascii.eqb e ":"
  | _ => false
  end.

(* issuers the constructor must refuse *)
Definition bad_issuer (api : iss_api) (raw : string) (hostless insecure : bool) : bool :=
  match api with
  | ApiValidate | ApiNewProvider =>
      is_empty raw || hostless || has_char qmark raw || has_char hash raw
      || (starts_with_http raw && negb insecure)
  | ApiHostPath | ApiForwardedPath => has_char qmark raw || has_char hash raw
  end.

(* the issuer put into an issued token is the document's issuer: every JWT a flow handed out
   (ID token, JWT access token) says iss = the issuer of the document; no flow panics *)
Definition iss_is (doc_iss : string) (t : option string) : bool :=
  match t with Some s => String.eqb s doc_iss | None => true end.

Definition spec_flow (doc_iss : string) (res : flow_result) : bool :=
  match res with
  | FRPanic => false
  | FRNone => true
  | FRIssued id_iss at_iss => iss_is doc_iss id_iss && iss_is doc_iss at_iss
  end.

(* ---- round 11: the document of an arbitrary Configuration, judged against the configuration's own answers.
   Only what the property text speaks of: issuer, endpoint URLs, token-endpoint grant types, PKCE methods,
   request-object support (and the login callback's address). The client-authentication method and signing
   algorithm lists, locales and logout flags are compared through the model only. *)

(* the address the configuration gives an endpoint, made absolute against the request's issuer *)
Definition want_ep (iss : string) (e : ep) : string :=
  match e with
  | EpNil => EmptyString
  | EpPath p => absolute iss p
  | EpURL p u => if is_empty u then absolute iss p else u
  end.

Fixpoint spec_addr (iss : string) (es : list ep) (adv : list string) : bool :=
  match es, adv with
  | [], [] => true
  | e :: es', a :: adv' => String.eqb a (want_ep iss e) && spec_addr iss es' adv'
  | _, _ => false
  end.

(* the eight OIDC / OAuth endpoints exactly; check_session_iframe (the ninth) may be left out *)
Definition spec_conf_eps (iss : string) (es : list ep) (adv : list string) : bool :=
  spec_addr iss (firstn 8 es) (firstn 8 adv)
  && match skipn 8 es, skipn 8 adv with
     | [e], [a] => is_empty a || String.eqb a (want_ep iss e)
     | _, _ => false
     end.

Definition truth_eps (v : variant) (cf : conf) : eps9 := match v with V1 => k_eps cf | V2 es => es end.

(* s is listed iff the flag is on *)
Definition mem_iff (s : string) (l : list string) (flag : bool) : bool := Bool.eqb (string_in s l) flag.
Definition only (known l : list string) : bool := forallb (fun s => string_in s known) l.
Definition known_grants := [s_code; s_implicit; s_refresh; s_cc; s_te; s_bearer; s_device].

Definition spec_conf (v : variant) (cf : conf) (id : string) (d : ddoc) : bool :=
  let iss := k_issuer cf in
  String.eqb (d_issuer d) iss
  && spec_conf_eps iss (eps9_list (truth_eps v cf)) (d_endpoints d)
  (* grant types: exactly what the configuration enables *)
  && mem_iff s_refresh (d_grants d) (k_refresh cf) && mem_iff s_cc (d_grants d) (k_cc cf)
  && mem_iff s_te (d_grants d) (k_te cf) && mem_iff s_bearer (d_grants d) (k_bearer cf)
  && mem_iff s_device (d_grants d) (k_dev cf) && only known_grants (d_grants d)
  (* PKCE methods and request-object support: advertised iff the configuration enables them *)
  && mem_iff "S256" (d_pkce d) (k_s256 cf) && only ["S256"] (d_pkce d)
  && Bool.eqb (d_reqparam d) (k_reqobj cf)
  (* the login callback of a path endpoint: issuer-relative address of the callback route + the request id *)
  && match n_auth (truth_eps v cf) with
     | EpPath p => String.eqb (d_callback d) (absolute iss p ++ "/callback?id=" ++ id)%string
     | _ => true
     end.

Definition spec (i : input) (o : observed) : bool :=
  match i, o with
  | IDoc r c q probes, ODoc ok iss adv routed fetched tok =>
      ok
      && String.eqb iss (issuer_of c q)       (* the issuer the strategy derives from THIS request *)
      && spec_eps iss (map (ep_of (c_eps c)) all_epnames) adv routed probes
      && spec_fetched (map (ep_of (c_eps c)) all_epnames) adv fetched
      && match tok with Some t => String.eqb t iss | None => true end
  | IGrants r c gs, OGrants advertised answers => spec_grants advertised gs answers
  | IPkce r c k ch v, OPkce advertised issued =>
      (* an advertised method bound to the code: tokens exactly when the verifier satisfies it
         (and the client's own authentication method is enabled); whoever the client is *)
      match ch with
      | Some m => if string_in m advertised then Bool.eqb issued (rel_matches m v && client_ok c k) else true
      | None => true
      end
  | IReqObj r c k p q, OReqObj advertised res =>
      (* advertised support: an object whose parameters are placed as OIDC Core 6.1 allows is honoured *)
      match res with
      | RoPanic => false
      | RoHonoured => true
      | _ => negb (advertised && ro_legal p)
      end
  | IIssuer api raw hostless _ insecure, OIssuer res _ =>
      if bad_issuer api raw hostless insecure then negb (iss_eqb res IssOk) else true
  | IDiscover asked d, ODiscover accepted =>
      if String.eqb asked d then true else negb accepted
  | IRoFlow r c k p qm om qc oc sent, ORoFlow adv_pkce adv_ro res =>
      (* advertised request-object support and a placement OIDC Core 6.1 allows: the object is honoured all the
         way - what it says supersedes the query (merge) - so tokens that come back carry the object's values,
         and with an advertised method bound to the code (wherever challenge and method travelled) tokens are
         issued exactly when the verifier satisfies that method *)
      if adv_ro && ro_legal p then
        match res with
        | Some false => false
        | _ =>
            match merge qc oc, merge qm om with
            | Some rel, Some m =>
                if string_in m adv_pkce
                then Bool.eqb (match res with Some _ => true | None => false end)
                              (rel_matches m (if sent then rel else VAbsent) && client_ok c k)
                else true
            | _, _ => true
            end
        end
      else true
  | ITokens r c q k jwt fls, OTokens ok iss results =>
      ok
      && String.eqb iss (issuer_of c q)       (* the issuer the strategy derives from THIS request *)
      && Nat.eqb (List.length results) (List.length fls)
      && forallb (spec_flow iss) results
  | IConf v cf id, OConf d => spec_conf v cf id d
  | _, _ => false
  end.

(* ------------------------------------------------------------------ comparison, path classes *)

Definition split_eqb (a b : url_split) : bool :=
  Bool.eqb (u_force_query a) (u_force_query b) && String.eqb (u_raw_query a) (u_raw_query b)
  && Bool.eqb (u_has_fragment a) (u_has_fragment b).

Definition obs_eqb (a b : observed) : bool :=
  match a, b with
  | ODoc k1 i1 a1 r1 f1 t1, ODoc k2 i2 a2 r2 f2 t2 =>
      Bool.eqb k1 k2 && String.eqb i1 i2 && list_eqb (option_eqb String.eqb) a1 a2
      && list_eqb Bool.eqb r1 r2
      && list_eqb (fun x y => option_eqb String.eqb (fst x) (fst y) && Bool.eqb (snd x) (snd y)) f1 f2
      && option_eqb String.eqb t1 t2
  | OGrants a1 r1, OGrants a2 r2 => list_eqb String.eqb a1 a2 && list_eqb answer_eqb r1 r2
  | OPkce a1 i1, OPkce a2 i2 => list_eqb String.eqb a1 a2 && Bool.eqb i1 i2
  | OReqObj a1 r1, OReqObj a2 r2 => Bool.eqb a1 a2 && ro_eqb r1 r2
  | OIssuer r1 s1, OIssuer r2 s2 => iss_eqb r1 r2 && option_eqb split_eqb s1 s2
  | ODiscover a1, ODiscover a2 => Bool.eqb a1 a2
  | ORoFlow a1 b1 r1, ORoFlow a2 b2 r2 => list_eqb String.eqb a1 a2 && Bool.eqb b1 b2 && option_eqb Bool.eqb r1 r2
  | OTokens k1 i1 r1, OTokens k2 i2 r2 => Bool.eqb k1 k2 && String.eqb i1 i2 && list_eqb flow_result_eqb r1 r2
  | OConf d1, OConf d2 => ddoc_eqb d1 d2
  | OPanic, OPanic => true
  | _, _ => false
  end.

Definition strategy_class (c : config) : nat :=
  match c_strategy c with SStatic _ => 0 | SHost _ => 1 | SForwarded _ => 2 end.

Definition count_handled (l : list answer) : nat :=
  List.length (filter (fun a => answer_eqb a AHandled) l).

Definition count_issued (l : list flow_result) : nat :=
  List.length (filter (fun x => match x with FRIssued _ _ => true | _ => false end) l).

(* decision-path class of the model run; 0 = the first-guard reject *)
Definition path (i : input) (o : observed) : nat :=
  match i, o with
  | IDoc r c q _, ODoc _ _ adv _ _ tok =>
      10 + strategy_class c + 3 * (if forallb (fun a => match a with Some _ => true | None => false end) adv then 0 else 1)
      + 6 * (match tok with Some _ => 0 | None => 1 end)
  | IGrants r c gs, OGrants _ answers => 30 + count_handled answers
  | IPkce r c k ch v, OPkce adv issued =>
      40 + (if issued then 1 else 0)
      + 2 * (match ch with Some m => match method_of m with MS256 => 1 | MOther => 2 end | None => 0 end)
      + 6 * (match v with VAbsent => 1 | _ => 0 end)
  | IReqObj r c k p q, OReqObj _ res =>
      50 + (match res with RoHonoured => 0 | RoNotSupported => 1 | _ => 2 end)
      + 3 * (match p with PBoth => 0 | PRedirectInner => 1 | PStateInner => 2 | PScopeInner => 3 | PResponseTypeInner => 4 end)
  | IIssuer api _ _ _ _, OIssuer res _ =>
      match res with
      | IssNoIssuer => 0
      | IssURL => 61 | IssMissingHost => 62 | IssHTTPS => 63 | IssPath => 64 | IssOk => 65
      end
  | IDiscover _ _, ODiscover a => 70 + (if a then 1 else 0)
  | IRoFlow r c k p qm om qc oc sent, ORoFlow _ adv_ro res =>
      (* object refused = trivial; else: issued or not, who carried the method, who carried the challenge *)
      if adv_ro then
        140 + (match res with Some _ => 1 | None => 0 end)
        + 2 * (match qm, om with None, None => 0 | Some _, None => 1 | None, Some _ => 2 | Some _, Some _ => 3 end)
        + 8 * (match qc, oc with None, None => 0 | Some _, None => 1 | None, Some _ => 2 | Some _, Some _ => 3 end)
        + 32 * (if ro_legal p then 0 else 1)
      else 0
  | ITokens r c q k jwt fls, OTokens _ _ results =>
      (* how many flows issued, which strategy, JWT access tokens or not; nothing issued = trivial *)
      match count_issued results with
      | 0 => 0
      | n => 80 + n + 12 * strategy_class c + 36 * (if jwt then 1 else 0)
      end
  | IConf v cf id, OConf _ =>
      (* which builder, and the flags the leak / exactness clauses turn on *)
      let b (x : bool) := if x then 1 else 0 in
      200 + (match v with V1 => 0 | V2 _ => 1 end) + 2 * b (k_pkjwt cf) + 4 * b (k_ipk cf) + 8 * b (k_rpk cf)
      + 16 * b (k_reqobj cf) + 32 * b (k_s256 cf)
  | _, _ => 0
  end.

Definition case_mismatches := run_mismatches model obs_eqb.
Definition case_violations := run_violations spec.
Definition case_paths := run_paths model path.
