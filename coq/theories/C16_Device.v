(* C16: the device grant on both routers over an abstract device storage.
   Go: pkg/op/device.go (DeviceAuthorization, createDeviceAuthorization,
   deviceAccessToken, CheckDeviceAuthorizationState, CreateDeviceTokenResponse),
   pkg/op/client.go (ClientIDFromRequest), server_http.go (withClient,
   parseClientCredentials, deviceAuthorizationHandler, deviceTokenHandler),
   server_legacy.go (VerifyClient, DeviceAuthorization, DeviceToken).
   Storage = harness/refstore (Dev.StoreDeviceAuthorization,
   Dev.GetDeviceAuthorizatonState, Store.Approve, Store.Deny). *)
From OIDC Require Import Lib Base64 C16_UserCode.

Inductive router := RProvider | RLegacy.
Inductive authm := ABasic | APost | ANone | APkjwt.

Record client := mkClient {
  c_id : string; c_secret : string;
  c_auth : authm;        (* AuthMethod *)
  c_dev : bool;          (* device_code grant registered *)
  c_refresh : bool;      (* refresh_token grant registered *)
  c_jwt : bool }.        (* AccessTokenType JWT (else an opaque bearer token) *)

(* what a request presents: Basic header, client_id / client_secret form fields ("" = absent) *)
Record creds := mkCreds { cr_basic : option (string * string); cr_id : string; cr_secret : string }.

(* how the provider derives its issuer (op.StaticIssuer / op.IssuerFromHost /
   op.IssuerFromForwardedOrHost); the issuer is origin (scheme://host) ++ path *)
Inductive issuer_mode :=
| IStatic (origin ipath : string)
| IHost (insecure : bool) (ipath : string)        (* origin from the request's Host *)
| IForwarded (insecure : bool) (ipath : string).  (* from Forwarded: host=..., else Host *)

(* DeviceAuthorizationConfig.UserFormPath / the deprecated absolute UserFormURL *)
Inductive form := FormPath (p : string) | FormURL (u : string).

Record cfg := mkCfg {
  g_issuer : issuer_mode;
  g_form : form;
  g_charset : list string; g_amount : nat; g_dash : nat;
  g_interval : Z }.      (* PollInterval, seconds *)

(* one stored device authorization (refstore.Device + op.DeviceAuthorizationState) *)
Record dev := mkDev {
  d_code : string; d_user : string; d_client : string; d_scopes : list string;
  d_expires : Z;         (* ns *)
  d_done : bool; d_denied : bool; d_subject : string }.

Definition store := list dev.   (* newest first *)

(* the error VALUE a failing GetDeviceAuthorizatonState returns, as far as
   errors.Is / errors.As see it: a chain of wrappers down to a leaf *)
Inductive errv :=
| EDeadline                                   (* context.DeadlineExceeded *)
| ECanceled                                   (* context.Canceled *)
| EPlain                                      (* any other leaf (errors.New, fmt.Errorf without %w) *)
| EWrap (e : errv)                            (* fmt.Errorf("...: %w", e) *)
| EOidc (ty : string) (parent : option errv). (* *oidc.Error of that type with that Parent (Unwrap = Parent) *)

(* errors.Is(err, context.DeadlineExceeded): somewhere down the Unwrap chain *)
Fixpoint is_deadline (e : errv) : bool :=
  match e with
  | EDeadline => true
  | EWrap e' => is_deadline e'
  | EOidc _ (Some p) => is_deadline p
  | _ => false
  end.

Inductive fault := FNone | FFail (e : errv).

Inductive op :=
| OpAuthz (r : router) (cr : creds) (scopes : list string) (now : Z) (life : Z) (rnd : list nat)
          (host : string) (fwd : option string)
    (* POST /device_authorization at time [now] (ns) on a provider configured
       with Lifetime = [life] s, crypto/rand.Reader pinned to [rnd]; the request
       arrives under Host [host] with an optional Forwarded host parameter *)
| OpApprove (uc sub : string)       (* the user approves the user code as subject *)
| OpDeny (uc : string)
| OpPoll (r : router) (cr : creds) (dc : string) (now : Z) (f : fault)
         (host : string) (fwd : option string).
    (* POST /oauth/token grant_type=device_code; f = injected failure of
       GetDeviceAuthorizatonState; like every request it arrives under its own
       Host / Forwarded host *)

(* what a token answer carries (projection of oidc.AccessTokenResponse and of
   the tokens in it) *)
Record tokens := mkTokens {
  t_sub : string;                    (* subject of the access token *)
  t_client : string;                 (* the client the storage recorded the access token for *)
  t_scopes : list string;            (* "scope" of the token response *)
  t_granted : list string;           (* the scopes the storage recorded with the access token *)
  t_id : option (string * string);   (* id_token: (sub, iss) *)
  t_at_iss : option string;          (* iss of the access token when it is a JWT *)
  t_refresh : bool }.                (* a refresh token was issued *)

Inductive resp :=
| RDevice (dc uc vuri vuri_complete : string) (expires_in interval : Z)
| RTokens (t : tokens)
| RErr (code : string)              (* status >= 400 with an OAuth error document *)
| RAck (found : bool)
| RPanic
| ROther.

(* ---- storage ----------------------------------------------------------- *)
Definition has_user (st : store) (uc : string) : bool :=
  existsb (fun d => String.eqb (d_user d) uc) st.

Definition find_dev (st : store) (dc : string) : option dev :=
  find (fun d => String.eqb (d_code d) dc) st.

(* StoreDeviceAuthorization: a user code already in use is refused *)
Definition store_dev (st : store) (d : dev) : option store :=
  if has_user st (d_user d) then None else Some (d :: st).

(* GetDeviceAuthorizatonState(client, code): only the owner finds it *)
Definition get_dev (st : store) (cid dc : string) : option dev :=
  match find_dev st dc with
  | Some d => if String.eqb (d_client d) cid then Some d else None
  | None => None
  end.

Definition approve_dev (sub : string) (d : dev) : dev :=
  mkDev (d_code d) (d_user d) (d_client d) (d_scopes d) (d_expires d) true (d_denied d) sub.
Definition deny_dev (d : dev) : dev :=
  mkDev (d_code d) (d_user d) (d_client d) (d_scopes d) (d_expires d) (d_done d) true (d_subject d).

Definition on_user (uc : string) (f : dev -> dev) (st : store) : store :=
  map (fun d => if String.eqb (d_user d) uc then f d else d) st.

(* ---- clients ----------------------------------------------------------- *)
Definition find_client (cl : list client) (id : string) : option client :=
  find (fun c => String.eqb (c_id c) id) cl.

(* an EMPTY presented secret never authenticates (ClientBasicAuth and
   op.AuthorizeClientIDSecret refuse it before asking the storage); otherwise the
   storage compares it with the registered one *)
Definition secret_matches (stored presented : string) : bool :=
  negb (String.eqb presented "") && String.eqb stored presented.

Definition secret_ok (cl : list client) (id sec : string) : bool :=
  match find_client cl id with
  | Some c => secret_matches (c_secret c) sec
  | None => false
  end.

(* ClientIDFromRequest (no assertion sent): Basic header verified if present,
   else the bare client_id, unauthenticated *)
Definition prov_client (cl : list client) (cr : creds) : (string * bool) + string :=
  match cr_basic cr with
  | Some (id, sec) => if secret_ok cl id sec then inl (id, true) else inr "unauthorized_client"
  | None => if String.eqb (cr_id cr) "" then inr "invalid_client" else inl (cr_id cr, false)
  end.

(* webServer.parseClientCredentials + LegacyServer.VerifyClient *)
Definition legacy_client (cl : list client) (cr : creds) : client + string :=
  let (id, sec) := match cr_basic cr with
                   | Some p => p
                   | None => (cr_id cr, cr_secret cr)
                   end in
  if String.eqb id "" then inr "invalid_request"
  else match find_client cl id with
       | None => inr "invalid_client"
       | Some c =>
           match c_auth c with
           | ANone => inl c
           | APkjwt => inr "invalid_client"
           | _ => if secret_matches (c_secret c) sec then inl c else inr "invalid_client"
           end
       end.

(* deviceClientAuthenticated (the code as fixed for C05): public clients need no
   credential, the others the Basic-authenticated secret; an assertion is never
   sent in this model, so a private_key_jwt client is never authenticated.
   AuthMethodPost is enabled on the provider. *)
Definition prov_authenticated (c : client) (authd : bool) : bool :=
  match c_auth c with
  | ANone => true
  | APkjwt => false
  | ABasic | APost => authd
  end.

(* ---- createDeviceAuthorization ----------------------------------------- *)
Definition ns_of_s (s : Z) : Z := (s * 1000000000)%Z.

(* the issuer of ONE request (IssuerFromContext): never a property of the provider alone *)
Definition scheme_of (insecure : bool) : string := if insecure then "http" else "https".

Definition request_origin (g : cfg) (host : string) (fwd : option string) : string :=
  match g_issuer g with
  | IStatic o _ => o
  | IHost ins _ => (scheme_of ins ++ "://" ++ host)%string
  | IForwarded ins _ =>
      (scheme_of ins ++ "://" ++ match fwd with Some h => h | None => host end)%string
  end.

Definition issuer_path (g : cfg) : string :=
  match g_issuer g with IStatic _ p | IHost _ p | IForwarded _ p => p end.

Definition request_issuer (g : cfg) (host : string) (fwd : option string) : string :=
  (request_origin g host fwd ++ issuer_path g)%string.

(* url.Parse(IssuerFromContext(ctx)) with .Path = UserFormPath: the issuer's path is
   replaced; or the configured absolute URL *)
Definition verification_uri (g : cfg) (host : string) (fwd : option string) : string :=
  match g_form g with
  | FormURL u => u
  | FormPath p => (request_origin g host fwd ++ p)%string
  end.

Definition create (g : cfg) (st : store) (cid : string) (scopes : list string)
    (now life : Z) (rnd : list nat) (host : string) (fwd : option string) : store * resp :=
  match new_device_code rnd with
  | None => (st, RPanic)
  | Some (dc, rest) =>
      match new_user_code (g_charset g) (g_amount g) (g_dash g) rest with
      | None => (st, RErr "server_error")
      | Some uc =>
          match store_dev st (mkDev dc uc cid scopes (now + ns_of_s life)%Z false false "") with
          | None => (st, RErr "server_error")
          | Some st' =>
              (st', RDevice dc uc (verification_uri g host fwd)
                      (verification_uri g host fwd ++ "?user_code=" ++ uc)%string life (g_interval g))
          end
      end
  end.

(* ---- CheckDeviceAuthorizationState: ordering exactly as coded ---------- *)
Definition check_state (st : store) (cid dc : string) (now : Z) (f : fault) : dev + string :=
  match f with
  | FFail e => if is_deadline e then inr "slow_down" else inr "access_denied"
  | FNone =>
      match get_dev st cid dc with
      | None => inr "access_denied"
      | Some d =>
          if d_denied d then inr "access_denied"
          else if d_done d then inl d
          else if (now >? d_expires d)%Z then inr "expired_token"
          else inr "authorization_pending"
      end
  end.

(* CreateDeviceTokenResponse, projected. [iss] = IssuerFromContext of the token
   request. The stored scope list is handed on as it is (order, repetitions):
   to the storage that creates the access token, into the response; the ID token
   is issued iff "openid" is among them, a refresh token iff "offline_access" is
   and the client has the refresh_token grant. *)
Definition tokens_for (iss : string) (c : client) (d : dev) : resp :=
  RTokens (mkTokens (d_subject d) (d_client d) (d_scopes d) (d_scopes d)
          (if string_in "openid" (d_scopes d) then Some (d_subject d, iss) else None)
          (if c_jwt c then Some iss else None)
          (string_in "offline_access" (d_scopes d) && c_refresh c)).

(* ---- the two routers ---------------------------------------------------- *)
Definition authz (g : cfg) (cl : list client) (st : store) (r : router) (cr : creds)
    (scopes : list string) (now life : Z) (rnd : list nat) (host : string) (fwd : option string)
    : store * resp :=
  match r with
  | RProvider =>                       (* ParseDeviceCodeRequest *)
      match prov_client cl cr with
      | inr e => (st, RErr e)
      | inl (id, _) =>
          match find_client cl id with
          | None => (st, RErr "server_error")
          | Some c =>
              if c_dev c then create g st id scopes now life rnd host fwd
              else (st, RErr "unauthorized_client")
          end
      end
  | RLegacy =>                         (* withClient; DeviceAuthorization with the grant check (F21 fixed) *)
      match legacy_client cl cr with
      | inr e => (st, RErr e)
      | inl c =>
          if c_dev c then create g st (c_id c) scopes now life rnd host fwd
          else (st, RErr "unauthorized_client")
      end
  end.

Definition poll (g : cfg) (cl : list client) (st : store) (r : router) (cr : creds) (dc : string)
    (now : Z) (f : fault) (host : string) (fwd : option string) : resp :=
  let iss := request_issuer g host fwd in
  match r with
  | RProvider =>                       (* deviceAccessToken *)
      match prov_client cl cr with
      | inr e => RErr e
      | inl (id, authd) =>
          match check_state st id dc now f with
          | inr e => RErr e
          | inl d =>
              match find_client cl id with
              | None => RErr "server_error"
              | Some c => if prov_authenticated c authd then tokens_for iss c d else RErr "invalid_client"
              end
          end
      end
  | RLegacy =>                         (* withClient + deviceTokenHandler + DeviceToken *)
      match legacy_client cl cr with
      | inr e => RErr e
      | inl c =>
          if negb (c_dev c) then RErr "unauthorized_client"
          else if String.eqb dc "" then RErr "invalid_request"
          else match check_state st (c_id c) dc now f with
               | inr e => RErr e
               | inl d => tokens_for iss c d
               end
      end
  end.

Definition step (g : cfg) (cl : list client) (st : store) (o : op) : store * resp :=
  match o with
  | OpAuthz r cr scopes now life rnd host fwd => authz g cl st r cr scopes now life rnd host fwd
  | OpApprove uc sub => (on_user uc (approve_dev sub) st, RAck (has_user st uc))
  | OpDeny uc => (on_user uc deny_dev st, RAck (has_user st uc))
  | OpPoll r cr dc now f host fwd => (st, poll g cl st r cr dc now f host fwd)
  end.

Fixpoint run (g : cfg) (cl : list client) (st : store) (ops : list op) : list resp :=
  match ops with
  | [] => []
  | o :: rest => let (st', x) := step g cl st o in x :: run g cl st' rest
  end.

Fixpoint final (g : cfg) (cl : list client) (st : store) (ops : list op) : store :=
  match ops with
  | [] => st
  | o :: rest => final g cl (fst (step g cl st o)) rest
  end.
