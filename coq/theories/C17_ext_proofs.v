(* C17 proofs, round 11: CookieHandler options / cookie attributes / the browser,
   verifier max-age options, UserinfoCallback, URLParamOpt constructors, and the central
   theorem for the extended case vocabulary. *)
From OIDC Require Import Lib C17_RP C17_Construct C17_Cookie C17_Tail C17_spec C17_proofs.
Local Open Scope Z_scope.

(* ================= CookieHandler options: the last one of each kind counts ================= *)
Definition is_unsecure (o : ch_opt) : bool := match o with WithUnsecure => true | _ => false end.

Fixpoint last_samesite (opts : list ch_opt) : option samesite :=
  match opts with
  | [] => None
  | o :: r => match last_samesite r with
              | Some m => Some m
              | None => match o with WithSameSite m => Some m | _ => None end
              end
  end.
Fixpoint last_maxage (opts : list ch_opt) : option Z :=
  match opts with
  | [] => None
  | o :: r => match last_maxage r with
              | Some m => Some m
              | None => match o with WithMaxAge m => Some m | _ => None end
              end
  end.
Fixpoint last_domain (opts : list ch_opt) : option string :=
  match opts with
  | [] => None
  | o :: r => match last_domain r with
              | Some m => Some m
              | None => match o with WithDomain m => Some m | _ => None end
              end
  end.
Fixpoint last_path (opts : list ch_opt) : option string :=
  match opts with
  | [] => None
  | o :: r => match last_path r with
              | Some m => Some m
              | None => match o with WithPath m => Some m | _ => None end
              end
  end.

Definition dflt {A} (o : option A) (d : A) : A := match o with Some x => x | None => d end.

Lemma fold_ch_opts opts : forall h0,
  fold_left apply_ch_opt opts h0
  = CH (h_secure h0 && negb (existsb is_unsecure opts))
       (dflt (last_samesite opts) (h_samesite h0))
       (dflt (last_maxage opts) (h_maxage h0))
       (dflt (last_maxage opts) (h_macage h0))
       (dflt (last_domain opts) (h_domain h0))
       (dflt (last_path opts) (h_path h0)).
Proof.
  induction opts as [|o opts IH]; intros [sec ss ma mc dm pa].
  - cbn. now rewrite andb_true_r.
  - cbn [fold_left]. rewrite IH.
    destruct o as [|m|a|d|p]; cbn;
      destruct (last_samesite opts), (last_maxage opts), (last_domain opts), (last_path opts);
      cbn; rewrite ?andb_false_r; reflexivity.
Qed.

Lemma cookie_handler_options : forall opts,
  new_cookie_handler opts
  = CH (negb (existsb is_unsecure opts))
       (dflt (last_samesite opts) SSLax)
       (dflt (last_maxage opts) 0)
       (dflt (last_maxage opts) default_macage)
       (dflt (last_domain opts) "")
       (dflt (last_path opts) "/").
Proof. intro opts. unfold new_cookie_handler. now rewrite fold_ch_opts. Qed.

(* ================= every Set-Cookie of the RP carries the handler's attributes ================= *)
Lemma decorate_fst h c : fst (decorate h c) = c.
Proof. reflexivity. Qed.

Lemma map_fst_decorate h cs : map fst (map (decorate h) cs) = cs.
Proof. induction cs as [|c cs IH]; cbn [map]; [reflexivity|]. now rewrite IH. Qed.

Lemma krespond_decorated H cfg h keeps j o :
  exists cs, kev_cookies (krespond H cfg h keeps j o) = map (decorate h) cs.
Proof.
  destruct o as [s v r|q ok r|dt|r sc]; cbn [krespond].
  - unfold start_login. eexists. reflexivity.
  - destruct (callback cfg _ q ok); try (exists []; reflexivity). eexists. reflexivity.
  - exists []. reflexivity.
  - exists []. reflexivity.
Qed.

Lemma cookie_attrs : forall H cfg h keeps j o sc,
  In sc (kev_cookies (krespond H cfg h keeps j o)) ->
  a_domain (snd sc) = strip_dot (h_domain h) /\ a_path (snd sc) = h_path h
  /\ a_httponly (snd sc) = true /\ a_secure (snd sc) = h_secure h
  /\ a_samesite (snd sc) = wire_ss (h_samesite h)
  /\ a_maxage (snd sc) = match snd (fst sc) with
                         | Some _ => wire_maxage (h_maxage h)     (* SetCookie *)
                         | None => -1                             (* DeleteCookie *)
                         end.
Proof.
  intros H cfg h keeps j o sc Hin.
  destruct (krespond_decorated H cfg h keeps j o) as [cs E]. rewrite E in Hin.
  apply in_map_iff in Hin as (c & <- & _). unfold decorate. cbn [fst snd].
  destruct (snd c); cbn; repeat split.
Qed.

(* ================= the browser: deletion addresses the cookie that was set ================= *)
Lemma same_key_refl n ho d p c sec ma ag : same_key n ho d p (BE n c ho d p sec ma ag) = true.
Proof. unfold same_key. cbn. rewrite !String.eqb_refl. now destruct ho. Qed.

Lemma bj_remove_app n ho d p a b : bj_remove n ho d p (a ++ b) = bj_remove n ho d p a ++ bj_remove n ho d p b.
Proof. unfold bj_remove. apply filter_app. Qed.

Lemma bj_remove_idem n ho d p j : bj_remove n ho d p (bj_remove n ho d p j) = bj_remove n ho d p j.
Proof.
  unfold bj_remove. induction j as [|e j IH]; [reflexivity|]. cbn [filter].
  destruct (negb (same_key n ho d p e)) eqn:E; [|exact IH]. cbn [filter]. now rewrite E, IH.
Qed.

Lemma bj_remove_gone n ho d p j e : In e (bj_remove n ho d p j) -> same_key n ho d p e = false.
Proof. unfold bj_remove. intro Hin. apply filter_In in Hin as [_ Hn]. now destruct (same_key n ho d p e). Qed.

(* the key under which the user agent files a cookie with attributes a answered to request r *)
Definition ck_hostonly (a : attrs) : bool := is_empty (a_domain a).
Definition ck_dom (a : attrs) (r : req) : string := if ck_hostonly a then r_host r else a_domain a.
Definition ck_accepted (a : attrs) (r : req) : bool := ck_hostonly a || domain_match (r_host r) (a_domain a).

Lemma bj_store_set r j n c a : ck_accepted a r = true ->
  bj_store r j (((n, Some c) : cookie_cmd), a)
  = if a_maxage a <? 0 then bj_remove n (ck_hostonly a) (ck_dom a r) (eff_path a r) j
    else bj_remove n (ck_hostonly a) (ck_dom a r) (eff_path a r) j
         ++ [BE n c (ck_hostonly a) (ck_dom a r) (eff_path a r) (a_secure a) (a_maxage a) 0].
Proof.
  unfold ck_accepted, bj_store, ck_dom, ck_hostonly. cbn [fst snd]. intro Ha.
  destruct (is_empty (a_domain a)); cbn [negb andb]; [reflexivity|].
  cbn [orb] in Ha. rewrite Ha. reflexivity.
Qed.

Lemma bj_store_del r j n a : ck_accepted a r = true -> a_maxage a = -1 ->
  bj_store r j (((n, None) : cookie_cmd), a) = bj_remove n (ck_hostonly a) (ck_dom a r) (eff_path a r) j.
Proof.
  unfold ck_accepted, bj_store, ck_dom, ck_hostonly. cbn [fst snd]. intros Ha Hm. rewrite Hm.
  destruct (is_empty (a_domain a)); cbn [negb andb]; [reflexivity|].
  cbn [orb] in Ha. rewrite Ha. reflexivity.
Qed.

Lemma set_del_same_fields h :
  a_domain (del_attrs h) = a_domain (set_attrs h) /\ a_path (del_attrs h) = a_path (set_attrs h).
Proof. split; reflexivity. Qed.

(* SetCookie answered to r1, DeleteCookie of the same handler answered to r2, the two
   requests filing under the same key (same host when no Domain is configured; same
   default path when the configured Path is not absolute): the jar is what it would be
   had the cookie never been set and an older one under that key been removed - nothing
   is left under the key. *)
Lemma delete_addresses_set : forall h j r1 r2 n c,
  ck_accepted (set_attrs h) r1 = true -> ck_accepted (set_attrs h) r2 = true ->
  ck_dom (set_attrs h) r1 = ck_dom (set_attrs h) r2 ->
  eff_path (set_attrs h) r1 = eff_path (set_attrs h) r2 ->
  let key_ho := ck_hostonly (set_attrs h) in
  let key_d := ck_dom (set_attrs h) r1 in
  let key_p := eff_path (set_attrs h) r1 in
  bj_store r2 (bj_store r1 j (decorate h (n, Some c))) (decorate h (n, None))
  = bj_remove n key_ho key_d key_p j
  /\ forall e, In e (bj_remove n key_ho key_d key_p j) -> same_key n key_ho key_d key_p e = false.
Proof.
  intros h j r1 r2 n c A1 A2 Hd Hp. cbn zeta. split; [|intros e; apply bj_remove_gone].
  unfold decorate. cbn [snd fst].
  rewrite (bj_store_set r1 j n c (set_attrs h) A1).
  assert (A2' : ck_accepted (del_attrs h) r2 = true) by exact A2.
  rewrite (bj_store_del r2 _ n (del_attrs h) A2' eq_refl).
  change (ck_hostonly (del_attrs h)) with (ck_hostonly (set_attrs h)).
  change (ck_dom (del_attrs h) r2) with (ck_dom (set_attrs h) r2).
  change (eff_path (del_attrs h) r2) with (eff_path (set_attrs h) r2).
  rewrite <- Hd, <- Hp.
  destruct (a_maxage (set_attrs h) <? 0).
  - apply bj_remove_idem.
  - rewrite bj_remove_app, bj_remove_idem. cbn [bj_remove filter].
    rewrite same_key_refl. cbn [negb]. apply app_nil_r.
Qed.

(* ================= what the handler makes of the cookies a request carries ================= *)
Lemma mac_expired_zero age : mac_expired 0 age = false.
Proof. reflexivity. Qed.

Lemma view_check m k n es v :
  check_cookie k n (view m es) = Some v -> check_cookie k n (view 0 es) = Some v.
Proof.
  unfold check_cookie. induction es as [|e es IH]; cbn [view map jar_get view1]; [discriminate|].
  destruct (String.eqb (be_name e) n); [|exact IH].
  destruct (be_val e) as [k' n' v'|l]; [|auto].
  rewrite mac_expired_zero. destruct (mac_expired m (be_age e)); [discriminate|auto].
Qed.

(* an accepted cookie is one the request carried, minted under the RP's key for that name, and not too old *)
Lemma view_check_inv m k n es v :
  check_cookie k n (view m es) = Some v ->
  exists e, In e es /\ be_name e = n /\ be_val e = Mac k n v /\ mac_expired m (be_age e) = false.
Proof.
  unfold check_cookie. induction es as [|e es IH]; cbn [view map jar_get view1]; [discriminate|].
  destruct (String.eqb (be_name e) n) eqn:En.
  - intro Hd. exists e. split; [now left|]. apply String.eqb_eq in En. split; [exact En|].
    destruct (be_val e) as [k' n' v'|l]; [|discriminate].
    destruct (mac_expired m (be_age e)); [discriminate|]. apply decode_inv in Hd. now rewrite Hd.
  - intro Hd. destruct (IH Hd) as (e' & Hi & Hr). exists e'. split; [now right|exact Hr].
Qed.

Section CkProofs.
  Variable H : string -> string.
  Variable cfg : config.

  (* the callback's answer to a jar J' is acceptable for every jar J that holds at least
     the acceptable cookies of J' *)
  Lemma cb_ok_rel J J' q ok :
    (forall n v, check_cookie (c_key cfg) n J' = Some v -> check_cookie (c_key cfg) n J = Some v) ->
    match callback cfg J' q ok with
    | EvCb h reqs _ => cb_ok H cfg false J [] q h reqs = true
    | _ => False
    end.
  Proof.
    intro Hrel. unfold callback, cb_ok.
    destruct (check_cookie (c_key cfg) state_name J') as [s|] eqn:Es.
    2:{ cbn. rewrite ?orb_true_r. reflexivity. }
    rewrite (Hrel _ _ Es).
    destruct (String.eqb s (form q "state")) eqn:E.
    2:{ cbn. rewrite ?orb_true_r. reflexivity. }
    cbn [negb orb].
    destruct (negb (is_empty (form q "error"))); [reflexivity|].
    destruct (c_pkce cfg) eqn:Ep.
    - destruct (check_cookie (c_key cfg) pkce_name J') as [v|] eqn:Ev; [|reflexivity].
      rewrite (Hrel _ _ Ev). cbn [forallb t_verifier negb orb]. rewrite String.eqb_refl.
      destruct ok; cbn; now rewrite ?E.
    - cbn [forallb negb orb]. destruct ok; cbn; now rewrite ?E.
  Qed.

  Variable h : chandler.
  Variable keeps : bool.

  Lemma kspec_run_model ops : forall j,
    kspec_run H cfg keeps j ops (map (fun t => snd t) (ktrace H cfg h keeps j ops)) = true.
  Proof.
    induction ops as [|o ops IH]; intro j; [reflexivity|].
    cbn [ktrace map snd kspec_run]. apply andb_true_iff; split; [|apply IH].
    destruct o as [s v r|q ok r|dt|r sc]; cbn [krespond kspec_step]; try reflexivity.
    - unfold start_login. rewrite map_fst_decorate. apply auth_ok_model.
    - pose proof (cb_ok_rel (view 0 (sent keeps r j)) (view (h_macage h) (sent keeps r j)) q ok
                            (fun n v => view_check (h_macage h) (c_key cfg) n (sent keeps r j) v)) as Hc.
      destruct (callback cfg (view (h_macage h) (sent keeps r j)) q ok); try contradiction. exact Hc.
  Qed.

  (* every answer of a history is the handlers' answer to what the request carried *)
  Lemma ktrace_respond ops : forall j j' o ev,
    In (j', o, ev) (ktrace H cfg h keeps j ops) -> ev = krespond H cfg h keeps j' o.
  Proof.
    induction ops as [|o0 ops IH]; intros j j' o ev; cbn [ktrace]; [intros []|].
    intros [E|Hin]; [now inversion E | eauto].
  Qed.

  (* state bound in the attribute-aware browser: the application callback or a token
     request happens only when the request CARRIED a "state" cookie minted under the RP's
     key with the query's state: stored in the jar, live for the client, matching the
     request's host / path / scheme, and not older than the handler's max age *)
  Lemma ck_state_bound ops : forall j0 j q ok r hd reqs cs,
    In (j, KCallback q ok r, KEvCb hd reqs cs) (ktrace H cfg h keeps j0 ops) ->
    (reqs <> [] \/ exists st, hd = HApp st) ->
    exists e, In e j /\ be_name e = "state"%string
      /\ be_val e = Mac (c_key cfg) "state" (form q "state")
      /\ be_live keeps e = true /\ be_matches r e = true
      /\ mac_expired (h_macage h) (be_age e) = false.
  Proof.
    intros j0 j q ok r hd reqs cs Hin Hne.
    apply ktrace_respond in Hin. cbn [krespond] in Hin.
    destruct (callback cfg (view (h_macage h) (sent keeps r j)) q ok) as [| hd' reqs' cs' | | |] eqn:Ec;
      try discriminate.
    injection Hin as -> -> _.
    destruct (state_bound cfg (view (h_macage h) (sent keeps r j)) q ok)
      as [(s & h2 & r2 & c2 & Hj & -> & _)|[_ Hrej]].
    - assert (Hc : check_cookie (c_key cfg) "state" (view (h_macage h) (sent keeps r j)) = Some (form q "state")).
      { unfold check_cookie. rewrite Hj. apply decode_mac. }
      apply view_check_inv in Hc as (e & Hi & Hn & Hv & Hx).
      unfold sent in Hi. apply filter_In in Hi as [Hi Hf]. apply andb_true_iff in Hf as [Hl Hm].
      exists e. repeat split; assumption.
    - rewrite Hrej in Ec. injection Ec as <- <- _.
      destruct Hne as [Hne|[st Hne]]; [now elim Hne|discriminate].
  Qed.
End CkProofs.

(* ================= round trip: found and verified by the same handler, or refused ================= *)
Definition login_entries (cfg : config) (h : chandler) (r1 : req) (s v : string) (age : Z) : bjar :=
  let a := set_attrs h in
  let mk n val := BE n (Mac (c_key cfg) n val) (ck_hostonly a) (ck_dom a r1) (eff_path a r1)
                     (a_secure a) (a_maxage a) age in
  mk state_name s :: (if c_pkce cfg then [mk pkce_name v] else []).

(* does the user agent store what SetCookie of h writes in answer to r1 ? *)
Definition stored (h : chandler) (r1 : req) : bool :=
  ck_accepted (set_attrs h) r1 && negb (a_maxage (set_attrs h) <? 0).
(* is such a cookie, w seconds later, carried by a request r2 ? *)
Definition carried (keeps : bool) (h : chandler) (r1 r2 : req) (w : Z) : bool :=
  let e := BE "" (Junk "") (ck_hostonly (set_attrs h)) (ck_dom (set_attrs h) r1) (eff_path (set_attrs h) r1)
              (a_secure (set_attrs h)) (a_maxage (set_attrs h)) w in
  be_live keeps e && be_matches r2 e.

Lemma store_login cfg h r1 s v :
  fold_left (bj_store r1) (map (decorate h) (login_cookies cfg s v)) []
  = if stored h r1 then login_entries cfg h r1 s v 0 else [].
Proof.
  unfold stored, login_cookies, login_entries, state_cookie, pkce_cookie.
  destruct (ck_accepted (set_attrs h) r1) eqn:Ea.
  - cbn [andb]. destruct (c_pkce cfg); unfold decorate; cbn [map fold_left snd fst];
      rewrite !(bj_store_set r1 _ _ _ _ Ea);
      destruct (a_maxage (set_attrs h) <? 0); cbn [negb bj_remove filter app]; reflexivity.
  - cbn [andb]. unfold ck_accepted, ck_hostonly in Ea.
    destruct (is_empty (a_domain (set_attrs h))) eqn:Ee; [discriminate|]. cbn [orb] in Ea.
    assert (Hrej : forall j n c, bj_store r1 j (((n, Some c) : cookie_cmd), set_attrs h) = j).
    { intros. unfold bj_store. cbn [fst snd]. rewrite Ee, Ea. reflexivity. }
    destruct (c_pkce cfg); unfold decorate; cbn [map fold_left snd fst]; rewrite !Hrej; reflexivity.
Qed.

Lemma older_login cfg h r1 s v w :
  map (be_older w) (login_entries cfg h r1 s v 0) = login_entries cfg h r1 s v w.
Proof.
  unfold login_entries. destruct (c_pkce cfg); cbn [map be_older be_name be_val be_hostonly be_dom
    be_path be_secure be_maxage be_age]; rewrite ?Z.add_0_l; reflexivity.
Qed.

Lemma sent_login keeps cfg h r1 r2 s v w :
  sent keeps r2 (login_entries cfg h r1 s v w)
  = if carried keeps h r1 r2 w then login_entries cfg h r1 s v w else [].
Proof.
  unfold sent, carried, login_entries.
  set (t := be_live keeps _ && be_matches r2 _).
  destruct (c_pkce cfg); cbn [filter];
    change (be_live keeps (BE state_name _ _ _ _ _ _ w) && be_matches r2 (BE state_name _ _ _ _ _ _ w)) with t;
    try change (be_live keeps (BE pkce_name _ _ _ _ _ _ w) && be_matches r2 (BE pkce_name _ _ _ _ _ _ w)) with t;
    destruct t; reflexivity.
Qed.

Lemma view_login m cfg h r1 s v w :
  mac_expired m w = false ->
  view m (login_entries cfg h r1 s v w) = jar_apply [] (login_cookies cfg s v).
Proof.
  intro Hx. unfold login_entries, login_cookies, view, view1.
  destruct (c_pkce cfg); cbn [map be_name be_val be_age]; rewrite Hx; reflexivity.
Qed.

Lemma view_login_expired m cfg h r1 s v w q ok :
  mac_expired m w = true ->
  callback cfg (view m (login_entries cfg h r1 s v w)) q ok = EvCb (HUnauth "") [] [].
Proof.
  intro Hx. unfold login_entries, view, view1, callback, check_cookie.
  cbn [map be_name be_val be_age jar_get]. rewrite Hx. rewrite String.eqb_refl. reflexivity.
Qed.

Lemma callback_no_cookies cfg q ok : callback cfg [] q ok = EvCb (HUnauth "") [] [].
Proof. reflexivity. Qed.

(* A login answered to r1 by an RP whose CookieHandler is h (any options), w >= 0 seconds,
   a callback request r2 from the same (initially empty) browser: if the user agent stored
   the cookies, r2 carries them and they are not older than the handler's max age, the
   callback is answered exactly as for the jar holding the login's cookies (so, by
   C17_state_bound, a matching state goes on to the exchange); in every other case the
   unauthorized handler runs and nothing is sent. *)
Lemma cookie_roundtrip : forall H cfg h keeps s v r1 w q ok r2,
  krun H cfg h keeps [] [KLogin s v r1; KWait w; KCallback q ok r2]
  = [ KEvAuth (map (decorate h) (login_cookies cfg s v)) (c_auth cfg)
              (auth_params cfg s (if c_pkce cfg then Some (H v) else None));
      KEvNone;
      if stored h r1 && carried keeps h r1 r2 w && negb (mac_expired (h_macage h) w)
      then match callback cfg (jar_apply [] (login_cookies cfg s v)) q ok with
           | EvCb hd reqs cs => KEvCb hd reqs (map (decorate h) cs)
           | _ => KEvOther
           end
      else KEvCb (HUnauth "") [] [] ].
Proof.
  intros H cfg h keeps s v r1 w q ok r2. unfold krun.
  cbn [ktrace map snd krespond kjar_after]. unfold start_login at 1 2. cbn [kev_cookies].
  f_equal. f_equal. f_equal.
  rewrite store_login. destruct (stored h r1); cbn [andb].
  2:{ cbn [map sent filter view]. rewrite callback_no_cookies. reflexivity. }
  rewrite older_login, sent_login. destruct (carried keeps h r1 r2 w); cbn [andb].
  2:{ cbn [view map]. rewrite callback_no_cookies. reflexivity. }
  destruct (mac_expired (h_macage h) w) eqn:Hx; cbn [negb].
  - rewrite (view_login_expired _ cfg h r1 s v w q ok Hx). reflexivity.
  - rewrite (view_login _ cfg h r1 s v w Hx). reflexivity.
Qed.

(* the decision in the handler's own terms: WithMaxAge(a) - a < 0 never round-trips (the
   user agent drops the cookie at once), a = 0 never expires, a > 0 lives for a seconds *)
Lemma stored_iff h r1 :
  stored h r1 = ck_accepted (set_attrs h) r1 && (0 <=? h_maxage h).
Proof.
  unfold stored, set_attrs. cbn [a_maxage]. unfold wire_maxage. f_equal.
  destruct (Z.ltb_spec (h_maxage h) 0) as [E|E]; destruct (Z.leb_spec 0 (h_maxage h)) as [E2|E2]; try lia;
    reflexivity.
Qed.

(* with the options' defaults or any WithMaxAge(a >= 0): a user agent that honours Max-Age
   never presents a cookie the same handler finds too old *)
Lemma live_implies_fresh : forall opts h w,
  h = new_cookie_handler opts -> 0 <= w -> 0 <= h_maxage h ->
  (h_maxage h = 0 \/ w < h_maxage h) -> w <= default_macage ->
  mac_expired (h_macage h) w = false.
Proof.
  intros opts h w -> Hw Hm Hl Hd. rewrite cookie_handler_options in *. cbn [h_maxage h_macage] in *.
  unfold mac_expired. destruct (last_maxage opts) as [a|]; cbn [dflt] in *.
  - destruct Hl as [->|Hl]; [reflexivity|].
    destruct (a =? 0); [reflexivity|]. cbn. apply Z.ltb_ge. lia.
  - cbn. apply Z.ltb_ge. exact Hd.
Qed.

Example cookie_roundtrip_nonvacuous :
  let h := new_cookie_handler [WithPath "/auth"; WithMaxAge 300; WithDomain "rp.example"; WithSameSite SSStrict] in
  let r1 := Req true "login.rp.example" "/auth/login" in
  let r2 := Req true "rp.example" "/auth/callback" in
  stored h r1 = true /\ carried false h r1 r2 100 = true /\ mac_expired (h_macage h) 100 = false
  /\ carried false h r1 r2 400 = false /\ carried true h r1 r2 400 = true /\ mac_expired (h_macage h) 400 = true
  /\ carried false h r1 (Req true "rp.example" "/other") 100 = false
  /\ carried false h r1 (Req false "rp.example" "/auth/callback") 100 = false
  /\ stored (new_cookie_handler [WithMaxAge (-1)]) r1 = false
  /\ stored (new_cookie_handler [WithDomain "other.example"]) r1 = false.
Proof. vm_compute. repeat split. Qed.

(* ================= verifier options ================= *)
Fixpoint configured_offset (vo : list vopt) : option Z :=
  match vo with
  | [] => None
  | o :: r => match configured_offset r with
              | Some d => Some d
              | None => match o with WithIssuedAtOffset d => Some d | _ => None end
              end
  end.

Lemma fold_vopts vo : forall v0,
  fold_left apply_vopt vo v0
  = Vf (dflt (configured_offset vo) (v_offset v0))
       (dflt (configured_iat_maxage vo) (v_maxage_iat v0))
       (dflt (configured_auth_maxage vo) (v_maxage v0)).
Proof.
  induction vo as [|o vo IH]; intros [a b c]; [reflexivity|].
  cbn [fold_left]. rewrite IH.
  destruct o as [d|d|d]; cbn;
    destruct (configured_offset vo), (configured_iat_maxage vo), (configured_auth_maxage vo); reflexivity.
Qed.

Lemma verifier_options : forall vo,
  new_verifier vo = Vf (dflt (configured_offset vo) 1) (dflt (configured_iat_maxage vo) 0)
                       (dflt (configured_auth_maxage vo) 0).
Proof. intro vo. unfold new_verifier. now rewrite fold_vopts. Qed.

Lemma id_time_ok_doc vo t : id_time_ok (new_verifier vo) t = true -> doc_time_ok vo t = true.
Proof.
  rewrite verifier_options. unfold id_time_ok, iat_ok, auth_time_ok, doc_time_ok, within.
  cbn [v_offset v_maxage_iat v_maxage]. intro Hok.
  apply andb_true_iff in Hok as [Hok Hau]. apply andb_true_iff in Hok as [_ Hia].
  apply andb_true_iff; split.
  - destruct (configured_iat_maxage vo) as [d|]; [|reflexivity]. cbn [dflt] in Hia.
    destruct (it_iat_age t) as [a|]; [|discriminate]. now apply andb_true_iff in Hia as [_ Hia].
  - destruct (configured_auth_maxage vo) as [d|]; [|reflexivity]. exact Hau.
Qed.

(* ================= the callback's tail ================= *)
Lemma callback_app cfg j q ok st reqs cs :
  callback cfg j q ok = EvCb (HApp st) reqs cs -> ok = true /\ reqs <> [].
Proof.
  unfold callback.
  destruct (check_cookie (c_key cfg) state_name j) as [s|]; [|discriminate].
  destruct (negb (String.eqb s (form q "state"))); [discriminate|].
  destruct (negb (is_empty (form q "error"))); [discriminate|].
  destruct (c_pkce cfg).
  - destruct (check_cookie (c_key cfg) pkce_name j); [|discriminate].
    destruct ok; [|discriminate]. intros [= <- <- <-]. split; [reflexivity|discriminate].
  - destruct ok; [|discriminate]. intros [= <- <- <-]. split; [reflexivity|discriminate].
Qed.

Lemma cb_ok_app_to_unauth H cfg j q st reqs :
  cb_ok H cfg false j [] q (HApp st) reqs = true -> cb_ok H cfg false j [] q (HUnauth st) reqs = true.
Proof.
  unfold cb_ok. intro Hc. apply andb_true_iff in Hc as [Hc H3]. apply andb_true_iff in Hc as [_ H2].
  apply andb_true_iff in H2 as [Hg _]. rewrite Hg, H3. reflexivity.
Qed.

Lemma tail_spec_model : forall s cfg vo wrap tr ui j q,
  intended s = Some cfg -> negb (wrap && oauth_only s) = true ->
  tail_spec (hfun []) cfg s vo wrap tr ui j q (tail_model s vo wrap tr ui j q) = true.
Proof.
  intros s cfg vo wrap tr ui j q Hi Hwf. unfold tail_model. rewrite (construct_intended s cfg Hi).
  pose proof (cb_ok_rel (hfun []) cfg j j q (exchange_ok s vo tr) (fun n v E => E)) as Hcb.
  destruct (callback cfg j q (exchange_ok s vo tr)) as [| hd reqs cs | | |] eqn:Ec; try contradiction.
  destruct hd as [st|e d st|st|].
  1,2,4: (cbn [userinfo_tail tail_spec]; rewrite Hcb; now destruct reqs).
  destruct (callback_app cfg j q _ st reqs cs Ec) as [Hex Hreqs].
  assert (Hid : oauth_only s
                || (tr_ok tr && match tr_id tr with Some it => doc_time_ok vo it | None => false end) = true).
  { unfold exchange_ok in Hex. apply andb_true_iff in Hex as [Ht Hex]. rewrite Ht.
    destruct (oauth_only s); [reflexivity|]. cbn [orb andb] in *.
    destruct (tr_id tr) as [it|]; [|discriminate]. now apply id_time_ok_doc. }
  cbn [userinfo_tail]. destruct wrap.
  - destruct (ui_ok ui && String.eqb (ui_sub ui) (id_sub tr)) eqn:Eu.
    + cbn [tail_spec]. rewrite Hcb, Hid. cbn [negb orb andb]. rewrite Eu. cbn [andb].
      rewrite opt_is_some. destruct reqs; [now elim Hreqs|reflexivity].
    + cbn [tail_spec]. rewrite (cb_ok_app_to_unauth _ _ _ _ _ _ Hcb).
      destruct reqs; [now elim Hreqs|reflexivity].
  - cbn [tail_spec]. rewrite Hcb, Hid. cbn. now destruct reqs.
Qed.

(* readable: what UserinfoCallback guarantees *)
Lemma userinfo_subject_bound : forall s vo tr ui j q st reqs cs u info,
  tail_model s vo true tr ui j q = TailOut (EvCb (HApp st) reqs cs) u info ->
  ui_ok ui = true /\ ui_sub ui = id_sub tr /\ info = Some (ui_sub ui)
  /\ u = [(tr_type tr ++ " " ++ tr_access tr)%string]
  /\ exchange_ok s vo tr = true /\ reqs <> []
  /\ st = form q "state"
  /\ jar_get "state" j = Some (Mac (c_key (construct s)) "state" (form q "state")).
Proof.
  intros s vo tr ui j q st reqs cs u info. unfold tail_model.
  destruct (callback (construct s) j q (exchange_ok s vo tr)) as [| hd r0 c0 | | |] eqn:Ec;
    cbn [userinfo_tail]; try discriminate.
  destruct hd as [st0|e d st0|st0|]; try discriminate.
  destruct (ui_ok ui && String.eqb (ui_sub ui) (id_sub tr)) eqn:Eu; [|discriminate].
  intros [= -> -> -> <- <-]. apply andb_true_iff in Eu as [E1 E2]. apply String.eqb_eq in E2.
  destruct (callback_app _ j q _ st reqs cs Ec) as [Hex Hr].
  destruct (state_bound (construct s) j q (exchange_ok s vo tr))
    as [(s' & h2 & r2 & c2 & Hj & -> & Hc2 & _ & Happ)|[_ Hrej]].
  - rewrite Ec in Hc2. injection Hc2 as <- <- <-. destruct (Happ st eq_refl) as [-> _].
    repeat split; auto.
  - rewrite Ec in Hrej. discriminate.
Qed.

(* a userinfo request is made only on behalf of a callback that passed the state check and exchanged a code *)
Lemma userinfo_only_after_exchange : forall s vo wrap tr ui j q ev u info,
  tail_model s vo wrap tr ui j q = TailOut ev u info -> u <> [] ->
  wrap = true /\ exchange_ok s vo tr = true
  /\ jar_get "state" j = Some (Mac (c_key (construct s)) "state" (form q "state"))
  /\ exists h reqs cs, ev = EvCb h reqs cs /\ reqs <> [].
Proof.
  intros s vo wrap tr ui j q ev u info. unfold tail_model.
  destruct (callback (construct s) j q (exchange_ok s vo tr)) as [| hd r0 c0 | | |] eqn:Ec;
    cbn [userinfo_tail]; try (intros [= <- <- <-] Hu; now elim Hu).
  destruct hd as [st0|e d st0|st0|]; try (intros [= <- <- <-] Hu; now elim Hu).
  destruct wrap; [|intros [= <- <- <-] Hu; now elim Hu].
  destruct (callback_app _ j q _ st0 r0 c0 Ec) as [Hex Hr].
  assert (Hj : jar_get "state" j = Some (Mac (c_key (construct s)) "state" (form q "state"))).
  { destruct (state_bound (construct s) j q (exchange_ok s vo tr))
      as [(s' & h2 & r2 & c2 & Hj & -> & _)|[_ Hrej]]; [exact Hj|]. rewrite Ec in Hrej. discriminate. }
  destruct (ui_ok ui && String.eqb (ui_sub ui) (id_sub tr)); intros [= <- <- <-] _;
    repeat split; auto; do 3 eexists; split; try reflexivity; exact Hr.
Qed.

(* an OIDC RP reaches the application callback only with an ID token within the configured max ages *)
Lemma verifier_max_ages : forall s vo wrap tr ui j q st reqs cs u info,
  oauth_only s = false ->
  tail_model s vo wrap tr ui j q = TailOut (EvCb (HApp st) reqs cs) u info ->
  exists t, tr_id tr = Some t /\ tr_ok tr = true
    /\ (forall d, configured_iat_maxage vo = Some d -> d <> 0 ->
          exists a, it_iat_age t = Some a /\ a <= d)
    /\ (forall d, configured_auth_maxage vo = Some d -> d <> 0 ->
          exists a, it_auth_age t = Some a /\ a <= d).
Proof.
  intros s vo wrap tr ui j q st reqs cs u info Ho. unfold tail_model.
  destruct (callback (construct s) j q (exchange_ok s vo tr)) as [| hd r0 c0 | | |] eqn:Ec;
    cbn [userinfo_tail]; try discriminate.
  assert (Hgoal : forall st0, hd = HApp st0 ->
    exists t, tr_id tr = Some t /\ tr_ok tr = true
      /\ (forall d, configured_iat_maxage vo = Some d -> d <> 0 -> exists a, it_iat_age t = Some a /\ a <= d)
      /\ (forall d, configured_auth_maxage vo = Some d -> d <> 0 -> exists a, it_auth_age t = Some a /\ a <= d)).
  { intros st0 ->. destruct (callback_app _ j q _ st0 r0 c0 Ec) as [Hex _].
    unfold exchange_ok in Hex. rewrite Ho in Hex. cbn [orb] in Hex.
    apply andb_true_iff in Hex as [Ht Hex]. destruct (tr_id tr) as [t|]; [|discriminate].
    exists t. split; [reflexivity|]. split; [exact Ht|].
    apply id_time_ok_doc in Hex. unfold doc_time_ok, within in Hex. apply andb_true_iff in Hex as [Hi Ha].
    split; intros d Hd Hnz.
    - rewrite Hd in Hi. destruct (d =? 0) eqn:Ez; [apply Z.eqb_eq in Ez; contradiction|]. cbn [orb] in Hi.
      destruct (it_iat_age t) as [a|]; [|discriminate]. exists a. split; [reflexivity|]. now apply Z.leb_le.
    - rewrite Hd in Ha. destruct (d =? 0) eqn:Ez; [apply Z.eqb_eq in Ez; contradiction|]. cbn [orb] in Ha.
      destruct (it_auth_age t) as [a|]; [|discriminate]. exists a. split; [reflexivity|]. now apply Z.leb_le. }
  destruct hd as [st0|e d st0|st0|]; cbn [userinfo_tail]; try discriminate.
  intros _. exact (Hgoal st0 eq_refl).
Qed.

(* ================= URLParamOpt constructors ================= *)
Definition url_opt_harmless (o : url_opt) : bool :=
  match o with UParam k _ => negb (string_in k reserved) | _ => true end.

(* WithPromptURLParam / WithResponseModeURLParam never touch response_type, client_id,
   redirect_uri, scope or state *)
Lemma extras_extra_ok : forall k p jw cl rd sc au l,
  extra_ok (Cfg k p jw cl rd sc au (extras l)) = forallb url_opt_harmless l.
Proof.
  intros. unfold extra_ok, extras. cbn [c_extra]. induction l as [|o l IH]; [reflexivity|].
  cbn [map forallb]. rewrite IH. f_equal. destruct o; reflexivity.
Qed.

Lemma fold_extras_app (a b : params) p :
  fold_left (fun p kv => pset (fst kv) (snd kv) p) (a ++ b) p
  = fold_left (fun p kv => pset (fst kv) (snd kv) p) b (fold_left (fun p kv => pset (fst kv) (snd kv) p) a p).
Proof. apply fold_left_app. Qed.

(* the last WithResponseModeURLParam(m) decides response_mode in the authorization URL *)
Lemma response_mode_param : forall k p jw cl rd sc au l m s ch,
  plookup "response_mode"
    (auth_params (Cfg k p jw cl rd sc au (extras (l ++ [UResponseMode m]))) s ch) = Some m.
Proof.
  intros. unfold auth_params, extras. cbn [c_extra]. rewrite map_app, fold_extras_app.
  cbn [map fold_left url_opt_kv fst snd].
  destruct ch as [c|]; [rewrite !plookup_pset_other by reflexivity|]; apply plookup_pset_same.
Qed.

(* ================= the central theorem for the extended vocabulary ================= *)
Lemma spec_model_true : forall i, wf i = true -> spec i (model i) = true.
Proof.
  intros [s tab j0 ops|s co keeps tab ops|s vo wrap tr ui j0 q] Hwf.
  - apply spec_model_true_inp.
  - cbn [model spec]. destruct (intended s) as [cfg|] eqn:Ei; [|reflexivity].
    rewrite (construct_intended s cfg Ei). unfold krun. apply kspec_run_model.
  - cbn [wf] in Hwf. cbn [model].
    assert (Hw : wrap && oauth_only s = false) by (now destruct (wrap && oauth_only s)).
    rewrite Hw. cbn [andb spec]. destruct (intended s) as [cfg|] eqn:Ei; [|reflexivity].
    now apply tail_spec_model.
Qed.

(* outside wf: UserinfoCallback on an RP built by NewRelyingPartyOAuth panics once the
   exchange succeeded (tokens.IDTokenClaims is a nil pointer); the predicate rejects that *)
Definition oauth_userinfo_input : input :=
  InpTail (Setup (NewOAuth "https://op/auth") [WithCookieHandler 0] "cid" "https://rp/cb" ["openid"] [])
          [] true (TokResp true "at" "Bearer" None) (UiResp true "user-1")
          [("state", Mac 0 "state" "a")] [("code", "c"); ("state", "a")].

Lemma userinfo_oauth_only_panics :
  wf oauth_userinfo_input = false /\ model oauth_userinfo_input = OPanic
  /\ spec oauth_userinfo_input (model oauth_userinfo_input) = false.
Proof. vm_compute. repeat split. Qed.

(* non-vacuity of the tail: an OIDC RP, UserinfoCallback, max ages configured *)
Definition tail_setup : setup :=
  Setup (NewOIDC (Disc "https://op/auth" None None None None None)) [WithCookieHandler 0]
        "cid" "https://rp/cb" ["openid"] [].
Definition tail_jar : jar := [("state", Mac 0 "state" "a")].
Definition tail_q : params := [("code", "c"); ("state", "a")].
Definition tail_vo : list vopt := [WithIssuedAtMaxAge 60; WithAuthTimeMaxAge 600; WithIssuedAtMaxAge 30].

Lemma tail_nonvacuous :
  (* accepted: iat 10 s old (limit 30), auth_time 100 s old (limit 600), same subject *)
  tail_model tail_setup tail_vo true (TokResp true "at" "Bearer" (Some (IdTok "u1" 3600 (Some 10) (Some 100))))
             (UiResp true "u1") tail_jar tail_q
  = TailOut (EvCb (HApp "a") [TokReq "c" "https://rp/cb" "cid" None false] [("state", None)])
            ["Bearer at"%string] (Some "u1"%string)
  (* other subject: refused, the userinfo is not handed on *)
  /\ tail_model tail_setup tail_vo true (TokResp true "at" "Bearer" (Some (IdTok "u1" 3600 (Some 10) (Some 100))))
                (UiResp true "u2") tail_jar tail_q
     = TailOut (EvCb (HUnauth "a") [TokReq "c" "https://rp/cb" "cid" None false] [("state", None)])
               ["Bearer at"%string] None
  (* iat 45 s old: beyond the LAST WithIssuedAtMaxAge (30), within the first (60): refused *)
  /\ tail_model tail_setup tail_vo true (TokResp true "at" "Bearer" (Some (IdTok "u1" 3600 (Some 45) (Some 100))))
                (UiResp true "u1") tail_jar tail_q
     = TailOut (EvCb (HUnauth "a") [TokReq "c" "https://rp/cb" "cid" None false] [("state", None)]) [] None
  (* the predicate rejects an application callback in the last two situations *)
  /\ spec (InpTail tail_setup tail_vo true (TokResp true "at" "Bearer" (Some (IdTok "u1" 3600 (Some 10) (Some 100))))
                   (UiResp true "u2") tail_jar tail_q)
          (ObsTail (TailOut (EvCb (HApp "a") [TokReq "c" "https://rp/cb" "cid" None false] [("state", None)])
                            ["Bearer at"%string] (Some "u2"%string))) = false
  /\ spec (InpTail tail_setup tail_vo false (TokResp true "at" "Bearer" (Some (IdTok "u1" 3600 (Some 45) (Some 100))))
                   (UiResp true "u1") tail_jar tail_q)
          (ObsTail (TailOut (EvCb (HApp "a") [TokReq "c" "https://rp/cb" "cid" None false] [("state", None)])
                            [] None)) = false.
Proof. vm_compute. repeat split. Qed.
