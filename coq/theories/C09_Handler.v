(* C09 layer (c): control flow of the request handlers up to the grant logic.
   Legacy handler functions (Provider router and called directly):
     pkg/op/token_request.go Exchange, token_code.go CodeExchange, token_refresh.go RefreshTokenExchange,
     token_client_credentials.go ClientCredentialsExchange, token_jwt_profile.go JWTProfile,
     token_exchange.go TokenExchange, device.go DeviceAccessToken / DeviceAuthorization,
     token_revocation.go Revoke, token_intospection.go Introspect, session.go EndSession, userinfo.go Userinfo.
   LegacyServer router: pkg/op/server_http.go (webServer pre-checks) + server_legacy.go.
   A handler is a list of checks evaluated on a request shape; a failed check writes
   an error response and then either returns or (the defect F03) goes on with the nil
   request the failed parser returned. *)
From OIDC Require Import Lib.

Inductive entry := ViaProvider | ViaLegacy | Direct.   (* Direct: the handler function called on a fresh request *)

Inductive basic :=
| BNone        (* no Authorization header *)
| BOk          (* Basic base64(id:secret), both parts percent-decodable *)
| BBadId       (* client id part holds a malformed escape (%zz) *)
| BBadSecret   (* secret part holds a malformed escape *)
| BMalformed   (* not "Basic <base64 with colon>": r.BasicAuth() reports !ok *)
| BEmptySecret. (* Basic base64(id:) - a client id with an empty password *)

Inductive endpoint :=
| ECode | ERefresh | EClientCred | EJwtProfile | ETokenExchange | EDeviceToken   (* token endpoint, by grant_type *)
| ENoGrant | EUnknownGrant
| ERevoke | EIntrospect | EDeviceAuthz | EEndSession | EUserinfo.

(* sh_key: the endpoint's main parameter is present
     ECode code; ERefresh refresh_token; EJwtProfile a well-formed assertion; ETokenExchange subject_token(+type);
     EDeviceToken device_code; ERevoke / EIntrospect token; EUserinfo access_token (garbage) in the form;
     EEndSession a garbage id_token_hint.
   sh_form_ok = false: the body carries one extra pair with a malformed escape (junk=%zz). *)
Record shape := {
  sh_entry : entry; sh_ep : endpoint; sh_form_ok : bool; sh_basic : basic;
  sh_key : bool; sh_client_id : bool;
  sh_fault : bool    (* the first storage call of the request fails (injected error or deadline) *) }.

Inductive errcode := EInvalidRequest | EInvalidClient | EInvalidGrant | EUnsupportedGrantType | EServerError
                   | EUnauthorizedClient | EAccessDenied | EOther | ENoCode.   (* ENoCode: not an OAuth JSON error body *)

Inductive outcome :=
| OResp (status : nat) (c : errcode)   (* one error response, nothing else done *)
| OGrant                               (* every pre-check passed: the grant logic (storage) is entered and answers once *)
| OFault                               (* a storage call failed: one error response, no storage call after it *)
| OPanic | ODouble | OContinued.

(* one step of a handler *)
Inductive check :=
| CPass
| CFail (status : nat) (c : errcode) (returns : bool)
| CDeref (nonnil : bool)
  (* a field is read through an optional pointer of a stored object without a nil test;
     false = the pointer is nil *)
| CStore (fails fatal returns : bool).
  (* a storage call: when it fails the handler either answers benignly (not fatal: introspection's
     {"active":false}) or writes an error and returns - or (defect) goes on to the next storage call *)

Fixpoint run (cs : list check) : outcome :=
  match cs with
  | [] => OGrant
  | CPass :: r => run r
  | CFail st c true :: _ => OResp st c
  | CFail _ _ false :: _ => OPanic    (* error written, then the nil request is dereferenced *)
  | CDeref true :: r => run r
  | CDeref false :: _ => OPanic
  | CStore false _ _ :: r => run r
  | CStore true false _ :: _ => OGrant
  | CStore true true true :: _ => OFault
  | CStore true true false :: _ => OContinued   (* error written, then the next storage call / a second answer *)
  end.

Definition chk (ok : bool) (st : nat) (c : errcode) : check := if ok then CPass else CFail st c true.

Definition basic_escape_ok (b : basic) : bool :=
  match b with BBadId | BBadSecret => false | _ => true end.
Definition basic_present (b : basic) : bool :=
  match b with BOk | BBadId | BBadSecret | BEmptySecret => true | _ => false end.
(* a non-empty secret arrived; an empty one never authenticates (op.ClientBasicAuth,
   op.AuthorizeClientIDSecret refuse it before asking the storage) *)
Definition has_secret (b : basic) : bool :=
  match b with BOk => true | _ => false end.

Definition is_token_grant (e : endpoint) : bool :=
  match e with ECode | ERefresh | EClientCred | EJwtProfile | ETokenExchange | EDeviceToken => true | _ => false end.

(* [ret]: the five grant handlers return after answering a parse error (after F03) *)
Section Handlers.
  Variable ret : bool.

  (* ParseAuthenticatedTokenRequest / ParseClientCredentialsRequest / ParseTokenExchangeRequest / ParseJWTProfileGrantRequest
     as one step: form, then Basic credentials *)
  Definition parse_step (form_seen_ok : bool) (uses_basic : bool) (b : basic) : check :=
    if negb form_seen_ok then CFail 400 EInvalidRequest ret
    else if uses_basic && negb (basic_escape_ok b) then CFail 401 EInvalidClient ret
    else CPass.

  (* ClientIDFromRequest (device token, device authorization, introspection) *)
  Definition client_id_from_request (form_seen_ok : bool) (b : basic) (cid : bool) : list check :=
    [chk form_seen_ok 400 EInvalidRequest;
     chk (basic_escape_ok b) 401 EInvalidClient;
     chk (negb (basic_present b) || has_secret b) 400 EUnauthorizedClient;   (* ClientBasicAuth: empty client secret *)
     chk (basic_present b || cid) 401 EInvalidClient].

  (* handler functions of the Provider router; [fs] = the form error is still visible to the
     handler (false behind Exchange, whose FormValue swallowed it) *)
  Definition legacy_fn (s : shape) (fs : bool) : list check :=
    let form := sh_form_ok s || negb fs in
    match sh_ep s with
    | ECode => [parse_step form true (sh_basic s); chk (sh_key s) 400 EInvalidRequest]
    | ERefresh => [parse_step form true (sh_basic s); chk (sh_key s) 400 EInvalidRequest]
    | EClientCred => [parse_step form true (sh_basic s)]
    | EJwtProfile => [parse_step form false (sh_basic s); chk (sh_key s) 400 EServerError]
    | ETokenExchange => [parse_step form true (sh_basic s); chk (sh_key s) 400 EInvalidRequest;
                         chk (has_secret (sh_basic s)) 401 EInvalidClient]   (* AuthorizeClientIDSecret: no / empty secret *)
    | EDeviceToken => client_id_from_request form (sh_basic s) (sh_client_id s)
    | ENoGrant => [CFail 400 EInvalidRequest true]
    | EUnknownGrant => [CFail 400 EUnsupportedGrantType true]
    | ERevoke => [chk form 400 EInvalidRequest; chk (basic_escape_ok (sh_basic s)) 401 EInvalidClient;
                  chk (negb (basic_present (sh_basic s)) || has_secret (sh_basic s)) 401 EInvalidClient;
                  chk (basic_present (sh_basic s) || sh_client_id s) 401 EInvalidClient]
    | EIntrospect =>   (* every refusal is http.Error(401) *)
        [chk form 401 ENoCode; chk (basic_escape_ok (sh_basic s)) 401 ENoCode;
         chk (has_secret (sh_basic s)) 401 ENoCode]
    | EDeviceAuthz => client_id_from_request form (sh_basic s) (sh_client_id s)
    | EEndSession => [chk form 500 ENoCode; chk (negb (sh_key s)) 400 EInvalidRequest]
    | EUserinfo => [CFail 401 ENoCode true]     (* no / garbage token: always refused before storage *)
    end.

  (* webServer: parseClientCredentials + withClient *)
  Definition ws_client (s : shape) : list check :=
    [chk (sh_form_ok s) 400 EInvalidRequest;
     chk (basic_escape_ok (sh_basic s)) 400 EInvalidClient;
     chk (basic_present (sh_basic s) || sh_client_id s) 400 EInvalidRequest].

  Definition legacy_server (s : shape) : list check :=
    match sh_ep s with
    | ECode | ERefresh | EClientCred | ETokenExchange | EDeviceToken | ERevoke | EDeviceAuthz =>
        ws_client s     (* then VerifyClient asks the storage *)
    | EJwtProfile => [chk (sh_form_ok s) 400 EInvalidRequest; chk (sh_key s) 400 EInvalidRequest]
    | ENoGrant => [chk (sh_form_ok s) 400 EInvalidRequest; CFail 400 EInvalidRequest true]
    | EUnknownGrant => [chk (sh_form_ok s) 400 EInvalidRequest; CFail 400 EUnsupportedGrantType true]
    | EIntrospect => ws_client s ++ [chk (has_secret (sh_basic s)) 400 EInvalidClient; chk (sh_key s) 400 EInvalidRequest]
    | EEndSession => [chk (sh_form_ok s) 400 EInvalidRequest; chk (negb (sh_key s)) 400 EInvalidRequest]
    | EUserinfo => [chk (sh_form_ok s) 400 EInvalidRequest;
                    if sh_key s then CFail 401 EAccessDenied true else CFail 401 EInvalidRequest true]
    end.

  Definition on_token_endpoint (e : endpoint) : bool :=
    is_token_grant e || match e with ENoGrant | EUnknownGrant => true | _ => false end.

  Definition prechecks (s : shape) : list check :=
    match sh_entry s with
    | ViaProvider => legacy_fn s (negb (on_token_endpoint (sh_ep s)))
    | Direct => legacy_fn s true
    | ViaLegacy => legacy_server s
    end.

  (* then the first storage call (client lookup / authentication / code, key, device state lookup /
     TerminateSession): its failure is answered with an error and the handler returns *)
  Definition checks (s : shape) : list check := prechecks s ++ [CStore (sh_fault s) true true].

  Definition handler (s : shape) : outcome := run (checks s).
End Handlers.

Definition returns (c : check) : bool :=
  match c with CPass => true | CFail _ _ r => r | CDeref ok => ok | CStore _ _ r => r end.
Definition passes (c : check) : bool :=
  match c with CPass => true | CDeref ok => ok | CStore f _ _ => negb f | _ => false end.

Definition single (o : outcome) : bool :=
  match o with OResp _ _ | OGrant | OFault => true | _ => false end.

(* ---- storage-error exits of valid, authenticated requests (revocation, introspection, userinfo) ----
   The request is well-formed and carries live credentials / tokens; the x_fault-th storage call
   (1-based, 0 = none) fails. *)
Inductive xep :=
| XRevokeRT      (* POST /revoke, live refresh token, token_type_hint absent or refresh_token *)
| XRevokeAT      (* POST /revoke, live opaque access token, token_type_hint=access_token *)
| XIntrospect    (* POST /oauth/introspect, live opaque access token, Basic credentials *)
| XUserinfo.     (* GET /userinfo, live opaque bearer token *)

Record xshape := { x_entry : entry; x_ep : xep; x_fault : nat }.

(* storage calls in order, with "failure is fatal"; [ret_rti]: Revoke returns after answering a
   GetRefreshTokenInfo failure that is not ErrInvalidRefreshToken *)
Definition xsteps (ret_rti : bool) (x : xshape) : list (bool * bool) :=
  let auth := match x_entry x with
              | ViaLegacy => [(true, true); (true, true)]   (* VerifyClient: GetClientByClientID, AuthorizeClientIDSecret *)
              | _ => [(true, true)]                          (* AuthorizeClientIDSecret *)
              end in
  match x_ep x with
  | XRevokeRT => auth ++ [(true, ret_rti); (true, true)]    (* GetRefreshTokenInfo, RevokeToken *)
  | XRevokeAT => auth ++ [(true, true)]                     (* RevokeToken *)
  | XIntrospect => [(true, true); (false, true)]            (* AuthorizeClientIDSecret, SetIntrospectionFromToken *)
  | XUserinfo => [(true, true)]                             (* SetUserinfoFromToken *)
  end.

Fixpoint xchecks_from (i k : nat) (l : list (bool * bool)) : list check :=
  match l with
  | [] => []
  | (fatal, r) :: t => CStore (Nat.eqb k i) fatal r :: xchecks_from (S i) k t
  end.

Definition xchecks (ret_rti : bool) (x : xshape) : list check := xchecks_from 1 (x_fault x) (xsteps ret_rti x).
Definition xhandler (ret_rti : bool) (x : xshape) : outcome := run (xchecks ret_rti x).

(* the driver calls handler functions directly only for the six token grants *)
Definition shape_wf (s : shape) : bool :=
  match sh_entry s with Direct => is_token_grant (sh_ep s) | _ => true end.


(* ---- redeeming a live code: the PKCE stage reads the OPTIONAL code challenge of the stored request ----
   The request is a well-formed code grant with valid client authentication, matching redirect_uri and
   a live code of a completed flow. *)
Inductive verifier_sent := VNone | VRight | VWrong.   (* VRight: equals the flow's verifier *)

Record cshape := {
  c_entry : entry;
  c_public : bool;          (* client auth method none *)
  c_stored : bool;          (* the authorization request carried a code_challenge *)
  c_verifier : verifier_sent }.

(* op.AuthorizeCodeChallenge(verifier, challenge); oidc.VerifyCodeChallenge is nil-safe.
   [nilsafe]: the mismatch branch does not read through the (possibly nil) challenge *)
Definition authorize_code_challenge (nilsafe : bool) (x : cshape) : list check :=
  match c_verifier x with
  | VNone => [CFail 400 EInvalidRequest true]
  | v => if c_stored x && match v with VRight => true | _ => false end then [CPass]
         else [CDeref (c_stored x || nilsafe); CFail 400 EInvalidGrant true]
  end.

Definition cchecks (nilsafe : bool) (x : cshape) : list check :=
  match c_entry x with
  | ViaLegacy =>     (* LegacyServer.CodeExchange *)
      if c_public x || negb (match c_verifier x with VNone => true | _ => false end) || c_stored x
      then authorize_code_challenge nilsafe x else []
  | _ =>             (* AuthorizeCodeClient *)
      (if c_stored x then authorize_code_challenge nilsafe x else [])
      ++ [chk (negb (c_public x) || c_stored x) 400 EInvalidRequest]     (* public client: PKCE required *)
  end.

Definition chandler (nilsafe : bool) (x : cshape) : outcome := run (cchecks nilsafe x).
