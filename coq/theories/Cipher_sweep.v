From OIDC Require Import Lib.

Definition lxor_small (a : nat) : bool := forallb (fun b => Nat.lxor a b <? 256) (seq 0 256).
Lemma lxor_sweep : forallb lxor_small (seq 0 256) = true.
Proof. vm_compute. reflexivity. Qed.

