(* C04 / C07: the property predicates (ledger checks c04_ok / c07_ok of C04_Ledger)
   hold on every history the machine produces:  spec i (model i) = true.
   Proof: a simulation between the observation ledger and the storage. *)
From OIDC Require Import Lib C04_OP C04_Ledger C04_OP_proofs C04_Inv_proofs.

Lemma strs_eqb_refl l : strs_eqb l l = true.
Proof. apply (list_eqb_spec String.eqb); [intros; apply String.eqb_eq | reflexivity]. Qed.

Lemma nat_in_false n l : nat_in n l = false <-> ~ In n l.
Proof.
  split.
  - intros Hf Hin. apply nat_in_In in Hin. congruence.
  - intro Hn. destruct (nat_in n l) eqn:E; [|reflexivity]. apply nat_in_In in E. contradiction.
Qed.

(* ledger record t' describes storage record t *)
Definition rel (t t' : rtok) : Prop :=
  r_client t' = r_client t /\ r_sub t' = r_sub t /\ r_aud t' = aud_with (r_client t) (r_aud t)
  /\ r_auth t' = r_auth t /\ r_scopes t' = r_scopes t.

(* keep = the storage policy f_keep: only a rotating storage kills the presented token *)
Record Sim (ga : string -> list string) (g : ledger) (s : st) : Prop := {
  s_codes : forall c n, In (c, n) (codes s) -> lookup c (g_codes g) = Some n /\ nat_in c (g_used g) = false;
  s_reqs : forall n q, find_req s n = Some q -> g_req g n = Some q;
  s_cbound : forall c n, lookup c (g_codes g) = Some n -> c <= ncode s;
  s_ubound : forall c, In c (g_used g) -> c <= ncode s;
  s_rts : forall n t, find_rt s n = Some t ->
            exists t', g_rt g n = Some t' /\ rel t t' /\ nat_in n (g_rot g) = false;
  s_rbound : forall n t', g_rt g n = Some t' -> n <= next s;
  s_rotbound : forall n, In n (g_rot g) -> n <= next s;
  s_noref : g_norefresh g = norefresh s;
  s_aud : forall t, In t (rtoks s) -> r_aud t = ga (r_client t)
}.

Lemma sim_init k : Sim k ledger0 init.
Proof. constructor; cbn; intros; try contradiction; try reflexivity; discriminate. Qed.

Section S.
Variable H : string -> string.
Variable cf : cfg.

Lemma mark_done_set_login n sub st q : mark_done n sub st q = set_login n sub st q.
Proof. reflexivity. Qed.

Lemma g_req_login g n sub stamp m :
  find (fun q => Nat.eqb (q_id q) m) (map (mark_done n sub stamp) (g_reqs g))
  = option_map (mark_done n sub stamp) (g_req g m).
Proof. unfold g_req. apply find_map_same. intro x. unfold mark_done. destruct (Nat.eqb (q_id x) n); reflexivity. Qed.

Lemma openid_guard (b : bool) (x : string) : (b || String.eqb x x) = true.
Proof. rewrite String.eqb_refl. apply orb_true_r. Qed.

Lemma aud_with_in c l : string_in c (aud_with c l) = true.
Proof.
  unfold aud_with. destruct (string_in c l) eqn:E; [exact E|].
  apply string_in_In. apply in_app_iff. right. now left.
Qed.

(* one step: both predicates accept the model's answer and the simulation is kept *)
Lemma asked_eff uri scopes nonce chal x :
  asked_uri uri x = eff_uri uri x /\ asked_scopes scopes x = eff_scopes scopes x
  /\ asked_nonce nonce x = eff_nonce nonce x /\ asked_chal chal x = eff_chal chal x.
Proof.
  unfold asked_uri, asked_scopes, asked_nonce, asked_chal, eff_uri, eff_scopes, eff_nonce, eff_chal, supersede, nonempty.
  destruct (x_ro x) as [ro|]; cbn [option_map].
  - repeat split.
    + destruct (String.eqb (ro_uri ro) ""); reflexivity.
    + destruct (string_in "openid" scopes); [|reflexivity]. destruct (ro_scopes ro); reflexivity.
    + destruct (String.eqb (ro_nonce ro) ""); reflexivity.
    + destruct (String.eqb (ro_cc ro) ""); cbn [negb].
      * destruct (String.eqb (match chal with Some c => snd c | None => "" end) ""); reflexivity.
      * destruct (String.eqb (ro_cc ro) ""); reflexivity.
  - repeat split. destruct (string_in "openid" scopes); reflexivity.
Qed.

Lemma sim_step g s o s' x :
  Sim (grant_aud cf) g s ->
  (forall c n, In (c, n) (codes s) -> exists q, find_req s n = Some q /\ q_done q = true) ->
  trans H cf s o s' x ->
  c04_ok H cf g o x = true /\ c07_ok cf g o x = true /\ Sim (grant_aud cf) (ledger_step g o x) s'.
Proof.
  intros [Scodes Sreqs Scb Sub Srts Srb Srot Snr Saud] Hdone Ht.
  destruct Ht as [o x Hx Hns | pl0 cr0 n0 sc0 t0 Hrt0 Hn0 | cl uri scopes nonce chal ax | n sub stamp q Hq | n q Hq Hd
                 | pl f cr cd uri ver q c Hcr Hfc Hp Hu Hch Hpub | pl cr n scopes t c sc Hrt Hfc Hr Hfl Hp Hn
                 | cl | cl | nrev].
  - (* inert *)
    assert (Hl : ledger_step g o x = g).
    { destruct o, x as [[?|]|[|]| | | | | | | |]; try contradiction; reflexivity. }
    rewrite Hl. split; [|split; [|constructor; assumption]].
    + destruct o, x as [[?|]|[|]| | | | | | | |]; try contradiction; try reflexivity;
        match goal with |- context [TokenCode _ _ _ ?c _ _] => destruct c; reflexivity end.
    + destruct o, x as [[?|]|[|]| | | | | | | |]; try contradiction; try reflexivity;
        match goal with |- context [TokenRefresh _ _ ?c _] => destruct c; cbn in Hns |- *; try rewrite Hns; reflexivity end.
  - (* invalid_scope *)
    split; [reflexivity|]. split; [|constructor; assumption].
    cbn [c07_ok]. rewrite String.eqb_refl.
    destruct (Srts _ _ Hrt0) as [t' [Hgt [[_ [_ [_ [_ R5]]]] _]]]. rewrite Hgt, R5.
    unfold narrowed in Hn0. destruct sc0 as [|a l]; [discriminate|]. cbn [is_nil] in Hn0.
    destruct (subset (a :: l) (r_scopes t0)); [discriminate | reflexivity].
  - (* authorize *)
    split; [reflexivity|]. split; [reflexivity|]. cbn [ledger_step].
    destruct (asked_eff uri scopes nonce chal ax) as [-> [-> [-> ->]]].
    constructor; cbn [g_reqs g_codes g_used g_rts g_rot g_norefresh reqs codes rtoks next ncode norefresh]; try assumption.
    + intros n q. unfold find_req, g_req. cbn [reqs g_reqs find q_id].
      destruct (Nat.eqb (S (next s)) n); [auto | apply Sreqs].
    + intros n t' Hg. apply Srb in Hg. lia.
    + intros n Hin. apply Srot in Hin. lia.
  - (* login *)
    split; [reflexivity|]. split; [reflexivity|]. cbn [ledger_step].
    constructor; cbn [g_reqs g_codes g_used g_rts g_rot g_norefresh reqs codes rtoks next ncode norefresh]; try assumption.
    intros m q0. unfold find_req at 1. cbn [reqs]. rewrite find_req_login. unfold g_req at 1. cbn [g_reqs].
    rewrite g_req_login. destruct (find_req s m) as [q1|] eqn:Hq1; [|discriminate].
    rewrite (Sreqs _ _ Hq1). intro Hx. exact Hx.
  - (* callback *)
    assert (Hfresh : lookup (S (ncode s)) (g_codes g) = None).
    { destruct (lookup (S (ncode s)) (g_codes g)) eqn:E; [apply Scb in E; lia | reflexivity]. }
    split. { cbn [c04_ok]. rewrite (Sreqs _ _ Hq), Hd, Hfresh. reflexivity. }
    split; [reflexivity|]. cbn [ledger_step].
    constructor; cbn [g_reqs g_codes g_used g_rts g_rot g_norefresh reqs codes rtoks next ncode norefresh]; try assumption.
    + intros c' n' [E | Hin].
      * inversion E; subst. cbn [lookup]. rewrite Nat.eqb_refl. split; [reflexivity|].
        apply nat_in_false. intro Hu'. apply Sub in Hu'. lia.
      * destruct (Scodes _ _ Hin) as [Hl Hu']. split; [|exact Hu']. cbn [lookup].
        destruct (Nat.eqb (S (ncode s)) c') eqn:E; [|exact Hl].
        apply Nat.eqb_eq in E. apply Scb in Hl. lia.
    + intros c' n'. cbn [lookup]. destruct (Nat.eqb (S (ncode s)) c') eqn:E.
      * apply Nat.eqb_eq in E. lia.
      * intro Hl. apply Scb in Hl. lia.
    + intros c' Hin. apply Sub in Hin. lia.
  - (* code exchange *)
    destruct (code_req_in _ _ _ Hcr) as [Hcin Hqf].
    destruct (Scodes _ _ Hcin) as [Hlk Hnu].
    destruct (Hdone _ _ Hcin) as [q' [Hq' Hd]]. rewrite Hqf in Hq'. injection Hq' as <-.
    pose proof (Sreqs _ _ Hqf) as Hgq.
    pose proof (proj1 (find_client_id cf _ _ Hfc)) as Hcid.
    unfold issue_code. cbn [fst snd].
    set (w := string_in "offline_access" (q_scopes q) && has_refresh s c).
    split.
    { cbn [c04_ok]. rewrite Hlk, Hgq, Hnu, Hd, Hp, Hu, String.eqb_refl. cbn [negb andb].
      assert (Hc1 : match q_chal q with Some ch => chal_ok H ch ver | None => negb (client_public cf (q_client q)) end = true).
      { destruct (q_chal q) as [ch|] eqn:Hqc; [now apply Hch|].
        unfold client_public. rewrite Hfc. unfold is_public in Hpub.
        destruct (c_auth c); try reflexivity. exfalso. now apply Hpub. }
      rewrite Hc1. cbn [andb]. unfold carries.
      cbn [t_sub t_at_sub t_azp t_aud t_scope t_nonce t_jwt].
      rewrite !String.eqb_refl, aud_with_in, strs_eqb_refl. cbn [andb].
      destruct (c_jwt c); [|reflexivity]. rewrite Hcid. apply String.eqb_refl. }
    split; [reflexivity|].
    cbn [ledger_step]. unfold add_rt. cbn [t_rt].
    constructor; cbn [g_reqs g_codes g_used g_rts g_rot g_norefresh reqs codes rtoks next ncode norefresh].
    + intros c' n' Hin. apply filter_In in Hin as [Hin Hne]. cbn in Hne.
      apply negb_true_iff, Nat.eqb_neq in Hne.
      destruct (Scodes _ _ Hin) as [Hl Hu']. split; [exact Hl|].
      apply nat_in_false. intros [E | Hin']; [subst c'; congruence|].
      apply nat_in_In in Hin'. congruence.
    + intros m q0 Hf. apply Sreqs. destruct (Nat.eq_dec m (q_id q)) as [-> | Hne].
      * unfold find_req in Hf. cbn [reqs] in Hf. rewrite find_filter_drop in Hf; [discriminate|].
        intros y Ey. now rewrite Ey.
      * unfold find_req in Hf |- *. cbn [reqs] in Hf. now rewrite find_req_other in Hf.
    + exact Scb.
    + intros c' [<- | Hin]; [apply (Scb _ _ Hlk) | now apply Sub].
    + intros m t Hf. unfold find_rt in Hf. cbn [rtoks] in Hf. destruct w.
      * cbn [find r_id] in Hf. unfold g_rt. cbn [g_rts find r_id rt_of_resp].
        destruct (Nat.eqb (S (next s)) m) eqn:E.
        -- injection Hf as <-. eexists. split; [reflexivity|]. split.
           ++ unfold rel. cbn. repeat split; reflexivity.
           ++ apply nat_in_false. apply Nat.eqb_eq in E. intro Hin. apply Srot in Hin. lia.
        -- apply Srts in Hf. exact Hf.
      * apply Srts in Hf. exact Hf.
    + intros m t'. unfold g_rt. destruct w; cbn [g_rts find r_id rt_of_resp].
      * destruct (Nat.eqb (S (next s)) m) eqn:E; [apply Nat.eqb_eq in E; lia|].
        intro Hg. apply Srb in Hg. lia.
      * intro Hg. apply Srb in Hg. lia.
    + intros m Hin. apply Srot in Hin. destruct w; lia.
    + exact Snr.
    + intros t Hin. destruct w; [|now apply Saud]. destruct Hin as [<- | Hin]; [reflexivity | now apply Saud].
  - (* refresh *)
    destruct (Srts _ _ Hrt) as [t' [Hgt [[R1 [R2 [R3 [R4 R5]]]] Hnrot]]].
    pose proof (proj1 (find_client_id cf _ _ Hfc)) as Hcid.
    pose proof (Srb _ _ Hgt) as Hnle.
    destruct (narrowed_subset _ _ _ Hn) as [Hs1 Hs2].
    assert (Hsceq : strs_eqb sc (match scopes with [] => r_scopes t | _ => scopes end) = true).
    { unfold narrowed in Hn. destruct scopes as [|a l]; cbn [is_nil] in Hn.
      - injection Hn as <-. apply strs_eqb_refl.
      - destruct (subset (a :: l) (r_scopes t)); [injection Hn as <-; apply strs_eqb_refl | discriminate]. }
    destruct (find_rt_in _ _ _ Hrt) as [_ Htid].
    unfold has_refresh in Hr. apply andb_true_iff in Hr as [Hr Hnref]. rewrite Hcid, <- Snr in Hnref.
    assert (Hfresh : g_rt g (S (next s)) = None).
    { destruct (g_rt g (S (next s))) eqn:E; [apply Srb in E; lia | reflexivity]. }
    assert (Hj : match (if c_jwt c then Some (c_id c) else None) with
                 | Some c0 => String.eqb c0 (r_client t) | None => true end = true).
    { destruct (c_jwt c); [rewrite Hcid; apply String.eqb_refl | reflexivity]. }
    pose proof (Saud _ (proj1 (find_rt_in _ _ _ Hrt))) as Haud.
    assert (Hj2 : match (if c_jwt c then Some (c_id c) else None) with
                  | Some _ => strs_eqb (if c_jwt c then match r_aud t with [] => [r_client t] | _ => r_aud t end else [])
                                (match grant_aud cf (r_client t) with [] => [r_client t] | l => l end)
                  | None => true end = true).
    { destruct (c_jwt c); [rewrite Haud; destruct (grant_aud cf (r_client t)); apply strs_eqb_refl | reflexivity]. }
    unfold issue_refresh. cbn [fst snd].
    split; [reflexivity|].
    destruct (f_keep cf) eqn:Hkeep.
    { (* the storage keeps the presented token *)
      split.
      { cbn [c07_ok]. rewrite Hgt, Hnrot, Hkeep, Hfl, R1, Hp, R5, Hs2. cbn [orb negb andb t_scope t_jwt t_at_aud t_rt].
        unfold client_refresh. rewrite Hfc, Hr, Hnref, Hsceq, Hj, Hj2, Htid, Nat.eqb_refl.
        cbn [negb andb t_sub t_at_sub t_aud t_azp t_auth].
        rewrite R2, R3, R4, !String.eqb_refl, strs_eqb_refl, Nat.eqb_refl. reflexivity. }
      cbn [ledger_step]. unfold add_rt. cbn [t_rt]. rewrite Htid, Nat.eqb_refl.
      constructor; cbn [g_reqs g_codes g_used g_rts g_rot g_norefresh reqs codes rtoks next ncode norefresh]; try assumption.
      + intros m t1 Hf. unfold find_rt in Hf. cbn [rtoks find r_id] in Hf.
        unfold g_rt. cbn [g_rts find r_id rt_of_resp]. rewrite ?Htid in Hf |- *.
        destruct (Nat.eqb n m) eqn:E.
        * injection Hf as <-. eexists. split; [reflexivity|]. split; [|apply Nat.eqb_eq in E; subst m; exact Hnrot].
          unfold rel. cbn. repeat split; reflexivity.
        * apply Nat.eqb_neq in E. rewrite find_filter_keep in Hf.
          -- destruct (Srts _ _ Hf) as [t2 [Hg2 [Hrel Hnr]]]. exists t2. split; [exact Hg2|]. split; [exact Hrel | exact Hnr].
          -- intros y Ey. apply Nat.eqb_eq in Ey. rewrite Ey. apply negb_true_iff, Nat.eqb_neq. auto.
      + intros m t1. unfold g_rt. cbn [g_rts find r_id rt_of_resp]. rewrite ?Htid.
        destruct (Nat.eqb n m) eqn:E; [apply Nat.eqb_eq in E; lia|].
        intro Hg. apply Srb in Hg. lia.
      + intros m Hin. apply Srot in Hin. lia.
      + intros t1 [<- | Hin]; [exact Haud | apply filter_In in Hin as [Hin _]; now apply Saud]. }
    assert (Hne : Nat.eqb (S (next s)) n = false) by (apply Nat.eqb_neq; lia).
    split.
    { cbn [c07_ok]. rewrite Hgt, Hkeep, Hnrot, Hfl, R1, Hp, R5, Hs2. cbn [orb negb andb t_scope t_jwt t_at_aud t_rt].
      unfold client_refresh. rewrite Hfc, Hr, Hnref, Hsceq. cbn [andb].
      rewrite Hj, Hj2, Hfresh. cbn [andb].
      rewrite Hne. cbn [negb andb t_sub t_at_sub t_aud t_azp t_auth].
      rewrite R2, R3, R4, !String.eqb_refl, strs_eqb_refl, Nat.eqb_refl. reflexivity. }
    cbn [ledger_step]. unfold add_rt. cbn [t_rt]. rewrite Hne.
    constructor; cbn [g_reqs g_codes g_used g_rts g_rot g_norefresh reqs codes rtoks next ncode norefresh]; try assumption.
    + intros m t1 Hf. unfold find_rt in Hf. cbn [rtoks find r_id] in Hf.
      unfold g_rt. cbn [g_rts find r_id rt_of_resp].
      destruct (Nat.eqb (S (next s)) m) eqn:E.
      * injection Hf as <-. eexists. split; [reflexivity|]. split.
        -- unfold rel. cbn. repeat split; reflexivity.
        -- apply Nat.eqb_eq in E. apply nat_in_false. intros [E' | Hin]; [lia|]. apply Srot in Hin. lia.
      * destruct (Nat.eq_dec m n) as [-> | Hmn].
        -- rewrite find_filter_drop in Hf; [discriminate|].
           intros y Ey. apply Nat.eqb_eq in Ey. rewrite Ey, Htid, Nat.eqb_refl. reflexivity.
        -- rewrite find_filter_keep in Hf.
           ++ destruct (Srts _ _ Hf) as [t2 [Hg2 [Hrel Hnr]]]. exists t2. split; [exact Hg2|]. split; [exact Hrel|].
              apply nat_in_false. intros [E' | Hin]; [congruence|]. apply nat_in_In in Hin. congruence.
           ++ intros y Ey. apply Nat.eqb_eq in Ey. rewrite Ey, Htid. apply negb_true_iff, Nat.eqb_neq. exact Hmn.
    + intros m t1. unfold g_rt. cbn [g_rts find r_id rt_of_resp].
      destruct (Nat.eqb (S (next s)) m) eqn:E; [apply Nat.eqb_eq in E; lia|].
      intro Hg. apply Srb in Hg. lia.
    + intros m [<- | Hin]; [lia|]. apply Srot in Hin. lia.
    + intros t1 [<- | Hin]; [exact Haud | apply filter_In in Hin as [Hin _]; now apply Saud].
  - (* refresh grant withdrawn *)
    split; [reflexivity|]. split; [reflexivity|]. cbn [ledger_step].
    constructor; cbn [g_reqs g_codes g_used g_rts g_rot g_norefresh reqs codes rtoks next ncode norefresh]; try assumption.
    now rewrite Snr.
  - (* all grants withdrawn *)
    split; [reflexivity|]. split; [reflexivity|]. cbn [ledger_step].
    constructor; cbn [g_reqs g_codes g_used g_rts g_rot g_norefresh reqs codes rtoks next ncode norefresh]; try assumption.
    now rewrite Snr.
  - (* a refresh token revoked / expired *)
    split; [reflexivity|]. split; [reflexivity|]. cbn [ledger_step].
    constructor; cbn [g_reqs g_codes g_used g_rts g_rot g_norefresh reqs codes rtoks next ncode norefresh]; try assumption.
    + intros m t Hf. unfold find_rt in Hf. cbn [rtoks] in Hf.
      destruct (Nat.eq_dec m nrev) as [-> | Hne].
      { rewrite find_filter_drop in Hf; [discriminate|]. intros y Ey. apply Nat.eqb_eq in Ey. now rewrite Ey, Nat.eqb_refl. }
      rewrite find_filter_keep in Hf.
      * destruct (Srts _ _ Hf) as [t2 [Hg2 [Hrel Hnr]]]. exists t2. split; [exact Hg2|]. split; [exact Hrel|].
        destruct (g_rt g nrev); [|exact Hnr]. apply nat_in_false. intros [E | Hin]; [congruence|].
        apply nat_in_In in Hin. congruence.
      * intros y Ey. apply Nat.eqb_eq in Ey. rewrite Ey. apply negb_true_iff, Nat.eqb_neq. exact Hne.
    + intros m Hin. destruct (g_rt g nrev) eqn:Hg; [|now apply Srot].
      destruct Hin as [<- | Hin]; [eapply Srb; eauto | now apply Srot].
    + intros t Hin. apply filter_In in Hin as [Hin _]. now apply Saud.
Qed.

(* ---- whole histories ---- *)
Fixpoint run (s : st) (ops : list (router * op)) : list out :=
  match ops with
  | [] => []
  | (r, o) :: ops' => let (s', x) := step H cf r s o in x :: run s' ops'
  end.

Lemma fold_outs ops : forall hs,
  map e_out (fst (fold_left (exec1 H cf) ops hs)) = map e_out (fst hs) ++ run (snd hs) ops.
Proof.
  induction ops as [|[r o] ops IH]; intros [h s]; cbn [fold_left run fst snd].
  - now rewrite app_nil_r.
  - rewrite IH. unfold exec1. destruct (step H cf r s o) as [s1 x]. cbn [fst snd].
    rewrite map_app, <- app_assoc. reflexivity.
Qed.

Lemma outs_run ops : outs H cf ops = run init ops.
Proof. unfold outs, exec, exec_from. now rewrite fold_outs. Qed.

Lemma check_run ops : forall h s g, reach H cf h s -> Sim (grant_aud cf) g s ->
  check (c04_ok H cf) g ops (run s ops) = true /\ check (c07_ok cf) g ops (run s ops) = true.
Proof.
  induction ops as [|[r o] ops IH]; intros h s g Hr Hsim; cbn [run check]; [auto|].
  destruct (step H cf r s o) as [s1 x] eqn:Hs. cbn [check snd].
  pose proof (reach_inv H cf _ _ Hr) as Hinv.
  assert (Hdone : forall c n, In (c, n) (codes s) -> exists q, find_req s n = Some q /\ q_done q = true).
  { intros c n Hin. destruct (i_codes _ _ _ Hinv _ _ Hin) as [_ [Hq _]]. exact Hq. }
  destruct (sim_step g s o s1 x Hsim Hdone (step_trans H cf _ _ _ _ _ Hs)) as [H4 [H7 Hsim']].
  destruct (IH _ s1 _ (reach_snoc H cf _ _ _ _ _ _ Hr Hs) Hsim') as [I4 I7].
  rewrite H4, H7, I4, I7. auto.
Qed.

Lemma c04_spec_holds ops : check (c04_ok H cf) ledger0 ops (outs H cf ops) = true.
Proof. rewrite outs_run. eapply check_run; [constructor | apply sim_init]. Qed.

Lemma c07_spec_holds ops : check (c07_ok cf) ledger0 ops (outs H cf ops) = true.
Proof. rewrite outs_run. eapply check_run; [constructor | apply sim_init]. Qed.

End S.
