(* C01: proofs about the option list -> configuration step of
   rp.NewIDTokenVerifier (C01_Options) and about the accessors of the
   returned claims.  Statements are re-exported by coq/props/C01.v. *)
From OIDC Require Import Lib Base64 C02_Jws C01_Verifier C02_Ground C01_Options C01_spec.

(* ---------- last_of: the last option naming a setting, else the default ---------- *)
Lemma first_some_app : forall A (f : vopt -> option A) a b,
  first_some f (a ++ b) = match first_some f a with Some x => Some x | None => first_some f b end.
Proof.
  intros A f a b. induction a as [|o a IH]; cbn; [reflexivity|].
  destruct (f o); [reflexivity | exact IH].
Qed.

Lemma last_of_app : forall A (f : vopt -> option A) a b d,
  last_of f (a ++ b) d = last_of f b (last_of f a d).
Proof.
  intros A f a b d. unfold last_of. rewrite rev_app_distr, first_some_app.
  destruct (first_some f (rev b)); reflexivity.
Qed.

Lemma last_of_nil : forall A (f : vopt -> option A) d, last_of f [] d = d.
Proof. reflexivity. Qed.

Lemma last_of_one : forall A (f : vopt -> option A) o d,
  last_of f [o] d = match f o with Some a => a | None => d end.
Proof. intros A f o d. unfold last_of. cbn. destruct (f o); reflexivity. Qed.

Lemma last_of_cons : forall A (f : vopt -> option A) o l d,
  last_of f (o :: l) d = last_of f l (match f o with Some a => a | None => d end).
Proof. intros A f o l d. change (o :: l) with ([o] ++ l). now rewrite last_of_app, last_of_one. Qed.

Lemma last_of_snoc : forall A (f : vopt -> option A) l o d,
  last_of f (l ++ [o]) d = match f o with Some a => a | None => last_of f l d end.
Proof. intros A f l o d. now rewrite last_of_app, last_of_one. Qed.

(* ---------- the loop over the options computes the documented configuration ---------- *)
Lemma verifier_eta : forall v,
  v = mkVerifier (v_issuer v) (v_client v) (v_offset v) (v_max_iat v) (v_max_age v) (v_nonce v) (v_acr v) (v_algs v).
Proof. now intros []. Qed.

Theorem options_configured : forall issuer client opts,
  new_id_token_verifier issuer client opts = configured issuer client opts.
Proof.
  intros issuer client opts. unfold new_id_token_verifier.
  induction opts as [|o l IH] using rev_ind; [reflexivity|].
  rewrite fold_left_app. cbn [fold_left]. rewrite IH. unfold configured.
  rewrite !last_of_snoc. destruct o; reflexivity.
Qed.

Theorem options_default : forall issuer client,
  new_id_token_verifier issuer client [] = mkVerifier issuer client ns 0 0 (Some "") None [].
Proof. reflexivity. Qed.

(* issuer and client id are never touched by an option *)
Theorem options_keep_identity : forall issuer client opts,
  v_issuer (new_id_token_verifier issuer client opts) = issuer
  /\ v_client (new_id_token_verifier issuer client opts) = client.
Proof. intros. now rewrite options_configured. Qed.

(* each option sets exactly its own field and leaves all the others as they were *)
Theorem option_sets_own_field : forall v o,
  let v' := apply_opt v o in
  v_issuer v' = v_issuer v /\ v_client v' = v_client v
  /\ v_offset v' = match o with WithIssuedAtOffset d => d | _ => v_offset v end
  /\ v_max_iat v' = match o with WithIssuedAtMaxAge d => d | _ => v_max_iat v end
  /\ v_nonce v' = match o with WithNonce n => n | _ => v_nonce v end
  /\ v_acr v' = match o with WithACRVerifier l => l | _ => v_acr v end
  /\ v_max_age v' = match o with WithAuthTimeMaxAge d => d | _ => v_max_age v end
  /\ v_algs v' = match o with WithSupportedSigningAlgorithms l => l | _ => v_algs v end.
Proof. intros v o. destruct o; cbn; repeat split; reflexivity. Qed.

(* selectors and kinds *)
Lemma kind_sel : forall o1 o2, opt_kind o1 = opt_kind o2 ->
  (sel_offset o2 = None -> sel_offset o1 = None) /\ (sel_max_iat o2 = None -> sel_max_iat o1 = None)
  /\ (sel_nonce o2 = None -> sel_nonce o1 = None) /\ (sel_acr o2 = None -> sel_acr o1 = None)
  /\ (sel_max_age o2 = None -> sel_max_age o1 = None) /\ (sel_algs o2 = None -> sel_algs o1 = None).
Proof. intros [] [] K; try discriminate K; cbn; repeat split; intro; congruence. Qed.

Lemma last_of_shadowed : forall A (f : vopt -> option A) l1 o1 l2 o2 l3 d,
  (f o2 = None -> f o1 = None) ->
  last_of f (l1 ++ o1 :: l2 ++ o2 :: l3) d = last_of f (l1 ++ l2 ++ o2 :: l3) d.
Proof.
  intros A f l1 o1 l2 o2 l3 d Hs.
  rewrite !last_of_app, !last_of_cons, !last_of_app, !last_of_cons.
  destruct (f o2) as [a|]; [reflexivity|]. now rewrite (Hs eq_refl).
Qed.

(* last one wins: an option followed (anywhere later) by an option for the
   same field has no effect at all *)
Theorem options_last_wins : forall issuer client l1 o1 l2 o2 l3,
  opt_kind o1 = opt_kind o2 ->
  new_id_token_verifier issuer client (l1 ++ o1 :: l2 ++ o2 :: l3)
  = new_id_token_verifier issuer client (l1 ++ l2 ++ o2 :: l3).
Proof.
  intros issuer client l1 o1 l2 o2 l3 K. rewrite !options_configured. unfold configured.
  destruct (kind_sel _ _ K) as (K1 & K2 & K3 & K4 & K5 & K6).
  now rewrite !(last_of_shadowed _ _ l1 o1 l2 o2 l3) by assumption.
Qed.

Lemma last_of_swap : forall A (f : vopt -> option A) l1 o1 o2 l2 d,
  f o1 = None \/ f o2 = None ->
  last_of f (l1 ++ o1 :: o2 :: l2) d = last_of f (l1 ++ o2 :: o1 :: l2) d.
Proof.
  intros A f l1 o1 o2 l2 d Hs. rewrite !last_of_app, !last_of_cons.
  destruct Hs as [Hs|Hs]; rewrite Hs; destruct (f o1), (f o2); try reflexivity; discriminate.
Qed.

Lemma kind_sel_diff : forall o1 o2, opt_kind o1 <> opt_kind o2 ->
  (sel_offset o1 = None \/ sel_offset o2 = None) /\ (sel_max_iat o1 = None \/ sel_max_iat o2 = None)
  /\ (sel_nonce o1 = None \/ sel_nonce o2 = None) /\ (sel_acr o1 = None \/ sel_acr o2 = None)
  /\ (sel_max_age o1 = None \/ sel_max_age o2 = None) /\ (sel_algs o1 = None \/ sel_algs o2 = None).
Proof.
  intros [] [] K; try (exfalso; apply K; reflexivity); cbn;
    repeat split; try (left; reflexivity); try (right; reflexivity).
Qed.

(* order between options for different fields does not matter *)
Theorem options_order_insensitive : forall issuer client l1 o1 o2 l2,
  opt_kind o1 <> opt_kind o2 ->
  new_id_token_verifier issuer client (l1 ++ o1 :: o2 :: l2)
  = new_id_token_verifier issuer client (l1 ++ o2 :: o1 :: l2).
Proof.
  intros issuer client l1 o1 o2 l2 K. rewrite !options_configured. unfold configured.
  destruct (kind_sel_diff _ _ K) as (K1 & K2 & K3 & K4 & K5 & K6).
  now rewrite !(last_of_swap _ _ l1 o1 o2 l2) by assumption.
Qed.

(* the setting an option list ends up with, when the last option of a kind is known *)
Lemma first_some_none : forall A (f : vopt -> option A) l,
  (forall o, In o l -> f o = None) -> first_some f l = None.
Proof.
  intros A f l Hn. induction l as [|o l IH]; [reflexivity|]. cbn.
  rewrite (Hn o (or_introl eq_refl)). apply IH. intros o' Ho. apply Hn. now right.
Qed.

Lemma last_of_decided : forall A (f : vopt -> option A) l1 o l2 d a,
  f o = Some a -> (forall o', In o' l2 -> f o' = None) ->
  last_of f (l1 ++ o :: l2) d = a.
Proof.
  intros A f l1 o l2 d a Ho Hn. rewrite last_of_app, last_of_cons, Ho.
  unfold last_of. rewrite first_some_none; [reflexivity|].
  intros o' Hi. apply Hn. now apply in_rev.
Qed.

Theorem options_max_age : forall issuer client l1 d l2,
  (forall o, In o l2 -> opt_kind o <> KMaxAge) ->
  v_max_age (new_id_token_verifier issuer client (l1 ++ WithAuthTimeMaxAge d :: l2)) = d.
Proof.
  intros issuer client l1 d l2 Hn. rewrite options_configured. cbn [configured v_max_age].
  apply last_of_decided; [reflexivity|]. intros o Ho. specialize (Hn o Ho).
  destruct o; try reflexivity. exfalso. now apply Hn.
Qed.

Theorem options_max_iat : forall issuer client l1 d l2,
  (forall o, In o l2 -> opt_kind o <> KMaxIat) ->
  v_max_iat (new_id_token_verifier issuer client (l1 ++ WithIssuedAtMaxAge d :: l2)) = d.
Proof.
  intros issuer client l1 d l2 Hn. rewrite options_configured. cbn [configured v_max_iat].
  apply last_of_decided; [reflexivity|]. intros o Ho. specialize (Hn o Ho).
  destruct o; try reflexivity. exfalso. now apply Hn.
Qed.

Theorem options_offset : forall issuer client l1 d l2,
  (forall o, In o l2 -> opt_kind o <> KOffset) ->
  v_offset (new_id_token_verifier issuer client (l1 ++ WithIssuedAtOffset d :: l2)) = d.
Proof.
  intros issuer client l1 d l2 Hn. rewrite options_configured. cbn [configured v_offset].
  apply last_of_decided; [reflexivity|]. intros o Ho. specialize (Hn o Ho).
  destruct o; try reflexivity. exfalso. now apply Hn.
Qed.

Theorem options_nonce : forall issuer client l1 n l2,
  (forall o, In o l2 -> opt_kind o <> KNonce) ->
  v_nonce (new_id_token_verifier issuer client (l1 ++ WithNonce n :: l2)) = n.
Proof.
  intros issuer client l1 n l2 Hn. rewrite options_configured. cbn [configured v_nonce].
  apply last_of_decided; [reflexivity|]. intros o Ho. specialize (Hn o Ho).
  destruct o; try reflexivity. exfalso. now apply Hn.
Qed.

Theorem options_acr : forall issuer client l1 a l2,
  (forall o, In o l2 -> opt_kind o <> KAcr) ->
  v_acr (new_id_token_verifier issuer client (l1 ++ WithACRVerifier a :: l2)) = a.
Proof.
  intros issuer client l1 a l2 Hn. rewrite options_configured. cbn [configured v_acr].
  apply last_of_decided; [reflexivity|]. intros o Ho. specialize (Hn o Ho).
  destruct o; try reflexivity. exfalso. now apply Hn.
Qed.

Theorem options_algs : forall issuer client l1 a l2,
  (forall o, In o l2 -> opt_kind o <> KAlgs) ->
  v_algs (new_id_token_verifier issuer client (l1 ++ WithSupportedSigningAlgorithms a :: l2)) = a.
Proof.
  intros issuer client l1 a l2 Hn. rewrite options_configured. cbn [configured v_algs].
  apply last_of_decided; [reflexivity|]. intros o Ho. specialize (Hn o Ho).
  destruct o; try reflexivity. exfalso. now apply Hn.
Qed.

(* ---------- reading the configuration back ---------- *)
Lemma seqb_refl' : forall s, (s =s s) = true.
Proof. intro s. apply String.eqb_refl. Qed.

Lemma str_list_eqb_refl : forall l, list_eqb String.eqb l l = true.
Proof. intro l. apply (list_eqb_spec String.eqb String.eqb_eq). reflexivity. Qed.

Lemma bool_list_eqb_refl : forall l, list_eqb Bool.eqb l l = true.
Proof. intro l. apply (list_eqb_spec Bool.eqb). { intros x y. apply Bool.eqb_true_iff. } reflexivity. Qed.

Lemma cfg_reported_observe : forall v probes, cfg_reported v probes (observe_cfg v probes) = true.
Proof.
  intros v probes. unfold cfg_reported, observe_cfg. cbn.
  rewrite !seqb_refl', !Z.eqb_refl, str_list_eqb_refl. cbn.
  destruct (v_nonce v) as [n|]; cbn; [rewrite seqb_refl'|]; cbn;
    (destruct (v_acr v) as [l|]; [now rewrite bool_list_eqb_refl | reflexivity]).
Qed.

(* ---------- accessors ---------- *)
Lemma as_time_unix : forall s, gt_unix (as_time s) = if Z.eqb s 0 then zero_unix else s.
Proof.
  intro s. unfold as_time, instant. cbn [gt_unix].
  destruct (Z.eqb s 0); apply Z.div_mul; unfold ns; lia.
Qed.

Lemma as_time_zero : forall s, gt_zero (as_time s) = is_zero_time s.
Proof. reflexivity. Qed.

Lemma time_reported_as_time : forall s, time_reported s (as_time s) = true.
Proof.
  intro s. unfold time_reported. rewrite as_time_unix. destruct (Z.eqb s 0) eqn:E.
  - apply Z.eqb_eq in E. subst s. reflexivity.
  - apply Z.eqb_refl.
Qed.

Lemma opt_str_eqb_refl : forall o, option_eqb String.eqb o o = true.
Proof. intros [s|]; cbn; [apply seqb_refl' | reflexivity]. Qed.

Theorem getters_report_getters : forall c alg p, getters_report c alg p (getters c alg p) = true.
Proof.
  intros c alg p. unfold getters_report, getters. cbn.
  rewrite !seqb_refl', !time_reported_as_time, !str_list_eqb_refl, !Bool.eqb_reflx,
    opt_str_eqb_refl, Z.eqb_refl, N.eqb_refl. reflexivity.
Qed.

(* the accessors, claim by claim *)
Theorem getters_strings : forall c alg p,
  let g := getters c alg p in
  g_iss g = c_iss c /\ g_sub g = c_sub c /\ g_aud g = c_aud c /\ g_nonce g = c_nonce c
  /\ g_acr g = c_acr c /\ g_azp g = c_azp c /\ g_alg g = alg /\ g_at_hash g = c_at_hash c
  /\ ui_sub g = c_sub c /\ ui_ext g = c_extra c
  /\ ui_name g = p_name p /\ ui_given g = p_given p /\ ui_family g = p_family p
  /\ ui_username g = p_username p /\ ui_email g = p_email p /\ ui_email_verified g = p_email_verified p
  /\ ui_phone g = p_phone p /\ ui_phone_verified g = p_phone_verified p
  /\ ui_address g = p_address p /\ ui_updated_at g = p_updated_at p /\ ui_members g = p_members p.
Proof. intros c alg p. cbn. repeat split; reflexivity. Qed.

Theorem getters_times : forall c alg p,
  let g := getters c alg p in
  (c_exp c <> 0%Z -> gt_unix (g_exp g) = c_exp c) /\ (c_exp c = 0%Z -> gt_zero (g_exp g) = true)
  /\ (c_iat c <> 0%Z -> gt_unix (g_iat g) = c_iat c) /\ (c_iat c = 0%Z -> gt_zero (g_iat g) = true)
  /\ (c_auth_time c <> 0%Z -> gt_unix (g_auth_time g) = c_auth_time c)
  /\ (c_auth_time c = 0%Z -> gt_zero (g_auth_time g) = true).
Proof.
  intros c alg p. unfold getters. cbn [g_exp g_iat g_auth_time].
  repeat split; intro E;
    first [ rewrite as_time_unix; apply Z.eqb_neq in E; now rewrite E
          | rewrite E; reflexivity ].
Qed.
