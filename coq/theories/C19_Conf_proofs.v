(* C19 (round 11): proofs about the document of an arbitrary op.Configuration (C19_Conf.v). *)
From OIDC Require Import Lib C19_Discovery C19_Conf C19_spec.

Lemma sl_refl (l : list string) : list_eqb String.eqb l l = true.
Proof. apply (list_eqb_spec String.eqb String.eqb_eq). reflexivity. Qed.

Lemma app_str_assoc (a b c : string) : ((a ++ b) ++ c = a ++ (b ++ c))%string.
Proof. induction a as [|x a IH]; cbn; [reflexivity | now rewrite IH]. Qed.

Lemma app_str_cons_nonempty (a : string) x b : (a ++ String x b)%string <> EmptyString.
Proof. destruct a; cbn; discriminate. Qed.

(* ------------------------------------------------------------------ endpoints *)

Lemma want_ep_abs iss e : want_ep iss e = ep_abs iss e.
Proof. destruct e as [|p|p u]; cbn; try reflexivity. unfold ep_abs. cbn. destruct (is_empty u); reflexivity. Qed.

Lemma spec_addr_model iss es : spec_addr iss es (map (ep_abs iss) es) = true.
Proof.
  induction es as [|e es IH]; cbn [map spec_addr]; [reflexivity|].
  now rewrite want_ep_abs, String.eqb_refl, IH.
Qed.

Lemma spec_conf_eps_model v cf :
  spec_conf_eps (k_issuer cf) (eps9_list (truth_eps v cf)) (cd_endpoints v cf) = true.
Proof.
  unfold spec_conf_eps, cd_endpoints, eps9_list.
  destruct v as [|es]; cbn [truth_eps map firstn skipn app spec_addr];
    rewrite !want_ep_abs, !String.eqb_refl; cbn [andb is_empty]; rewrite ?orb_true_r; reflexivity.
Qed.

(* an endpoint is absent from the document exactly when the configuration answers nil *)
Lemma want_ep_empty_iff iss e : want_ep iss e = EmptyString <-> e = EpNil.
Proof.
  split; [|intros ->; reflexivity].
  destruct e as [|p|p u]; cbn; intro H; try reflexivity; exfalso.
  - unfold absolute, relative in H. exact (app_str_cons_nonempty _ _ _ H).
  - destruct u; cbn in H; [|discriminate].
    unfold absolute, relative in H. exact (app_str_cons_nonempty _ _ _ H).
Qed.

Lemma conf_endpoints v cf id :
  d_issuer (conf_doc v cf id) = k_issuer cf
  /\ firstn 8 (d_endpoints (conf_doc v cf id)) = map (want_ep (k_issuer cf)) (firstn 8 (eps9_list (truth_eps v cf))).
Proof.
  split; [reflexivity|].
  destruct v as [|es]; cbn [conf_doc d_endpoints cd_endpoints eps9_list truth_eps map firstn app];
    now rewrite !want_ep_abs.
Qed.

(* ------------------------------------------------------------------ lists *)

Lemma conf_grants_exact v cf id :
  let g := d_grants (conf_doc v cf id) in
  string_in s_code g = true /\ string_in s_implicit g = true
  /\ string_in s_refresh g = k_refresh cf /\ string_in s_cc g = k_cc cf /\ string_in s_te g = k_te cf
  /\ string_in s_bearer g = k_bearer cf /\ string_in s_device g = k_dev cf
  /\ only known_grants g = true.
Proof.
  cbn [conf_doc d_grants]. unfold cd_grants, opt.
  destruct (k_refresh cf), (k_cc cf), (k_te cf), (k_bearer cf), (k_dev cf); repeat split; reflexivity.
Qed.

Lemma conf_methods_exact v cf id :
  let d := conf_doc v cf id in
  string_in m_post (d_token_methods d) = k_post cf /\ string_in m_pkjwt (d_token_methods d) = k_pkjwt cf
  /\ string_in m_post (d_revoke_methods d) = k_post cf /\ string_in m_pkjwt (d_revoke_methods d) = k_pkjwt cf
  /\ string_in m_post (d_intro_methods d) = false /\ string_in m_pkjwt (d_intro_methods d) = k_pkjwt cf
  /\ only known_methods (d_token_methods d) = true /\ only known_methods (d_revoke_methods d) = true
  /\ only known_methods (d_intro_methods d) = true.
Proof.
  cbn [conf_doc d_token_methods d_revoke_methods d_intro_methods].
  unfold cd_token_methods, cd_revoke_methods, cd_intro_methods, opt.
  destruct (k_post cf), (k_pkjwt cf); repeat split; reflexivity.
Qed.

Lemma conf_algs_exact v cf id :
  let d := conf_doc v cf id in
  d_token_algs d = (if k_pkjwt cf then k_token_algs cf else [])
  /\ d_intro_algs d = (if k_ipk cf then k_intro_algs cf else [])
  /\ d_revoke_algs d = (if k_rpk cf then k_revoke_algs cf else [])
  /\ d_reqobj_algs d = (if k_reqobj cf then k_reqobj_algs cf else [])
  /\ d_pkce d = (if k_s256 cf then ["S256"] else [])
  /\ d_reqparam d = k_reqobj cf /\ d_bcl d = k_bcl cf /\ d_bcls d = k_bcls cf
  /\ d_locales d = k_locales cf
  /\ (forall l, k_sigalgs cf = Some l -> d_id_algs d = l).
Proof.
  cbn [conf_doc d_token_algs d_intro_algs d_revoke_algs d_reqobj_algs d_pkce d_reqparam d_bcl d_bcls d_locales d_id_algs].
  repeat split. intros l H. unfold cd_id_algs. now rewrite H.
Qed.

(* nothing of a disabled feature is in the document *)
Lemma conf_no_leak v cf id :
  let d := conf_doc v cf id in
  (k_pkjwt cf = false -> d_token_algs d = [] /\ string_in m_pkjwt (d_token_methods d) = false)
  /\ (k_ipk cf = false -> d_intro_algs d = [])
  /\ (k_rpk cf = false -> d_revoke_algs d = [])
  /\ (k_reqobj cf = false -> d_reqobj_algs d = [] /\ d_reqparam d = false)
  /\ (k_s256 cf = false -> d_pkce d = [])
  /\ (k_post cf = false -> string_in m_post (d_token_methods d) = false /\ string_in m_post (d_revoke_methods d) = false).
Proof.
  cbn [conf_doc d_token_algs d_intro_algs d_revoke_algs d_reqobj_algs d_pkce d_reqparam d_token_methods d_revoke_methods].
  unfold cd_token_algs, cd_intro_algs, cd_revoke_algs, cd_reqobj_algs, cd_pkce, cd_token_methods, cd_revoke_methods, gated, opt.
  repeat match goal with |- _ /\ _ => split end; intro E; rewrite ?E;
    repeat match goal with |- _ /\ _ => split end; try reflexivity;
    destruct (k_post cf); try discriminate; destruct (k_pkjwt cf); try discriminate; reflexivity.
Qed.

(* ------------------------------------------------------------------ the callback URL *)

(* the login callback of a path endpoint = issuer (one trailing slash removed) + the callback ROUTE + ?id= + request id *)
Lemma callback_route iss p id :
  callback_url iss (EpPath p) id = (trim_suffix_slash iss ++ (relative p ++ callback_suffix) ++ "?id=" ++ id)%string.
Proof. unfold callback_url, ep_abs. cbn [ep_absolute]. unfold absolute. now rewrite !app_str_assoc. Qed.

(* ... and that route is one both routers register *)
Lemma callback_route_served r c p :
  e_auth (c_eps c) = EpPath p -> served r c (relative p ++ callback_suffix)%string = true.
Proof.
  intro E. unfold served, routes.
  assert (H : existsb (fun e => String.eqb (snd e) (relative p ++ callback_suffix)%string) (fixed_routes c) = true).
  { unfold fixed_routes. rewrite E. cbn [existsb snd ep_relative_or_empty ep_route].
    rewrite String.eqb_refl. now rewrite !orb_true_r. }
  destruct r; rewrite existsb_app, H; reflexivity.
Qed.

Lemma callback_spec iss p id :
  String.eqb (callback_url iss (EpPath p) id) (absolute iss p ++ "/callback?id=" ++ id)%string = true.
Proof. apply String.eqb_eq. reflexivity. Qed.

(* ------------------------------------------------------------------ spec on the model *)

Lemma spec_conf_model v cf id : spec_conf v cf id (conf_doc v cf id) = true.
Proof.
  unfold spec_conf.
  destruct (conf_grants_exact v cf id) as (_ & _ & G1 & G2 & G3 & G4 & G5 & G6).
  cbn zeta in G1, G2, G3, G4, G5, G6.
  unfold mem_iff at 1 2 3 4 5. rewrite G1, G2, G3, G4, G5, G6.
  cbn [conf_doc d_issuer d_endpoints d_pkce d_reqparam d_callback].
  rewrite String.eqb_refl, spec_conf_eps_model, !eqb_reflx.
  assert (S1 : mem_iff "S256" (cd_pkce cf) (k_s256 cf) = true)
    by (unfold mem_iff, cd_pkce, opt; destruct (k_s256 cf); reflexivity).
  assert (S2 : only ["S256"] (cd_pkce cf) = true)
    by (unfold cd_pkce, opt; destruct (k_s256 cf); reflexivity).
  assert (C : match n_auth (truth_eps v cf) with
              | EpPath p => String.eqb (callback_url (k_issuer cf) (auth_ep v cf) id)
                                       (absolute (k_issuer cf) p ++ "/callback?id=" ++ id)%string
              | _ => true end = true).
  { assert (E : auth_ep v cf = n_auth (truth_eps v cf)) by (destruct v; reflexivity).
    rewrite E. destruct (n_auth (truth_eps v cf)); try reflexivity. apply callback_spec. }
  rewrite C, S1, S2. reflexivity.
Qed.

Lemma conf_spec_model v cf id : spec (IConf v cf id) (model (IConf v cf id)) = true.
Proof. cbn [spec model]. apply spec_conf_model. Qed.

(* the library's own Provider shape: AuthMethodPrivateKeyJWT off, the introspection / revocation flags hard-wired on *)
Definition conf_provider_like : conf :=
  mkConf "https://op.example.com"
         (mkEps9 (EpPath "/authorize") (EpPath "/oauth/token") (EpPath "/oauth/introspect") (EpPath "/userinfo")
                 (EpPath "/revoke") (EpPath "/end_session") (EpPath "/keys") (EpPath "/device_authorization") EpNil)
         true true false true false true false false true true false false false
         ["RS256"] ["RS256"] ["RS256"] ["RS256"] (Some ["RS256"]) [].

(* OBSERVATION about the model (outside the property text): the method lists of the introspection / revocation
   endpoint follow the token endpoint's private_key_jwt flag, their algorithm lists the endpoint's own flag, so
   algorithms can be listed for a method that is not *)
Lemma conf_alg_lists_follow_endpoint_flags_observation :
  (forall v cf id, k_pkjwt cf = false -> k_rpk cf = true ->
     string_in m_pkjwt (d_revoke_methods (conf_doc v cf id)) = false
     /\ d_revoke_algs (conf_doc v cf id) = k_revoke_algs cf)
  /\ (forall v cf id, k_pkjwt cf = false -> k_ipk cf = true ->
     string_in m_pkjwt (d_intro_methods (conf_doc v cf id)) = false
     /\ d_intro_algs (conf_doc v cf id) = k_intro_algs cf)
  /\ d_revoke_algs (conf_doc V1 conf_provider_like "req1") = ["RS256"].
Proof.
  repeat match goal with |- _ /\ _ => split end; try reflexivity; intros v cf id H1 H2;
    cbn [conf_doc d_revoke_methods d_revoke_algs d_intro_methods d_intro_algs];
    unfold cd_revoke_methods, cd_intro_methods, cd_revoke_algs, cd_intro_algs, gated, opt; rewrite H1, H2;
    (split; [destruct (k_post cf); reflexivity | reflexivity]).
Qed.

Example conf_nonvacuous :
  let cf := mkConf "https://op.example.com/oidc/"
         (mkEps9 (EpPath "auth") (EpURL "/token" "https://edge.example.net/token") EpNil (EpPath "/userinfo")
                 (EpPath "/revoke") (EpPath "/end_session") (EpPath "/keys") EpNil EpNil)
         true true true true false true false false true true true false false
         ["RS256"] ["ES256"] [] ["RS256"] (Some ["RS256"]) ["en"] in
  spec (IConf V1 cf "req1") (model (IConf V1 cf "req1")) = true
  /\ d_endpoints (conf_doc V1 cf "req1")
     = ["https://op.example.com/oidc/auth"; "https://edge.example.net/token"; ""; "https://op.example.com/oidc/userinfo";
        "https://op.example.com/oidc/revoke"; "https://op.example.com/oidc/end_session"; "https://op.example.com/oidc/keys"; ""; ""]
  /\ d_callback (conf_doc V1 cf "req1") = "https://op.example.com/oidc/auth/callback?id=req1"
  /\ d_intro_algs (conf_doc V1 cf "req1") = ["ES256"].
Proof. repeat split; vm_compute; reflexivity. Qed.
