(* C04 / C07: the property predicates as history checks (DESIGN App. E).
   A ledger is built from what was OBSERVED (request ids the provider handed out,
   logins the test side performed, codes seen in callback redirects, refresh
   tokens seen in token responses); every 200 at the token endpoint must be
   justified by it exactly as the property text says.  The machine of C04_OP
   (step / exec) is never consulted here; only its data records are reused. *)
From OIDC Require Import Lib C04_OP.

Record ledger := {
  g_reqs : list areq;            (* authorization requests, as made and as logged in *)
  g_codes : list (nat * nat);    (* code -> request, from callback redirects *)
  g_used : list nat;             (* codes that already yielded tokens *)
  g_rts : list rtok;             (* refresh tokens as issued (client, sub, aud, auth time, scope of the response) *)
  g_rot : list nat;              (* refresh tokens already exchanged *)
  g_norefresh : list string      (* clients whose refresh grant registration was withdrawn (test side) *)
}.
Definition ledger0 : ledger := {| g_reqs := []; g_codes := []; g_used := []; g_rts := []; g_rot := []; g_norefresh := [] |}.

Definition g_req (g : ledger) (n : nat) : option areq := find (fun q => Nat.eqb (q_id q) n) (g_reqs g).
Definition g_rt (g : ledger) (n : nat) : option rtok := find (fun t => Nat.eqb (r_id t) n) (g_rts g).
Definition nat_in (n : nat) (l : list nat) : bool := existsb (Nat.eqb n) l.

Definition mark_done (n : nat) (sub : string) (stamp : nat) (q : areq) : areq :=
  if Nat.eqb (q_id q) n then
    {| q_id := q_id q; q_client := q_client q; q_uri := q_uri q; q_scopes := q_scopes q;
       q_nonce := q_nonce q; q_chal := q_chal q; q_done := true; q_sub := sub; q_auth := stamp;
       q_extra := q_extra q |}
  else q.

(* What the authorization request asked for (OIDC Core 6.1): a parameter is taken from the signed
   Request Object when the object has that member, else from the query.  `scope` of the object
   counts only for an OpenID request (query scope has `openid`).  code_challenge and
   code_challenge_method are two parameters; a challenge for which neither place names a method is
   a plain one (RFC 7636 4.3). *)
Definition supersede {A} (present : A -> bool) (obj : option A) (query : A) : A :=
  match obj with Some v => if present v then v else query | None => query end.
Definition nonempty (v : string) : bool := negb (String.eqb v "").

Definition asked_uri (uri : string) (x : auth_extra) : string :=
  supersede nonempty (option_map ro_uri (x_ro x)) uri.
Definition asked_nonce (nonce : string) (x : auth_extra) : string :=
  supersede nonempty (option_map ro_nonce (x_ro x)) nonce.
Definition asked_scopes (scopes : list string) (x : auth_extra) : list string :=
  if string_in "openid" scopes
  then supersede (fun l => negb (is_nil l)) (option_map ro_scopes (x_ro x)) scopes
  else scopes.
Definition asked_chal (chal : option challenge) (x : auth_extra) : option challenge :=
  match x_ro x with
  | None => chal
  | Some ro =>
      let q_cc := match chal with Some c => snd c | None => "" end in
      let q_s256 := match chal with Some c => fst c | None => false end in
      let cc := supersede nonempty (Some (ro_cc ro)) q_cc in
      if nonempty cc then Some (match ro_cm ro with Some m => m | None => q_s256 end, cc) else None
  end.

Definition rt_of_resp (m : nat) (t : tokresp) : rtok :=
  {| r_id := m; r_client := t_azp t; r_sub := t_at_sub t; r_aud := t_aud t; r_auth := t_auth t; r_scopes := t_scope t |}.

Definition add_rt (g : ledger) (t : tokresp) : list rtok :=
  match t_rt t with Some m => rt_of_resp m t :: g_rts g | None => g_rts g end.

Definition ledger_step (g : ledger) (o : op) (x : out) : ledger :=
  match o, x with
  | Authorize cl uri sc nonce chal ax, OAuthz (Some n) =>
      {| g_reqs := {| q_id := n; q_client := cl; q_uri := asked_uri uri ax; q_scopes := asked_scopes sc ax;
                      q_nonce := asked_nonce nonce ax; q_chal := asked_chal chal ax;
                      q_done := false; q_sub := hinted_sub ax; q_auth := 0; q_extra := ax |} :: g_reqs g;
         g_codes := g_codes g; g_used := g_used g; g_rts := g_rts g; g_rot := g_rot g; g_norefresh := g_norefresh g |}
  | Login n sub stamp, OLogin true =>
      {| g_reqs := map (mark_done n sub stamp) (g_reqs g);
         g_codes := g_codes g; g_used := g_used g; g_rts := g_rts g; g_rot := g_rot g; g_norefresh := g_norefresh g |}
  | Callback n, OCode c =>
      {| g_reqs := g_reqs g; g_codes := (c, n) :: g_codes g; g_used := g_used g; g_rts := g_rts g; g_rot := g_rot g; g_norefresh := g_norefresh g |}
  | TokenCode _ _ _ code _ _, OTokens t =>
      {| g_reqs := g_reqs g; g_codes := g_codes g;
         g_used := match code with Some c => c :: g_used g | None => g_used g end;
         g_rts := add_rt g t; g_rot := g_rot g; g_norefresh := g_norefresh g |}
  | TokenRefresh _ _ rt _, OTokens t =>
      {| g_reqs := g_reqs g; g_codes := g_codes g; g_used := g_used g;
         g_rts := add_rt g t;
         (* the presented token is dead from now on - unless the response hands that very token out again
            (a storage that does not rotate) *)
         g_rot := match rt with
                  | Some n => if match t_rt t with Some m => Nat.eqb m n | None => false end
                              then g_rot g else n :: g_rot g
                  | None => g_rot g
                  end;
         g_norefresh := g_norefresh g |}
  | DropRefresh cl, ODone =>
      {| g_reqs := g_reqs g; g_codes := g_codes g; g_used := g_used g; g_rts := g_rts g; g_rot := g_rot g;
         g_norefresh := cl :: g_norefresh g |}
  | DropGrants cl, ODone =>
      {| g_reqs := g_reqs g; g_codes := g_codes g; g_used := g_used g; g_rts := g_rts g; g_rot := g_rot g;
         g_norefresh := cl :: ("*" ++ cl)%string :: g_norefresh g |}
  | RevokeRT n, ODone =>
      (* a token the storage revoked or let expire is dead (only tokens that were handed out count) *)
      {| g_reqs := g_reqs g; g_codes := g_codes g; g_used := g_used g; g_rts := g_rts g;
         g_rot := match g_rt g n with Some _ => n :: g_rot g | None => g_rot g end;
         g_norefresh := g_norefresh g |}
  | _, _ => g
  end.

(* Which identity a request puts forward, and with what proof.  A request may carry
   several (assertion, Basic header, form fields); the authenticated client is the one
   whose credential is verified: the assertion if there is one, else the Basic header,
   else the form fields.  [presented] = the (client_id, client_secret) pair that counts
   when there is no assertion. *)
Definition presented (cr : cred) : option (string * string) :=
  match cr_assert cr with
  | Some _ => None
  | None => Some (match cr_basic cr with Some p => p | None => (cr_id cr, cr_sec cr) end)
  end.

(* "authenticated as - or, for public clients, identifies as - client id" *)
Definition cred_proves (cf : cfg) (cr : cred) (id : string) : bool :=
  match find_client cf id with
  | None => false
  | Some c =>
      match c_auth c with
      | AM_None => match presented cr with Some (i, _) => String.eqb i id | None => false end
      | AM_PKJWT => match cr_assert cr with Some (Some i) => String.eqb i id | _ => false end
      | _ => match presented cr with
             | Some (i, s) => String.eqb i id && String.eqb s (c_secret c)
             | None => false
             end
      end
  end.

Definition client_public (cf : cfg) (id : string) : bool :=
  match find_client cf id with
  | Some c => match c_auth c with AM_None => true | _ => false end
  | None => false
  end.
Definition client_refresh (cf : cfg) (id : string) : bool :=
  match find_client cf id with Some c => c_refresh c | None => false end.

Definition strs_eqb := list_eqb String.eqb.

Section Spec.
Variable H : string -> string.
Variable cf : cfg.

Definition chal_ok (ch : challenge) (ver : string) : bool :=
  negb (String.eqb ver "") && String.eqb (if fst ch then H ver else ver) (snd ch).

(* the tokens of a code exchange carry subject, client, scopes and nonce of request q *)
Definition carries (q : areq) (t : tokresp) : bool :=
  String.eqb (t_sub t) (q_sub q)                                                (* id_token *)
  && String.eqb (t_at_sub t) (q_sub q)
  && String.eqb (t_azp t) (q_client q) && string_in (q_client q) (t_aud t)
  && strs_eqb (t_scope t) (q_scopes q) && String.eqb (t_nonce t) (q_nonce q)
  && match t_jwt t with
     | Some c => String.eqb c (q_client q)
     | None => true
     end.

(* ---- C04 ---- *)
Definition c04_ok (g : ledger) (o : op) (x : out) : bool :=
  match o, x with
  | _, OPanic | _, OOther => false
  | Callback n, OCode c =>
      (* a code only for a completed request, and a fresh one *)
      match g_req g n with
      | Some q => q_done q && match lookup c (g_codes g) with None => true | Some _ => false end
      | None => false
      end
  | TokenCode _ _ cr (Some c) uri ver, OTokens t =>
      match lookup c (g_codes g) with
      | None => false
      | Some n =>
          match g_req g n with
          | None => false
          | Some q =>
              negb (nat_in c (g_used g))
              && q_done q
              && cred_proves cf cr (q_client q)
              && String.eqb uri (q_uri q)
              && match q_chal q with
                 | Some ch => chal_ok ch ver
                 | None => negb (client_public cf (q_client q))
                 end
              && carries q t
          end
      end
  | TokenCode _ _ _ None _ _, OTokens _ => false
  | _, _ => true
  end.

(* ---- C07 ---- *)
Definition c07_ok (g : ledger) (o : op) (x : out) : bool :=
  match o, x with
  | _, OPanic | _, OOther => false
  | TokenRefresh _ cr (Some n) scopes, OTokens t =>
      match g_rt g n with
      | None => false
      | Some r =>
          (* not a dead token (replaced by a rotating storage, revoked, expired) *)
          negb (nat_in n (g_rot g))
          && f_refresh cf
          && cred_proves cf cr (r_client r)
          && client_refresh cf (r_client r) && negb (string_in (r_client r) (g_norefresh g))
          && subset scopes (r_scopes r)
          (* the new grant is what its owner asked for: the requested scopes, or - none requested -
             exactly the scopes the presented token was handed out with; nothing a refused request
             (of this or another client) did in between may show *)
          && strs_eqb (t_scope t) (match scopes with [] => r_scopes r | _ => scopes end)
          && match t_jwt t with Some c => String.eqb c (r_client r) | None => true end
          (* a JWT access token keeps the audience of the grant - exactly: nothing added, not even the
             client -; only a grant without audience is for the client itself *)
          && match t_jwt t with
             | Some _ => strs_eqb (t_at_aud t) (match grant_aud cf (r_client r) with [] => [r_client r] | l => l end)
             | None => true
             end
          (* the response carries the storage's refresh token: a new one (never seen before) from a
             rotating storage, the presented one from a storage that keeps it *)
          && match t_rt t with
             | Some m => if f_keep cf then Nat.eqb m n
                         else negb (Nat.eqb m n) && match g_rt g m with None => true | Some _ => false end
             | None => false
             end
          && String.eqb (t_sub t) (r_sub r)       (* the id_token keeps the subject, whatever the narrowed scope *)
          && String.eqb (t_at_sub t) (r_sub r)
          && strs_eqb (t_aud t) (r_aud r) && String.eqb (t_azp t) (r_client r)
          && Nat.eqb (t_auth t) (r_auth r)
      end
  | TokenRefresh _ _ None _, OTokens _ => false
  (* "on success the presented refresh token is handed to the storage for rotation and the response
     carries the storage's new refresh token": a request whose rotation the storage REFUSED (the op
     says so: the driver made Storage.CreateAccessAndRefreshTokens fail for its duration) is no
     success - no tokens of any kind for a refresh token the storage did not exchange *)
  | TokenRefreshRF _ _ _ _, OTokens _ => false
  | TokenRefresh _ _ (Some n) scopes, OErr _ e =>
      (* invalid_scope is the answer to a request that is NOT within the granted scopes *)
      if String.eqb e E_scope
      then match g_rt g n with Some r => negb (subset scopes (r_scopes r)) | None => true end
      else true
  | _, _ => true
  end.

Fixpoint check (ok : ledger -> op -> out -> bool) (g : ledger) (ops : list (router * op)) (xs : list out) : bool :=
  match ops, xs with
  | [], [] => true
  | o :: ops', x :: xs' => ok g (snd o) x && check ok (ledger_step g (snd o) x) ops' xs'
  | _, _ => false
  end.

End Spec.
