(* Proofs about C16_UserCode: format of user codes and device codes, for every
   random stream. *)
From OIDC Require Import Lib Base64 Base64_proofs C16_UserCode.

(* ---- crypto/rand.Int stays below its bound ------------------------------ *)
Lemma rand_int_loop_lt fuel m k b : forall l v rest,
  rand_int_loop fuel m k b l = Some (v, rest) -> (v < m)%N.
Proof.
  induction fuel as [|f IH]; intros l v rest H; cbn [rand_int_loop] in H; [discriminate|].
  destruct (take_n k l) as [[chunk r]|]; [|discriminate].
  destruct (N.ltb_spec (be_value (mask_first b (map N.of_nat chunk))) m) as [Hlt|Hge].
  - inversion H; subst; exact Hlt.
  - eapply IH; exact H.
Qed.

Lemma rand_int_lt m l v rest : (1 <= m)%N -> rand_int m l = Some (v, rest) -> (v < m)%N.
Proof.
  intros Hm H. unfold rand_int in H.
  destruct (N.size (m - 1) =? 0)%N.
  - inversion H; subst. lia.
  - eapply rand_int_loop_lt; exact H.
Qed.

(* ---- rune level: the loop produces exactly the stated layout ------------- *)
Lemma user_code_loop_layout charset dash : charset <> [] ->
  forall k i l ts,
  user_code_loop charset (N.of_nat (List.length charset)) dash k i l = Some ts ->
  exists rs, List.length rs = k /\ Forall (fun r => In r charset) rs /\ ts = layout dash i rs.
Proof.
  intros Hne. induction k as [|k IH]; intros i l ts H; cbn [user_code_loop] in H.
  - inversion H; subst. exists []. repeat split; constructor.
  - destruct (rand_int (N.of_nat (List.length charset)) l) as [[v rest]|] eqn:Hr; [|discriminate].
    destruct (user_code_loop charset (N.of_nat (List.length charset)) dash k (S i) rest) as [ts'|] eqn:Hl;
      [|discriminate].
    inversion H; subst; clear H.
    destruct (IH _ _ _ Hl) as [rs [Hlen [Hall Hts]]].
    assert (Hm : (1 <= N.of_nat (List.length charset))%N).
    { destruct charset; [congruence | cbn [List.length]; lia]. }
    pose proof (rand_int_lt _ _ _ _ Hm Hr) as Hv.
    exists (nth (N.to_nat v) charset "" :: rs). split; [cbn; lia|]. split.
    + constructor; [|exact Hall]. apply nth_In. lia.
    + cbn [layout]. now rewrite Hts.
Qed.

Lemma user_code_toks_layout charset n dash l ts :
  user_code_toks charset n dash l = Some ts ->
  charset <> [] /\ 1 <= n /\
  exists rs, List.length rs = n /\ Forall (fun r => In r charset) rs /\ ts = layout dash 0 rs.
Proof.
  unfold user_code_toks. intros H.
  destruct (Nat.eqb_spec (List.length charset) 0) as [E|E]; [discriminate|].
  destruct (Nat.eqb_spec n 0) as [E2|E2]; [discriminate|]. cbn [orb] in H.
  assert (Hne : charset <> []) by (intro; subst; now apply E).
  split; [exact Hne|]. split; [lia|]. eapply user_code_loop_layout; eauto.
Qed.

(* the runes of a layout are the runes; its dashes are only separators *)
Lemma filter_layout dash rs : forall i, filter is_rune (layout dash i rs) = map Rune rs.
Proof.
  induction rs as [|r rs IH]; intro i; cbn [layout map]; [reflexivity|].
  rewrite filter_app. unfold sep. destruct (dash_before dash i); cbn; now rewrite IH.
Qed.

(* no dash at all when the interval is 0 or not smaller than the length *)
Lemma layout_no_dash dash rs : forall i,
  dash = 0 \/ (1 <= i /\ i + List.length rs <= dash) \/ (i = 0 /\ List.length rs <= dash) ->
  layout dash i rs = map Rune rs.
Proof.
  induction rs as [|r rs IH]; intros i H; cbn [layout map]; [reflexivity|].
  cbn [List.length] in H.
  assert (Hs : sep dash i = []).
  { unfold sep, dash_before. destruct (Nat.eqb_spec dash 0) as [|Hd]; [reflexivity|].
    destruct (Nat.eqb_spec i 0) as [|Hi]; [reflexivity|]. cbn [negb andb].
    destruct (Nat.eqb_spec (i mod dash) 0) as [Hm|]; [|reflexivity].
    exfalso. assert (i < dash) by lia. rewrite Nat.mod_small in Hm by lia. lia. }
  rewrite Hs. cbn [app]. f_equal. apply IH.
  destruct H as [H|[H|H]]; [now left | right; left; lia | right; left; lia].
Qed.

(* ---- string level: the decidable format check accepts every layout ------- *)
Lemma strip_prefix_app p s : strip_prefix p (p ++ s)%string = Some s.
Proof.
  induction p as [|a p IH]; cbn; [reflexivity|]. now rewrite Ascii.eqb_refl.
Qed.

Lemma strip_prefix_some p : forall s x, strip_prefix p s = Some x -> s = (p ++ x)%string.
Proof.
  induction p as [|a p IH]; intros s x H; cbn in H.
  - now inversion H.
  - destruct s as [|b s]; [discriminate|].
    destruct (Ascii.eqb_spec a b) as [->|]; [|discriminate].
    cbn. f_equal. now apply IH.
Qed.

(* two prefixes of one string are comparable *)
Lemma prefixes_comparable a : forall b x y,
  (a ++ x)%string = (b ++ y)%string -> is_prefix a b = true \/ is_prefix b a = true.
Proof.
  induction a as [|c a IH]; intros b x y H.
  - left. reflexivity.
  - destruct b as [|d b]; [right; reflexivity|].
    cbn in H. inversion H; subst.
    destruct (IH _ _ _ H2) as [Hp|Hp]; [left|right]; unfold is_prefix in *; cbn;
      rewrite Ascii.eqb_refl; exact Hp.
Qed.

Lemma prefix_free_eq charset a b :
  prefix_free charset = true -> In a charset -> In b charset ->
  is_prefix a b = true -> a = b.
Proof.
  intros Hpf Ha Hb Hp. unfold prefix_free in Hpf.
  rewrite forallb_forall in Hpf. specialize (Hpf a Ha).
  rewrite forallb_forall in Hpf. specialize (Hpf b Hb).
  rewrite Hp in Hpf. cbn in Hpf. now apply String.eqb_eq.
Qed.

Lemma strip_rune_in charset : prefix_free charset = true ->
  forall cs, incl cs charset -> forall r rest, In r cs ->
  strip_rune cs (r ++ rest)%string = Some rest.
Proof.
  intros Hpf. induction cs as [|c cs IH]; intros Hincl r rest Hin; [contradiction|].
  cbn [strip_rune].
  assert (Hc : In c charset) by (apply Hincl; now left).
  assert (Hr : In r charset) by (now apply Hincl).
  destruct (strip_prefix c (r ++ rest)) as [x|] eqn:Hs.
  - apply strip_prefix_some in Hs.
    assert (c = r) as ->.
    { destruct (prefixes_comparable r c rest x Hs) as [Hp|Hp].
      - symmetry. eapply prefix_free_eq; eauto.
      - eapply prefix_free_eq; eauto. }
    f_equal. revert Hs. clear. induction r as [|a r IH]; cbn; intro H; [now symmetry|].
    inversion H. now apply IH.
  - destruct Hin as [->|Hin].
    + now rewrite strip_prefix_app in Hs.
    + apply IH; [|exact Hin]. intros z Hz. apply Hincl. now right.
Qed.

Lemma string_app_assoc (a b c : string) : ((a ++ b) ++ c = a ++ (b ++ c))%string.
Proof. induction a as [|x a IH]; cbn; [reflexivity | now rewrite IH]. Qed.

Lemma code_ok_layout charset dash : prefix_free charset = true ->
  forall rs i, Forall (fun r => In r charset) rs ->
  code_ok_loop charset dash (List.length rs) i (toks_str (layout dash i rs)) = true.
Proof.
  intros Hpf. induction rs as [|r rs IH]; intros i Hall; cbn [List.length code_ok_loop layout].
  - reflexivity.
  - inversion Hall as [|? ? Hr Hrs]; subst.
    unfold sep. destruct (dash_before dash i); cbn [app toks_str tok_str].
    + rewrite strip_prefix_app.
      rewrite (strip_rune_in charset Hpf charset (incl_refl _) r _ Hr). now apply IH.
    + rewrite (strip_rune_in charset Hpf charset (incl_refl _) r _ Hr). now apply IH.
Qed.

Lemma new_user_code_ok charset n dash l s :
  prefix_free charset = true ->
  new_user_code charset n dash l = Some s -> user_code_ok charset n dash s = true.
Proof.
  intros Hpf H. unfold new_user_code in H.
  destruct (user_code_toks charset n dash l) as [ts|] eqn:Ht; [|discriminate].
  inversion H; subst; clear H.
  destruct (user_code_toks_layout _ _ _ _ _ Ht) as [Hne [Hn [rs [Hlen [Hall ->]]]]].
  unfold user_code_ok.
  destruct (Nat.eqb_spec (List.length charset) 0) as [E|_].
  { destruct charset; [congruence | discriminate]. }
  destruct (Nat.eqb_spec n 0) as [E|_]; [lia|]. cbn [negb andb].
  rewrite <- Hlen. now apply code_ok_layout.
Qed.

(* the property statement, rune level *)
Lemma user_code_format charset n dash rnd ts :
  user_code_toks charset n dash rnd = Some ts ->
  exists rs, List.length rs = n /\ Forall (fun r => In r charset) rs /\
             ts = layout dash 0 rs /\ filter is_rune ts = map Rune rs /\
             (dash = 0 \/ n <= dash -> ts = map Rune rs).
Proof.
  intro H. destruct (user_code_toks_layout _ _ _ _ _ H) as [_ [_ [rs [Hlen [Hall ->]]]]].
  exists rs. repeat split; try assumption.
  - apply filter_layout.
  - intros [Hd|Hd]; apply layout_no_dash; [now left | right; right; split; [reflexivity|lia]].
Qed.

Lemma user_code_format_full charset n dash rnd ts :
  user_code_toks charset n dash rnd = Some ts ->
  charset <> [] /\ 1 <= n /\
  exists rs, List.length rs = n /\ Forall (fun r => In r charset) rs /\
             ts = layout dash 0 rs /\ filter is_rune ts = map Rune rs /\
             (dash = 0 \/ n <= dash -> ts = map Rune rs).
Proof.
  intro H. pose proof (user_code_toks_layout _ _ _ _ _ H) as [H1 [H2 _]].
  split; [exact H1|]. split; [exact H2|]. exact (user_code_format _ _ _ _ _ H).
Qed.

(* and it does produce a code whenever the configuration is sane and the
   stream long enough never to be exhausted: witness that the hypotheses are
   not vacuous *)
Example user_code_format_nonvacuous :
  new_user_code ["B"; "C"; "D"] 5 2 [0; 1; 3; 2; 0; 1] = Some "BC-DB-C".
Proof. vm_compute. reflexivity. Qed.

(* ---- device code shape --------------------------------------------------- *)
Lemma enc_char_urlsafe n : urlsafe_char (enc_char n) = true.
Proof.
  destruct (Nat.lt_ge_cases n 64) as [H|H].
  - unfold urlsafe_char. now rewrite dec_enc_char.
  - unfold enc_char. rewrite nth_overflow; [reflexivity|]. cbn. lia.
Qed.

Lemma sextets_all_urlsafe l : all_chars urlsafe_char (string_of_sextets l) = true.
Proof.
  induction l as [|n l IH]; cbn [string_of_sextets all_chars]; [reflexivity|].
  now rewrite enc_char_urlsafe.
Qed.

Lemma new_device_code_shape l dc rest :
  new_device_code l = Some (dc, rest) -> device_code_ok dc = true.
Proof.
  unfold new_device_code. intro H.
  destruct (take_n 16 l) as [[b r]|] eqn:Ht; [|discriminate]. inversion H; subst; clear H.
  unfold device_code_ok, b64_encode. rewrite sextets_all_urlsafe, andb_true_r.
  do 16 (destruct l as [|? l]; [discriminate|]). cbn in Ht. inversion Ht; subst. reflexivity.
Qed.
