(* C15 proofs. *)
From OIDC Require Import Lib C08_OP.
From OIDC Require C08_spec C08_proofs.
From OIDC Require Import C15_spec.
Import C08_spec C08_proofs.
(* after the imports the names spec / check / spec_run / model / path are C08's: the C15 ones are qualified *)

Definition wf_clients (cl : list client) : bool := forallb (fun k => nonempty (c_id k)) cl.
Definition wf_input (i : hist_input) : bool := match i with Hist cl _ _ => wf_clients cl end.

Lemma wf_no_empty_id cl : wf_clients cl = true -> find_client cl "" = None.
Proof.
  unfold wf_clients, find_client. induction cl as [|k cl IH]; cbn; [reflexivity|].
  intro H. apply andb_true_iff in H as [H1 H2]. unfold nonempty in H1.
  destruct (String.eqb (c_id k) ""); [discriminate|]. auto.
Qed.

Lemma strs_eqb_refl l : strs_eqb l l = true.
Proof. apply (list_eqb_spec String.eqb); [intros; apply String.eqb_eq|reflexivity]. Qed.

Lemma trec_eqb_refl t : trec_eqb t t = true.
Proof. unfold trec_eqb. now rewrite !String.eqb_refl, !strs_eqb_refl, Bool.eqb_reflx. Qed.

Lemma leg_secret_auth_sec cl i s k : leg_secret_auth cl i s = Some k -> c_auth k <> AMNone ->
  nonempty s && String.eqb (c_secret k) s = true.
Proof.
  unfold leg_secret_auth. destruct (nonempty i); [|discriminate].
  destruct (find_client cl i) as [k'|] eqn:F; [|discriminate].
  destruct (c_auth k') eqn:A; try discriminate; try (intros [= <-] N; congruence);
    (destruct (sec_ok cl i s) eqn:S; [|discriminate]); intros [= <-] _;
    rewrite (sec_ok_nonempty _ _ _ S);
    apply sec_ok_found in S as (k2 & F2 & S); rewrite F in F2; injection F2 as <-; now apply String.eqb_eq.
Qed.

(* who the model authenticates is who the credential names, and the credential was verified *)
Lemma exch_auth_ok cl r c k : wf_clients cl = true -> exch_auth cl r c = Some k ->
  C15_spec.client_ok cl c = true /\ c_id k = cred_id c /\ find_client cl (cred_id c) = Some k.
Proof.
  intros W. unfold exch_auth. destruct r.
  - unfold auth_exch_prov, C15_spec.client_ok, cred_id.
    assert (B : forall i s, (if sec_ok cl i s then find_client cl i else None) = Some k ->
              match find_client cl i with Some k0 => nonempty s && String.eqb (c_secret k0) s | None => false end = true /\
              c_id k = i /\ find_client cl i = Some k).
    { intros i s. destruct (sec_ok cl i s) eqn:S; [|discriminate]. intro F. rewrite F.
      rewrite (sec_ok_nonempty _ _ _ S).
      apply sec_ok_found in S as (k' & F' & S). rewrite F in F'. injection F' as <-.
      split; [now apply String.eqb_eq|]. split; [now apply find_client_id in F|reflexivity]. }
    destruct c as [|i s|i s|i s f|[x|] f]; cbn [basic_pair cred_pair fst]; try apply B;
      unfold sec_ok; cbn; discriminate.
  - unfold auth_exch_leg. destruct (verify_client_leg cl c) as [k'|] eqn:V; [|discriminate].
    intro H. assert (K : k' = k /\ c_auth k <> AMNone).
    { destruct (c_auth k') eqn:A; try discriminate; injection H as <-; split; congruence. }
    destruct K as [-> NN]. clear H.
    destruct (verify_client_leg_id _ _ _ V) as [I F]. split; [|split; assumption].
    unfold C15_spec.client_ok. unfold cred_id in F. unfold verify_client_leg in V.
    destruct c as [|i s|i s|i s f|[x|] f]; cbn [cred_pair fst] in *; try discriminate.
    + rewrite F. exact (leg_secret_auth_sec _ _ _ _ V NN).
    + rewrite F. exact (leg_secret_auth_sec _ _ _ _ V NN).
    + rewrite F. exact (leg_secret_auth_sec _ _ _ _ V NN).
    + rewrite F in *. now destruct (c_auth k).
Qed.

Lemma read_x_subject g a typ t id sub : read_x g a typ t = Some (id, sub) -> C15_spec.subject_of g typ t = sub.
Proof.
  intro R. apply read_x_inv in R as [R|(_ & _ & _ & _ & c & -> & _)]; [|now destruct typ].
  revert R. destruct typ; cbn; try discriminate.
  - destruct t as [i s| |i sg e j s z|i|c0 s0]; cbn; try discriminate.
    + now intros [= _ ->].
    + destruct (i && sg && negb e); [|discriminate]. now intros [= _ ->].
  - destruct t as [i s| |i sg e j s z|i|c0 s0]; cbn; try discriminate.
    destruct i as [n|m| |]; try discriminate.
    destruct (find_rt m (rtoks g)); [|discriminate]. now intros [= _ ->].
  - destruct t as [i s| |i sg e j s z|i|c0 s0]; cbn; try discriminate.
    destruct (i && sg && negb e); [|discriminate]. now intros [= _ ->].
Qed.

Definition actor_read (g : store) (actor : option (tokstr * ttype)) : option (sid * string * ttype) :=
  match actor with
  | None => Some (NoId, "", TAbsent)
  | Some (ta, atyp) => match read_x g true atyp ta with Some (aid, asub) => Some (aid, asub, atyp) | None => None end
  end.

(* what the model answers when all guards of exchange passed *)
Definition success_result (g : store) (nx : nat) (k : client) (ssub asub : string) (req : ttype)
    (scopes aud : list string) : option (st * out) :=
  let sc := decided_scopes (policy g) scopes in
  let ssub := decided_subject (policy g) ssub in
  let t := TRec (c_id k) ssub asub sc aud (c_exp k) in
  let lf := TLife (c_exp k) true in
  let acc n := if c_jwt k then XJwt (AT n) ssub (decided_act (policy g) true asub) lf else XOpaque (AT n) ssub in
  match effective_type (policy g) req with
  | TAccess => Some ((add_at (nx + 1) t g, nx + 1), OExch TAccess (acc (nx + 1)) NoId false sc (Some t))
  | TRefresh => Some ((add_at_rt (nx + 1) (nx + 2) t g, nx + 2), OExch TRefresh (acc (nx + 2)) (RT (nx + 1)) true sc (Some t))
  | TId => Some ((g, nx), OExch TId (XIdTok ssub (c_id k) (decided_act (policy g) false asub) lf) NoId false sc None)
  | _ => None
  end.

Lemma exchange_ok_full cl r g nx c subj styp actor req scopes aud s' i x rt lv sc sto :
  exchange cl r (g, nx) c subj styp actor req scopes aud = (s', OExch i x rt lv sc sto) ->
  exists k id ssub aid asub atyp,
    exch_auth cl r c = Some k /\ read_x g false styp subj = Some (id, ssub) /\
    actor_read g actor = Some (aid, asub, atyp) /\ vetoed (policy g) scopes = false /\
    success_result g nx k ssub asub req scopes aud = Some (s', OExch i x rt lv sc sto).
Proof.
  unfold exchange.
  destruct (match r, styp with Prov, TAbsent => true | _, _ => false end); [discriminate|].
  fold (exch_auth cl r c) (exch_err cl r c). destruct (exch_auth cl r c) as [k|];
    [|destruct (exch_err_shape cl r c) as [st ->]; discriminate].
  destruct (c_exchange k) eqn:GX; cbn [negb]; [|discriminate].
  destruct (read_x g false styp subj) as [[id ssub]|] eqn:RS; [|destruct req; discriminate].
  fold (actor_read g actor).
  destruct (actor_read g actor) as [[[aid asub] atyp']|] eqn:EA; [|destruct req; discriminate].
  destruct (x_live g styp id) eqn:LS; cbn [negb]; [|destruct req, r; discriminate].
  destruct ((nonempty asub || match aid with NoId => false | _ => true end) && negb (x_live g atyp' aid)) eqn:LA;
    [destruct req, r; discriminate|].
  destruct (vetoed (policy g) scopes) eqn:V;
    [destruct (string_in "veto" scopes), (p_late (policy g)), req, r; discriminate|].
  intro H. exists k, id, ssub, aid, asub, atyp'. repeat (split; [reflexivity|]).
  unfold success_result. destruct req; try discriminate;
    match type of H with context [effective_type ?p ?q] => destruct (effective_type p q) end;
    try discriminate; now rewrite <- H.
Qed.

Lemma actor_read_subject g actor aid asub atyp : actor_read g actor = Some (aid, asub, atyp) ->
  match actor with Some (ta, aty) => C15_spec.subject_of g aty ta | None => "" end = asub.
Proof.
  unfold actor_read. destruct actor as [[ta aty]|]; [|now intros [= _ <- _]].
  destruct (read_x g true aty ta) as [[a b]|] eqn:R; [|discriminate]. intros [= _ <- _].
  exact (read_x_subject _ _ _ _ _ _ R).
Qed.

Lemma contained_access pol t n rt lv (j : bool) :
  C15_spec.contained pol t TAccess (if j then XJwt (AT n) (tr_sub t) (decided_act pol true (tr_actor t)) (TLife (tr_expired t) true) else XOpaque (AT n) (tr_sub t)) rt lv (Some t) = true.
Proof. unfold C15_spec.contained, C15_spec.life_ok. destruct j; now rewrite !String.eqb_refl, trec_eqb_refl, ?Bool.eqb_reflx. Qed.

Lemma contained_refresh pol t n m (j : bool) :
  C15_spec.contained pol t TRefresh (if j then XJwt (AT n) (tr_sub t) (decided_act pol true (tr_actor t)) (TLife (tr_expired t) true) else XOpaque (AT n) (tr_sub t)) (RT m) true (Some t) = true.
Proof. unfold C15_spec.contained, C15_spec.life_ok. destruct j; now rewrite !String.eqb_refl, trec_eqb_refl, ?Bool.eqb_reflx. Qed.

Lemma contained_id pol t rt lv sto :
  C15_spec.contained pol t TId (XIdTok (tr_sub t) (tr_client t) (decided_act pol false (tr_actor t)) (TLife (tr_expired t) true)) rt lv sto = true.
Proof. unfold C15_spec.contained, C15_spec.life_ok. now rewrite !String.eqb_refl, Bool.eqb_reflx. Qed.

(* C15_declared_is_contained, request level *)
Lemma declared_is_contained cl r g nx c subj styp actor req scopes aud s' i x rt lv sc sto :
  wf_clients cl = true ->
  exchange cl r (g, nx) c subj styp actor req scopes aud = (s', OExch i x rt lv sc sto) ->
  let want := C15_spec.decided cl g c subj styp actor scopes aud in
  sc = decided_scopes (policy g) scopes /\
  i = effective_type (policy g) req /\
  C15_spec.contained (policy g) want i x rt lv sto = true /\
  (forall t, sto = Some t -> t = want /\ exists n, (x = XOpaque (AT n) (tr_sub want) \/ x = XJwt (AT n) (tr_sub want) (decided_act (policy g) true (tr_actor want)) (TLife (tr_expired want) true)) /\
                                   find_tok n (toks (fst s')) = Some t) /\
  (forall m, rt = RT m -> find_rt m (rtoks (fst s')) <> None).
Proof.
  intros W E want. apply exchange_ok_full in E as (k & id & ssub & aid & asub & atyp & A & RS & RA & V & SR).
  destruct (exch_auth_ok _ _ _ _ W A) as (_ & IDK & FK).
  assert (WT : want = TRec (c_id k) (decided_subject (policy g) ssub) asub (decided_scopes (policy g) scopes) aud (c_exp k)).
  { subst want. unfold C15_spec.decided. rewrite (read_x_subject _ _ _ _ _ _ RS), (actor_read_subject _ _ _ _ _ RA).
    unfold expired_of. now rewrite FK, IDK. }
  rewrite WT. clear WT want.
  unfold success_result in SR. cbv zeta in SR.
  set (t := TRec (c_id k) (decided_subject (policy g) ssub) asub (decided_scopes (policy g) scopes) aud (c_exp k)) in *.
  change (decided_subject (policy g) ssub) with (tr_sub t) in SR. change (c_id k) with (tr_client t) in SR.
  change asub with (tr_actor t) in SR. change (c_exp k) with (tr_expired t) in SR.
  destruct (effective_type (policy g) req); try discriminate; injection SR as <- <- <- <- <- <- <-;
    (split; [reflexivity|]); (split; [reflexivity|]).
  - split; [apply contained_access|]. split; [|intros m [=]].
    intros t0 [= <-]. split; [reflexivity|]. exists (nx + 1). split; [destruct (c_jwt k); auto|].
    cbn [fst add_at toks find_tok]. now rewrite Nat.eqb_refl.
  - split; [apply contained_refresh|]. split.
    + intros t0 [= <-]. split; [reflexivity|]. exists (nx + 2). split; [destruct (c_jwt k); auto|].
      cbn [fst add_at_rt toks find_tok]. now rewrite Nat.eqb_refl.
    + intros m [= <-]. cbn [fst add_at_rt rtoks find_rt r_id]. now rewrite Nat.eqb_refl.
  - split; [apply contained_id|]. split; [intros t0 [=]|intros m [=]].
Qed.

Lemma own_live_read g typ t : own_live g typ t = true ->
  exists id sub, read_native g typ t = Some (id, sub) /\ x_live g typ id = true /\ id <> NoId.
Proof.
  destruct typ; cbn; try discriminate.
  - destruct (as_access t) as [n| | |] eqn:A; try discriminate. unfold g_has_live.
    destruct (find_tok n (toks g)) as [tr|] eqn:F; [|discriminate]. intro H.
    apply andb_true_iff in H as [H _]. apply negb_true_iff in H.
    assert (R : exists sub, read_at t = Some (AT n, sub)).
    { destruct t as [i s| |i sg e j s z|i|c0 s0]; cbn in A; try discriminate.
      - subst i. now exists s.
      - destruct i, sg, e; try discriminate. subst j. now exists s. }
    destruct R as [sub R]. exists (AT n), sub. rewrite R. cbn. rewrite F, H. repeat split; try reflexivity; try discriminate.
  - destruct t as [i s| |i sg e j s z|i|c0 s0]; try discriminate. destruct i as [n|m| |]; try discriminate.
    cbn. destruct (find_rt m (rtoks g)) as [rr|] eqn:F; [|discriminate]. intros _.
    exists (RT m), (r_sub rr). cbn. rewrite F. repeat split; try reflexivity; try discriminate.
  - destruct t as [i s| |i sg e j s z|i|c0 s0]; try discriminate.
    destruct i, sg, e, j; try discriminate. intros _. exists Junk, s. repeat split; try reflexivity; try discriminate.
Qed.

Lemma subj_live_read g a typ t : subj_live a g typ t = true ->
  exists id sub, read_x g a typ t = Some (id, sub) /\ x_live g typ id = true /\ id <> NoId.
Proof.
  unfold subj_live. intro H. apply orb_true_iff in H as [H|H].
  - apply own_live_read in H as (id & sub & R & L & N). exists id, sub. unfold read_x. rewrite R. auto.
  - unfold C08_spec.ext_live in H. destruct t as [i s| |i sg e j s z|i|c0 s0]; try discriminate.
    assert (T : (typ = TId \/ typ = TJwt) /\ p_verifier (policy g) = true /\ ext_accepts c0 a = true).
    { destruct typ; try discriminate; apply andb_true_iff in H as [H1 H2]; auto. }
    destruct T as (T & V & E). exists Junk, s0. unfold read_x.
    destruct T as [-> | ->]; cbn; rewrite V, E; repeat split; discriminate.
Qed.

Lemma promised_succeeds cl r g nx c subj styp actor req scopes aud :
  C15_spec.promised cl g c subj styp actor req scopes = true ->
  exists s' i x rt lv sc sto, exchange cl r (g, nx) c subj styp actor req scopes aud = (s', OExch i x rt lv sc sto).
Proof.
  unfold C15_spec.promised. intro P.
  apply andb_true_iff in P as [P PV]. apply andb_true_iff in P as [P PR]. apply andb_true_iff in P as [P PA].
  apply andb_true_iff in P as [PC PS]. apply negb_true_iff in PV.
  assert (A : exists k, exch_auth cl r c = Some k /\ c_exchange k = true).
  { destruct c as [|ci cs|ci cs|ci cs cf|w cf]; try discriminate;
      apply andb_true_iff in PC as [PC PM]; apply andb_true_iff in PC as [PN PC];
      destruct (sec_ok_found _ _ _ PC) as (k & F & S); rewrite F in PM;
      apply andb_true_iff in PM as [GX PM]; exists k; (split; [|exact GX]); destruct r; cbn;
      try (unfold auth_exch_prov; cbn; now rewrite PC);
      unfold auth_exch_leg, verify_client_leg; cbn; rewrite PN, F;
      destruct (c_auth k) eqn:AK; try congruence; rewrite PC, AK; reflexivity. }
  clear PC.
  destruct A as (k & A & GX).
  destruct (subj_live_read _ _ _ _ PS) as (id & ssub & RS & LS & _).
  assert (AR : exists aid asub atyp, actor_read g actor = Some (aid, asub, atyp) /\
            ((nonempty asub || match aid with NoId => false | _ => true end) && negb (x_live g atyp aid)) = false).
  { destruct actor as [[ta atyp]|]; cbn.
    - cbn in PA. destruct (subj_live_read _ _ _ _ PA) as (aid & asub & RA & LA & _).
      exists aid, asub, atyp. rewrite RA, LA. split; [reflexivity|apply andb_false_r].
    - exists NoId, "", TAbsent. split; reflexivity. }
  destruct AR as (aid & asub & atyp & RA & LA).
  unfold exchange. fold (exch_auth cl r c). fold (actor_read g actor).
  assert (NA : match r, styp with Prov, TAbsent => true | _, _ => false end = false).
  { destruct r; [|reflexivity]. destruct styp; try reflexivity. discriminate. }
  rewrite NA, A, GX. cbn [negb]. rewrite RS, RA, LS. cbn [negb]. rewrite LA, PV.
  unfold C15_spec.issuable in PR.
  destruct req; try discriminate; destruct (effective_type (policy g) _); try discriminate; repeat eexists.
Qed.

Lemma exchange_shape cl r s c subj styp actor req scopes aud :
  let x := snd (exchange cl r s c subj styp actor req scopes aud) in
  (exists i a rt lv sc sto, x = OExch i a rt lv sc sto) \/ (exists st, x = OErr st true /\ C15_spec.is_error st = true).
Proof.
  cbn zeta. destruct (exchange cl r s c subj styp actor req scopes aud) as [s' x] eqn:E. cbn [snd].
  unfold exchange, client_err_leg in E. leaves E; injection E as _ <-;
    try (left; repeat eexists; fail); right; eexists; split; reflexivity.
Qed.

Lemma step_no_panic cl s o : op_unconfused o = true -> snd (step cl s o) <> OPanic.
Proof.
  intros U E. pose proof (check_step cl s o U) as C. rewrite E in C. now destruct o.
Qed.

Lemma exchange_ok_issuable cl r g nx c subj styp actor req scopes aud s' i x rt lv sc sto :
  exchange cl r (g, nx) c subj styp actor req scopes aud = (s', OExch i x rt lv sc sto) ->
  C15_spec.issuable (policy g) req = true.
Proof.
  intro E. unfold C15_spec.issuable. unfold exchange, client_err_leg in E. leaves E; reflexivity.
Qed.

Lemma check15_step cl s o : wf_clients cl = true -> op_unconfused o = true ->
  C15_spec.check cl (fst s) o (snd (step cl s o)) = true.
Proof.
  intros W U. pose proof (step_no_panic cl s o U) as NP.
  destruct o as [r cid sub scopes|r t|r c t|r c t h|r hint cid|r c subj styp actor req scopes aud];
    try (destruct (snd (step cl s _)); try reflexivity; congruence).
  clear NP. destruct s as [g nx]. cbn [step fst].
  destruct (exchange cl r (g, nx) c subj styp actor req scopes aud) as [s' x] eqn:E. cbn [snd].
  pose proof (exchange_shape cl r (g, nx) c subj styp actor req scopes aud) as SH. cbn zeta in SH. rewrite E in SH. cbn [snd] in SH.
  destruct SH as [(i & a & rt & lv & sc & sto & ->)|(st & -> & IE)].
  - destruct (exchange_live _ _ _ _ _ _ _ _ _ _ _ _ _ _ _ _ _ U E) as [SL AL]. cbn [fst] in SL, AL.
    destruct (declared_is_contained _ _ _ _ _ _ _ _ _ _ _ _ _ _ _ _ _ _ W E) as (SC & _ & CT & _).
    pose proof (exchange_ok_issuable _ _ _ _ _ _ _ _ _ _ _ _ _ _ _ _ _ _ E) as IS.
    pose proof E as E2. apply exchange_ok_full in E2 as (k & id & ssub & aid & asub & atyp & A & _ & _ & V & SR).
    destruct (exch_auth_ok _ _ _ _ W A) as (CK & _).
    cbn [C15_spec.check]. rewrite CK, SL, AL, V, CT, SC, IS, strs_eqb_refl. reflexivity.
  - cbn [C15_spec.check]. rewrite IE. cbn.
    destruct (C15_spec.promised cl g c subj styp actor req scopes) eqn:P; [|reflexivity].
    destruct (promised_succeeds cl r g nx _ _ _ _ _ _ aud P) as (s2 & i & a & rt & lv & sc & sto & E2).
    rewrite E in E2. discriminate.
Qed.

Lemma spec15_run_model cl : wf_clients cl = true -> forall ops s,
  forallb op_unconfused ops = true -> C15_spec.spec_run cl (fst s) ops (run cl s ops) = true.
Proof.
  intro W. induction ops as [|o ops IH]; intros s U; [reflexivity|].
  cbn in U. apply andb_true_iff in U as [U1 U2].
  cbn [run]. pose proof (check15_step cl s o W U1) as C. pose proof (gstep_step cl s o) as G.
  destruct (step cl s o) as [s' x]. cbn [fst snd] in C, G. cbn [C15_spec.spec_run].
  rewrite C, G. cbn. apply IH. exact U2.
Qed.

(* histories: the C15 predicate accepts every run of the model *)
Theorem spec15_hist : forall h, wf_input h = true -> unconfused h = true ->
  C15_spec.spec_hist h (run_hist h) = true.
Proof.
  intros [cl pol ops] W U. cbn [run_hist C15_spec.spec_hist]. rewrite configure_designated.
  exact (spec15_run_model cl W (located (designated (p_kopts pol)) ops) (init pol) U).
Qed.

Theorem spec15_hist_refuted : exists h, wf_input h = true /\ C15_spec.spec_hist h (run_hist h) = false.
Proof. exists refuting_history. split; vm_compute; reflexivity. Qed.

Example spec15_model_partial_nonvacuous :
  let h := Hist refuting_clients refstore_policy
    [(0, true, Issue Leg "web2" "bob" ["openid"; "offline_access"]);
     (0, true, Exchange Prov (Basic "web" "web-secret") (PRaw (RT 2)) TRefresh
       (Some (PJwt 0 true false (AT 3) "bob" "", TAccess)) TRefresh ["openid"; "drop"] ["web"]);
     (1, true, Exchange Leg (Both "web" "web-secret" "web2") (POpq (AT 5) "bob") TAccess None TId ["openid"] []);
     (0, true, Exchange Leg (Basic "web" "web-secret") (POpq (AT 5) "bob") TAccess None TJwt ["openid"] [])] in
  wf_input h = true /\ unconfused h = true /\
  C15_spec.path (IHist h) (C15_spec.model (IHist h)) <> 0 /\ C15_spec.spec (IHist h) (C15_spec.model (IHist h)) = true.
Proof. vm_compute. repeat split. discriminate. Qed.

(* request-level statements *)
Lemma needs_live_tokens cl r s c subj styp actor req scopes aud s' i x rt lv sc sto :
  wf_clients cl = true -> op_unconfused (Exchange r c subj styp actor req scopes aud) = true ->
  exchange cl r s c subj styp actor req scopes aud = (s', OExch i x rt lv sc sto) ->
  C15_spec.client_ok cl c = true /\ subj_live false (fst s) styp subj = true /\ actor_live (fst s) actor = true.
Proof.
  intros W U E. destruct (exchange_live _ _ _ _ _ _ _ _ _ _ _ _ _ _ _ _ _ U E) as [SL AL].
  destruct s as [g nx]. apply exchange_ok_full in E as (k & id & ssub & aid & asub & atyp & A & _).
  destruct (exch_auth_ok _ _ _ _ W A) as (CK & _). auto.
Qed.

Lemma unissuable_is_error cl r s c subj styp actor req scopes aud :
  op_unconfused (Exchange r c subj styp actor req scopes aud) = true ->
  C15_spec.issuable (policy (fst s)) req && negb (vetoed (policy (fst s)) scopes) && subj_live false (fst s) styp subj && actor_live (fst s) actor = false ->
  exists st, snd (exchange cl r s c subj styp actor req scopes aud) = OErr st true /\ C15_spec.is_error st = true.
Proof.
  intros U N. pose proof (exchange_shape cl r s c subj styp actor req scopes aud) as SH. cbn zeta in SH.
  destruct SH as [(i & a & rt & lv & sc & sto & X)|SH]; [exfalso|exact SH].
  destruct (exchange cl r s c subj styp actor req scopes aud) as [s' x] eqn:E. cbn [snd] in X. subst x.
  destruct (exchange_live _ _ _ _ _ _ _ _ _ _ _ _ _ _ _ _ _ U E) as [SL AL].
  destruct s as [g nx]. pose proof (exchange_ok_issuable _ _ _ _ _ _ _ _ _ _ _ _ _ _ _ _ _ _ E) as IS.
  apply exchange_ok_full in E as (k & id & ssub & aid & asub & atyp & _ & _ & _ & V & SR).
  cbn [fst] in *. rewrite SL, AL, V, IS in N. discriminate.
Qed.

(* ---------------------------------------------------------------- round 6: third-party tokens per role, lifetimes *)

(* a third-party token is accepted only in the role its issuer vouches for, and only by a provider
   whose storage verifies third-party tokens: as subject ... *)
Lemma ext_subject_role cl r s c cls sub styp actor req scopes aud s' i x rt lv sc sto :
  exchange cl r s c (Ext cls sub) styp actor req scopes aud = (s', OExch i x rt lv sc sto) ->
  p_verifier (policy (fst s)) = true /\ ext_accepts cls false = true /\ (styp = TId \/ styp = TJwt).
Proof.
  intro E. apply exchange_ok_inv in E as (k & id & ssub & _ & RS & LS & _).
  apply read_x_inv in RS as [RS|(_ & -> & S & V & c0 & [= <- <-] & A)].
  - destruct styp; cbn in RS; discriminate.
  - repeat split; auto. destruct styp; cbn in LS, S; try discriminate; auto.
Qed.

(* ... and as actor *)
Lemma ext_actor_role cl r s c subj styp cls sub atyp req scopes aud s' i x rt lv sc sto :
  exchange cl r s c subj styp (Some (Ext cls sub, atyp)) req scopes aud = (s', OExch i x rt lv sc sto) ->
  p_verifier (policy (fst s)) = true /\ ext_accepts cls true = true.
Proof.
  intro E. apply exchange_ok_inv in E as (k & id & ssub & _ & _ & _ & _ & _ & aid & asub & RA & _).
  apply read_x_inv in RA as [RA|(_ & _ & _ & V & c0 & [= <- <-] & A)]; [destruct atyp; cbn in RA; discriminate|auto].
Qed.

(* the verdict for one role says nothing about the other: tokens good in exactly one role exist *)
Lemma ext_roles_independent : ext_accepts EActor true = true /\ ext_accepts EActor false = false /\
  ext_accepts ESubj false = true /\ ext_accepts ESubj true = false.
Proof. repeat split. Qed.

(* every JWT a success response contains (access token or ID token) says about itself what the
   decided record says: expired iff its client is registered so, lifetime as registered *)
Lemma issued_jwt_lifetime cl r g nx c subj styp actor req scopes aud s' i x rt lv sc sto l :
  wf_clients cl = true ->
  exchange cl r (g, nx) c subj styp actor req scopes aud = (s', OExch i x rt lv sc sto) ->
  (exists a b d, x = XIdTok a b d l) \/ (exists n a b, x = XJwt n a b l) ->
  l = TLife (expired_of cl (cred_id c)) true.
Proof.
  intros W E X. apply exchange_ok_full in E as (k & id & ssub & aid & asub & atyp & A & _ & _ & _ & SR).
  destruct (exch_auth_ok _ _ _ _ W A) as (_ & IDK & FK). unfold expired_of. rewrite FK.
  unfold success_result in SR. cbv zeta in SR.
  destruct (effective_type (policy g) req); try discriminate; injection SR as _ _ <- _ _ _ _;
    destruct X as [(a & b & d & X)|(n & a & b & X)]; destruct (c_jwt k); try discriminate; now injection X as _ _ _ <-.
Qed.

(* round 7: the act claim of every claim-carrying token of a success response is the storage
   policy's decision for the actor token's subject - never the raw actor subject by default *)
Lemma issued_act_is_policy cl r g nx c subj styp actor req scopes aud s' i x rt lv sc sto :
  exchange cl r (g, nx) c subj styp actor req scopes aud = (s', OExch i x rt lv sc sto) ->
  let asub := match actor with Some (ta, aty) => C15_spec.subject_of g aty ta | None => "" end in
  (forall n a b l, x = XJwt n a b l -> b = decided_act (policy g) true asub) /\
  (forall a z b l, x = XIdTok a z b l -> b = decided_act (policy g) false asub).
Proof.
  intros E asub. apply exchange_ok_full in E as (k & id & ssub & aid & asub' & atyp & _ & _ & RA & _ & SR).
  apply actor_read_subject in RA. fold asub in RA. subst asub'.
  unfold success_result in SR. cbv zeta in SR.
  destruct (effective_type (policy g) req); try discriminate; injection SR as _ _ <- _ _ _ _;
    split; intros; destruct (c_jwt k); try discriminate; match goal with H : _ = _ |- _ => now injection H as _ _ <- _ end.
Qed.

(* the policies differ: for one actor the four decisions are four different act claims *)
Lemma act_policies_differ : forall p, p_act p = ActNone -> decided_act p true "bob" = "" /\
  (forall q, p_act q = ActMapped -> decided_act q true "bob" = "mapped:bob") /\
  (forall q, p_act q = ActChain -> decided_act q false "bob" = "bob>gateway") /\
  (forall q, p_act q = ActDefault -> decided_act q true "bob" = "bob" /\ decided_act q false "bob" = "").
Proof. intros p H. unfold decided_act. cbn. rewrite H. split; [reflexivity|]. split; [|split]; intros q Hq; rewrite Hq; auto. Qed.

(* round 8: a storage veto at EITHER hook - ValidateTokenExchangeRequest (scope "veto") or
   CreateTokenExchangeRequest (late: plain error or OAuth error) - is answered with an OAuth error *)
Lemma veto_is_error cl r s c subj styp actor req scopes aud :
  vetoed (policy (fst s)) scopes = true ->
  exists st, snd (exchange cl r s c subj styp actor req scopes aud) = OErr st true /\ C15_spec.is_error st = true.
Proof.
  intro V. pose proof (exchange_shape cl r s c subj styp actor req scopes aud) as SH. cbn zeta in SH.
  destruct SH as [(i & a & rt & lv & sc & sto & X)|SH]; [exfalso|exact SH].
  destruct (exchange cl r s c subj styp actor req scopes aud) as [s' x] eqn:E. cbn [snd] in X. subst x.
  destruct s as [g nx]. apply exchange_ok_full in E as (k & id & ssub & aid & asub & atyp & _ & _ & _ & V' & _).
  cbn [fst] in V. rewrite V in V'. discriminate.
Qed.

Lemma late_veto_nonvacuous :
  forall pol, p_late pol <> LateNone -> p_empty pol = false -> vetoed pol ["openid"; "late"] = true.
Proof.
  intros pol L E. unfold vetoed, late_refuses, decided_scopes. rewrite E. destruct (p_late pol); [congruence|reflexivity|reflexivity].
Qed.
