(* C11 proofs, part 1: net/url model (escape/unescape, Encode/ParseQuery,
   sorting, the user agent's split of a Location). *)
From OIDC Require Import Lib C11_Url.

Ltac all_bytes c := destruct c as [[] [] [] [] [] [] [] []].

(* ---------- generic string facts ---------- *)
Lemma append_nil_r (s : string) : (s ++ "")%string = s.
Proof. induction s; cbn; congruence. Qed.

Lemma append_assoc (a b c : string) : ((a ++ b) ++ c)%string = (a ++ (b ++ c))%string.
Proof. induction a; cbn; congruence. Qed.

Lemma all_chars_app p a b : all_chars p (a ++ b)%string = all_chars p a && all_chars p b.
Proof. induction a; cbn; [reflexivity|]. rewrite IHa. now rewrite andb_assoc. Qed.

Lemma all_chars_impl (p q : ascii -> bool) :
  (forall c, p c = true -> q c = true) -> forall s, all_chars p s = true -> all_chars q s = true.
Proof.
  intros H s; induction s; cbn; [reflexivity|]. intros Hs.
  apply andb_true_iff in Hs as [H1 H2]. rewrite (H _ H1), (IHs H2). reflexivity.
Qed.

Lemma mem_char_app c a b : mem_char c (a ++ b)%string = mem_char c a || mem_char c b.
Proof. induction a; cbn; [reflexivity|]. rewrite IHa. now rewrite orb_assoc. Qed.

Lemma all_chars_not_mem p c s : all_chars p s = true -> p c = false -> mem_char c s = false.
Proof.
  intros Hs Hc; induction s as [|d s IH]; cbn in *; [reflexivity|].
  apply andb_true_iff in Hs as [H1 H2]. rewrite (IH H2), orb_false_r.
  destruct (Ascii.eqb c d) eqn:E; [|reflexivity]. apply Ascii.eqb_eq in E; subst. congruence.
Qed.

Lemma cut_nosep sep a : mem_char sep a = false -> cut sep a = (a, EmptyString, false).
Proof.
  induction a as [|c a IH]; cbn; [reflexivity|]. intros H.
  apply orb_false_iff in H as [H1 H2]. rewrite Ascii.eqb_sym, H1, (IH H2). reflexivity.
Qed.

Lemma cut_app_sep sep a b :
  mem_char sep a = false -> cut sep (a ++ String sep b)%string = (a, b, true).
Proof.
  induction a as [|c a IH]; cbn; intros H.
  - now rewrite Ascii.eqb_refl.
  - apply orb_false_iff in H as [H1 H2]. rewrite Ascii.eqb_sym, H1, (IH H2). reflexivity.
Qed.

Lemma split_on_nosep sep a : mem_char sep a = false -> split_on sep a = [a].
Proof.
  induction a as [|c a IH]; cbn; [reflexivity|]. intros H.
  apply orb_false_iff in H as [H1 H2]. rewrite Ascii.eqb_sym, H1, (IH H2). reflexivity.
Qed.

Lemma split_on_app_sep sep a b :
  mem_char sep a = false -> split_on sep (a ++ String sep b)%string = a :: split_on sep b.
Proof.
  induction a as [|c a IH]; cbn; intros H.
  - now rewrite Ascii.eqb_refl.
  - apply orb_false_iff in H as [H1 H2]. rewrite Ascii.eqb_sym, H1, (IH H2). reflexivity.
Qed.

(* ---------- QueryEscape / QueryUnescape ---------- *)
Lemma unescape_esc_byte c r :
  unescape EQuery (esc_byte EQuery c ++ r)%string = option_map (String c) (unescape EQuery r).
Proof. all_bytes c; reflexivity. Qed.

Theorem query_escape_inverse s : unescape EQuery (escape EQuery s) = Some s.
Proof.
  induction s as [|c s IH]; [reflexivity|].
  cbn [escape]. rewrite unescape_esc_byte, IH. reflexivity.
Qed.

(* bytes QueryEscape can emit *)
Definition qsafe (c : ascii) : bool := is_alnum c || mem_char c "-_.~+%".
(* bytes Values.Encode can emit *)
Definition esafe (c : ascii) : bool := qsafe c || mem_char c "=&".
Definition is_ascii (c : ascii) : bool := (byte_n c <? 128)%N.

Lemma esc_byte_qsafe c : all_chars qsafe (esc_byte EQuery c) = true.
Proof. all_bytes c; reflexivity. Qed.

Lemma escape_qsafe s : all_chars qsafe (escape EQuery s) = true.
Proof.
  induction s as [|c s IH]; [reflexivity|]. cbn [escape].
  now rewrite all_chars_app, esc_byte_qsafe, IH.
Qed.

Lemma qsafe_esafe c : qsafe c = true -> esafe c = true.
Proof. unfold esafe; intros ->; reflexivity. Qed.

Lemma escape_no (c : ascii) s : qsafe c = false -> mem_char c (escape EQuery s) = false.
Proof. intros; eapply all_chars_not_mem; [apply escape_qsafe | assumption]. Qed.

Lemma esc_byte_ascii m c : all_chars is_ascii (esc_byte m c) = true.
Proof. destruct m; all_bytes c; reflexivity. Qed.

Lemma escape_ascii m s : all_chars is_ascii (escape m s) = true.
Proof.
  induction s as [|c s IH]; [reflexivity|]. cbn [escape].
  now rewrite all_chars_app, esc_byte_ascii, IH.
Qed.

(* ---------- ParseQuery after Encode ---------- *)
Lemma enc_pair_esafe p : all_chars esafe (enc_pair p) = true.
Proof.
  unfold enc_pair. rewrite !all_chars_app.
  rewrite (all_chars_impl _ _ qsafe_esafe _ (escape_qsafe (fst p))).
  rewrite (all_chars_impl _ _ qsafe_esafe _ (escape_qsafe (snd p))). reflexivity.
Qed.

Lemma enc_pair_no c p : esafe c = false -> mem_char c (enc_pair p) = false.
Proof. intros; eapply all_chars_not_mem; [apply enc_pair_esafe | assumption]. Qed.

Lemma enc_pair_no_amp p : mem_char "&" (enc_pair p) = false.
Proof.
  unfold enc_pair. rewrite !mem_char_app, !escape_no by reflexivity. reflexivity.
Qed.

Lemma parse_segment_enc_pair p : parse_segment (enc_pair p) = Some p.
Proof.
  unfold parse_segment. rewrite enc_pair_no by reflexivity.
  destruct p as [k v]. unfold enc_pair; cbn [fst snd].
  destruct (String.eqb (escape EQuery k ++ "=" ++ escape EQuery v) "") eqn:E.
  - apply String.eqb_eq in E. destruct (escape EQuery k); discriminate E.
  - change ("=" ++ escape EQuery v)%string with (String "=" (escape EQuery v)).
    rewrite cut_app_sep by (apply escape_no; reflexivity).
    rewrite !query_escape_inverse. reflexivity.
Qed.

Lemma join_amp_cons x r :
  r <> [] -> join_amp (x :: r) = (x ++ String "&" (join_amp r))%string.
Proof. destruct r; [congruence|reflexivity]. Qed.

Lemma parse_join (L : pairs) : parse_query (join_amp (map enc_pair L)) = L.
Proof.
  unfold parse_query. induction L as [|p L IH]; [reflexivity|].
  destruct L as [|p' L].
  - cbn [map join_amp]. rewrite split_on_nosep by apply enc_pair_no_amp.
    cbn [parse_segments]. now rewrite parse_segment_enc_pair.
  - cbn [map]. rewrite join_amp_cons by discriminate.
    rewrite split_on_app_sep by apply enc_pair_no_amp.
    cbn [parse_segments]. rewrite parse_segment_enc_pair. f_equal. exact IH.
Qed.

Theorem parse_encode l : parse_query (values_encode l) = sort_pairs l.
Proof. apply parse_join. Qed.

Lemma seg_ok_enc_pair p : seg_ok (enc_pair p) = true.
Proof. unfold seg_ok. rewrite parse_segment_enc_pair. apply orb_true_r. Qed.

Lemma query_ok_join (L : pairs) : query_ok (join_amp (map enc_pair L)) = true.
Proof.
  unfold query_ok. induction L as [|p L IH]; [reflexivity|].
  destruct L as [|p' L].
  - cbn [map join_amp]. rewrite split_on_nosep by apply enc_pair_no_amp.
    cbn [forallb]. now rewrite seg_ok_enc_pair.
  - cbn [map]. rewrite join_amp_cons by discriminate.
    rewrite split_on_app_sep by apply enc_pair_no_amp.
    cbn [forallb]. rewrite seg_ok_enc_pair. exact IH.
Qed.

(* the standard encoding of any parameter list is parsed without an error *)
Theorem query_ok_encode l : query_ok (values_encode l) = true.
Proof. apply query_ok_join. Qed.

Lemma join_amp_esafe (L : pairs) : all_chars esafe (join_amp (map enc_pair L)) = true.
Proof.
  induction L as [|p L IH]; [reflexivity|]. destruct L as [|p' L].
  - apply enc_pair_esafe.
  - cbn [map]. rewrite join_amp_cons by discriminate.
    rewrite all_chars_app, enc_pair_esafe. cbn [all_chars andb]. exact IH.
Qed.

Lemma values_encode_esafe l : all_chars esafe (values_encode l) = true.
Proof. apply join_amp_esafe. Qed.

Lemma values_encode_no c l : esafe c = false -> mem_char c (values_encode l) = false.
Proof. intros; eapply all_chars_not_mem; [apply values_encode_esafe | assumption]. Qed.

Lemma esafe_ascii c : esafe c = true -> is_ascii c = true.
Proof. all_bytes c; intros H; try reflexivity; discriminate H. Qed.

Lemma values_encode_ascii l : all_chars is_ascii (values_encode l) = true.
Proof. exact (all_chars_impl _ _ esafe_ascii _ (values_encode_esafe l)). Qed.

(* ---------- stable sort keeps every key's values in order ---------- *)
Lemma str_ltb_irrefl a : str_ltb a a = false.
Proof. induction a as [|c a IH]; cbn; [reflexivity|]. now rewrite N.ltb_irrefl. Qed.

Definition with_key (k : string) (l : pairs) : pairs :=
  filter (fun p => String.eqb k (fst p)) l.

Lemma with_key_insert k p l :
  with_key k (insert_pair p l) = with_key k (p :: l).
Proof.
  induction l as [|q l IH]; [reflexivity|]. cbn [insert_pair].
  destruct (str_ltb (fst q) (fst p)) eqn:E; [|reflexivity].
  unfold with_key in *. cbn [filter] in *. rewrite IH.
  destruct (String.eqb k (fst p)) eqn:Ep, (String.eqb k (fst q)) eqn:Eq; try reflexivity.
  apply String.eqb_eq in Ep, Eq. rewrite <- Ep, <- Eq, str_ltb_irrefl in E. discriminate.
Qed.

Lemma with_key_sort k l : with_key k (sort_pairs l) = with_key k l.
Proof.
  induction l as [|p l IH]; [reflexivity|]. cbn [sort_pairs].
  rewrite with_key_insert. unfold with_key in *. cbn [filter]. now rewrite IH.
Qed.

Lemma with_key_app k a b : with_key k (a ++ b) = with_key k a ++ with_key k b.
Proof. unfold with_key. apply filter_app. Qed.

(* ---------- unescape in fragment mode never fails on Encode output ---------- *)
Definition fdec (c : ascii) : string := if Ascii.eqb c " " then "+" else String c "".

Lemma unescape_frag_esc_byte c r :
  unescape EFragment (esc_byte EQuery c ++ r)%string
  = option_map (String.append (fdec c)) (unescape EFragment r).
Proof. all_bytes c; reflexivity. Qed.

Definition frag_ok (s : string) : Prop :=
  forall r, unescape EFragment r <> None -> unescape EFragment (s ++ r)%string <> None.

Lemma frag_ok_app a b : frag_ok a -> frag_ok b -> frag_ok (a ++ b)%string.
Proof. intros Ha Hb r Hr. rewrite append_assoc. apply Ha, Hb, Hr. Qed.

Lemma frag_ok_escape s : frag_ok (escape EQuery s).
Proof.
  induction s as [|c s IH]; intros r Hr; [exact Hr|].
  cbn [escape]. rewrite append_assoc, unescape_frag_esc_byte.
  specialize (IH r Hr). destruct (unescape EFragment (escape EQuery s ++ r)); [discriminate|congruence].
Qed.

Lemma frag_ok_char (c : ascii) :
  Ascii.eqb c "%" = false -> frag_ok (String c "").
Proof.
  intros Hc r Hr. cbn. rewrite Hc.
  destruct (Ascii.eqb c "+"); destruct (unescape EFragment r); try discriminate; congruence.
Qed.

Lemma frag_ok_enc_pair p : frag_ok (enc_pair p).
Proof.
  unfold enc_pair. apply frag_ok_app; [apply frag_ok_escape|].
  apply frag_ok_app; [apply frag_ok_char; reflexivity | apply frag_ok_escape].
Qed.

Lemma frag_ok_join (L : pairs) : frag_ok (join_amp (map enc_pair L)).
Proof.
  induction L as [|p L IH]; [intros r Hr; exact Hr|]. destruct L as [|p' L].
  - apply frag_ok_enc_pair.
  - cbn [map]. rewrite join_amp_cons by discriminate.
    apply frag_ok_app; [apply frag_ok_enc_pair|].
    change (String "&" ?x) with ("&" ++ x)%string.
    apply frag_ok_app; [apply frag_ok_char; reflexivity | exact IH].
Qed.

Lemma unescape_frag_encode l : exists d, unescape EFragment (values_encode l) = Some d.
Proof.
  pose proof (frag_ok_join (sort_pairs l) "") as H. rewrite append_nil_r in H.
  unfold values_encode.
  destruct (unescape EFragment (join_amp (map enc_pair (sort_pairs l)))) as [d|] eqn:E; [now exists d|].
  exfalso; apply H; [discriminate | reflexivity].
Qed.

Lemma unescape_nonempty m s d : unescape m s = Some d -> s <> EmptyString -> d <> EmptyString.
Proof.
  destruct s as [|c r]; [congruence|]. intros H _. cbn in H.
  destruct (Ascii.eqb c "%").
  - destruct r as [|h1 [|h2 r']]; try discriminate.
    destruct (is_hex h1 && is_hex h2); [|discriminate].
    destruct (unescape m r'); inversion H; discriminate.
  - destruct (Ascii.eqb c "+"); destruct (unescape m r); inversion H; discriminate.
Qed.

Lemma esafe_valid_frag c :
  esafe c = true -> (mem_char c "!$&'()*+,;=:@[]%" || negb (should_escape EFragment c)) = true.
Proof. all_bytes c; intros H; try reflexivity; discriminate H. Qed.

Lemma values_encode_valid_frag l : valid_encoded_frag (values_encode l) = true.
Proof. exact (all_chars_impl _ _ esafe_valid_frag _ (values_encode_esafe l)). Qed.

(* with the raw fragment set to Encode's output, String() writes it verbatim *)
Lemma escaped_fragment_set prefix fq rq l :
  values_encode l <> EmptyString ->
  let enc := values_encode l in
  let dec := match unescape EFragment enc with Some d => d | None => enc end in
  escaped_fragment (mk_purl prefix fq rq dec enc) = enc /\ dec <> EmptyString.
Proof.
  intros Hne enc dec. destruct (unescape_frag_encode l) as [d Hd].
  unfold escaped_fragment; cbn [u_raw_fragment u_fragment].
  subst dec enc. rewrite Hd, values_encode_valid_frag.
  destruct (String.eqb (values_encode l) "") eqn:E; [apply String.eqb_eq in E; congruence|].
  cbn. rewrite String.eqb_refl. split; [reflexivity|].
  eapply unescape_nonempty; eassumption.
Qed.

Lemma valid_frag_ascii c :
  (mem_char c "!$&'()*+,;=:@[]%" || negb (should_escape EFragment c)) = true -> is_ascii c = true.
Proof. all_bytes c; intros H; try reflexivity; discriminate H. Qed.

Lemma escaped_fragment_ascii u : all_chars is_ascii (escaped_fragment u) = true.
Proof.
  unfold escaped_fragment.
  destruct (negb (String.eqb (u_raw_fragment u) "") && valid_encoded_frag (u_raw_fragment u)) eqn:E;
    [|apply escape_ascii].
  apply andb_true_iff in E as [_ E].
  destruct (unescape EFragment (u_raw_fragment u)); [|apply escape_ascii].
  destruct (String.eqb s (u_fragment u)); [|apply escape_ascii].
  exact (all_chars_impl _ _ valid_frag_ascii _ E).
Qed.

Lemma escaped_fragment_no_hash u : mem_char "#" (escaped_fragment u) = false.
Proof.
  unfold escaped_fragment.
  assert (He : forall s, mem_char "#" (escape EFragment s) = false).
  { induction s as [|c s IH]; [reflexivity|]. cbn [escape]. rewrite mem_char_app, IH, orb_false_r.
    all_bytes c; reflexivity. }
  destruct (negb (String.eqb (u_raw_fragment u) "") && valid_encoded_frag (u_raw_fragment u)) eqn:E;
    [|apply He].
  apply andb_true_iff in E as [_ E].
  destruct (unescape EFragment (u_raw_fragment u)); [|apply He].
  destruct (String.eqb s (u_fragment u)); [|apply He].
  eapply all_chars_not_mem; [exact E | reflexivity].
Qed.

(* ---------- net/http hexEscapeNonASCII ---------- *)
Lemma hex_escape_ascii_id s : all_chars is_ascii s = true -> hex_escape_non_ascii s = s.
Proof.
  induction s as [|c s IH]; [reflexivity|]. cbn. unfold is_ascii. intros H.
  apply andb_true_iff in H as [H1 H2]. rewrite (IH H2).
  destruct (128 <=? byte_n c)%N eqn:E; [|reflexivity].
  apply N.leb_le in E. apply N.ltb_lt in H1. lia.
Qed.

(* ---------- the user agent's split of a Location ---------- *)
Definition qpart (fq : bool) (rq : string) : string :=
  if fq || negb (String.eqb rq "") then ("?" ++ rq)%string else EmptyString.

Lemma url_string_parts u :
  url_string u = (u_prefix u ++ qpart (u_force_query u) (u_raw_query u)
                  ++ (if negb (String.eqb (u_fragment u) "") then "#" ++ escaped_fragment u else ""))%string.
Proof. reflexivity. Qed.

Lemma qpart_no_hash fq rq : mem_char "#" rq = false -> mem_char "#" (qpart fq rq) = false.
Proof. unfold qpart; intros H. destruct (fq || negb (String.eqb rq "")); [cbn; exact H | reflexivity]. Qed.

Lemma cut_q_prefix prefix fq rq :
  mem_char "?" prefix = false ->
  cut "?" (prefix ++ qpart fq rq)%string = (prefix, rq, if fq || negb (String.eqb rq "") then true else false)
  \/ (cut "?" (prefix ++ qpart fq rq)%string = (prefix, EmptyString, false) /\ rq = EmptyString).
Proof.
  intros Hp. unfold qpart. destruct (fq || negb (String.eqb rq "")) eqn:E.
  - left. change ("?" ++ rq)%string with (String "?" rq). now rewrite cut_app_sep.
  - right. apply orb_false_iff in E as [_ E]. apply negb_false_iff, String.eqb_eq in E.
    rewrite append_nil_r, cut_nosep by assumption. now split.
Qed.

Lemma ua_of_parts prefix fq rq fpart :
  mem_char "?" prefix = false -> mem_char "#" prefix = false -> mem_char "#" rq = false ->
  (fpart = EmptyString \/ exists f, fpart = String "#" f) ->
  let loc := (prefix ++ qpart fq rq ++ fpart)%string in
  ua_base loc = prefix /\ ua_raw_query loc = rq
  /\ ua_raw_fragment loc = match fpart with String _ f => f | EmptyString => EmptyString end.
Proof.
  intros Hq Hh Hrq Hf loc.
  assert (Hfront : mem_char "#" (prefix ++ qpart fq rq)%string = false)
    by (rewrite mem_char_app, Hh, qpart_no_hash by assumption; reflexivity).
  assert (Hcut : cut "#" loc = (prefix ++ qpart fq rq, match fpart with String _ f => f | EmptyString => EmptyString end,
                                match fpart with String _ _ => true | EmptyString => false end)%string).
  { subst loc. rewrite <- append_assoc. destruct Hf as [-> | [f ->]].
    - rewrite append_nil_r. now apply cut_nosep.
    - now apply cut_app_sep. }
  unfold ua_base, ua_raw_query, ua_raw_fragment, ua_front. rewrite Hcut. cbn [fst snd].
  destruct (cut_q_prefix prefix fq rq Hq) as [-> | [-> ->]]; cbn [fst snd]; auto.
Qed.
