(* C03: the authorization endpoint and its callback, once per router.
   Provider router: op.Authorize / AuthRequestError (pkg/op/auth_request.go, error.go).
   Legacy router:   webServer.authorizeHandler + authorize (server_http.go),
                    LegacyServer.VerifyAuthRequest + Authorize + TryErrorRedirect (server_legacy.go, error.go).
   Callback:        op.AuthorizeCallback / AuthResponse* (registered on both routers).
   Storage behaviour used (refstore contract): CreateAuthRequest appends a request
   (fails with login_required for prompt=none), AuthRequestByID finds live requests,
   Login marks done, the implicit flow deletes the request after issuing tokens. *)
From OIDC Require Import Lib C03_Redirect.

Inductive prompt := P_Ok | P_Bad | P_None.      (* "", "none login", "none" *)
(* the error VALUE a failing storage call returns: a plain Go error, a typed *oidc.Error
   (possibly wrapped) with its error code, or a typed error that is redirect-disabled *)
Inductive errkind := EK_Plain | EK_Typed (code : string) | EK_NoRedirect.

Inductive afault := AF_None | AF_GetClient (k : errkind) | AF_Create (k : errkind).
Inductive cfault := CF_None | CF_ByID | CF_GetClient (k : errkind) | CF_SaveCode (k : errkind).

(* oidc.DefaultToServerError on that value: the OAuth error code that may travel in a
   redirect; None = the error must be shown, not redirected *)
Definition err_code (k : errkind) : option string :=
  match k with
  | EK_Plain => Some "server_error"
  | EK_Typed c => Some c
  | EK_NoRedirect => None
  end.

(* a `request` parameter: absent, not a JWT, or a JWT whose claims are known to the driver.
   ro_iss / ro_client = iss and client_id claims; ro_aud_ok = the provider's issuer is in aud;
   ro_sig_ok = the signature verifies under the key Storage.GetKeyByIDAndClientID returns
   for (kid, ro_iss); ro_rt / ro_uri / ro_mode / ro_prompt = claims ("" / None = absent) *)
Record robj := { ro_iss : string; ro_client : string; ro_aud_ok : bool; ro_sig_ok : bool;
                 ro_rt : string; ro_uri : string; ro_mode : string; ro_prompt : option prompt }.
Inductive reqparam := RP_None | RP_Garbage | RP_Signed (o : robj).

(* an authorization request, abstracted to what decides the answer *)
Record areq := {
  q_client : string; q_uri : string; q_rt : string; q_mode : string;
  q_malformed : bool;      (* max_age=x : the form decoder fails *)
  q_reqobj : reqparam;     (* the `request` parameter *)
  q_prompt : prompt;
  q_noscope : bool;
  q_hint_bad : bool;       (* id_token_hint present and not verifiable *)
  q_fault : afault;
  q_dups : list string }.  (* redirect_uri sent more than once (query and / or body): the values BEFORE the last one,
                              in the order of Request.Form; the form decoder keeps the last one = q_uri *)

Definition has_ro (q : areq) : bool := match q_reqobj q with RP_None => false | _ => true end.

(* every redirect_uri the request mentions: every value of the plain parameter and the one inside a request object *)
Definition candidates (q : areq) : list string :=
  q_dups q ++ q_uri q :: match q_reqobj q with RP_Signed o => [ro_uri o] | _ => [] end.

(* CopyRequestObjectToAuthRequest: present claims overwrite the parameters, RequestParam is cleared
   (client_id and response_type are never overwritten; scopes stay non-empty / empty as they were) *)
Definition merge_ro (q : areq) (o : robj) : areq :=
  {| q_client := q_client q;
     q_uri := if String.eqb (ro_uri o) "" then q_uri q else ro_uri o;
     q_rt := q_rt q;
     q_mode := if String.eqb (ro_mode o) "" then q_mode q else ro_mode o;
     q_malformed := q_malformed q; q_reqobj := RP_None;
     q_prompt := match ro_prompt o with Some p => p | None => q_prompt q end;
     q_noscope := q_noscope q; q_hint_bad := q_hint_bad q; q_fault := q_fault q; q_dups := q_dups q |}.

(* ParseRequestObject: inl garbage? = error (true: ParseToken failed, a plain error),
   inr q' = verified and merged *)
Definition parse_ro (q : areq) : bool + areq :=
  match q_reqobj q with
  | RP_None => inr q
  | RP_Garbage => inl true
  | RP_Signed o =>
      if negb (String.eqb (ro_client o) "") && negb (String.eqb (ro_client o) (q_client q)) then inl false
      else if negb (String.eqb (ro_rt o) "") && negb (String.eqb (ro_rt o) (q_rt q)) then inl false
      else if negb (String.eqb (ro_iss o) (ro_client o)) then inl false
      else if negb (ro_aud_ok o) then inl false
      else if negb (ro_sig_ok o) then inl false
      else inr (merge_ro q o)
  end.

(* a fault of the connection to the user agent while the answer is written (http.TimeoutHandler
   after its time-out, reset stream, closed connection: ResponseWriter.Write fails or is short).
   W_Early: status line and headers went out, the body is cut before its first HTML tag of interest;
   W_Late: the body is cut somewhere behind the form tag (or not at all when it is short) *)
Inductive wcut := W_None | W_Early | W_Late.

(* the `id` parameter(s) of a callback request, in the order of Request.Form: the values of the form
   body (POST / PUT / PATCH with application/x-www-form-urlencoded) first, then those of the URL query.
   Some k = the id of the k-th created request (an index no request has = an id the storage does not
   know), None = an empty value. No id at all = both lists empty. *)
Record cbids := { cb_body : list (option nat); cb_query : list (option nat) }.
Definition cb_all (i : cbids) : list (option nat) := cb_body i ++ cb_query i.
(* ParseAuthorizeCallbackRequest: r.ParseForm(); r.Form.Get("id") = the FIRST value; "" = missing *)
Definition cb_id (i : cbids) : option nat :=
  match cb_all i with [] => None | x :: _ => x end.

Inductive op :=
| Authorize (r : router) (q : areq) (w : wcut)
| Login (k : nat)                                  (* k-th created request *)
| Callback (r : router) (ids : cbids) (f : cfault) (w : wcut).

(* stored auth request *)
Record sreq := { s_client : string; s_uri : string; s_rt : string; s_mode : string;
                 s_done : bool; s_alive : bool }.

Inductive out :=
| OPage (status : N) (code : string)     (* no redirect; code = JSON error member, "" for a text page *)
| OLogin (prefix : string)               (* 302 to prefix ++ fresh request id *)
| ORedirect (frag : bool) (code : string) (target : string)  (* code "" = success *)
| OForm (target : string)                (* 200 auto-submitting form *)
| OFormBlocked                           (* form whose action html/template replaced *)
| OUndelivered                           (* 200, the page was cut before any form: nothing to follow *)
| ONone | OPanic | OOther.

(* per-URI answers of net/url and html/template, recorded by the driver:
   u_canon = Some (q, f): url.Parse succeeds; q / f = canonical rendering of the
   URI as it shows in a query-mode / fragment-mode Location once the response
   parameters are removed; u_form = the form action a browser sees (None = blocked).
   u_loop = what the LIBRARY's HTTPLoopbackOrLocalhost answers (the handlers follow it);
   u_truth = the ground truth of "is an http(s) loopback address", decided independently of the
   library: Some (Path, RawQuery) iff the scheme is http / https and the host is exactly
   `localhost` or an IP literal in 127.0.0.0/8 or ::1 (the property predicate follows it) *)
Record uinfo := { u_loop : option (string * string); u_canon : option (string * string);
                  u_form : option string; u_truth : option (string * string) }.

Definition use_fragment (rt mode : string) : bool :=
  if String.eqb mode "query" then false
  else if String.eqb mode "fragment" then true
  else String.eqb rt "id_token token" || String.eqb rt "id_token".

Section Handlers.
  Variable glob : string -> string -> gres.
  Variable info : string -> uinfo.
  Variable reqobj_supported : bool.
  Variable notfound : errkind.      (* how the storage reports an unknown client *)
  Variable cs : list client.

  Definition loop (u : string) := u_loop (info u).
  Definition validate := validate_redirect glob loop.

  (* AuthResponseURL on (uri, rt, mode): None when url.Parse fails *)
  Definition response_url (uri rt mode code : string) : option out :=
    match u_canon (info uri) with
    | None => None
    | Some (cq, cf) =>
        let fr := use_fragment rt mode in
        Some (ORedirect fr code (if fr then cf else cq))
    end.

  (* AuthRequestError with a non-nil request and a redirectable error *)
  Definition auth_request_error (uri rt mode code : string) : out :=
    if String.eqb uri "" then OPage 400 ""
    else match response_url uri rt mode code with
         | Some o => o
         | None => OPage 400 ""
         end.

  (* TryErrorRedirect + WriteError *)
  Definition try_error_redirect (uri rt mode code : string) : out :=
    if String.eqb uri "" then OPage 400 code
    else match response_url uri rt mode code with
         | Some o => o
         | None => OPage 400 "server_error"
         end.

  (* Storage.GetClientByClientID: every way the lookup can fail *)
  Definition lookup_client (f : afault) (id : string) : errkind + client :=
    match f with
    | AF_GetClient k => inl k
    | _ => match find_client cs id with Some c => inr c | None => inl notfound end
    end.

  (* AuthRequestError / TryErrorRedirect on a storage error value *)
  Definition auth_request_error_k (uri rt mode : string) (k : errkind) : out :=
    match err_code k with
    | Some code => auth_request_error uri rt mode code
    | None => OPage 400 ""
    end.
  Definition try_error_redirect_k (uri rt mode : string) (k : errkind) : out :=
    match err_code k with
    | Some code => try_error_redirect uri rt mode code
    | None => OPage 400 "invalid_request"
    end.

  (* WriteError on DefaultToServerError of a storage error value *)
  Definition legacy_page (k : errkind) : out :=
    match k with
    | EK_Plain => OPage 500 "server_error"
    | EK_Typed c => OPage (if String.eqb c "server_error" then 500 else 400) c
    | EK_NoRedirect => OPage 400 "invalid_request"
    end.

  Definition new_req (q : areq) : sreq :=
    {| s_client := q_client q; s_uri := q_uri q; s_rt := q_rt q; s_mode := q_mode q;
       s_done := false; s_alive := true |}.

  Definition prompt_bad (p : prompt) := match p with P_Bad => true | _ => false end.
  Definition prompt_none (p : prompt) := match p with P_None => true | _ => false end.
  Definition fault_create (f : afault) : option errkind := match f with AF_Create k => Some k | _ => None end.

  (* op.Authorize after the request-object stage *)
  Definition provider_core (st : list sreq) (q : areq) : list sreq * out :=
    let page := (st, OPage 400 "") in
    if String.eqb (q_client q) "" then page
    else if String.eqb (q_uri q) "" then page
    else match lookup_client (q_fault q) (q_client q) with
    | inl _ => page     (* whatever the storage's error is: ErrInvalidRequestRedirectURI, not redirected *)
    | inr c =>
      match validate c (q_uri q) (q_rt q) with
      | VOk =>
        let er code := (st, auth_request_error (q_uri q) (q_rt q) (q_mode q) code) in
        if prompt_bad (q_prompt q) then er "invalid_request"
        else if q_noscope q then er "invalid_request"
        else if String.eqb (q_rt q) "" then er "invalid_request"
        else if negb (string_in (q_rt q) (c_rtypes c)) then er "unauthorized_client"
        else if q_hint_bad q then er "login_required"
        else if has_ro q then er "request_not_supported"
        else match fault_create (q_fault q) with
        | Some k => (st, auth_request_error_k (q_uri q) (q_rt q) (q_mode q) k)
        | None =>
          if prompt_none (q_prompt q) then er "login_required"
          else (st ++ [new_req q], OLogin (c_login c))
        end
      | _ => page     (* redirect-disabled errors (F14: including the malformed-glob server_error) *)
      end
    end.

  (* op.Authorize: the request object is verified and merged BEFORE anything is validated;
     when request objects are unsupported the parameter stays and is refused after validation *)
  Definition authorize_provider (st : list sreq) (q : areq) : list sreq * out :=
    if q_malformed q then (st, OPage 400 "")
    else if has_ro q && reqobj_supported then
      match parse_ro q with
      | inl _ => (st, OPage 400 "")
      | inr q' => provider_core st q'
      end
    else provider_core st q.

  (* webServer.authorize + LegacyServer.Authorize once VerifyAuthRequest dealt with the request object *)
  Definition legacy_core (st : list sreq) (q : areq) : list sreq * out :=
    let bad code := (st, OPage 400 code) in
    if String.eqb (q_client q) "" then bad "invalid_request"
    else match lookup_client (q_fault q) (q_client q) with
    | inl k => (st, legacy_page k)
    | inr c =>
      if String.eqb (q_uri q) "" then (st, OPage 500 "server_error")
      else if prompt_bad (q_prompt q) then bad "invalid_request"
      else if q_noscope q then bad "invalid_request"
      else match validate c (q_uri q) (q_rt q) with
      | VBad => bad "invalid_request"
      | VGlobErr => (st, OPage 500 "server_error")
      | VOk =>
        if String.eqb (q_rt q) "" then bad "invalid_request"
        else if negb (string_in (q_rt q) (c_rtypes c)) then bad "unauthorized_client"
        else if q_hint_bad q then bad "login_required"
        else
          match fault_create (q_fault q) with
          | Some k => (st, try_error_redirect_k (q_uri q) (q_rt q) (q_mode q) k)
          | None =>
            if prompt_none (q_prompt q) then (st, try_error_redirect (q_uri q) (q_rt q) (q_mode q) "login_required")
            else (st ++ [new_req q], OLogin (c_login c))
          end
      end
    end.

  (* webServer.authorizeHandler, LegacyServer.VerifyAuthRequest: request object first, as coded *)
  Definition authorize_legacy (st : list sreq) (q : areq) : list sreq * out :=
    if q_malformed q then (st, OPage 400 "invalid_request")
    else if has_ro q then
      if negb reqobj_supported then (st, OPage 400 "request_not_supported")
      else match parse_ro q with
           | inl true => (st, OPage 500 "server_error")
           | inl false => (st, OPage 400 "invalid_request")
           | inr q' => legacy_core st q'
           end
    else legacy_core st q.

  Definition authorize (r : router) :=
    match r with Provider => authorize_provider | Legacy => authorize_legacy end.

  Fixpoint update_nth (k : nat) (f : sreq -> sreq) (st : list sreq) : list sreq :=
    match st, k with
    | [], _ => []
    | s :: r, 0 => f s :: r
    | s :: r, S k' => s :: update_nth k' f r
    end.

  Definition mark_done (s : sreq) : sreq :=
    {| s_client := s_client s; s_uri := s_uri s; s_rt := s_rt s; s_mode := s_mode s;
       s_done := true; s_alive := s_alive s |}.
  Definition mark_dead (s : sreq) : sreq :=
    {| s_client := s_client s; s_uri := s_uri s; s_rt := s_rt s; s_mode := s_mode s;
       s_done := s_done s; s_alive := false |}.

  (* AuthResponseCode / AuthResponseToken once code or tokens exist *)
  Definition success (s : sreq) : out :=
    if String.eqb (s_mode s) "form_post" then
      match u_form (info (s_uri s)) with Some t => OForm t | None => OFormBlocked end
    else match response_url (s_uri s) (s_rt s) (s_mode s) "" with
         | Some o => o
         | None => OPage 400 ""      (* AuthResponseURL fails, then AuthRequestError fails the same way *)
         end.

  (* op.AuthorizeCallback -> AuthResponse; the same handler serves both routers *)
  Definition callback (st : list sreq) (k : option nat) (f : cfault) : list sreq * out :=
    let page := (st, OPage 400 "") in
    match k with
    | None => page
    | Some k =>
      match f with CF_ByID => page | _ =>
      match nth_error st k with
      | None => page
      | Some s =>
        if negb (s_alive s) then page
        else
          let er code := (st, auth_request_error (s_uri s) (s_rt s) (s_mode s) code) in
          let erk k := (st, auth_request_error_k (s_uri s) (s_rt s) (s_mode s) k) in
          if negb (s_done s) then er "interaction_required"
          else match f with CF_GetClient k => erk k | _ =>
          match find_client cs (s_client s) with
          | None => erk notfound
          | Some _ =>
            if String.eqb (s_rt s) "code" then
              match f with CF_SaveCode k => erk k | _ => (st, success s) end
            else (update_nth k mark_dead st, success s)
          end end
      end end
    end.

  (* what reaches the user agent when the connection fails while the answer is written: status and
     headers (so every 302 with its Location) always; of an error page only the status is observed;
     a form_post page cut early carries no form. The handlers never look at the outcome of a write
     before they change the store, and nothing of one answer is kept for the next: the store after
     the step and every later answer are those of the fault-free run. *)
  Definition deliver (w : wcut) (x : out) : out :=
    match w, x with
    | W_None, _ => x
    | _, OPage s _ => OPage s ""
    | W_Early, OForm _ => OUndelivered
    | W_Early, OFormBlocked => OUndelivered
    | _, _ => x
    end.

  Definition step (st : list sreq) (o : op) : list sreq * out :=
    match o with
    | Authorize r q w => let '(st', x) := authorize r st q in (st', deliver w x)
    | Login k => (update_nth k mark_done st, ONone)
    | Callback _ ids f w => let '(st', x) := callback st (cb_id ids) f in (st', deliver w x)
    end.

  (* the write fault an operation carries, and the operation without it *)
  Definition op_cut (o : op) : wcut :=
    match o with Authorize _ _ w => w | Login _ => W_None | Callback _ _ _ w => w end.
  Definition op_clear (o : op) : op :=
    match o with
    | Authorize r q _ => Authorize r q W_None
    | Login k => Login k
    | Callback r k f _ => Callback r k f W_None
    end.

  Fixpoint run (st : list sreq) (ops : list op) : list out :=
    match ops with
    | [] => []
    | o :: r => let '(st', x) := step st o in x :: run st' r
    end.
End Handlers.
