(* C08 proofs: the reference monitor of C08_spec accepts every run of the model
   (all client tables, all histories), plus the readable per-endpoint and
   "from then on" statements. *)
From OIDC Require Import Lib C08_OP C08_spec.

(* ---------------------------------------------------------------- basics *)

Lemma find_client_id cl i k : find_client cl i = Some k -> c_id k = i.
Proof.
  unfold find_client; intro H. apply find_some in H as [_ H]. now apply String.eqb_eq in H.
Qed.

Lemma sec_ok_found cl i s : sec_ok cl i s = true -> exists k, find_client cl i = Some k /\ c_secret k = s.
Proof.
  unfold sec_ok, store_accepts. intro H. apply andb_true_iff in H as [_ H]. destruct (find_client cl i) as [k|]; [|discriminate].
  apply String.eqb_eq in H. eauto.
Qed.

Lemma sec_ok_nonempty cl i s : sec_ok cl i s = true -> nonempty s = true.
Proof. unfold sec_ok. intro H. now apply andb_true_iff in H as [H _]. Qed.

(* the helper's guard + the storage's plain comparison = the caller proved a registered,
   non-empty secret - for every client table, in particular those where the storage holds the
   empty string for clients registered without a secret *)
Lemma sec_ok_proved cl i s : sec_ok cl i s = proved_secret cl i s.
Proof.
  unfold sec_ok, store_accepts, proved_secret. destruct (find_client cl i) as [k|]; [|apply andb_false_r].
  destruct (String.eqb (c_secret k) s) eqn:E; [|now rewrite !andb_false_r].
  apply String.eqb_eq in E. now rewrite E.
Qed.

Lemma nonempty_false s : nonempty s = false -> s = "".
Proof. unfold nonempty. intro H. apply negb_false_iff in H. now apply String.eqb_eq. Qed.

Lemma remove_tok_absent n l : find_tok n l = None -> remove_tok n l = l.
Proof.
  unfold remove_tok. induction l as [|[m t] l IH]; cbn; [reflexivity|].
  destruct (m =? n); [discriminate|]. intro H. cbn. now rewrite IH.
Qed.

Lemma find_remove_tok n m l : find_tok n (remove_tok m l) = if m =? n then None else find_tok n l.
Proof.
  unfold remove_tok. induction l as [|[k t] l IH]; cbn.
  - now destruct (m =? n).
  - destruct (Nat.eqb_spec k m) as [->|Hkm]; cbn.
    + rewrite IH. destruct (Nat.eqb_spec m n); reflexivity.
    + destruct (Nat.eqb_spec k n) as [->|Hkn]; cbn.
      * destruct (Nat.eqb_spec m n); [congruence|reflexivity].
      * rewrite IH. reflexivity.
Qed.

Lemma read_at_as_access t id sub : read_at t = Some (id, sub) -> as_access t = id.
Proof.
  destruct t as [i s| |i sg e j s z|i|c0 s0]; cbn; try discriminate.
  - now intros [= -> _].
  - destruct i, sg, e; cbn; try discriminate. now intros [= -> _].
Qed.

Lemma live_tok_inv g id tr : live_tok g id = Some tr ->
  exists n, id = AT n /\ find_tok n (toks g) = Some tr /\ tr_expired tr = false.
Proof.
  destruct id as [n|n| |]; cbn; try discriminate.
  destruct (find_tok n (toks g)) as [t|] eqn:F; [|discriminate].
  destruct (tr_expired t) eqn:E; [discriminate|]. intros [= <-]. eauto.
Qed.

Lemma revoke_target_denotes g t h : revoke_target g t h = denotes t.
Proof.
  unfold revoke_target, denotes.
  destruct t as [i s| |i sg e j s z|i|c0 s0]; cbn.
  - now destruct h.
  - now destruct h.
  - destruct i, sg, e; cbn; now destruct h.
  - destruct h; [reflexivity|]. destruct i; try reflexivity. now destruct (find_rt n (rtoks g)).
  - now destruct h.
Qed.

Lemma revoke_token_g_revoke g id caller g' : revoke_token g id caller = Some g' -> g' = g_revoke g id.
Proof.
  destruct g as [tk rk]. destruct id as [n|m| |]; cbn [revoke_token g_revoke toks rtoks]; try (now intros [= <-]).
  - destruct (find_tok n tk) as [t|] eqn:F.
    + destruct (String.eqb (tr_client t) caller); [|discriminate]. now intros [= <-].
    + intros [= <-]. unfold drop_at; cbn [toks rtoks]. now rewrite (remove_tok_absent _ _ F).
  - destruct (find_rt m rk) as [r|] eqn:F.
    + destruct (String.eqb (r_client r) caller); [|discriminate]. now intros [= <-].
    + now intros [= <-].
Qed.

Lemma revoke_token_not_foreign g id caller g' :
  revoke_token g id caller = Some g' -> foreign_to g id caller = false.
Proof.
  destruct id as [n|m| |]; cbn; try reflexivity.
  - destruct (find_tok n (toks g)) as [t|]; [|reflexivity].
    destruct (String.eqb (tr_client t) caller); [reflexivity|discriminate].
  - destruct (find_rt m (rtoks g)) as [r|]; [|reflexivity].
    destruct (String.eqb (r_client r) caller); [reflexivity|discriminate].
Qed.

Lemma revoke_token_refused_foreign g id caller :
  revoke_token g id caller = None -> foreign_to g id caller = true.
Proof.
  destruct id as [n|m| |]; cbn; try discriminate.
  - destruct (find_tok n (toks g)) as [t|]; [|discriminate].
    destruct (String.eqb (tr_client t) caller); [discriminate|reflexivity].
  - destruct (find_rt m (rtoks g)) as [r|]; [|discriminate].
    destruct (String.eqb (r_client r) caller); [discriminate|reflexivity].
Qed.

(* ---------------------------------------------------------------- credentials *)

Definition auth_revoke (cl : list client) (r : router) (c : cred) : option string :=
  match r with
  | Prov => auth_revoke_prov cl c
  | Leg => match verify_client_leg cl c with Some k => Some (c_id k) | None => None end
  end.

Definition leg_secret_auth (cl : list client) (i s : string) : option client :=
  if nonempty i then
    match find_client cl i with
    | None => None
    | Some k => match c_auth k with
                | AMNone => Some k
                | AMPkjwt => None
                | _ => if sec_ok cl i s then Some k else None
                end
    end
  else None.

Lemma leg_secret_auth_id cl i s k : leg_secret_auth cl i s = Some k -> c_id k = i /\ find_client cl i = Some k.
Proof.
  unfold leg_secret_auth. destruct (nonempty i); [|discriminate].
  destruct (find_client cl i) as [k'|] eqn:F; [|discriminate].
  pose proof (find_client_id _ _ _ F) as E.
  destruct (c_auth k'); try (destruct (sec_ok cl i s)); try discriminate; intros [= <-]; auto.
Qed.

(* the Legacy router's client is the one the credential names *)
Lemma verify_client_leg_id cl c k : verify_client_leg cl c = Some k ->
  c_id k = cred_id c /\ find_client cl (cred_id c) = Some k.
Proof.
  unfold verify_client_leg, cred_id.
  destruct c as [|i s|i s|i s f|[x|] f]; cbn [cred_pair fst];
    try (fold (leg_secret_auth cl "" "")); try (fold (leg_secret_auth cl i s));
    try apply leg_secret_auth_id; try discriminate.
  destruct (find_client cl x) as [k'|] eqn:F; [|discriminate].
  pose proof (find_client_id _ _ _ F) as E.
  destruct (c_auth k'); try discriminate. intros [= <-]. auto.
Qed.

Lemma auth_revoke_id cl r c caller : auth_revoke cl r c = Some caller -> caller = cred_id c.
Proof.
  unfold auth_revoke. destruct r.
  - unfold cred_id. destruct c as [|i s|i s|i s f|[x|] f]; cbn; try discriminate.
    + destruct (sec_ok cl i s); [|discriminate]. now intros [= <-].
    + destruct (nonempty i); [|discriminate]. destruct (find_client cl i) as [k|]; [|discriminate].
      destruct (nonempty s).
      * destruct (sec_ok cl i s); [|discriminate]. now intros [= <-].
      * destruct (c_auth k); try discriminate. now intros [= <-].
    + destruct (sec_ok cl i s); [|discriminate]. now intros [= <-].
    + now intros [= <-].
  - destruct (verify_client_leg cl c) as [k|] eqn:V; [|discriminate].
    apply verify_client_leg_id in V as [V _]. now intros [= <-].
Qed.

(* what [proper] says for secret-based credentials *)
Definition proper_sec (cl : list client) (post_only : bool) (i s : string) : bool :=
  match find_client cl i with
  | None => false
  | Some k => nonempty i
              && match c_auth k with
                 | AMNone => (post_only && String.eqb s "") || (nonempty s && String.eqb (c_secret k) s)
                 | AMPkjwt => false
                 | _ => nonempty s && String.eqb (c_secret k) s
                 end
  end.

Lemma proper_is_proper_sec cl c : proper cl c = true ->
  match c with
  | Basic i s | Both i s _ => proper_sec cl false i s = true
  | Post i s => proper_sec cl true i s = true
  | Assertion (Some x) _ => exists k, find_client cl x = Some k /\ c_auth k = AMPkjwt
  | _ => False
  end.
Proof.
  unfold proper, proper_sec. destruct c as [|i s|i s|i s f|[x|] f]; try discriminate; cbn [cred_pair andb];
    try (destruct (find_client cl i) as [k|]; [|discriminate]; destruct (c_auth k); auto).
  - destruct s; [auto|]. intro H. apply andb_true_iff in H as [H1 H2]. rewrite H1, H2. apply orb_true_r.
  - destruct (find_client cl x) as [k|]; [|discriminate]. destruct (c_auth k) eqn:A; try discriminate. eauto.
Qed.

Lemma proper_sec_leg cl b i s : proper_sec cl b i s = true -> leg_secret_auth cl i s <> None.
Proof.
  unfold proper_sec, leg_secret_auth. destruct (find_client cl i) as [k|] eqn:F; [|discriminate]. intro H.
  apply andb_true_iff in H as [H1 H2]. rewrite H1.
  destruct (c_auth k); try discriminate; unfold sec_ok, store_accepts; rewrite F; rewrite H2; discriminate.
Qed.

Lemma proper_sec_basic cl i s : proper_sec cl false i s = true -> sec_ok cl i s = true.
Proof.
  unfold proper_sec, sec_ok, store_accepts. destruct (find_client cl i) as [k|] eqn:F; [|discriminate]. intro H.
  apply andb_true_iff in H as [H1 H2]. destruct (c_auth k); try discriminate; exact H2.
Qed.

Lemma proper_auth_revoke cl r c : proper cl c = true -> auth_revoke cl r c <> None.
Proof.
  intro P. apply proper_is_proper_sec in P. unfold auth_revoke.
  destruct c as [|i s|i s|i s f|[x|] f]; try contradiction.
  - destruct r; cbn.
    + rewrite (proper_sec_basic _ _ _ P). discriminate.
    + unfold verify_client_leg; cbn [cred_pair]. fold (leg_secret_auth cl i s).
      pose proof (proper_sec_leg _ _ _ _ P). destruct (leg_secret_auth cl i s); [discriminate|congruence].
  - destruct r; cbn.
    + unfold proper_sec in P. destruct (find_client cl i) as [k|] eqn:F; [|discriminate].
      apply andb_true_iff in P as [N P]. rewrite N.
      destruct (nonempty s) eqn:NS.
      * assert (S : sec_ok cl i s = true).
        { unfold sec_ok, store_accepts. rewrite NS, F. unfold nonempty in NS.
          destruct (c_auth k); try discriminate; cbn in P; try exact P.
          apply orb_true_iff in P as [P|P]; [|exact P].
          apply String.eqb_eq in P. subst s. discriminate. }
        rewrite S. discriminate.
      * destruct (c_auth k); try discriminate; cbn in P; try (apply andb_true_iff in P as [P _]; discriminate).
    + unfold verify_client_leg; cbn [cred_pair]. fold (leg_secret_auth cl i s).
      pose proof (proper_sec_leg _ _ _ _ P). destruct (leg_secret_auth cl i s); [discriminate|congruence].
  - destruct r; cbn.
    + rewrite (proper_sec_basic _ _ _ P). discriminate.
    + unfold verify_client_leg; cbn [cred_pair]. fold (leg_secret_auth cl i s).
      pose proof (proper_sec_leg _ _ _ _ P). destruct (leg_secret_auth cl i s); [discriminate|congruence].
  - destruct P as (k & F & A). destruct r; cbn; [discriminate|]. rewrite F, A. discriminate.
Qed.

Definition auth_intro (cl : list client) (r : router) (c : cred) : option string :=
  match r with Prov => auth_intro_prov cl c | Leg => auth_intro_leg cl c end.

Lemma auth_intro_ok cl r c caller : auth_intro cl r c = Some caller ->
  authenticated cl c = true /\ caller = cred_id c.
Proof.
  unfold auth_intro, cred_id. destruct r.
  - destruct c as [|i s|i s|i s f|[x|] f]; cbn; try discriminate;
      try (destruct (sec_ok cl i s) eqn:E; [|discriminate]; rewrite sec_ok_proved in E); intros [= <-]; now split.
  - unfold auth_intro_leg. destruct c as [|i s|i s|i s f|[x|] f]; cbn; try discriminate;
      try (destruct (nonempty i && nonempty s && store_accepts cl i s) eqn:E; [|discriminate];
           apply andb_true_iff in E as [E E2]; apply andb_true_iff in E as [_ E1];
           assert (E : sec_ok cl i s = true) by (unfold sec_ok; now rewrite E1, E2);
           rewrite sec_ok_proved in E); intros [= <-]; now split.
Qed.

Lemma client_err_leg_shape cl c : exists st, client_err_leg cl c = OErr st true.
Proof.
  unfold client_err_leg. destruct c as [|i s|i s|i s f|[x|] f]; eauto.
  destruct (find_client cl x); eauto.
Qed.

Lemma revoke_err_prov_shape c : exists st, revoke_err_prov c = OErr st true.
Proof. unfold revoke_err_prov. destruct c as [|i s|i s|i s f|[x|] f]; eauto. Qed.

Definition revoke_err (cl : list client) (r : router) (c : cred) : out :=
  match r with Prov => revoke_err_prov c | Leg => client_err_leg cl c end.

Lemma revoke_err_shape cl r c : exists st, revoke_err cl r c = OErr st true.
Proof. destruct r; [apply revoke_err_prov_shape|apply client_err_leg_shape]. Qed.

Definition exch_err (cl : list client) (r : router) (c : cred) : out :=
  match r with Prov => OErr S401 true | Leg => client_err_leg cl c end.

Lemma exch_err_shape cl r c : exists st, exch_err cl r c = OErr st true.
Proof. destruct r; [now exists S401|apply client_err_leg_shape]. Qed.

(* ---------------------------------------------------------------- token exchange *)

Lemma read_native_live_own g typ t id sub :
  read_native g typ t = Some (id, sub) -> x_live g typ id = true -> confused typ t = false ->
  own_live g typ t = true.
Proof.
  destruct typ; cbn; try discriminate.
  - intros R L _. destruct (live_tok g id) as [tr|] eqn:E; [|discriminate].
    apply live_tok_inv in E as (n & -> & F & X). apply read_at_as_access in R. rewrite R.
    unfold g_has_live. now rewrite F, X.
  - destruct t as [i s| |i sg e j s z|i|c s]; cbn; try discriminate.
    destruct i as [n|m| |]; try discriminate.
    destruct (find_rt m (rtoks g)); [reflexivity|discriminate].
  - destruct t as [i s| |i sg e j s z|i|c s]; cbn; try discriminate.
    destruct i, sg, e; cbn; try discriminate. intros _ _. now destruct j.
Qed.

(* what the verifier storage contributes: a third-party token, in the role its issuer vouches for *)
Lemma read_x_inv g a typ t id sub : read_x g a typ t = Some (id, sub) ->
  read_native g typ t = Some (id, sub) \/
  (read_native g typ t = None /\ id = Junk /\ supported typ = true /\ p_verifier (policy g) = true /\
   exists c, t = Ext c sub /\ ext_accepts c a = true).
Proof.
  unfold read_x. destruct (read_native g typ t) as [x|]; [intros [= ->]; now left|].
  destruct (supported typ) eqn:S; cbn [andb]; [|discriminate].
  destruct (p_verifier (policy g)) eqn:V; [|discriminate].
  destruct t as [i s| |i sg e j s z|i|c s]; try discriminate.
  destruct (ext_accepts c a) eqn:E; [|discriminate]. intros [= <- <-]. right. repeat split; eauto.
Qed.

Lemma read_x_live_subj g a typ t id sub :
  read_x g a typ t = Some (id, sub) -> x_live g typ id = true -> confused typ t = false ->
  subj_live a g typ t = true.
Proof.
  intros R L U. unfold subj_live. apply read_x_inv in R as [R|(_ & -> & S & V & c & -> & E)].
  - rewrite (read_native_live_own _ _ _ _ _ R L U). reflexivity.
  - apply orb_true_iff. right. destruct typ; try discriminate; cbn in *; try discriminate; now rewrite V, E.
Qed.

Lemma read_x_named g a typ t sub :
  read_x g a typ t = Some (NoId, sub) -> nonempty sub = false -> confused typ t = true.
Proof.
  intros R N. apply read_x_inv in R as [R|(_ & X & _)]; [|discriminate]. apply nonempty_false in N; subst sub.
  destruct typ; cbn in *; try discriminate.
  - destruct t as [i s| |i sg e j s z|i|c s]; cbn in *; try discriminate.
    + now injection R as -> ->.
    + destruct i, sg, e; cbn in *; try discriminate. now injection R as -> ->.
  - destruct (raw_id t); try discriminate. destruct (find_rt n (rtoks g)); discriminate.
  - destruct t as [i s| |i sg e j s z|i|c s]; try discriminate.
    destruct (i && sg && negb e); discriminate.
Qed.

Definition exch_auth (cl : list client) (r : router) (c : cred) : option client :=
  match r with Prov => auth_exch_prov cl c | Leg => auth_exch_leg cl c end.

(* what a successful exchange of the model implies *)
Lemma exchange_ok_inv cl r s c subj styp actor req scopes aud s' i x rt lv sc sto :
  exchange cl r s c subj styp actor req scopes aud = (s', OExch i x rt lv sc sto) ->
  exists k id ssub,
    exch_auth cl r c = Some k /\ read_x (fst s) false styp subj = Some (id, ssub) /\ x_live (fst s) styp id = true /\
    vetoed (policy (fst s)) scopes = false /\ sc = decided_scopes (policy (fst s)) scopes /\
    match actor with
    | None => True
    | Some (ta, atyp) => exists aid asub, read_x (fst s) true atyp ta = Some (aid, asub) /\
        ((nonempty asub || match aid with NoId => false | _ => true end) = false \/ x_live (fst s) atyp aid = true)
    end.
Proof.
  unfold exchange. destruct s as [g nx]. cbn [fst].
  destruct (match r, styp with Prov, TAbsent => true | _, _ => false end); [discriminate|].
  fold (exch_auth cl r c) (exch_err cl r c). destruct (exch_auth cl r c) as [k|];
    [|destruct (exch_err_shape cl r c) as [st ->]; discriminate].
  destruct (c_exchange k) eqn:GX; cbn [negb]; [|discriminate].
  destruct (read_x g false styp subj) as [[id ssub]|] eqn:RS; [|destruct req; discriminate].
  set (A := match actor with
            | None => Some (NoId, "", TAbsent)
            | Some (ta, atyp) => match read_x g true atyp ta with Some (aid, asub) => Some (aid, asub, atyp) | None => None end
            end).
  destruct A as [[[aid asub] atyp']|] eqn:EA; [|destruct req; discriminate].
  destruct (x_live g styp id) eqn:LS; cbn [negb]; [|destruct req, r; discriminate].
  destruct ((nonempty asub || match aid with NoId => false | _ => true end) && negb (x_live g atyp' aid)) eqn:LA;
    [destruct req, r; discriminate|].
  destruct (vetoed (policy g) scopes) eqn:V;
    [destruct (string_in "veto" scopes), (p_late (policy g)), req, r; discriminate|].
  intro H. exists k, id, ssub.
  split; [reflexivity|]. split; [reflexivity|]. split; [exact LS|]. split; [reflexivity|]. split.
  - destruct req; try discriminate;
      match type of H with context [effective_type ?p ?q] => destruct (effective_type p q) end;
      try discriminate; now injection H as _ _ _ _ _ <- _.
  - subst A. destruct actor as [[ta atyp]|]; [|exact I].
    destruct (read_x g true atyp ta) as [[aid' asub']|]; [|discriminate].
    injection EA as -> -> ->. exists aid, asub. split; [reflexivity|].
    apply andb_false_iff in LA as [LA|LA]; [now left|right]. now apply negb_false_iff in LA.
Qed.

(* ---------------------------------------------------------------- the two step lemmas *)

Lemma gstep_step cl s o : gstep cl (fst s) o (snd (step cl s o)) = fst (fst (step cl s o)).
Proof.
  destruct s as [g nx]. destruct o as [r cid sub scopes|r t|r c t|r c t h|r hint cid|r c subj styp actor req scopes aud]; cbn [step fst snd].
  - unfold issue. destruct (find_client cl cid) as [k|] eqn:F; [|reflexivity].
    destruct (string_in "offline_access" scopes && c_refresh k); cbn; unfold expired_of; rewrite F; reflexivity.
  - reflexivity.
  - reflexivity.
  - unfold revoke. fold (auth_revoke cl r c) (revoke_err cl r c). destruct (auth_revoke cl r c) as [caller|];
      [|destruct (revoke_err_shape cl r c) as [st ->]; reflexivity].
    destruct (revoke_token g (revoke_target g t h) caller) as [g'|] eqn:E; [|reflexivity].
    cbn. rewrite revoke_target_denotes in E. now apply revoke_token_g_revoke in E.
  - unfold endsession.
    assert (F : forall user c0, c0 = "" \/ True ->
      forall P : store * out,
      P = (if nonempty c0 then match find_client cl c0 with
                               | None => (g, match r with Prov => OErr S400 true | Leg => OErr S500 true end)
                               | Some k => if logout_fails (policy g) (c_id k) then (g, match r with Prov => OErr S400 true | Leg => OErr S500 true end)
                                           else (terminate g user (c_id k), ORedirect)
                               end
           else (terminate g user "", ORedirect)) ->
      match snd P with ORedirect => fst P = terminate g user c0 | _ => fst P = g end).
    { intros user c0 _ P ->. destruct (nonempty c0) eqn:N.
      - destruct (find_client cl c0) as [k|] eqn:Fk; [|destruct r; reflexivity].
        destruct (logout_fails (policy g) (c_id k)); [destruct r; reflexivity|].
        cbn. now rewrite (find_client_id _ _ _ Fk).
      - cbn. now rewrite (nonempty_false _ N). }
    destruct hint as [[i s| |i sg e j s z|i|c0 s0]|]; try reflexivity.
    + destruct i, sg; cbn [andb]; try reflexivity.
      destruct (nonempty cid && negb (String.eqb cid z)); [reflexivity|].
      specialize (F (ua_user (policy g) s) z (or_intror I) _ eq_refl).
      destruct (if nonempty z then _ else _) as [g' x]. cbn in *. destruct x; cbn; congruence.
    + specialize (F (ua_user (policy g) "") cid (or_intror I) _ eq_refl).
      destruct (if nonempty cid then _ else _) as [g' x]. cbn in *. destruct x; cbn; congruence.
  - destruct (exchange cl r (g, nx) c subj styp actor req scopes aud) as [s' x] eqn:E. cbn [fst snd].
    destruct x as [| | | | |i xt rt lv sc sto| |]; try (unfold exchange, client_err_leg in E;
      repeat match type of E with
             | context [match ?d with _ => _ end] => destruct d; try discriminate
             | context [if ?d then _ else _] => destruct d; try discriminate
             end; now injection E as <-).
    unfold exchange, client_err_leg in E.
    repeat match type of E with
           | (let (_, _) := ?d in _) = _ => destruct d
           | context [match ?d with _ => _ end] => destruct d eqn:?; try discriminate
           | context [if ?d then _ else _] => destruct d eqn:?; try discriminate
           end; injection E as <- <- <- <- <- <- <-; reflexivity.
Qed.

Ltac leaves E :=
  repeat match type of E with
         | (let (_, _) := ?d in _) = _ => destruct d
         | context [match ?d with _ => _ end] => destruct d eqn:?; try discriminate
         | context [if ?d then _ else _] => destruct d eqn:?; try discriminate
         end.

Lemma logout_fails_empty pol : logout_fails pol "" = false.
Proof.
  unfold logout_fails. destruct (p_session pol); [|reflexivity].
  unfold nonempty. rewrite String.eqb_sym. now destruct (String.eqb "" (p_nologout pol)).
Qed.

(* a redirect is only answered where the storage did end the session the request is about *)
Lemma endsession_redirect_ok cl r g hint cid g' :
  endsession cl r g hint cid = (g', ORedirect) -> check cl g (EndSession r hint cid) ORedirect = true.
Proof.
  assert (F : forall named c0 g2,
    (if nonempty c0 then match find_client cl c0 with
                         | None => (g, match r with Prov => OErr S400 true | Leg => OErr S500 true end)
                         | Some k => if logout_fails (policy g) (c_id k) then (g, match r with Prov => OErr S400 true | Leg => OErr S500 true end)
                                     else (terminate g (ua_user (policy g) named) (c_id k), ORedirect)
                         end
     else (terminate g (ua_user (policy g) named) "", ORedirect)) = (g2, ORedirect) ->
    logout_fails (policy g) c0 = false).
  { intros named c0 g2. destruct (nonempty c0) eqn:N.
    - destruct (find_client cl c0) as [k|] eqn:Fk; [|destruct r; discriminate].
      rewrite (find_client_id _ _ _ Fk). destruct (logout_fails (policy g) c0); [destruct r; discriminate|reflexivity].
    - intros _. rewrite (nonempty_false _ N). apply logout_fails_empty. }
  unfold endsession, check, session_of.
  destruct hint as [[i s| |i sg e j s z|i|c0 s0]|]; try discriminate.
  - destruct i, sg; cbn [andb]; try discriminate.
    destruct (nonempty cid && negb (String.eqb cid z)); [discriminate|].
    intro H. now rewrite (F _ _ _ H).
  - intro H. now rewrite (F _ _ _ H).
Qed.

Lemma check_step cl s o : op_unconfused o = true -> check cl (fst s) o (snd (step cl s o)) = true.
Proof.
  intro U. destruct s as [g nx].
  destruct o as [r cid sub scopes|r t|r c t|r c t h|r hint cid|r c subj styp actor req scopes aud]; cbn [step fst snd].
  - unfold issue. destruct (find_client cl cid) as [k|]; [destruct (string_in "offline_access" scopes && c_refresh k)|]; reflexivity.
  - unfold userinfo. destruct (read_at t) as [[id sub]|] eqn:R; [|reflexivity].
    destruct (live_tok g id) as [tr|] eqn:L; [|reflexivity].
    apply live_tok_inv in L as (n & -> & F & X). apply read_at_as_access in R.
    cbn. rewrite R. unfold g_has_live. rewrite F, X. cbn.
    destruct (string_in "openid" (tr_scopes tr)); cbn; [rewrite String.eqb_refl; apply orb_true_r | reflexivity].
  - unfold introspect. fold (auth_intro cl r c).
    destruct (auth_intro cl r c) as [caller|] eqn:A; [|destruct r; reflexivity].
    apply auth_intro_ok in A as [A ->].
    destruct (read_at t) as [[id sub]|] eqn:R; [|reflexivity].
    destruct (live_tok g id) as [tr|] eqn:L; [|reflexivity].
    destruct (string_in (cred_id c) (tr_aud tr)) eqn:M; [|reflexivity].
    apply live_tok_inv in L as (n & -> & F & X). apply read_at_as_access in R.
    cbn. rewrite A, R. unfold g_has_live. rewrite F, X, M, !String.eqb_refl. reflexivity.
  - unfold revoke. fold (auth_revoke cl r c).
    destruct (auth_revoke cl r c) as [caller|] eqn:A.
    + pose proof (auth_revoke_id _ _ _ _ A) as ->.
      destruct (revoke_token g (revoke_target g t h) (cred_id c)) as [g'|] eqn:E; cbn;
        rewrite revoke_target_denotes in E.
      * now rewrite (revoke_token_not_foreign _ _ _ _ E).
      * now rewrite (revoke_token_refused_foreign _ _ _ E).
    + assert (P : proper cl c = false).
      { destruct (proper cl c) eqn:P; [|reflexivity]. exfalso. now apply (proper_auth_revoke cl r c P). }
      fold (revoke_err cl r c). destruct (revoke_err_shape cl r c) as [st ->]. cbn. rewrite P. apply orb_true_r.
  - destruct (endsession cl r g hint cid) as [g' x] eqn:E. cbn [snd].
    destruct x; try (unfold endsession in E; leaves E; discriminate); [|reflexivity].
    exact (endsession_redirect_ok _ _ _ _ _ _ E).
  - destruct (exchange cl r (g, nx) c subj styp actor req scopes aud) as [s' x] eqn:E. cbn [fst snd].
    destruct x as [| | | | |i xt rt lv sc sto|st b|]; try (exfalso; unfold exchange, client_err_leg in E; leaves E; discriminate).
    + apply exchange_ok_inv in E as (k & id & ssub & _ & RS & LS & _ & _ & AC). cbn [fst] in *.
      cbn in U. apply andb_true_iff in U as [U1 U2]. apply negb_true_iff in U1.
      cbn. rewrite (read_x_live_subj _ _ _ _ _ _ RS LS U1). cbn.
      destruct actor as [[ta atyp]|]; [|reflexivity]. cbn. apply negb_true_iff in U2.
      destruct AC as (aid & asub & RA & [N|LA]).
      * apply orb_false_iff in N as [N1 N2]. destruct aid; try discriminate.
        rewrite (read_x_named _ _ _ _ _ RA N1) in U2. discriminate.
      * exact (read_x_live_subj _ _ _ _ _ _ RA LA U2).
    + reflexivity.
Qed.

Lemma spec_run_model cl : forall ops s,
  forallb op_unconfused ops = true -> spec_run cl (fst s) ops (run cl s ops) = true.
Proof.
  induction ops as [|o ops IH]; intros s U; [reflexivity|].
  cbn in U. apply andb_true_iff in U as [U1 U2].
  cbn [run]. pose proof (check_step cl s o U1) as C. pose proof (gstep_step cl s o) as G.
  destruct (step cl s o) as [s' x]. cbn [fst snd] in C, G. cbn [spec_run].
  rewrite C, G. cbn. apply IH. exact U2.
Qed.

(* NewProvider's fold over the options computes exactly what the configuration designates *)
Lemma fold_kopts opts : forall c, fold_left apply_kopt opts c =
  KeyConf (match last_at opts with Some b => b | None => k_at c end)
          (match last_hint opts with Some b => b | None => k_hint c end).
Proof.
  induction opts as [|o r IH]; intro c; cbn [fold_left last_at last_hint]; [now destruct c|].
  rewrite IH. destruct o as [b|b]; cbn; destruct (last_at r), (last_hint r); reflexivity.
Qed.
Lemma configure_designated opts : configure opts = designated opts.
Proof. unfold configure, designated. now rewrite fold_kopts. Qed.

Definition unconfused (i : input) : bool :=
  match i with Hist _ pol ops => forallb op_unconfused (located (designated (p_kopts pol)) ops) end.

Theorem spec_model_partial : forall i, unconfused i = true -> spec i (model i) = true.
Proof.
  intros [cl pol ops] U. cbn [model run_hist spec]. rewrite configure_designated.
  exact (spec_run_model cl (located (designated (p_kopts pol)) ops) (init pol) U).
Qed.

(* Known finding Fxx-C08-1: a revoked JWT access token, declared as id_token, is accepted as
   exchange subject (the faithful model of the code says so). *)
Definition refuting_clients := [Client "web" "web-secret" AMBasic false false true true; Client "web2" "web2-secret" AMPost true false true true].
Definition refstore_policy := TEPolicy true None None false false None ActDefault "" LateNone [].
Definition refuting_history :=
  Hist refuting_clients refstore_policy
    [(0, true, Issue Prov "web2" "bob" ["openid"]);
     (0, true, Revoke Prov (Post "web2" "web2-secret") (PJwt 0 true false (AT 2) "bob" "") false);
     (0, true, Exchange Prov (Basic "web" "web-secret") (PJwt 0 true false (AT 2) "bob" "") TId None TAccess ["openid"] ["web"])].
Theorem spec_model_refuted : exists i, spec i (model i) = false.
Proof. exists refuting_history. vm_compute. reflexivity. Qed.

Example spec_model_partial_nonvacuous :
  let i := Hist refuting_clients refstore_policy
    [(0, true, Issue Leg "web2" "bob" ["openid"; "offline_access"]);
     (0, true, UserInfo Prov (PJwt 0 true false (AT 3) "bob" ""));
     (1, true, UserInfo Prov (PJwt 0 true false (AT 3) "bob" ""));      (* another tenant's issuer: refused *)
     (0, false, UserInfo Leg (PJwt 0 true false (AT 3) "bob" ""));     (* key storage down: refused *)
     (0, true, Revoke Leg (Post "web2" "web2-secret") (PJwt 0 true false (AT 3) "bob" "") false);
     (0, true, UserInfo Prov (PJwt 0 true false (AT 3) "bob" ""));
     (0, true, Exchange Prov (Basic "web" "web-secret") (PRaw (RT 2)) TRefresh None TAccess ["openid"] ["web"])] in
  unconfused i = true /\ existsb positive (model i) = true /\ spec i (model i) = true /\
  model i = [OIssued (AT 3) (RT 2); OInfo "bob"; OErr S401 false; OErr S401 true; OOk; OErr S403 false;
             OExch TAccess (XOpaque (AT 4) "bob") NoId false ["openid"]
               (Some (TRec "web" "bob" "" ["openid"] ["web"] false))].
Proof. vm_compute. repeat split. Qed.

(* ---------------------------------------------------------------- readable per-endpoint statements (any state) *)

Definition live_in (g : store) (n : nat) (tr : trec) : Prop :=
  find_tok n (toks g) = Some tr /\ tr_expired tr = false.

Lemma userinfo_live r g t sub : userinfo r g t = OInfo sub ->
  exists n tr, as_access t = AT n /\ live_in g n tr /\ (sub = tr_sub tr \/ sub = "").
Proof.
  unfold userinfo. destruct (read_at t) as [[id s]|] eqn:R; [|discriminate].
  destruct (live_tok g id) as [tr|] eqn:L; [|discriminate].
  apply live_tok_inv in L as (n & -> & F & X). apply read_at_as_access in R.
  intros [= <-]. exists n, tr. repeat split; auto. destruct (string_in "openid" (tr_scopes tr)); auto.
Qed.

(* who gets active:true, spelled out: the caller presented exactly the non-empty secret its client
   is registered with, or an assertion that verified - never no credential, a client_id alone,
   an empty secret (left out, sent empty, or in a Basic header) *)
Definition caller_proved (cl : list client) (c : cred) : Prop :=
  match c with
  | NoCred => False
  | Basic i s | Post i s | Both i s _ =>
      s <> "" /\ exists k, find_client cl i = Some k /\ c_secret k = s
  | Assertion who _ => exists x, who = Some x
  end.

Lemma authenticated_proved cl c : authenticated cl c = true -> caller_proved cl c.
Proof.
  assert (P : forall i s, proved_secret cl i s = true -> s <> "" /\ exists k, find_client cl i = Some k /\ c_secret k = s).
  { intros i s. unfold proved_secret. destruct (find_client cl i) as [k|]; [|discriminate].
    intro H. apply andb_true_iff in H as [N E]. apply String.eqb_eq in E. subst s. split; [|eauto].
    intro Z. rewrite Z in N. discriminate. }
  destruct c as [|i s|i s|i s f|[x|] f]; cbn; try discriminate; auto. eauto.
Qed.

Lemma introspect_caller_proved cl r g c t sub client sc b :
  introspect cl r g c t = OIntro true sub client sc b -> caller_proved cl c.
Proof.
  unfold introspect. fold (auth_intro cl r c).
  destruct (auth_intro cl r c) as [caller|] eqn:A; [|destruct r; discriminate].
  apply auth_intro_ok in A as [A _]. intros _. now apply authenticated_proved.
Qed.

(* in particular for storages that accept the empty secret of a secret-less client: naming that
   client without a secret never yields a positive answer, on either router *)
Lemma secretless_never_introspects cl r g c t sub client sc b :
  snd (cred_pair c) = "" -> (match c with Assertion _ _ => False | _ => True end) ->
  introspect cl r g c t <> OIntro true sub client sc b.
Proof.
  intros E NA H. apply introspect_caller_proved in H.
  destruct c as [|i s|i s|i s f|w f]; cbn in *; try contradiction; destruct H as [H _]; now apply H.
Qed.

(* what the storage accepts is not by itself a proof of identity: there are client tables
   (the example storage's: public clients stored with an empty secret) where the storage says
   yes to a request that proves nothing - the guards in front of it are what the theorems need *)
Lemma storage_acceptance_is_not_proof :
  exists cl id, store_accepts cl id "" = true /\ authenticated cl (Basic id "") = false /\
    forall r g t, exists st oa, introspect cl r g (Basic id "") t = OErr st oa.
Proof.
  exists [Client "spa" "" AMNone true false true true], "spa". repeat split.
  intros r g t. destruct r; cbn; eauto.
Qed.

Lemma introspect_live cl r g c t sub client sc b : introspect cl r g c t = OIntro true sub client sc b ->
  authenticated cl c = true /\
  exists n tr, as_access t = AT n /\ live_in g n tr /\ string_in (cred_id c) (tr_aud tr) = true /\
               sub = tr_sub tr /\ client = tr_client tr /\ sc = tr_scopes tr.
Proof.
  unfold introspect. fold (auth_intro cl r c).
  destruct (auth_intro cl r c) as [caller|] eqn:A; [|destruct r; discriminate].
  apply auth_intro_ok in A as [A ->].
  destruct (read_at t) as [[id s]|] eqn:R; [|discriminate].
  destruct (live_tok g id) as [tr|] eqn:L; [|discriminate].
  destruct (string_in (cred_id c) (tr_aud tr)) eqn:M; [|discriminate].
  apply live_tok_inv in L as (n & -> & F & X). apply read_at_as_access in R.
  intros [= <- <- <- <-]. split; [exact A|]. exists n, tr. repeat split; auto.
Qed.

Lemma inactive_discloses_nothing cl r g c t sub client sc b :
  introspect cl r g c t = OIntro false sub client sc b -> sub = "" /\ client = "" /\ sc = [] /\ b = true.
Proof.
  unfold introspect. fold (auth_intro cl r c).
  destruct (auth_intro cl r c) as [caller|]; [|destruct r; discriminate].
  destruct (read_at t) as [[id s]|]; [|now intros [= <- <- <- <-]].
  destruct (live_tok g id) as [tr|]; [|now intros [= <- <- <- <-]].
  destruct (string_in caller (tr_aud tr)); [discriminate|now intros [= <- <- <- <-]].
Qed.

Lemma exchange_live cl r s c subj styp actor req scopes aud s' i x rt lv sc sto :
  op_unconfused (Exchange r c subj styp actor req scopes aud) = true ->
  exchange cl r s c subj styp actor req scopes aud = (s', OExch i x rt lv sc sto) ->
  subj_live false (fst s) styp subj = true /\ actor_live (fst s) actor = true.
Proof.
  intros U E. pose proof (check_step cl s (Exchange r c subj styp actor req scopes aud) U) as C.
  cbn [step] in C. rewrite E in C. cbn in C. now apply andb_true_iff in C.
Qed.

Lemma revoke_foreign_refused cl r g c t h g' x :
  revoke cl r g c t h = (g', x) -> foreign_to g (denotes t) (cred_id c) = true -> g' = g /\ x <> OOk.
Proof.
  unfold revoke. fold (auth_revoke cl r c).
  fold (revoke_err cl r c). destruct (auth_revoke cl r c) as [caller|] eqn:A;
    [|destruct (revoke_err_shape cl r c) as [st ->]; intros [= <- <-] _; (split; [reflexivity|discriminate])].
  pose proof (auth_revoke_id _ _ _ _ A) as ->.
  destruct (revoke_token g (revoke_target g t h) (cred_id c)) as [g1|] eqn:E; rewrite revoke_target_denotes in E.
  - intros _ F. rewrite (revoke_token_not_foreign _ _ _ _ E) in F. discriminate.
  - intros [= <- <-] _. split; [reflexivity|discriminate].
Qed.

Lemma revoke_unknown_200 cl r g c t h :
  proper cl c = true -> foreign_to g (denotes t) (cred_id c) = false -> snd (revoke cl r g c t h) = OOk.
Proof.
  intros P F. unfold revoke. fold (auth_revoke cl r c).
  destruct (auth_revoke cl r c) as [caller|] eqn:A; [|exfalso; now apply (proper_auth_revoke cl r c P)].
  pose proof (auth_revoke_id _ _ _ _ A) as ->.
  destruct (revoke_token g (revoke_target g t h) (cred_id c)) as [g1|] eqn:E; [reflexivity|].
  rewrite revoke_target_denotes in E. rewrite (revoke_token_refused_foreign _ _ _ E) in F. discriminate.
Qed.

(* a token that is not (or no longer) live in the storage is refused at all three endpoints *)
Lemma dead_token_refused cl g t n :
  as_access t = AT n -> (forall tr, ~ live_in g n tr) ->
  (forall r sub, userinfo r g t <> OInfo sub) /\
  (forall r c sub client sc b, introspect cl r g c t <> OIntro true sub client sc b) /\
  (forall r s c actor req scopes aud s' i x rt lv sc sto, fst s = g ->
     exchange cl r s c t TAccess actor req scopes aud <> (s', OExch i x rt lv sc sto)).
Proof.
  intros A D. repeat split.
  - intros r sub H. apply userinfo_live in H as (m & tr & A' & L & _). rewrite A in A'. injection A' as <-. exact (D _ L).
  - intros r c sub client sc b H. apply introspect_live in H as (_ & m & tr & A' & L & _).
    rewrite A in A'. injection A' as <-. exact (D _ L).
  - intros r s c actor req scopes aud s' i x rt lv sc sto <- H.
    apply exchange_ok_inv in H as (k & id & ssub & _ & RS & LS & _). cbn in RS, LS.
    destruct (live_tok (fst s) id) as [tr|] eqn:L; [|discriminate].
    apply live_tok_inv in L as (m & -> & F & X).
    apply read_x_inv in RS as [RS|(_ & RS & _)]; [|discriminate]. cbn in RS.
    apply read_at_as_access in RS. rewrite A in RS. injection RS as <-.
    exact (D tr (conj F X)).
Qed.

(* ---------------------------------------------------------------- histories: tokens come from issuance only, losses are permanent *)

Lemma find_tok_in n l tr : find_tok n l = Some tr -> List.In (n, tr) l.
Proof.
  induction l as [|[m t] l IH]; cbn; [discriminate|].
  destruct (Nat.eqb_spec m n) as [->|]; [intros [= ->]; now left | intro H; right; auto].
Qed.

Lemma not_in_find_none n l : (forall tr, ~ List.In (n, tr) l) -> find_tok n l = None.
Proof.
  intro H. destruct (find_tok n l) as [tr|] eqn:F; [|reflexivity]. exfalso. exact (H _ (find_tok_in _ _ _ F)).
Qed.

(* every entry of the new state is an entry of the old one or carries an id minted by this step *)
Definition grows (s s' : st) : Prop :=
  snd s <= snd s' /\
  forall m tr, List.In (m, tr) (toks (fst s')) -> List.In (m, tr) (toks (fst s)) \/ (snd s < m /\ m <= snd s').

Lemma grows_filter g nx f rk pl : grows (g, nx) (Store (filter f (toks g)) rk pl, nx).
Proof. split; [apply Nat.le_refl|]. cbn. intros m tr H. apply filter_In in H as [H _]. now left. Qed.

Lemma grows_refl s : grows s s.
Proof. split; [apply Nat.le_refl|]. now left. Qed.

Lemma grows_add g nx n t rk pl nx' : nx < n -> n <= nx' -> grows (g, nx) (Store ((n, t) :: toks g) rk pl, nx').
Proof.
  intros A B. split; [cbn; lia|]. cbn. intros m tr [[= <- <-]|H]; [right; lia|now left].
Qed.

Lemma step_grows cl s o : grows s (fst (step cl s o)).
Proof.
  destruct s as [g nx].
  destruct o as [r cid sub scopes|r t|r c t|r c t h|r hint cid|r c subj styp actor req scopes aud]; cbn [step fst snd];
    try apply grows_refl.
  - unfold issue. destruct (find_client cl cid); [|apply grows_refl].
    destruct (string_in "offline_access" scopes && c_refresh c); cbn [fst]; apply grows_add; lia.
  - destruct (revoke cl r g c t h) as [g' x] eqn:E. cbn [fst snd].
    unfold revoke in E. fold (auth_revoke cl r c) in E.
    destruct (auth_revoke cl r c); [|injection E as <- _; apply grows_refl].
    destruct (revoke_token g (revoke_target g t h) s) as [g1|] eqn:R; injection E as <- _; [|apply grows_refl].
    apply revoke_token_g_revoke in R. subst g1.
    destruct (revoke_target g t h) as [n|m| |]; cbn [g_revoke]; try apply grows_refl.
    + apply grows_filter.
    + destruct (find_rt m (rtoks g)); [apply grows_filter|apply grows_refl].
  - destruct (endsession cl r g hint cid) as [g' x] eqn:E. cbn [fst snd].
    unfold endsession in E. leaves E; injection E as <- _; try apply grows_refl; apply grows_filter.
  - destruct (exchange cl r (g, nx) c subj styp actor req scopes aud) as [s' x] eqn:E. cbn [fst].
    unfold exchange, client_err_leg in E. leaves E; injection E as <- _; try apply grows_refl; apply grows_add; lia.
Qed.

Lemma state_after_grows cl : forall ops s, grows s (state_after cl s ops).
Proof.
  induction ops as [|o ops IH]; intro s; cbn; [apply grows_refl|].
  destruct (step_grows cl s o) as [A B]. destruct (IH (fst (step cl s o))) as [C D].
  split; [lia|]. intros m tr H. destruct (D _ _ H) as [H1|H1].
  - destruct (B _ _ H1) as [H2|H2]; [now left|right; lia].
  - right. lia.
Qed.

(* every stored token was minted by some operation of the history *)
Lemma stored_token_was_issued cl : forall ops s m tr,
  List.In (m, tr) (toks (fst (state_after cl s ops))) ->
  List.In (m, tr) (toks (fst s)) \/
  exists pre o post, ops = pre ++ o :: post /\
    snd (state_after cl s pre) < m /\ m <= snd (fst (step cl (state_after cl s pre) o)).
Proof.
  induction ops as [|o ops IH]; intros s m tr H; cbn in H; [now left|].
  destruct (IH _ _ _ H) as [H1|(pre & o' & post & -> & A & B)].
  - destruct (step_grows cl s o) as [_ G]. destruct (G _ _ H1) as [H2|H2]; [now left|].
    right. exists [], o, ops. cbn. repeat split; lia.
  - right. exists (o :: pre), o', post. cbn. repeat split; auto.
Qed.

Lemma bounded_after cl pol ops m tr :
  List.In (m, tr) (toks (fst (state_after cl (init pol) ops))) -> m <= snd (state_after cl (init pol) ops).
Proof.
  intro H. destruct (state_after_grows cl ops (init pol)) as [_ G]. destruct (G _ _ H) as [[]|H1]. lia.
Qed.

Lemma state_after_app cl pre post s : state_after cl s (pre ++ post) = state_after cl (state_after cl s pre) post.
Proof. revert s. induction pre as [|o pre IH]; intro s; cbn; [reflexivity|apply IH]. Qed.

(* revocation is effective from then on: a token that was in the storage when its owner's
   revocation answered 200 is in no later state *)
Lemma revoke_effective cl pol pre r c t h post n :
  let s0 := state_after cl (init pol) pre in
  snd (step cl s0 (Revoke r c t h)) = OOk -> denotes t = AT n ->
  find_tok n (toks (fst s0)) <> None ->
  find_tok n (toks (fst (state_after cl (init pol) (pre ++ Revoke r c t h :: post)))) = None.
Proof.
  intros s0 OK D EX. rewrite state_after_app. fold s0. cbn [state_after].
  set (s1 := fst (step cl s0 (Revoke r c t h))).
  assert (B : n <= snd s0).
  { destruct (find_tok n (toks (fst s0))) as [tr|] eqn:F; [|congruence].
    exact (bounded_after cl pol pre n tr (find_tok_in _ _ _ F)). }
  assert (N : snd s1 = snd s0 /\ forall tr, ~ List.In (n, tr) (toks (fst s1))).
  { subst s1. destruct s0 as [g nx]. cbn [step fst snd] in *.
    destruct (revoke cl r g c t h) as [g' x] eqn:E. cbn [fst snd] in *. subst x. split; [reflexivity|].
    unfold revoke in E. fold (auth_revoke cl r c) in E.
    fold (revoke_err cl r c) in E. destruct (auth_revoke cl r c); [|destruct (revoke_err_shape cl r c) as [st EE]; rewrite EE in E; discriminate].
    destruct (revoke_token g (revoke_target g t h) s) as [g1|] eqn:R; [|discriminate].
    injection E as <-. apply revoke_token_g_revoke in R. rewrite revoke_target_denotes, D in R. subst g1.
    cbn. intros tr H. apply filter_In in H as [_ H]. cbn in H. now rewrite Nat.eqb_refl in H. }
  destruct N as [N1 N2]. apply not_in_find_none. intros tr H.
  destruct (state_after_grows cl post s1) as [_ G]. destruct (G _ _ H) as [H1|H1]; [exact (N2 _ H1)|lia].
Qed.

(* logout is effective: after an accepted end_session for (user, client) every token of that
   session found in a later state was minted after the logout *)
Lemma logout_effective cl pol pre r hint cid post u k n tr :
  let s0 := state_after cl (init pol) pre in
  snd (step cl s0 (EndSession r hint cid)) = ORedirect -> session_of (policy (fst s0)) hint cid = Some (u, k) ->
  find_tok n (toks (fst (state_after cl (init pol) (pre ++ EndSession r hint cid :: post)))) = Some tr ->
  tr_client tr = k -> tr_sub tr = u -> snd s0 < n.
Proof.
  intros s0 OK SE F CK CU. rewrite state_after_app in F. fold s0 in F. cbn [state_after] in F.
  pose proof (gstep_step cl s0 (EndSession r hint cid)) as G. rewrite OK in G. cbn [gstep] in G. rewrite SE in G.
  set (s1 := fst (step cl s0 (EndSession r hint cid))) in *.
  assert (N : snd s1 = snd s0).
  { subst s1. destruct s0 as [g nx]. cbn [step fst snd]. now destruct (endsession cl r g hint cid). }
  apply find_tok_in in F. destruct (state_after_grows cl post s1) as [_ GR].
  destruct (GR _ _ F) as [H1|H1]; [|lia]. exfalso.
  rewrite <- G in H1. cbn in H1. apply filter_In in H1 as [_ H1]. cbn in H1.
  rewrite CK, CU, !String.eqb_refl in H1. discriminate.
Qed.

(* the guard of exchange_live is needed: the witness of Fxx-C08-1 at the level of one request *)
Lemma exchange_live_refuted :
  exists cl s r c subj styp actor req scopes aud,
    (exists s' i x rt lv sc sto, exchange cl r s c subj styp actor req scopes aud = (s', OExch i x rt lv sc sto)) /\
    subj_live false (fst s) styp subj = false.
Proof.
  exists refuting_clients,
    (state_after refuting_clients (init refstore_policy)
       [Issue Prov "web2" "bob" ["openid"];
        Revoke Prov (Post "web2" "web2-secret") (Jwt true true false (AT 2) "bob" "") false]),
    Prov, (Basic "web" "web-secret"), (Jwt true true false (AT 2) "bob" ""), TId, None, TAccess, ["openid"], ["web"].
  split; [|vm_compute; reflexivity]. vm_compute. repeat eexists.
Qed.

(* ---------------------------------------------------------------- round 7: the storage policy is constant; logout without a hint *)

Ltac split_goal := repeat match goal with
  | |- context [match ?d with _ => _ end] => destruct d
  | |- context [if ?d then _ else _] => destruct d
  end.

Lemma revoke_token_policy g id caller g' : revoke_token g id caller = Some g' -> policy g' = policy g.
Proof.
  unfold revoke_token. destruct id as [n|m| |]; try (now intros [= <-]).
  - destruct (find_tok n (toks g)) as [t|]; [|now intros [= <-]].
    destruct (String.eqb (tr_client t) caller); [now intros [= <-]|discriminate].
  - destruct (find_rt m (rtoks g)) as [x|]; [|now intros [= <-]].
    destruct (String.eqb (r_client x) caller); [now intros [= <-]|discriminate].
Qed.

Lemma step_policy cl s o : policy (fst (fst (step cl s o))) = policy (fst s).
Proof.
  destruct s as [g nx].
  destruct o as [r cid sub scopes|r t|r c t|r c t h|r hint cid|r c subj styp actor req scopes aud]; cbn [step fst snd].
  - unfold issue. split_goal; reflexivity.
  - reflexivity.
  - reflexivity.
  - destruct (revoke cl r g c t h) as [g' x] eqn:E. cbn [fst].
    unfold revoke in E.
    destruct (match r with Prov => auth_revoke_prov cl c | Leg => _ end) as [caller|]; [|now injection E as <- _].
    destruct (revoke_token g (revoke_target g t h) caller) as [g2|] eqn:RT; injection E as <- _; [|reflexivity].
    exact (revoke_token_policy _ _ _ _ RT).
  - destruct (endsession cl r g hint cid) as [g' x] eqn:E. cbn [fst].
    unfold endsession in E. leaves E; injection E as <- _; reflexivity.
  - destruct (exchange cl r (g, nx) c subj styp actor req scopes aud) as [[g' nx'] x] eqn:E. cbn [fst].
    unfold exchange in E. leaves E; injection E as <- _ _; reflexivity.
Qed.

Lemma state_after_policy cl ops : forall s, policy (fst (state_after cl s ops)) = policy (fst s).
Proof.
  induction ops as [|o ops IH]; intro s; cbn [state_after]; [reflexivity|]. now rewrite IH, step_policy.
Qed.

(* end_session WITHOUT id_token_hint, on a provider whose storage finds the end user in the request
   (CanTerminateSessionFromRequest; the user agent's session belongs to u): once it answered 302,
   every token of (u, client_id) found in a later state was minted after the logout - on both routers *)
Lemma logout_without_hint_effective cl pol pre r cid post u n tr :
  p_session pol = Some u ->
  let s0 := state_after cl (init pol) pre in
  snd (step cl s0 (EndSession r None cid)) = ORedirect ->
  find_tok n (toks (fst (state_after cl (init pol) (pre ++ EndSession r None cid :: post)))) = Some tr ->
  tr_client tr = cid -> tr_sub tr = u -> snd s0 < n.
Proof.
  intros PS s0 OK F CK CU.
  apply (logout_effective cl pol pre r None cid post u cid n tr OK); auto.
  unfold s0. rewrite state_after_policy. cbn. unfold ua_user. now rewrite PS.
Qed.

(* where the storage cannot end the session a request is about, no logout is reported and nothing changes *)
Lemma failed_logout_not_reported cl r g hint cid g' x u c :
  endsession cl r g hint cid = (g', x) -> session_of (policy g) hint cid = Some (u, c) ->
  logout_fails (policy g) c = true -> x <> ORedirect /\ g' = g.
Proof.
  intros E S L.
  assert (NR : x <> ORedirect).
  { intros ->. apply endsession_redirect_ok in E. unfold check in E. rewrite S, L in E. discriminate. }
  split; [exact NR|].
  pose proof (gstep_step cl (g, 0) (EndSession r hint cid)) as G. cbn [step fst snd] in G. rewrite E in G. cbn [fst snd] in G.
  rewrite <- G. destruct x; try reflexivity. now elim NR.
Qed.

(* round 9: a JWT signed with the extra key is an access token nowhere unless the configuration
   designates that key FOR ACCESS TOKENS - whatever the options say about id_token_hints *)
Lemma extra_key_not_an_access_token opts host ku iss e jti sub azp :
  k_at (designated opts) = false ->
  let t := localize (configure opts) UAT host ku (PJwtX iss e jti sub azp) in
  read_at t = None /\ as_access t = Junk /\
  (forall r g s, userinfo r g t <> OInfo s) /\
  (forall cl r g c s cid sc b, introspect cl r g c t <> OIntro true s cid sc b).
Proof.
  intro K. rewrite configure_designated. cbn [localize]. rewrite K. cbn zeta.
  assert (R : read_at (Jwt (iss =? host) false e jti sub azp) = None) by (cbn; now rewrite andb_false_r).
  split; [exact R|]. split; [now destruct (iss =? host)|]. split.
  - intros r g s. unfold userinfo. rewrite R. discriminate.
  - intros cl r g c s cid sc b. unfold introspect. rewrite R.
    destruct (match r with Prov => auth_intro_prov cl c | Leg => auth_intro_leg cl c end); [discriminate|destruct r; discriminate].
Qed.

Lemma hint_option_says_nothing_about_access_tokens b : k_at (designated [OptHintKeys b]) = false /\
  k_at (designated [OptHintKeys b; OptATKeys false]) = false /\ k_at (designated [OptATKeys false; OptHintKeys b]) = false.
Proof. repeat split. Qed.
