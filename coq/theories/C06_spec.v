(* C06: case vocabulary, model runner and property predicate.
   "Each ID token and JWT access token returned by the OP, in every flow, is
   signed with the provider's current signing key and passes the library's own
   verification against the provider's published key set: issuer equals the
   request's issuer, audience contains the client, azp is the client,
   subject/nonce/auth time/amr come from the underlying request, exp and iat
   bracket the configured lifetime, at_hash and c_hash bind the ID token to the
   access token and code delivered in the same response, and user claims appear
   only for granted scopes.  Opaque access tokens decrypt (with the provider key
   only) to the stored token id and subject, and expires_in/scope in the
   response agree with what was stored." *)
From OIDC Require Export Lib Base64 Cipher C02_Jws C01_Verifier C02_Verifiers C06_Token C06_Grant.

(* ---- oracle tables filled by the harness with the real functions ---- *)
Definition table := list (list nat * list nat).            (* AES under the provider key *)
Fixpoint lookup_block (t : table) (b : list nat) : list nat :=
  match t with
  | [] => repeat 0 16
  | (k, v) :: r => if list_eqb Nat.eqb k b then v else lookup_block r b
  end.

(* preimage -> SHA-256, SHA-384, SHA-512 *)
Definition htable := list (string * (list nat * list nat * list nat)).
Fixpoint lookup_hash (t : htable) (h : hkind) (s : string) : list nat :=
  match t with
  | [] => []
  | (k, (d1, d2, d3)) :: r =>
      if k =s s then match h with H256 => d1 | H384 => d2 | H512 => d3 end
      else lookup_hash r h s
  end.

Record case := mkCase {
  cs_router : nat;                 (* 0 = Provider router, 1 = LegacyServer router *)
  cs_issuer : string;
  cs_flow : flow;
  cs_client : client;
  cs_key : sigkey;                 (* Storage.SigningKey at the start of the request *)
  cs_key2 : sigkey;                (* ... after a rotation inside the request *)
  cs_rot : nat;                    (* the rotation takes effect after this many SigningKey calls; 0 = none *)
  cs_keys : list jwk;              (* Storage.KeySet when the tokens are verified, in its order *)
  cs_user : option user;
  cs_req : request;
  cs_state : string;
  cs_ids : next_ids;
  cs_ent : entropy;
  cs_now0 : Z; cs_now1 : Z;        (* bracket of the issuing call, Unix ns *)
  cs_vnow : Z;                     (* when the tokens were verified *)
  cs_verifier : verifier;          (* the relying party's ID-token verifier *)
  cs_at_algs : list string;        (* access-token verifier: SupportedSignAlgs *)
  cs_hashes : htable;
  cs_aes : table
}.

(* the case with the request's scopes replaced *)
Definition with_scopes (c : case) (s : list string) : case :=
  let rq := cs_req c in
  mkCase (cs_router c) (cs_issuer c) (cs_flow c) (cs_client c) (cs_key c) (cs_key2 c) (cs_rot c)
         (cs_keys c) (cs_user c)
         (mkReq (rq_sub rq) (rq_aud rq) s (rq_nonce rq) (rq_acr rq) (rq_amr rq) (rq_auth_time rq) (rq_actor rq))
         (cs_state c) (cs_ids c) (cs_ent c) (cs_now0 c) (cs_now1 c) (cs_vnow c) (cs_verifier c)
         (cs_at_algs c) (cs_hashes c) (cs_aes c).

(* ICase: one token response; the request (subject, scopes, ...) is given as the storage hands
   it to the framework.
   IRefreshed: a refresh_token grant at the end of a HISTORY of requests on one grant: g0 = the
   scopes of the authorization the refresh token comes from, [earlier] = the refresh requests
   made on it before (accepted ones rotate the token and the next request presents the new
   one; refused ones - scopes beyond the grant, another client - leave it), [requested] = the
   scope parameter of the request under test.  rq_scopes of [c] is not used: the scopes the
   tokens may carry follow from the history. *)
Inductive input :=
| ICase (c : case)
| IRefreshed (g0 : list string) (earlier : list earlier_req) (requested : list string) (c : case).

Inductive verdict := VAccept | VReject (e : err).

Record checks := mkChecks {
  k_keys : list jwk;                         (* the /keys document *)
  k_id_verdict : option verdict;             (* rp.VerifyTokens (rp.VerifyIDToken without access token) *)
  k_at_verdict : option verdict;             (* op.VerifyAccessToken on a JWT access token *)
  k_opened : option string;                  (* opaque token decrypted with the provider key *)
  k_other_opens : bool;                      (* a different key decrypts it to the same text *)
  k_readers : list (option (string * string)); (* the provider's three token readers *)
  k_userinfo : bool;                         (* userinfo endpoint honours the access token *)
  k_stored : option (string * Z * list string) (* id, expiry, scopes of the access token now in storage *)
}.

Inductive observed :=
| OResp (r : response) (k : checks)
| ONoTokens (status : nat)
| OPanic.

(* ---------------- model ---------------- *)
Definition verdict_of (o : outcome) : verdict :=
  match o with
  | Accept _ _ => VAccept
  | AcceptExpired _ _ e => VReject e
  | Reject e => VReject e
  end.

Definition provider_verifier (issuer alg : string) : verifier :=
  mkVerifier issuer "" 0 0 0 None None [alg].

Definition model_checks (c : case) (r : response) : checks :=
  let Hf := lookup_hash (cs_hashes c) in
  let Ef := lookup_block (cs_aes c) in
  let keys := served_keys (cs_keys c) in
  let ks := KSOpenID (Some keys) in
  let cl := eff_client (cs_flow c) (cs_req c) (cs_client c) in
  let jwt_read (a : atclaims) (j : jws_desc) :=
      match verify_access_token sym_verify (provider_verifier (cs_issuer c) (j_alg j))
                                ks (sym_token j) (MidOk "P" (at_to_c01 a)) (cs_vnow c) with
      | Accept _ _ => Some (a_jti a, a_sub a)
      | _ => None
      end in
  mkChecks
    keys
    (match r_id r with
     | Some (j, ic) =>
         Some (verdict_of
                 (match r_access r with
                  | ANone => verify_id_token sym_verify (cs_verifier c) ks (sym_token j)
                                             (MidOk "P" (to_c01 ic)) (cs_vnow c)
                  | a => verify_tokens sym_verify Hf (cs_verifier c) ks (sym_token j)
                                       (MidOk "P" (to_c01 ic)) (access_wire a) (cs_vnow c)
                  end))
     | None => None
     end)
    (match r_access r with
     | AJwt _ j a =>
         Some (verdict_of (verify_access_token sym_verify
                             (mkVerifier (cs_issuer c) "" 0 0 0 None None (cs_at_algs c))
                             ks (sym_token j) (MidOk "P" (at_to_c01 a)) (cs_vnow c)))
     | _ => None
     end)
    (match r_access r with
     | AOpaque w => option_map bs_nat (open Ef w)
     | _ => None
     end)
    false
    (match r_access r with
     | ANone => []
     | AOpaque w => let x := reader Ef w in [x; x; x]
     | AJwt _ j a => let x := jwt_read a j in [x; x; x]
     end)
    (* the userinfo endpoint honours the token iff its reader does *)
    (match r_access r with
     | ANone => false
     | AOpaque w => match reader Ef w with Some _ => true | None => false end
     | AJwt _ j a => match jwt_read a j with Some _ => true | None => false end
     end)
    (match r_access r with
     | ANone => None
     | _ => Some (token_id (cs_flow c) cl (cs_req c) (cs_ids c),
                  st_exp (cs_now0 c) (cl_at_life cl), rq_scopes (cs_req c))
     end).

Definition case_key_at (c : case) : sigkey := key_at_call (cs_rot c) (cs_key c) (cs_key2 c) 1.
Definition case_key_id (c : case) : sigkey :=
  key_at_call (cs_rot c) (cs_key c) (cs_key2 c)
              (id_key_call (cs_flow c) (eff_client (cs_flow c) (cs_req c) (cs_client c))).

Definition model_response (c : case) : response :=
  create_token_response (lookup_hash (cs_hashes c)) (lookup_block (cs_aes c))
    (cs_issuer c) (cs_flow c) (cs_client c) (case_key_at c) (case_key_id c) (cs_user c) (cs_req c) (cs_state c)
    (cs_ids c) (cs_ent c) (cs_now0 c).

Definition model_case (c : case) : observed :=
  let r := model_response c in OResp r (model_checks c r).

Definition model (i : input) : observed :=
  match i with
  | ICase c => model_case c
  | IRefreshed g0 earlier requested c =>
      match refresh_scopes g0 earlier requested with
      | Some s => model_case (with_scopes c s)
      | None => ONoTokens 400          (* invalid_scope *)
      end
  end.

(* ---------------- the property, from its text ---------------- *)
(* ground truth the harness knows because it configured it *)
Definition the_client (c : case) : string :=
  match cs_flow c with FJwtBearer => rq_sub (cs_req c) | _ => cl_id (cs_client c) end.
Definition the_skew (c : case) : Z :=
  match cs_flow c with FJwtBearer => 0%Z | _ => cl_skew (cs_client c) end.
Definition the_drop_id (c : case) : list string :=
  match cs_flow c with FJwtBearer => [] | _ => cl_drop_id (cs_client c) end.
Definition the_drop_at (c : case) : list string :=
  match cs_flow c with FJwtBearer => [] | _ => cl_drop_at (cs_client c) end.
Definition the_assert (c : case) : bool :=
  match cs_flow c with FJwtBearer => false | _ => cl_assert (cs_client c) end.
(* OpenID Connect Core 5.4: scopes whose claims the userinfo endpoint serves *)
Definition core_userinfo_scopes : list string := ["profile"; "email"; "address"; "phone"].
Definition expected_nonce (c : case) : string :=
  if is_auth_request (cs_flow c) then rq_nonce (cs_req c) else "".

Definition signed_by (k : sigkey) (j : jws_desc) : bool :=
  match j_mat j with Some m => N.eqb m (sk_mat k) | None => false end
  && (j_alg j =s sk_alg k) && (j_kid j =s sk_kid k).

(* header and signature both from one key that was the storage's signing key
   during this request *)
Definition signed_by_current (c : case) (j : jws_desc) : bool :=
  signed_by (cs_key c) j || (negb (cs_rot c =? 0) && signed_by (cs_key2 c) j).

(* the key set the storage publishes lets a verifier find key k: exactly one
   published key carries k's kid, a signature use ("sig" or none, RFC 7517) and
   k's key type - and it is k's public key *)
Definition published_once (k : sigkey) (keys : list jwk) : bool :=
  match filter (fun x => (k_id x =s sk_kid k) && ((k_use x =s "sig") || (k_use x =s ""))
                         && kty_eqb (k_ty x) (sk_ty k)) keys with
  | [x] => N.eqb (k_mat x) (sk_mat k)
  | _ => false
  end.

Definition keys_consistent (c : case) (algs : list string) : bool :=
  string_in (sk_alg (cs_key c)) (effective_algs algs) && published_once (cs_key c) (cs_keys c)
  && ((cs_rot c =? 0)
      || (string_in (sk_alg (cs_key2 c)) (effective_algs algs) && published_once (cs_key2 c) (cs_keys c))).

(* "consistent configuration" (DESIGN App. E): the relying party allows the
   provider's algorithm(s), the storage publishes the signing key(s) findably, its offset covers a negative skew and is shorter than
   the (skewed) lifetime, it expects this request's nonce, and verifies
   within a second of issuance *)
Definition consistent (c : case) : bool :=
  let v := cs_verifier c in
  keys_consistent c (v_algs v)
  && (v_issuer v =s cs_issuer c) && (v_client v =s the_client c)
  && Z.leb 0 (v_offset v) && Z.leb (- the_skew c * ns) (v_offset v)
  && Z.leb (v_offset v + 2 * ns) ((cl_id_life (cs_client c) + the_skew c) * ns)
  && Z.leb (cs_now0 c) (cs_vnow c) && Z.leb (cs_vnow c) (cs_now0 c + ns)
  && match v_nonce v with None => true | Some n => n =s expected_nonce c end
  && match v_acr v with None => true | Some l => string_in (if is_auth_request (cs_flow c) then rq_acr (cs_req c) else "") l end
  && Z.eqb (v_max_age v) 0 && Z.eqb (v_max_iat v) 0.

Definition at_consistent (c : case) : bool :=
  keys_consistent c (cs_at_algs c)
  && Z.leb (cs_now0 c) (cs_vnow c) && Z.leb (cs_vnow c) (cs_now0 c + ns).

Definition zabs_le (x bound : Z) : bool := Z.leb (- bound) x && Z.leb x bound.

Definition strs_eqb := list_eqb String.eqb.

Definition hash_binds (c : case) (alg preimage claim : string) : bool :=
  if preimage =s "" then claim =s ""
  else negb (claim =s "") && (claim =s claim_hash (lookup_hash (cs_hashes c)) alg preimage).

(* scopes whose claims may be asserted in this ID token: the request's, minus
   what the client keeps out of ID tokens; when an access token is delivered
   with it and the client is not configured for userinfo assertion, the
   userinfo scopes (OIDC Core 5.4) are served by the userinfo endpoint only;
   in a token exchange the storage fills the claims from the request itself
   (SetUserinfoFromTokenExchangeRequest) *)
Definition id_granted (c : case) (r : response) : list string :=
  let rq := cs_req c in
      if is_exchange (cs_flow c) then rq_scopes rq
      else let s0 := restrict (the_drop_id c) (rq_scopes rq) in
           if negb (access_wire (r_access r) =s "") && negb (the_assert c)
           then filter (fun s => negb (string_in s core_userinfo_scopes)) s0 else s0.

(* [ic] (and the claims of a JWT access token) are the claims AS THE LIBRARY'S OWN
   DECODER READS THEM from the signed payload (json.Unmarshal into
   oidc.IDTokenClaims / oidc.AccessTokenClaims, which is what the verifiers
   return): members are matched case-insensitively and the last matching key of
   the document wins, so a custom claim that shadows a registered one shows up
   here as a wrong issuer / subject / audience ... *)
Definition id_token_ok (c : case) (r : response) (k : checks) (j : jws_desc) (ic : idclaims) : bool :=
  let rq := cs_req c in
  let granted := id_granted c r in
  signed_by_current c j
  && (if consistent c then match k_id_verdict k with Some VAccept => true | _ => false end else true)
  && (i_iss ic =s cs_issuer c)
  && string_in (the_client c) (i_aud ic)
  && (i_azp ic =s the_client c)
  && (i_sub ic =s rq_sub rq)
  && (i_nonce ic =s expected_nonce c)
  && strs_eqb (i_amr ic) (if is_exchange (cs_flow c) then [] else rq_amr rq)
  (* auth time: the request's, moved by no more than the clock skew
     (token exchange: the request is made now) *)
  && (if is_exchange (cs_flow c)
      then Z.leb (sec (cs_now0 c) - Z.abs (the_skew c)) (i_auth_time ic)
           && Z.leb (i_auth_time ic) (sec (cs_now1 c) + Z.abs (the_skew c))
      else if Z.eqb (rq_auth_time rq) 0
           (* the request records no authentication (Go's zero time): the token asserts none
              (auth_time absent), or at most that zero time moved by the skew - never a time of
              the provider's own making, such as the time of issuance *)
           then Z.eqb (i_auth_time ic) 0 || zabs_le (i_auth_time ic - zero_unix) (Z.abs (the_skew c))
           else zabs_le (i_auth_time ic - rq_auth_time rq) (Z.abs (the_skew c)))
  (* iat at issuance (up to the skew), exp - iat = lifetime widened by the skew on both sides *)
  && Z.leb (sec (cs_now0 c) - the_skew c) (i_iat ic) && Z.leb (i_iat ic) (sec (cs_now1 c) - the_skew c)
  && zabs_le (i_exp ic - i_iat ic - (cl_id_life (cs_client c) + 2 * the_skew c)) 1
  && hash_binds c (j_alg j) (access_wire (r_access r)) (i_at_hash ic)
  && hash_binds c (j_alg j) (flow_code (cs_flow c)) (i_c_hash ic)
  (* user claims only for granted scopes; nothing else *)
  && ((i_name ic =s "") || string_in "profile" granted)
  && ((i_email ic =s "") || string_in "email" granted)
  && (negb (i_email_verified ic) || string_in "email" granted)
  && ((i_username ic =s "") || string_in "profile" granted)
  && ((i_phone ic =s "") || string_in "phone" granted)
  && (negb (i_phone_verified ic) || string_in "phone" granted)
  && ((i_addr ic =s "") || string_in "address" granted)
  (* ... and the claims of a granted scope are there: name for profile, email for email
     (for a user the storage knows) *)
  && match cs_user c with
     | Some u => (negb (string_in "profile" granted) || (i_name ic =s u_name u))
                 && (negb (string_in "email" granted) || (i_email ic =s u_email u))
     | None => true
     end
  (* any other claim is a custom claim of a granted custom:<name> scope *)
  && forallb (fun e => string_in ("custom:" ++ fst e)%string granted) (i_extra ic).

Definition stored_id (k : checks) : string :=
  match k_stored k with Some (i, _, _) => i | None => "" end.
Definition stored_exp (k : checks) : Z :=
  match k_stored k with Some (_, e, _) => e | None => 0%Z end.

Definition pair_eqb (a b : string * string) : bool :=
  (fst a =s fst b) && (snd a =s snd b).

Definition readers_ok (c : case) (k : checks) : bool :=
  (List.length (k_readers k) =? 3)
  && forallb (fun x => option_eqb pair_eqb x (Some (stored_id k, rq_sub (cs_req c)))) (k_readers k)
  && k_userinfo k.

Definition access_ok (c : case) (r : response) (k : checks) : bool :=
  let rq := cs_req c in
  match r_access r with
  | ANone => true
  | AOpaque w =>
      match k_stored k with Some _ => true | None => false end
      && option_eqb String.eqb (k_opened k) (Some (bearer_plain (stored_id k) (rq_sub rq)))
      && negb (k_other_opens k)
      && readers_ok c k
  | AJwt w j a =>
      match k_stored k with Some _ => true | None => false end
      && signed_by_current c j
      && (if at_consistent c then match k_at_verdict k with Some VAccept => true | _ => false end else true)
      && (a_iss a =s cs_issuer c)
      && (a_sub a =s rq_sub rq)
      && strs_eqb (a_aud a) (match rq_aud rq with [] => [the_client c] | l => l end)
      && (a_client_id a =s the_client c)
      && (a_jti a =s stored_id k)
      && Z.eqb (a_exp a) (stored_exp k)
      && Z.eqb (a_iat a) (a_nbf a)
      && Z.leb (sec (cs_now0 c) - the_skew c) (a_iat a) && Z.leb (a_iat a) (sec (cs_now1 c) - the_skew c)
      (* any other claim: a custom claim of a granted scope, or - token exchange with an actor
         token - act naming that actor *)
      && forallb (fun e => string_in ("custom:" ++ fst e)%string (restrict (the_drop_at c) (rq_scopes rq))
                           || (is_exchange (cs_flow c) && negb (rq_actor rq =s "")
                               && (fst e =s "act") && (snd e =s act_json (rq_actor rq))))
                 (a_extra a)
      && (if at_consistent c then readers_ok c k else true)
  end.

Definition fields_ok (c : case) (r : response) (k : checks) : bool :=
  match r_access r with
  | ANone => Z.eqb (r_expires_in r) 0
  | _ =>
      match k_stored k with
      | Some (_, e, scopes) =>
          (* expires_in = stored expiry (as the client's clock sees it) minus now *)
          Z.leb (e + the_skew c - sec (cs_now1 c) - 1) (r_expires_in r)
          && Z.leb (r_expires_in r) (e + the_skew c - sec (cs_now0 c))
          && strs_eqb (r_scope r) scopes
          (* ... and what was stored (and is announced) stays within what the request was granted *)
          && subset_of scopes (rq_scopes (cs_req c))
      | None => false
      end
  end
  && (r_token_type r =s (if r_id_as_access r then "N_A" else "Bearer")).

(* /keys publishes every key of the storage's key set *)
Definition keys_served (c : case) (k : checks) : bool :=
  forallb (fun x => existsb (jwk_eqb x) (k_keys k)) (cs_keys c).

Definition spec_case (c : case) (r : response) (k : checks) : bool :=
  keys_served c k
  && match r_id r with Some (j, ic) => id_token_ok c r k j ic | None => true end
  && access_ok c r k
  && fields_ok c r k.

(* "granted scopes" at the end of a history of refresh requests (RFC 6749 section 6: the
   requested scope must not include any scope not originally granted, and if omitted is the
   scope of the grant): the refresh token presented now stands for the authorization's scopes
   g0, narrowed by those earlier requests that the grant's own client made WITHIN what the
   token stood for at that time (the rotated token stands for the narrowed scopes).  A request
   that was refused - by another client, or asking for a scope beyond the grant - counts for
   nothing, whatever it asked for. *)
Fixpoint standing_grant (g : list string) (earlier : list earlier_req) : list string :=
  match earlier with
  | [] => g
  | e :: rest =>
      standing_grant
        (match e_scopes e with
         | [] => g
         | asked => if e_owner e && subset_of asked g then asked else g
         end) rest
  end.

Definition granted_now (g0 : list string) (earlier : list earlier_req) (requested : list string)
  : option (list string) :=
  let g := standing_grant g0 earlier in
  match requested with
  | [] => Some g
  | _ => if subset_of requested g then Some requested else None
  end.

Definition spec (i : input) (o : observed) : bool :=
  match i, o with
  | ICase c, OResp r k => spec_case c r k
  | IRefreshed g0 earlier requested c, OResp r k =>
      match granted_now g0 earlier requested with
      | Some s => spec_case (with_scopes c s) r k
      | None => false               (* tokens for a request that asks beyond the grant *)
      end
  | _, ONoTokens _ => true          (* nothing was issued *)
  | _, OPanic => false
  end.

(* ---------------- equality of observations ---------------- *)
Definition jws_eqb (a b : jws_desc) : bool :=
  (j_alg a =s j_alg b) && (j_kid a =s j_kid b) && (j_typ a =s j_typ b)
  && option_eqb N.eqb (j_mat a) (j_mat b).

Definition kv_eqb (a b : string * string) : bool := pair_eqb a b.
(* claim maps are unordered *)
Definition extras_eqb (a b : list (string * string)) : bool :=
  (List.length a =? List.length b)
  && forallb (fun x => existsb (kv_eqb x) b) a && forallb (fun x => existsb (kv_eqb x) a) b.

Definition id_eqb (a b : idclaims) : bool :=
  (i_iss a =s i_iss b) && (i_sub a =s i_sub b) && strs_eqb (i_aud a) (i_aud b)
  && (i_azp a =s i_azp b) && (i_client_id a =s i_client_id b)
  && Z.eqb (i_exp a) (i_exp b) && Z.eqb (i_iat a) (i_iat b) && Z.eqb (i_auth_time a) (i_auth_time b)
  && (i_nonce a =s i_nonce b) && (i_acr a =s i_acr b) && strs_eqb (i_amr a) (i_amr b)
  && (i_at_hash a =s i_at_hash b) && (i_c_hash a =s i_c_hash b)
  && (i_name a =s i_name b) && (i_email a =s i_email b)
  && Bool.eqb (i_email_verified a) (i_email_verified b)
  && (i_username a =s i_username b) && (i_phone a =s i_phone b)
  && Bool.eqb (i_phone_verified a) (i_phone_verified b) && (i_addr a =s i_addr b)
  && extras_eqb (i_extra a) (i_extra b).

Definition at_eqb (a b : atclaims) : bool :=
  (a_iss a =s a_iss b) && (a_sub a =s a_sub b) && strs_eqb (a_aud a) (a_aud b)
  && Z.eqb (a_exp a) (a_exp b) && Z.eqb (a_iat a) (a_iat b) && Z.eqb (a_nbf a) (a_nbf b)
  && (a_client_id a =s a_client_id b) && (a_jti a =s a_jti b)
  && extras_eqb (a_extra a) (a_extra b).

Definition access_eqb (a b : access) : bool :=
  match a, b with
  | ANone, ANone => true
  | AOpaque x, AOpaque y => x =s y
  | AJwt x j c, AJwt y j' c' => (x =s y) && jws_eqb j j' && at_eqb c c'
  | _, _ => false
  end.

Definition resp_eqb (a b : response) : bool :=
  access_eqb (r_access a) (r_access b)
  && option_eqb (fun x y => jws_eqb (fst x) (fst y) && id_eqb (snd x) (snd y)) (r_id a) (r_id b)
  && Bool.eqb (r_id_as_access a) (r_id_as_access b)
  && (r_refresh a =s r_refresh b)
  && Z.eqb (r_expires_in a) (r_expires_in b)
  && strs_eqb (r_scope a) (r_scope b)
  && (r_state a =s r_state b)
  && (r_token_type a =s r_token_type b)
  && (r_issued_type a =s r_issued_type b).

Definition verdict_eqb (a b : verdict) : bool :=
  match a, b with
  | VAccept, VAccept => true
  | VReject x, VReject y => err_eqb x y
  | _, _ => false
  end.

Definition stored_eqb (a b : string * Z * list string) : bool :=
  (fst (fst a) =s fst (fst b)) && Z.eqb (snd (fst a)) (snd (fst b)) && strs_eqb (snd a) (snd b).

Definition checks_eqb (a b : checks) : bool :=
  list_eqb jwk_eqb (k_keys a) (k_keys b)
  && option_eqb verdict_eqb (k_id_verdict a) (k_id_verdict b)
  && option_eqb verdict_eqb (k_at_verdict a) (k_at_verdict b)
  && option_eqb String.eqb (k_opened a) (k_opened b)
  && Bool.eqb (k_other_opens a) (k_other_opens b)
  && list_eqb (option_eqb pair_eqb) (k_readers a) (k_readers b)
  && Bool.eqb (k_userinfo a) (k_userinfo b)
  && option_eqb stored_eqb (k_stored a) (k_stored b).

Definition obs_eqb (a b : observed) : bool :=
  match a, b with
  | OResp r k, OResp r' k' => resp_eqb r r' && checks_eqb k k'
  | ONoTokens _, ONoTokens _ => true
  | OPanic, OPanic => true
  | _, _ => false
  end.

(* decision path: flow, token kind, refresh token, ID token, consistent or not *)
Definition flow_index (f : flow) : nat :=
  match f with
  | FCode _ => 1 | FImplicitID => 2 | FImplicitTok => 3 | FRefresh => 4 | FDevice => 5
  | FClientCred => 6 | FJwtBearer => 7
  | FExchange RAccess => 8 | FExchange RRefresh => 9 | FExchange RIDTok => 10
  end.

Definition case_of (i : input) : case :=
  match i with ICase c => c | IRefreshed _ _ _ c => c end.

Definition path (i : input) (o : observed) : nat :=
  match i, o with
  | _, OResp r k =>
      let c := case_of i in
      flow_index (cs_flow c) * 64
      + (match r_access r with ANone => 0 | AOpaque _ => 1 | AJwt _ _ _ => 2 end) * 8
      + (if r_refresh r =s "" then 0 else 4)
      + (match k_id_verdict k with Some VAccept => 2 | Some _ => 1 | None => 0 end)
      + (match k_at_verdict k with Some VAccept | None => 0 | _ => 3 end)
  | _, _ => 0
  end.

Definition case_mismatches := run_mismatches model obs_eqb.
Definition case_violations := run_violations spec.
Definition case_paths := run_paths model path.
