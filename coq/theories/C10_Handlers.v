(* C10: the request handlers of both routers as programs (C10_Prog), read off
   pkg/op.  Only the storage calls of the fault-free path of each flow are
   listed, each with the handler's reaction to a failure of that call.
   Go function names are given at each definition. *)
From OIDC Require Import Lib C10_Prog.

Inductive router := RProvider | RLegacy.

(* which OPTIONAL storage interfaces the storage implements (the framework type-asserts them):
   SStd = refstore as it is: CanSetUserinfoFromRequest and the three grant storages
          (ClientCredentials-, TokenExchange-, DeviceAuthorizationStorage);
   SMax = additionally CanTerminateSessionFromRequest, CanGetPrivateClaimsFromRequest,
          TokenExchangeTokensVerifierStorage, JWTProfileTokenStorage;
   SMin = only the three grant storages (no CanSetUserinfoFromRequest);
   SKeep = the interfaces of SStd, but a failing call has done its work before it reports the
           failure: its results (and side effects) come back together with the error.  The
           handlers must not look at them, so the programs are those of SStd.
   SNil, SZero = the interfaces of SStd, the failing call has no effect, but WHAT it returns besides the
           error differs: SNil - every interface-typed result is a typed nil pointer of the storage's
           concrete type (`var req *AuthRequest; ...; return req, err`: `result == nil` is false on the
           interface and any method call on it dereferences nil); SZero - every interface / pointer /
           slice / map result is a non-nil, empty object (`req := &AuthRequest{}; err := scan(req); return
           req, err`).  Again the programs are those of SStd.
   SFull = SKeep, and the failing call has written EVERY field of its out-parameter, also the fields the
           framework sets itself after a successful call (a storage that restores a cached document with
           `*resp = cached` and fails afterwards: IntrospectionResponse.Active = true, token_type, exp, iss ...;
           UserInfo sub / name / email whatever the scopes).  The programs are those of SStd. *)
Inductive storage := SStd | SMax | SMin | SKeep | SNil | SZero | SFull.
Definition is_max (sv : storage) : bool := match sv with SMax => true | _ => false end.
Definition is_min (sv : storage) : bool := match sv with SMin => true | _ => false end.

(* the two dimensions of a storage variant: which optional interfaces the type assertions find ... *)
Inductive ifaces := IStd | IMax | IMin.
Definition ifaces_of (sv : storage) : ifaces :=
  match sv with SMax => IMax | SMin => IMin | SStd | SKeep | SNil | SZero | SFull => IStd end.
(* ... and what a failing call hands back besides the error *)
Inductive results := RNothing       (* untyped nil / zero values *)
                   | RTypedNil      (* typed nil pointers inside the interface-typed results *)
                   | REmpty         (* non-nil empty objects *)
                   | RComplete      (* the results (and side effects) of the successful call *)
                   | RFull.         (* RComplete + every field of an out-parameter, also the framework's own *)
Definition results_of (sv : storage) : results :=
  match sv with SKeep => RComplete | SFull => RFull | SNil => RTypedNil | SZero => REmpty | SStd | SMax | SMin => RNothing end.
(* the variant with the same interfaces that returns nothing with an error *)
Definition plain_storage (sv : storage) : storage :=
  match ifaces_of sv with IStd => SStd | IMax => SMax | IMin => SMin end.

(* the registrations of opfix.StdClients *)
Inductive client := Web | Web2 | Native | Spa | Pkjwt.
Inductive cauth := ABasic | APost | ANone | APkjwt.

Definition auth_of (c : client) : cauth :=
  match c with Web => ABasic | Web2 => APost | Native => ANone | Spa => ANone | Pkjwt => APkjwt end.
(* AccessTokenType() == AccessTokenTypeJWT *)
Definition jwt_at (c : client) : bool :=
  match c with Web2 | Spa => true | _ => false end.
(* the request carries a client secret (Basic header or body) *)
Definition has_secret (c : client) : bool :=
  match auth_of c with ABasic | APost => true | _ => false end.

Inductive rmode := MDefault | MFormPost | MQuery | MFragment.       (* response_mode *)
Inductive rtype := TCode | TIDToken | TIDTokenToken.               (* response_type: code, id_token, id_token token *)
Inductive subj := SubjJwtAT | SubjIDToken | SubjRefresh.           (* subject_token_type *)
Inductive want := WantAccess | WantRefresh | WantID.               (* requested_token_type *)
Inductive revtok := RevAccess | RevRefresh.                        (* what is being revoked *)
(* end_session parameters: which of id_token_hint, client_id (= azp of the hint when both are sent),
   post_logout_redirect_uri (a registered one) and state the request carries *)
Record endvar := EndReq { e_hint : bool; e_client_id : bool; e_post_logout : bool; e_state : bool }.

Inductive flow :=
| FAuthorize (c : client) (hint : bool) (rt : rtype) (m : rmode)   (* GET /authorize [id_token_hint] *)
| FAuthorizeUnregistered (c : client)            (* GET /authorize, redirect_uri not registered *)
| FCallbackCode (c : client) (m : rmode)         (* /authorize/callback, response_type=code *)
| FCallbackImplicit (c : client) (with_at : bool) (m : rmode)  (* id_token [token] *)
| FTokenCode (c : client) (offline : bool)
| FRefresh (c : client)
| FClientCredentials (c : client)
| FJwtBearer
| FTokenExchange (c : client) (s : subj) (w : want)
| FDeviceAuth (c : client)
| FDeviceToken (c : client) (offline openid : bool)
| FUserinfo (c : client)
| FIntrospect (c : client)
| FRevoke (c : client) (t : revtok) (hint : bool)
| FEndSession (c : client) (v : endvar)
| FKeys | FDiscovery | FReady.

(* ---- answers ---- *)
Definition code_str (c : ecode) : string :=
  match c with
  | EServerError => "server_error" | EInvalidRequest => "invalid_request"
  | EInvalidClient => "invalid_client" | EAccessDenied => "access_denied"
  | EInvalidScope => "invalid_scope" | EInvalidGrant => "invalid_grant"
  | EUnauthorizedClient => "unauthorized_client" | EUnsupportedGrantType => "unsupported_grant_type"
  | EInteractionRequired => "interaction_required" | ELoginRequired => "login_required"
  | ERequestNotSupported => "request_not_supported"
  | EAuthorizationPending => "authorization_pending" | ESlowDown => "slow_down"
  | EExpiredToken => "expired_token" | EInvalidTarget => "invalid_target"
  | ECustom => "temporarily_unavailable"     (* the driver's type outside the library's list *)
  | EEmpty => ""
  end.
(* oidc.DefaultToServerError: an *oidc.Error anywhere in the chain keeps its code *)
Definition dcode (kd : kind) : ecode := match as_oidc kd with Some (c, _) => c | None => EServerError end.
Definition is_server (c : ecode) : bool := match c with EServerError => true | _ => false end.

(* the handler wraps the failure into a fixed error of its own (or writes a fixed answer) *)
Definition errs (cls : rclass) (e : string) : kind -> prog := fun _ => Ret (R cls e []).
Definition bad (e : string) := errs K4xx e.                 (* 400/401/403 + OAuth error *)
Definition redirect_err (e : string) := errs K302Err e.

(* the failure is handed on as it is: *)
(* RequestError (Provider router): 400, 401 for invalid_client *)
Definition request_error : kind -> prog := fun kd => Ret (R K4xx (code_str (dcode kd)) []).
(* WriteError (Legacy router), no StatusError: server_error => 500, else 400 *)
Definition write_error : kind -> prog :=
  fun kd => Ret (R (if is_server (dcode kd) then K5xx else K4xx) (code_str (dcode kd)) []).
(* WriteError of a StatusError with a 5xx status *)
Definition status_error_5xx : kind -> prog := fun kd => Ret (R K5xx (code_str (dcode kd)) []).
(* RevocationError (both routers; Storage.RevokeToken returns *oidc.Error): the status is 500 for
   server_error, 401 for invalid_client and 400 for EVERY other type - there is a default *)
Definition revocation_error : kind -> prog :=
  fun kd => Ret (R (if is_server (dcode kd) then K5xx else K4xx) (code_str (dcode kd)) []).
Definition pass (r : router) : kind -> prog :=
  match r with RProvider => request_error | RLegacy => write_error end.
(* a server-side failure the handler cannot see through (flattened error text) *)
Definition srv (r : router) : kind -> prog :=
  match r with RProvider => errs K4xx "server_error" | RLegacy => errs K5xx "server_error" end.
(* AuthRequestError with an auth request whose redirect URI was validated: error redirect,
   unless the error is marked redirect-disabled (then http.Error 400, plain text) *)
Definition auth_error : kind -> prog :=
  fun kd => match as_oidc kd with
            | Some (_, true) => Ret (R K4xx "" [])
            | _ => Ret (R K302Err (code_str (dcode kd)) [])
            end.
(* TryErrorRedirect + WriteError (Legacy): the same, the 400 is an OAuth error document *)
Definition try_error_redirect : kind -> prog :=
  fun kd => match as_oidc kd with
            | Some (c, true) => Ret (R K4xx (code_str c) [])
            | _ => Ret (R K302Err (code_str (dcode kd)) [])
            end.
(* httphelper.MarshalJSONWithStatus(w, err, status): only a bare *oidc.Error marshals to a
   document with an error member *)
Definition marshal_err (cls : rclass) : kind -> prog :=
  fun kd => Ret (R cls (match as_oidc kd, k_wrapped kd with Some (c, _), false => code_str c | _, _ => "" end) []).
Definition ok (cls : rclass) (cs : list cred) : prog := Ret (R cls "" cs).

Definition opt (b : bool) (f : prog -> prog) (k : prog) : prog := if b then f k else k.

(* ---- token.go ---- *)
(* CreateAccessToken: createTokens, then for JWT access tokens CreateJWT *)
Definition create_access_token (sv : storage) (h : kind -> prog) (refresh te jwt : bool) (k : prog) : prog :=
  Call (if refresh then MCreateAccessAndRefreshTokens else MCreateAccessToken) h
    (opt jwt (fun k' =>
       Call (if te then MGetPrivateClaimsFromTokenExchangeRequest
             else if is_max sv then MGetPrivateClaimsFromRequest else MGetPrivateClaimsFromScopes) h
         (Call MSigningKey h k')) k).

(* CreateIDToken *)
Definition create_id_token (sv : storage) (h : kind -> prog) (te : bool) (k : prog) : prog :=
  Call MSigningKey h
    (if te then Call MSetUserinfoFromTokenExchangeRequest h k
     else Call MSetUserinfoFromScopes h (opt (negb (is_min sv)) (Call MSetUserinfoFromRequest h) k)).

(* CreateTokenResponse *)
Definition create_token_response (sv : storage) (h : kind -> prog) (with_at refresh jwt authreq : bool) (k : prog) : prog :=
  opt with_at (create_access_token sv h refresh false jwt)
    (create_id_token sv h false (opt authreq (Call MDeleteAuthRequest h) k)).

Definition token_creds (with_at refresh idt : bool) : list cred :=
  (if with_at then [CAccess] else []) ++ (if refresh then [CRefresh] else []) ++ (if idt then [CIDToken] else []).

(* ---- client authentication ---- *)
(* LegacyServer.VerifyClient (behind webServer.withClient) *)
Definition legacy_verify_client (c : client) (k : prog) : prog :=
  match auth_of c with
  | APkjwt => Call MGetKeyByIDAndClientID (srv RLegacy) (Call MGetClientByClientID write_error k)
  | ANone => Call MGetClientByClientID (bad "invalid_client") k
  | _ => Call MGetClientByClientID (bad "invalid_client") (Call MAuthorizeClientIDSecret (bad "invalid_client") k)
  end.

(* ClientIDFromRequest -> ClientBasicAuth (device endpoints, Provider router) *)
Definition client_id_from_request (c : client) (k : prog) : prog :=
  opt (has_secret c) (Call MAuthorizeClientIDSecret (bad "unauthorized_client")) k.

(* ---- the handlers ---- *)

(* Authorize / webServer.authorize + LegacyServer.VerifyAuthRequest, Authorize *)
Definition h_authorize (r : router) (hint : bool) : prog :=
  match r with
  | RProvider =>
      Call MGetClientByClientID (errs K4xx "")
        (opt hint (Call MKeySet (redirect_err "login_required"))
           (Call MCreateAuthRequest auth_error (ok K302 [])))
  | RLegacy =>
      Call MGetClientByClientID write_error
        (opt hint (Call MKeySet (bad "login_required"))
           (Call MCreateAuthRequest try_error_redirect (ok K302 [])))
  end.

(* the same request with a redirect_uri that is not registered: rejected by
   ValidateAuthReqRedirectURI right after the client lookup, without a redirect *)
Definition h_authorize_unregistered (r : router) : prog :=
  match r with
  | RProvider => Call MGetClientByClientID (errs K4xx "") (Ret (R K4xx "" []))
  | RLegacy => Call MGetClientByClientID write_error (Ret (R K4xx "invalid_request" []))
  end.

Definition success_cls (m : rmode) : rclass := match m with MFormPost => KOk | _ => K302 end.

(* AuthorizeCallback -> AuthResponse -> AuthResponseCode (same function on both routers) *)
Definition h_callback_code (m : rmode) : prog :=
  Call MAuthRequestByID (errs K4xx "")
    (Call MGetClientByClientID auth_error
       (Call MSaveAuthCode auth_error (ok (success_cls m) [CCode]))).

(* AuthorizeCallback -> AuthResponse -> AuthResponseToken *)
Definition h_callback_implicit (sv : storage) (c : client) (with_at : bool) (m : rmode) : prog :=
  Call MAuthRequestByID (errs K4xx "")
    (Call MGetClientByClientID auth_error
       (create_token_response sv auth_error with_at false (jwt_at c) true
          (ok (success_cls m) (token_creds with_at false true)))).

(* CodeExchange + AuthorizeCodeClient / codeExchangeHandler + LegacyServer.CodeExchange *)
Definition h_token_code (sv : storage) (r : router) (c : client) (offline : bool) : prog :=
  let tail := create_token_response sv (pass r) true offline (jwt_at c) true
                (ok KOk (token_creds true offline true)) in
  match r with
  | RProvider =>
      Call MAuthRequestByCode (bad "invalid_grant")
        (match auth_of c with
        | APkjwt => Call MGetKeyByIDAndClientID (srv r) (Call MGetClientByClientID (pass r) tail)
        | ANone => Call MGetClientByClientID (bad "invalid_client") tail
        | _ => Call MGetClientByClientID (bad "invalid_client")
                 (Call MAuthorizeClientIDSecret (bad "invalid_client") tail)
        end)
  | RLegacy => legacy_verify_client c (Call MAuthRequestByCode (bad "invalid_grant") tail)
  end.

(* RefreshTokenExchange + AuthorizeRefreshClient / LegacyServer.RefreshToken *)
Definition h_refresh (sv : storage) (r : router) (c : client) : prog :=
  let tail := Call MTokenRequestByRefreshToken (bad "invalid_grant")
                (create_token_response sv (pass r) true true (jwt_at c) false (ok KOk (token_creds true true true))) in
  match r with
  | RProvider =>
      match auth_of c with
      | APkjwt => Call MGetKeyByIDAndClientID (srv r) (Call MGetClientByClientID (pass r) tail)
      | ANone => Call MGetClientByClientID (pass r) tail
      | _ => Call MGetClientByClientID (pass r) (Call MAuthorizeClientIDSecret (bad "invalid_client") tail)
      end
  | RLegacy => legacy_verify_client c tail
  end.

(* ClientCredentialsExchange / VerifyClient (client_credentials branch) + LegacyServer.ClientCredentialsExchange *)
Definition h_client_credentials (sv : storage) (r : router) (c : client) : prog :=
  Call MClientCredentials (match r with RProvider => bad "invalid_client" | RLegacy => write_error end)
    (Call MClientCredentialsTokenRequest (pass r)
       (create_access_token sv (pass r) false false (jwt_at c) (ok KOk [CAccess]))).

(* JWTProfile / LegacyServer.JWTProfile; CreateJWTTokenResponse issues an opaque token *)
Definition h_jwt_bearer (sv : storage) (r : router) : prog :=
  Call MGetKeyByIDAndClientID (match r with RProvider => srv r | RLegacy => bad "invalid_request" end)
    (Call MValidateJWTProfileScopes (pass r)
       (opt (is_max sv) (Call MJWTProfileTokenType (pass r))   (* CreateJWTTokenResponse, JWTProfileTokenStorage *)
          (create_access_token sv (pass r) false false false (ok KOk [CAccess])))).

(* TokenExchange + ValidateTokenExchangeRequest / tokenExchangeHandler + LegacyServer.TokenExchange *)
Definition h_token_exchange (sv : storage) (r : router) (c : client) (s : subj) (w : want) : prog :=
  let response :=
    match w with
    | WantAccess => create_access_token sv (pass r) false true (jwt_at c) (ok KOk [CAccess])
    | WantRefresh => create_access_token sv (pass r) true true (jwt_at c) (ok KOk [CAccess; CRefresh])
    | WantID => create_id_token sv (pass r) true (ok KOk [CAccess; CIDToken])  (* the ID token travels as access_token *)
    end in
  let request :=   (* CreateTokenExchangeRequest: GetTokenIDAndSubjectFromToken, then the storage *)
    Call (match s with SubjRefresh => MTokenRequestByRefreshToken | _ => MKeySet end)
      (* a subject token the framework cannot verify is offered to TokenExchangeTokensVerifierStorage,
         which (refstore) knows no foreign tokens and rejects it *)
      (if is_max sv then fun _ => Call MVerifyExchangeSubjectToken (bad "invalid_request") (Ret (R K4xx "invalid_request" []))
       else bad "invalid_request")
      (Call MValidateTokenExchangeRequest (pass r) (Call MCreateTokenExchangeRequest (pass r) response)) in
  match r with
  | RProvider => Call MAuthorizeClientIDSecret (bad "invalid_client") (Call MGetClientByClientID (bad "invalid_client") request)
  | RLegacy => Call MGetClientByClientID (bad "invalid_client") (Call MAuthorizeClientIDSecret (bad "invalid_client") request)
  end.

(* DeviceAuthorization / deviceAuthorizationHandler + LegacyServer.DeviceAuthorization *)
Definition h_device_auth (r : router) (c : client) : prog :=
  match r with
  | RProvider =>
      client_id_from_request c
        (Call MGetClientByClientID request_error (Call MStoreDeviceAuthorization request_error (ok KOk [CDevice])))
  | RLegacy => legacy_verify_client c (Call MStoreDeviceAuthorization status_error_5xx (ok KOk [CDevice]))
  end.

(* CheckDeviceAuthorizationState: errors.Is(err, context.DeadlineExceeded) -> slow_down,
   any other error -> access_denied *)
Definition device_err (kd : kind) : resp :=
  R K4xx (if is_deadline kd then "slow_down" else "access_denied") [].

(* deviceAccessToken / deviceTokenHandler + LegacyServer.DeviceToken; CreateDeviceTokenResponse *)
Definition h_device_token (sv : storage) (r : router) (c : client) (offline openid : bool) : prog :=
  let response := create_access_token sv (pass r) offline false (jwt_at c)
                    (opt openid (create_id_token sv (pass r) false) (ok KOk (token_creds true offline openid))) in
  let poll := Call MGetDeviceAuthorizatonState (fun kd => Ret (device_err kd)) in
  match r with
  | RProvider => client_id_from_request c (poll (Call MGetClientByClientID (pass r) response))
  | RLegacy => legacy_verify_client c (poll response)
  end.

(* getTokenIDAndSubject: a JWT access token is verified against Storage.KeySet *)
(* Userinfo / LegacyServer.UserInfo *)
Definition h_userinfo (r : router) (c : client) : prog :=
  match r with
  | RProvider =>
      opt (jwt_at c) (Call MKeySet (errs K4xx ""))
        (Call MSetUserinfoFromToken (marshal_err K4xx) (ok KOk [CClaims]))
  | RLegacy =>
      opt (jwt_at c) (Call MKeySet (bad "access_denied"))
        (Call MSetUserinfoFromToken request_error (ok KOk [CClaims]))  (* StatusError 403 + WriteError *)
  end.

(* Introspect / introspectionHandler + LegacyServer.Introspect *)
Definition h_introspect (r : router) (c : client) : prog :=
  let e := match r with RProvider => errs K4xx "" | RLegacy => bad "unauthorized_client" end in
  Call (match auth_of c with APkjwt => MGetKeyByIDAndClientID | _ => MAuthorizeClientIDSecret end) e
    (opt (jwt_at c) (Call MKeySet (errs KInactive ""))
       (Call MSetIntrospectionFromToken (errs KInactive "") (ok KOk [CClaims; CActive]))).

(* Revoke + ParseTokenRevocationRequest / revocationHandler + LegacyServer.Revocation.
   getTokenIDAndSubjectForRevocation: when a JWT access token cannot be verified the
   handler carries on and hands the raw token to RevokeToken. *)
Definition h_revoke (r : router) (c : client) (t : revtok) (hint : bool) : prog :=
  (* a storage reports the failure of RevokeToken as an *oidc.Error of its own choice (refstore: the
     injected value if it is or wraps one, otherwise server_error with the value as parent) *)
  let revoke := Call MRevokeToken revocation_error (ok KOk []) in
  let decrypt :=
    match t with
    | RevAccess => if jwt_at c then Call MKeySet (fun _ => revoke) revoke else revoke
    | RevRefresh => revoke
    end in
  (* GetRefreshTokenInfo: ErrInvalidRefreshToken is the documented "not a refresh token" answer,
     the handler carries on with the access-token path; anything else is a server_error *)
  let lookup k :=
    Call MGetRefreshTokenInfo (fun kd => if is_invalid_refresh kd then decrypt else Ret (R K5xx "server_error" [])) k in
  let body :=
    opt (match t with RevRefresh => true | RevAccess => negb hint end) lookup decrypt in
  match r with
  | RProvider =>
      match auth_of c with
      | APkjwt => Call MGetKeyByIDAndClientID (errs K5xx "server_error") body
      | ABasic => Call MAuthorizeClientIDSecret (bad "invalid_client") body
      | APost => Call MGetClientByClientID (bad "invalid_client") (Call MAuthorizeClientIDSecret (bad "invalid_client") body)
      | ANone => Call MGetClientByClientID (bad "invalid_client") body
      end
  | RLegacy => legacy_verify_client c body
  end.

(* EndSession + ValidateEndSessionRequest / LegacyServer.EndSession *)
Definition h_end_session (sv : storage) (r : router) (v : endvar) : prog :=
  let terminate := Call (if is_max sv then MTerminateSessionFromRequest else MTerminateSession) (pass r) (ok K302 []) in
  let client := Call MGetClientByClientID (pass r) terminate in
  (* the client is looked up whenever a client id is known, from the request or from the hint's azp;
     post_logout_redirect_uri and state are checked / appended without the storage *)
  opt (e_hint v) (Call MKeySet (bad "invalid_request"))
    (if e_hint v || e_client_id v then client else terminate).

(* Keys / LegacyServer.Keys *)
Definition h_keys (r : router) : prog :=
  Call MKeySet (match r with RProvider => marshal_err K5xx | RLegacy => status_error_5xx end) (ok KOk []).

(* Discover + SigAlgorithms: a failing SignatureAlgorithms is swallowed (F24) *)
Definition h_discovery : prog :=
  Call MSignatureAlgorithms (fun _ => ok KOk []) (ok KOk []).

(* Readiness / LegacyServer.Ready *)
Definition h_ready (r : router) : prog :=
  Call MHealth (match r with RProvider => errs K5xx "" | RLegacy => status_error_5xx end) (ok KOk []).

Definition handler (r : router) (sv : storage) (f : flow) : prog :=
  match f with
  | FAuthorize _ hint _ _ => h_authorize r hint
  | FAuthorizeUnregistered _ => h_authorize_unregistered r
  | FCallbackCode _ m => h_callback_code m
  | FCallbackImplicit c a m => h_callback_implicit sv c a m
  | FTokenCode c o => h_token_code sv r c o
  | FRefresh c => h_refresh sv r c
  | FClientCredentials c => h_client_credentials sv r c
  | FJwtBearer => h_jwt_bearer sv r
  | FTokenExchange c s w => h_token_exchange sv r c s w
  | FDeviceAuth c => h_device_auth r c
  | FDeviceToken c o i => h_device_token sv r c o i
  | FUserinfo c => h_userinfo r c
  | FIntrospect c => h_introspect r c
  | FRevoke c t h => h_revoke r c t h
  | FEndSession _ v => h_end_session sv r v
  | FKeys => h_keys r
  | FDiscovery => h_discovery
  | FReady => h_ready r
  end.

(* the same flow with another response_mode (flows without one are unchanged) *)
Definition set_mode (f : flow) (m : rmode) : flow :=
  match f with
  | FAuthorize c h rt _ => FAuthorize c h rt m
  | FCallbackCode c _ => FCallbackCode c m
  | FCallbackImplicit c a _ => FCallbackImplicit c a m
  | _ => f
  end.

(* the flow variants the fixture can drive (the client has what the request needs) *)
Definition wf_flow (f : flow) : bool :=
  match f with
  | FClientCredentials c | FTokenExchange c _ _ => has_secret c
  | FDeviceAuth c | FDeviceToken c _ _ => match c with Pkjwt => false | _ => true end
  | FIntrospect c => match auth_of c with ANone => false | _ => true end
  | _ => true
  end.

(* open findings: a failure of this storage method in this flow is answered 200
   (recorded in known_findings.d/C10.txt) *)
Definition open_pair (f : flow) (m : method) : bool :=
  match f, m with
  | FDiscovery, MSignatureAlgorithms => true                (* F24 *)
  | FRevoke _ RevAccess _, MKeySet => true                  (* Fxx-C10-1 *)
  | _, _ => false
  end.

(* the handlers that go on calling the storage after some failure (revocation: KeySet,
   and GetRefreshTokenInfo answering ErrInvalidRefreshToken) *)
Definition goes_on (sv : storage) (f : flow) : bool :=
  match f with
  | FTokenExchange _ _ _ => is_max sv
  | FRevoke c RevAccess hint => jwt_at c || negb hint
  | FRevoke _ RevRefresh _ => true
  | _ => false
  end.
