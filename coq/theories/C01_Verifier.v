(* C01 (shared with C02): claims, verifier configuration, the Check* predicates
   of pkg/oidc/verifier.go and the relying party's verifiers.

   Go                                              Gallina
   ------------------------------------------------------------------------
   oidc.Time.AsTime / time.Time comparisons          instant, is_zero_time
   time.Time.Round(time.Second)                      round_s
   oidc.ParseToken (what the 3-way split decodes)    middle (given by the harness)
   oidc.CheckSubject/Issuer/Audience/AuthorizedParty chk_subject ... chk_azp
   oidc.CheckExpiration / CheckIssuedAt              chk_expiration, chk_issued_at
   oidc.CheckNonce (when Verifier.Nonce != nil)      chk_nonce
   oidc.CheckAuthorizationContextClassReference
        with oidc.DefaultACRVerifier                 chk_acr
   oidc.CheckAuthTime                                chk_auth_time
   rp.VerifyIDToken                                  verify_id_token
   rp.VerifyTokens + rp.VerifyAccessToken
        + oidc.ClaimHash + crypto.GetHashAlgorithm   verify_tokens, hash_of_alg

   Times: [now], offsets and max ages are Z nanoseconds; claim times are Z
   seconds (0 = absent = Go's zero time.Time).  The code reads time.Now()
   up to three times per call; the model takes one [now] (DESIGN 4.2). *)
From OIDC Require Import Lib Base64 C02_Jws.

Record claims := mkClaims {
  c_iss : string; c_sub : string; c_aud : list string; c_azp : string;
  c_exp : Z; c_iat : Z; c_auth_time : Z;
  c_nonce : string; c_acr : string; c_at_hash : string;
  c_client_id : string;     (* client_id claim *)
  c_rtype : string;         (* response_type (request objects only) *)
  c_extra : string          (* request object: state; tokens: private claim "ext" *)
}.

(* What oidc.ParseToken makes of the presented string: strings.Split on "."
   must give 3 parts, the middle one must be RawURL base64, and json.Unmarshal
   into the claims type must succeed.  [MidOk bytes c]: the decoded bytes and
   their JSON decoding (encoding/json is outside the model). *)
Inductive middle :=
| MidSegments            (* not exactly three dot-separated parts *)
| MidB64                 (* middle part is not base64url *)
| MidNotObject           (* decodes to JSON that is not an object (e.g. null): F02 *)
| MidJson                (* json.Unmarshal fails *)
| MidOk (bytes : string) (c : claims).

Record verifier := mkVerifier {
  v_issuer : string; v_client : string;
  v_offset : Z; v_max_iat : Z; v_max_age : Z;   (* ns; 0 = not configured *)
  v_nonce : option string;                      (* None = Verifier.Nonce is nil *)
  v_acr : option (list string);                 (* None = no ACR verifier; Some l = DefaultACRVerifier l *)
  v_algs : list string                          (* SupportedSignAlgs *)
}.

(* Accept: claims and the SignatureAlg set on them.
   AcceptExpired: VerifyIDTokenHint's (claims, IDTokenHintExpiredError) *)
Inductive outcome :=
| Accept (c : claims) (alg : string)
| AcceptExpired (c : claims) (alg : string) (e : err)
| Reject (e : err).

(* ---- time ---- *)
Definition ns : Z := 1000000000%Z.
Definition zero_unix : Z := (-62135596800)%Z.       (* Unix seconds of Go's zero time.Time *)
Definition instant (s : Z) : Z :=                   (* oidc.Time(s).AsTime() in Unix ns *)
  if Z.eqb s 0 then (zero_unix * ns)%Z else (s * ns)%Z.
Definition is_zero_time (s : Z) : bool := Z.eqb (instant s) (zero_unix * ns)%Z.
Definition round_s (t : Z) : Z := (((t + 500000000) / ns) * ns)%Z.   (* Round(time.Second) *)

(* ---- Check* : None = passed ---- *)
Definition chk_subject (c : claims) : option err :=
  if c_sub c =s "" then Some ESubject else None.

Definition chk_issuer (c : claims) (issuer : string) : option err :=
  if c_iss c =s issuer then None else Some EIssuer.

Definition chk_audience (c : claims) (client : string) : option err :=
  if string_in client (c_aud c) then None else Some EAudience.

Definition chk_azp (c : claims) (client : string) : option err :=
  if (1 <? List.length (c_aud c)) && (c_azp c =s "") then Some EAzpMissing
  else if negb (c_azp c =s "") && negb (c_azp c =s client) then Some EAzpInvalid
  else None.

Definition chk_expiration (c : claims) (offset now : Z) : option err :=
  if Z.ltb (now + offset) (instant (c_exp c)) then None else Some EExpired.

Definition chk_issued_at (c : claims) (max_iat offset now : Z) : option err :=
  if is_zero_time (c_iat c) then Some EIatMissing
  else if Z.ltb (round_s (now + offset)) (instant (c_iat c)) then Some EIatFuture
  else if Z.eqb max_iat 0 then None
  else if Z.ltb (instant (c_iat c)) (round_s (now - max_iat)) then Some EIatOld
  else None.

Definition chk_nonce (c : claims) (n : option string) : option err :=
  match n with
  | None => None
  | Some x => if c_nonce c =s x then None else Some ENonce
  end.

Definition chk_acr (c : claims) (a : option (list string)) : option err :=
  match a with
  | None => None
  | Some l => if string_in (c_acr c) l then None else Some EAcr
  end.

Definition chk_auth_time (c : claims) (max_age now : Z) : option err :=
  if Z.eqb max_age 0 then None
  else if is_zero_time (c_auth_time c) then Some EAuthTimeMissing
  else if Z.ltb (instant (c_auth_time c)) (round_s (now - max_age)) then Some EAuthTimeOld
  else None.

(* first failing check rejects *)
Definition andthen (a : option err) (k : outcome) : outcome :=
  match a with Some e => Reject e | None => k end.
Notation "a ;; k" := (andthen a k) (at level 61, right associativity).

Definition mid_error (m : middle) : err :=
  match m with MidJson => EJson | _ => EParse end.

(* crypto.GetHashAlgorithm *)
Inductive hkind := H256 | H384 | H512.
Definition hash_of_alg (alg : string) : option hkind :=
  if string_in alg ["RS256"; "ES256"; "PS256"] then Some H256
  else if string_in alg ["RS384"; "ES384"; "PS384"] then Some H384
  else if string_in alg ["RS512"; "ES512"; "PS512"; "EdDSA"] then Some H512
  else None.

Definition left_half (d : list nat) : list nat := firstn (List.length d / 2) d.

Section Verify.
  Variable verify : jwk -> sigentry -> string -> bool.
  Variable H : hkind -> string -> list nat.      (* the hash functions, as byte lists *)

  (* rp.VerifyIDToken *)
  Definition verify_id_token (v : verifier) (ks : keyset) (t : token) (m : middle) (now : Z) : outcome :=
    match m with
    | MidOk bytes c =>
        chk_subject c ;;
        chk_issuer c (v_issuer v) ;;
        chk_audience c (v_client v) ;;
        chk_azp c (v_client v) ;;
        match check_signature verify (v_algs v) ks t bytes with
        | Err e => Reject e
        | Ok alg =>
            chk_expiration c (v_offset v) now ;;
            chk_issued_at c (v_max_iat v) (v_offset v) now ;;
            chk_nonce c (v_nonce v) ;;
            chk_acr c (v_acr v) ;;
            chk_auth_time c (v_max_age v) now ;;
            Accept c alg
        end
    | _ => Reject (mid_error m)
    end.

  (* rp.VerifyAccessToken(accessToken, atHash, sigAlgorithm) *)
  Definition chk_at_hash (access_token at_hash alg : string) : option err :=
    if at_hash =s "" then None
    else match hash_of_alg alg with
         | None => Some EAtHashAlg
         | Some hk => if b64_encode (left_half (H hk access_token)) =s at_hash then None else Some EAtHash
         end.

  (* rp.VerifyTokens *)
  Definition verify_tokens (v : verifier) (ks : keyset) (t : token) (m : middle)
             (access_token : string) (now : Z) : outcome :=
    match verify_id_token v ks t m now with
    | Accept c alg => chk_at_hash access_token (c_at_hash c) alg ;; Accept c alg
    | o => o
    end.
End Verify.
