(* C01: case vocabulary, model runner and property predicate.
   "rp.VerifyIDToken / rp.VerifyTokens return claims only if, at the time of
   the call, the token names the issuer, has a subject, lists the client in
   aud (azp = client when present, present when several audiences), is not
   expired, not issued in the future nor longer ago than configured, satisfies
   nonce / ACR / auth-age, and a present at_hash is the left-half hash of the
   access token.  Conversely a correctly signed token meeting all of that with
   more than clock-rounding margin is accepted, claims unchanged." *)
From OIDC Require Export Lib Base64 C02_Jws C01_Verifier C02_Ground C01_Options.

(* access token and its real SHA-256 / SHA-384 / SHA-512 digests (hash oracle) *)
Record atoken := mkAT { at_value : string; at_256 : list nat; at_384 : list nat; at_512 : list nat }.

(* one call on a reused verifier *)
Record istep := mkIStep {
  is_tok : token; is_mid : middle; is_at : option atoken; is_now0 : Z; is_now1 : Z
}.

Inductive input :=
| IIDToken (v : verifier) (ks : keyset) (t : token) (m : middle) (atk : option atoken) (now0 now1 : Z)
    (* at = None: rp.VerifyIDToken; Some: rp.VerifyTokens.  [now0,now1] brackets the call. *)
| IIDTokenSeq (v : verifier) (ks : keyset) (steps : list istep)
    (* ONE rp.IDTokenVerifier (and the one key set behind it) used for several
       calls, VerifyIDToken and VerifyTokens mixed, with different ID tokens and
       access tokens *)
| IOptions (issuer client : string) (opts : list vopt) (probes : list string) (p : profile)
    (ks : keyset) (t : token) (m : middle) (atk : option atoken) (now0 now1 : Z).
    (* the verifier is rp.NewIDTokenVerifier(issuer, client, ks, opts...); its
       configuration is read back (ACR function probed with [probes]), one call is
       made with it, and every accessor of the returned claims is read.  [p]: the
       profile members the payload of [t] was built from. *)

Inductive observed :=
| OOut (o : outcome)
| OSeq (l : list outcome)
| OOpt (co : cfgobs) (o : outcome) (g : option gview)   (* g: the accessors, when claims came back *)
| OPanic.

Definition digest_of (a : atoken) (h : hkind) : list nat :=
  match h with H256 => at_256 a | H384 => at_384 a | H512 => at_512 a end.
Definition H_case (a : atoken) (h : hkind) (_ : string) : list nat := digest_of a h.

Definition model_step (v : verifier) (ks : keyset) (t : token) (m : middle) (atk : option atoken) (now0 : Z) : outcome :=
  match atk with
  | None => verify_id_token sym_verify v ks t m now0
  | Some a => verify_tokens sym_verify (H_case a) v ks t m (at_value a) now0
  end.

(* the verifier keeps nothing between calls: claims, at_hash, access token and
   signature algorithm of one call are no input of the next *)
Definition model (i : input) : observed :=
  match i with
  | IIDToken v ks t m atk now0 _ => OOut (model_step v ks t m atk now0)
  | IIDTokenSeq v ks steps =>
      OSeq (map (fun s => model_step v ks (is_tok s) (is_mid s) (is_at s) (is_now0 s)) steps)
  | IOptions issuer client opts probes p ks t m atk now0 _ =>
      let v := new_id_token_verifier issuer client opts in
      let o := model_step v ks t m atk now0 in
      OOpt (observe_cfg v probes) o
           (match o with
            | Accept c alg | AcceptExpired c alg _ => Some (getters c alg p)
            | Reject _ => None
            end)
  end.

(* ---------------- the property, from its text ---------------- *)
Definition half_second : Z := 500000000%Z.

(* claim conditions that must hold whenever claims are returned.  Time
   clauses are evaluated at the end of [now0,now1] that makes them weakest, and
   allow the half second by which the verifier's rounded clock may differ. *)
Definition claims_sound (v : verifier) (c : claims) (now0 now1 : Z) : bool :=
  (c_iss c =s v_issuer v)
  && negb (c_sub c =s "")
  && string_in (v_client v) (c_aud c)
  && ((c_azp c =s "") || (c_azp c =s v_client v))
  && ((List.length (c_aud c) <=? 1) || negb (c_azp c =s ""))
  (* not expired *)
  && negb (Z.eqb (c_exp c) 0) && Z.ltb (now0 + v_offset v) (c_exp c * ns)
  (* issued, not in the future, not too long ago *)
  && negb (Z.eqb (c_iat c) 0)
  && Z.leb (c_iat c * ns) (now1 + v_offset v + half_second)
  && (Z.eqb (v_max_iat v) 0 || Z.leb (now0 - v_max_iat v - half_second) (c_iat c * ns))
  (* nonce, acr *)
  && match v_nonce v with None => true | Some n => c_nonce c =s n end
  && match v_acr v with None => true | Some l => string_in (c_acr c) l end
  (* authentication age *)
  && (Z.eqb (v_max_age v) 0
      || (negb (Z.eqb (c_auth_time c) 0)
          && Z.leb (now0 - v_max_age v - half_second) (c_auth_time c * ns))).

Definition one_second : Z := ns.

(* the same conditions with a full second of margin on every time bound,
   evaluated at the end of the bracket that makes them strongest *)
Definition claims_margin (v : verifier) (c : claims) (now0 now1 : Z) : bool :=
  (c_iss c =s v_issuer v)
  && negb (c_sub c =s "")
  && string_in (v_client v) (c_aud c)
  && ((c_azp c =s "") || (c_azp c =s v_client v))
  && ((List.length (c_aud c) <=? 1) || negb (c_azp c =s ""))
  && Z.ltb 0 (c_exp c) && Z.leb (now1 + v_offset v + one_second) (c_exp c * ns)
  && Z.ltb 0 (c_iat c)
  && Z.leb (c_iat c * ns + one_second) (now0 + v_offset v)
  && (Z.eqb (v_max_iat v) 0 || Z.leb (now1 - v_max_iat v + one_second) (c_iat c * ns))
  && match v_nonce v with None => true | Some n => c_nonce c =s n end
  && match v_acr v with None => true | Some l => string_in (c_acr c) l end
  && (Z.eqb (v_max_age v) 0
      || (Z.ltb 0 (c_auth_time c)
          && Z.leb (now1 - v_max_age v + one_second) (c_auth_time c * ns))).

(* Ground truth, independent of the verifier: the hash that belongs to a
   signature algorithm is the one named by its suffix (OIDC Core 3.1.3.6: "the hash
   algorithm used in the alg header"), for the HMAC family as well; EdDSA: SHA-512. *)
Definition spec_hash (alg : string) : option hkind :=
  if string_in alg ["RS256"; "PS256"; "ES256"; "HS256"] then Some H256
  else if string_in alg ["RS384"; "PS384"; "ES384"; "HS384"] then Some H384
  else if string_in alg ["RS512"; "PS512"; "ES512"; "HS512"; "EdDSA"] then Some H512
  else None.

(* soundness: a present at_hash is the base64url left half of that hash of exactly
   this access token - whatever the algorithm; no known hash, no acceptance *)
Definition at_hash_ok (atk : option atoken) (c : claims) (alg : string) : bool :=
  match atk with
  | None => true
  | Some a =>
      (c_at_hash c =s "")
      || match spec_hash alg with
         | Some h => c_at_hash c =s b64_encode (left_half (digest_of a h))
         | None => false
         end
  end.

(* completeness is demanded for the asymmetric algorithms only: refusing an HS*
   token that carries an at_hash (the library knows no hash for HS*: fail closed)
   is not counted as a false rejection *)
Definition at_hash_must_accept (atk : option atoken) (c : claims) (alg : string) : bool :=
  match atk with
  | None => true
  | Some a =>
      (c_at_hash c =s "")
      || (negb (prefix "HS" alg)
          && match spec_hash alg with
             | Some h => c_at_hash c =s b64_encode (left_half (digest_of a h))
             | None => false
             end)
  end.

(* the answer to ONE call, judged from that call's own token, access token and clock *)
Definition spec_step (v : verifier) (ks : keyset) (t : token) (m : middle) (atk : option atoken)
           (now0 now1 : Z) (o : outcome) : bool :=
  match m, o with
  | MidOk bytes c, Accept c' alg =>
      claims_eqb c' c                                   (* claims returned unchanged *)
      && claims_sound v c now0 now1
      && sig_genuine (v_algs v) ks t bytes && (alg =s sig_alg t)
      && at_hash_ok atk c alg
  | MidOk bytes c, Reject _ =>
      negb (claims_margin v c now0 now1
            && sig_complete (v_algs v) ks t bytes
            && at_hash_must_accept atk c (sig_alg t))
  | _, Reject _ => true
  | _, _ => false
  end.

(* a reused verifier: every answer must be right for ITS call, whatever was
   presented before (no claim, at_hash or verification result carried over) *)
Fixpoint spec_seq (v : verifier) (ks : keyset) (steps : list istep) (outs : list outcome) : bool :=
  match steps, outs with
  | [], [] => true
  | s :: r, o :: ro =>
      spec_step v ks (is_tok s) (is_mid s) (is_at s) (is_now0 s) (is_now1 s) o && spec_seq v ks r ro
  | _, _ => false
  end.

(* ---- "the configured ... requirements": what an option list configures.
   From the documentation of rp.NewIDTokenVerifier and its options: every
   option sets the one setting it names; a setting no option names keeps its
   default (offset 1 s, no max ages, the empty nonce expected, no ACR
   requirement, the default algorithm list); of several options naming the same
   setting the one given last counts. ---- *)
Fixpoint first_some {A} (f : vopt -> option A) (l : list vopt) : option A :=
  match l with
  | [] => None
  | o :: r => match f o with Some a => Some a | None => first_some f r end
  end.
Definition last_of {A} (f : vopt -> option A) (opts : list vopt) (dflt : A) : A :=
  match first_some f (rev opts) with Some a => a | None => dflt end.

Definition sel_offset (o : vopt) := match o with WithIssuedAtOffset d => Some d | _ => None end.
Definition sel_max_iat (o : vopt) := match o with WithIssuedAtMaxAge d => Some d | _ => None end.
Definition sel_nonce (o : vopt) := match o with WithNonce n => Some n | _ => None end.
Definition sel_acr (o : vopt) := match o with WithACRVerifier l => Some l | _ => None end.
Definition sel_max_age (o : vopt) := match o with WithAuthTimeMaxAge d => Some d | _ => None end.
Definition sel_algs (o : vopt) := match o with WithSupportedSigningAlgorithms l => Some l | _ => None end.

Definition configured (issuer client : string) (opts : list vopt) : verifier :=
  mkVerifier issuer client
             (last_of sel_offset opts one_second) (last_of sel_max_iat opts 0%Z) (last_of sel_max_age opts 0%Z)
             (last_of sel_nonce opts (Some "")) (last_of sel_acr opts None) (last_of sel_algs opts []).

(* the verifier handed out has configuration v, as far as it can be read back *)
Definition cfg_reported (v : verifier) (probes : list string) (co : cfgobs) : bool :=
  (co_issuer co =s v_issuer v) && (co_client co =s v_client v)
  && Z.eqb (co_offset co) (v_offset v) && Z.eqb (co_max_iat co) (v_max_iat v) && Z.eqb (co_max_age co) (v_max_age v)
  && option_eqb String.eqb (co_nonce co) (v_nonce v)
  && match v_acr v, co_acr co with
     | None, None => true
     | Some l, Some answers => list_eqb Bool.eqb answers (map (fun p => string_in p l) probes)
     | _, _ => false
     end
  && list_eqb String.eqb (co_algs co) (v_algs v).

(* ---- "its claims are returned unchanged", at the accessors: a present time
   claim is reported as that second, an absent one as no time; every string
   claim, the audience list and the profile members as the payload has them ---- *)
Definition time_reported (s : Z) (g : gtime) : bool :=
  if Z.eqb s 0 then gt_zero g else Z.eqb (gt_unix g) s.

Definition getters_report (c : claims) (alg : string) (p : profile) (g : gview) : bool :=
  (g_iss g =s c_iss c) && (g_sub g =s c_sub c) && list_eqb String.eqb (g_aud g) (c_aud c)
  && time_reported (c_exp c) (g_exp g) && time_reported (c_iat c) (g_iat g)
  && time_reported (c_auth_time c) (g_auth_time g)
  && (g_nonce g =s c_nonce c) && (g_acr g =s c_acr c) && (g_azp g =s c_azp c)
  && (g_alg g =s alg) && (g_at_hash g =s c_at_hash c)
  && (ui_sub g =s c_sub c) && (ui_name g =s p_name p) && (ui_given g =s p_given p)
  && (ui_family g =s p_family p) && (ui_username g =s p_username p)
  && (ui_email g =s p_email p) && Bool.eqb (ui_email_verified g) (p_email_verified p)
  && (ui_phone g =s p_phone p) && Bool.eqb (ui_phone_verified g) (p_phone_verified p)
  && option_eqb String.eqb (ui_address g) (p_address p)
  && Z.eqb (ui_updated_at g) (p_updated_at p)
  && (ui_ext g =s c_extra c) && N.eqb (ui_members g) (p_members p).

Definition spec (i : input) (o : observed) : bool :=
  match i, o with
  | IIDToken v ks t m atk now0 now1, OOut o => spec_step v ks t m atk now0 now1 o
  | IIDTokenSeq v ks steps, OSeq l => spec_seq v ks steps l
  | IOptions issuer client opts probes p ks t m atk now0 now1, OOpt co o g =>
      let v := configured issuer client opts in
      cfg_reported v probes co
      && spec_step v ks t m atk now0 now1 o          (* the call, judged for the configured verifier *)
      && match m, o, g with
         | MidOk _ c, Accept _ _, Some gv => getters_report c (sig_alg t) p gv
         | _, Accept _ _, _ => false
         | _, _, _ => true
         end
  | _, _ => false
  end.

Definition obs_eqb (a b : observed) : bool :=
  match a, b with
  | OOut x, OOut y => outcome_eqb x y
  | OSeq x, OSeq y => list_eqb outcome_eqb x y
  | OOpt c1 o1 g1, OOpt c2 o2 g2 => cfgobs_eqb c1 c2 && outcome_eqb o1 o2 && option_eqb gview_eqb g1 g2
  | OPanic, OPanic => true
  | _, _ => false
  end.

(* decision path: which check rejected, or acceptance (with/without at_hash) *)
Definition path (i : input) (o : observed) : nat :=
  match i, o with
  | IIDToken _ _ _ _ atk _ _, OOut (Accept c _) =>
      match atk with None => 30 | Some _ => if c_at_hash c =s "" then 31 else 32 end
  | IIDToken _ _ _ _ _ _ _, OOut o => outcome_code o
  | IIDTokenSeq _ _ _, OSeq l =>   (* number of accepting calls of the sequence *)
      100 + Nat.min 9 (List.length (filter (fun o => match o with Accept _ _ => true | _ => false end) l))
  | IOptions _ _ _ _ _ _ _ _ atk _ _, OOpt _ (Accept c _) _ =>
      match atk with None => 230 | Some _ => if c_at_hash c =s "" then 231 else 232 end
  | IOptions _ _ _ _ _ _ _ _ _ _ _, OOpt _ o _ =>
      match outcome_code o with 0 => 0 | k => 200 + k end
  | _, _ => 0
  end.

Definition case_mismatches := run_mismatches model obs_eqb.
Definition case_violations := run_violations spec.
Definition case_paths := run_paths model path.
