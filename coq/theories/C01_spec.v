(* C01: case vocabulary, model runner and property predicate.
   "rp.VerifyIDToken / rp.VerifyTokens return claims only if, at the time of
   the call, the token names the issuer, has a subject, lists the client in
   aud (azp = client when present, present when several audiences), is not
   expired, not issued in the future nor longer ago than configured, satisfies
   nonce / ACR / auth-age, and a present at_hash is the left-half hash of the
   access token.  Conversely a correctly signed token meeting all of that with
   more than clock-rounding margin is accepted, claims unchanged." *)
From OIDC Require Export Lib Base64 C02_Jws C01_Verifier C02_Ground.

(* access token and its real SHA-256 / SHA-384 / SHA-512 digests (hash oracle) *)
Record atoken := mkAT { at_value : string; at_256 : list nat; at_384 : list nat; at_512 : list nat }.

(* one call on a reused verifier *)
Record istep := mkIStep {
  is_tok : token; is_mid : middle; is_at : option atoken; is_now0 : Z; is_now1 : Z
}.

Inductive input :=
| IIDToken (v : verifier) (ks : keyset) (t : token) (m : middle) (atk : option atoken) (now0 now1 : Z)
    (* at = None: rp.VerifyIDToken; Some: rp.VerifyTokens.  [now0,now1] brackets the call. *)
| IIDTokenSeq (v : verifier) (ks : keyset) (steps : list istep).
    (* ONE rp.IDTokenVerifier (and the one key set behind it) used for several
       calls, VerifyIDToken and VerifyTokens mixed, with different ID tokens and
       access tokens *)

Inductive observed :=
| OOut (o : outcome)
| OSeq (l : list outcome)
| OPanic.

Definition digest_of (a : atoken) (h : hkind) : list nat :=
  match h with H256 => at_256 a | H384 => at_384 a | H512 => at_512 a end.
Definition H_case (a : atoken) (h : hkind) (_ : string) : list nat := digest_of a h.

Definition model_step (v : verifier) (ks : keyset) (t : token) (m : middle) (atk : option atoken) (now0 : Z) : outcome :=
  match atk with
  | None => verify_id_token sym_verify v ks t m now0
  | Some a => verify_tokens sym_verify (H_case a) v ks t m (at_value a) now0
  end.

(* the verifier keeps nothing between calls: claims, at_hash, access token and
   signature algorithm of one call are no input of the next *)
Definition model (i : input) : observed :=
  match i with
  | IIDToken v ks t m atk now0 _ => OOut (model_step v ks t m atk now0)
  | IIDTokenSeq v ks steps =>
      OSeq (map (fun s => model_step v ks (is_tok s) (is_mid s) (is_at s) (is_now0 s)) steps)
  end.

(* ---------------- the property, from its text ---------------- *)
Definition half_second : Z := 500000000%Z.

(* claim conditions that must hold whenever claims are returned.  Time
   clauses are evaluated at the end of [now0,now1] that makes them weakest, and
   allow the half second by which the verifier's rounded clock may differ. *)
Definition claims_sound (v : verifier) (c : claims) (now0 now1 : Z) : bool :=
  (c_iss c =s v_issuer v)
  && negb (c_sub c =s "")
  && string_in (v_client v) (c_aud c)
  && ((c_azp c =s "") || (c_azp c =s v_client v))
  && ((List.length (c_aud c) <=? 1) || negb (c_azp c =s ""))
  (* not expired *)
  && negb (Z.eqb (c_exp c) 0) && Z.ltb (now0 + v_offset v) (c_exp c * ns)
  (* issued, not in the future, not too long ago *)
  && negb (Z.eqb (c_iat c) 0)
  && Z.leb (c_iat c * ns) (now1 + v_offset v + half_second)
  && (Z.eqb (v_max_iat v) 0 || Z.leb (now0 - v_max_iat v - half_second) (c_iat c * ns))
  (* nonce, acr *)
  && match v_nonce v with None => true | Some n => c_nonce c =s n end
  && match v_acr v with None => true | Some l => string_in (c_acr c) l end
  (* authentication age *)
  && (Z.eqb (v_max_age v) 0
      || (negb (Z.eqb (c_auth_time c) 0)
          && Z.leb (now0 - v_max_age v - half_second) (c_auth_time c * ns))).

Definition one_second : Z := ns.

(* the same conditions with a full second of margin on every time bound,
   evaluated at the end of the bracket that makes them strongest *)
Definition claims_margin (v : verifier) (c : claims) (now0 now1 : Z) : bool :=
  (c_iss c =s v_issuer v)
  && negb (c_sub c =s "")
  && string_in (v_client v) (c_aud c)
  && ((c_azp c =s "") || (c_azp c =s v_client v))
  && ((List.length (c_aud c) <=? 1) || negb (c_azp c =s ""))
  && Z.ltb 0 (c_exp c) && Z.leb (now1 + v_offset v + one_second) (c_exp c * ns)
  && Z.ltb 0 (c_iat c)
  && Z.leb (c_iat c * ns + one_second) (now0 + v_offset v)
  && (Z.eqb (v_max_iat v) 0 || Z.leb (now1 - v_max_iat v + one_second) (c_iat c * ns))
  && match v_nonce v with None => true | Some n => c_nonce c =s n end
  && match v_acr v with None => true | Some l => string_in (c_acr c) l end
  && (Z.eqb (v_max_age v) 0
      || (Z.ltb 0 (c_auth_time c)
          && Z.leb (now1 - v_max_age v + one_second) (c_auth_time c * ns))).

(* Ground truth, independent of the verifier: the hash that belongs to a
   signature algorithm is the one named by its suffix (OIDC Core 3.1.3.6: "the hash
   algorithm used in the alg header"), for the HMAC family as well; EdDSA: SHA-512. *)
Definition spec_hash (alg : string) : option hkind :=
  if string_in alg ["RS256"; "PS256"; "ES256"; "HS256"] then Some H256
  else if string_in alg ["RS384"; "PS384"; "ES384"; "HS384"] then Some H384
  else if string_in alg ["RS512"; "PS512"; "ES512"; "HS512"; "EdDSA"] then Some H512
  else None.

(* soundness: a present at_hash is the base64url left half of that hash of exactly
   this access token - whatever the algorithm; no known hash, no acceptance *)
Definition at_hash_ok (atk : option atoken) (c : claims) (alg : string) : bool :=
  match atk with
  | None => true
  | Some a =>
      (c_at_hash c =s "")
      || match spec_hash alg with
         | Some h => c_at_hash c =s b64_encode (left_half (digest_of a h))
         | None => false
         end
  end.

(* completeness is demanded for the asymmetric algorithms only: refusing an HS*
   token that carries an at_hash (the library knows no hash for HS*: fail closed)
   is not counted as a false rejection *)
Definition at_hash_must_accept (atk : option atoken) (c : claims) (alg : string) : bool :=
  match atk with
  | None => true
  | Some a =>
      (c_at_hash c =s "")
      || (negb (prefix "HS" alg)
          && match spec_hash alg with
             | Some h => c_at_hash c =s b64_encode (left_half (digest_of a h))
             | None => false
             end)
  end.

(* the answer to ONE call, judged from that call's own token, access token and clock *)
Definition spec_step (v : verifier) (ks : keyset) (t : token) (m : middle) (atk : option atoken)
           (now0 now1 : Z) (o : outcome) : bool :=
  match m, o with
  | MidOk bytes c, Accept c' alg =>
      claims_eqb c' c                                   (* claims returned unchanged *)
      && claims_sound v c now0 now1
      && sig_genuine (v_algs v) ks t bytes && (alg =s sig_alg t)
      && at_hash_ok atk c alg
  | MidOk bytes c, Reject _ =>
      negb (claims_margin v c now0 now1
            && sig_complete (v_algs v) ks t bytes
            && at_hash_must_accept atk c (sig_alg t))
  | _, Reject _ => true
  | _, _ => false
  end.

(* a reused verifier: every answer must be right for ITS call, whatever was
   presented before (no claim, at_hash or verification result carried over) *)
Fixpoint spec_seq (v : verifier) (ks : keyset) (steps : list istep) (outs : list outcome) : bool :=
  match steps, outs with
  | [], [] => true
  | s :: r, o :: ro =>
      spec_step v ks (is_tok s) (is_mid s) (is_at s) (is_now0 s) (is_now1 s) o && spec_seq v ks r ro
  | _, _ => false
  end.

Definition spec (i : input) (o : observed) : bool :=
  match i, o with
  | IIDToken v ks t m atk now0 now1, OOut o => spec_step v ks t m atk now0 now1 o
  | IIDTokenSeq v ks steps, OSeq l => spec_seq v ks steps l
  | _, _ => false
  end.

Definition obs_eqb (a b : observed) : bool :=
  match a, b with
  | OOut x, OOut y => outcome_eqb x y
  | OSeq x, OSeq y => list_eqb outcome_eqb x y
  | OPanic, OPanic => true
  | _, _ => false
  end.

(* decision path: which check rejected, or acceptance (with/without at_hash) *)
Definition path (i : input) (o : observed) : nat :=
  match i, o with
  | IIDToken _ _ _ _ atk _ _, OOut (Accept c _) =>
      match atk with None => 30 | Some _ => if c_at_hash c =s "" then 31 else 32 end
  | IIDToken _ _ _ _ _ _ _, OOut o => outcome_code o
  | IIDTokenSeq _ _ _, OSeq l =>   (* number of accepting calls of the sequence *)
      100 + Nat.min 9 (List.length (filter (fun o => match o with Accept _ _ => true | _ => false end) l))
  | _, _ => 0
  end.

Definition case_mismatches := run_mismatches model obs_eqb.
Definition case_violations := run_violations spec.
Definition case_paths := run_paths model path.
