(* C11 model, part 2: html/template (go1.24.1) as used by
   pkg/op/form_post.html.tmpl, and the user agent's reading of an attribute.

   Go source                                         Gallina
   ------------------------------------------------  ------------------------
   html/template htmlReplacer(s, htmlReplacementTable, true)
                 = attrEscaper on a plain string       attr_escape
                 isSafeURL / urlFilter                 is_safe_url / url_filter
                 processURLOnto(s, norm=true)
                 = urlNormalizer                       url_normalize
   pkg/op form_post.html.tmpl (after fix Fxx-C11-1)    form_body
   user agent: decode document as UTF-8                utf8_sanitize
               newline normalisation of the input      nl_norm
               character references in attributes      attr_decode
               all three                               ua_attr

   attrEscaper decodes runes, but only code points < 63 have table entries and
   an ASCII byte is never part of a multi-byte sequence, so it is exactly the
   bytewise map below (invalid UTF-8 passes through unchanged).
   attr_decode knows decimal/hex references to ASCII code points and
   amp/lt/gt/quot/apos; that is every reference attrEscaper can produce.
   No proofs in this file. *)
From OIDC Require Import Lib C11_Url.

Definition LF : ascii := ascii_of_N 10.
Definition CR : ascii := ascii_of_N 13.
Definition U_FFFD : string := String (ascii_of_N 239) (String (ascii_of_N 191) (String (ascii_of_N 189) "")).

(* ---------------- html/template ---------------- *)
Definition attr_esc_byte (c : ascii) : string :=
  match byte_n c with
  | 0%N => U_FFFD
  | 34%N => "&#34;"
  | 38%N => "&amp;"
  | 39%N => "&#39;"
  | 43%N => "&#43;"
  | 60%N => "&lt;"
  | 62%N => "&gt;"
  | _ => String c ""
  end.

Fixpoint attr_escape (s : string) : string :=
  match s with
  | EmptyString => EmptyString
  | String c r => (attr_esc_byte c ++ attr_escape r)%string
  end.

(* strings.EqualFold against an ASCII lower-case target: ASCII case folding plus
   U+017F (LATIN SMALL LETTER LONG S, bytes C5 BF), which simple-folds to 's' *)
Fixpoint fold_lower (s : string) : string :=
  match s with
  | EmptyString => EmptyString
  | String c r =>
      if between 65 90 c then String (ascii_of_N (byte_n c + 32)) (fold_lower r)
      else if (byte_n c =? 197)%N then
        match r with
        | String d r' => if (byte_n d =? 191)%N then String "s" (fold_lower r')
                         else String c (fold_lower r)
        | EmptyString => String c EmptyString
        end
      else String c (fold_lower r)
  end.

Definition is_safe_url (s : string) : bool :=
  match cut ":" s with
  | (proto, _, true) =>
      if mem_char "/" proto then true
      else let p := fold_lower proto in
           String.eqb p "http" || String.eqb p "https" || String.eqb p "mailto"
  | (_, _, false) => true
  end.

Definition url_filter (s : string) : string := if is_safe_url s then s else "#ZgotmplZ".

Definition url_keep (c : ascii) : bool :=
  mem_char c "!#$&*+,/:;=?@[]-._~" || is_alnum c.

Definition two_hex (r : string) : bool :=
  match r with
  | String h1 (String h2 _) => is_hex h1 && is_hex h2
  | _ => false
  end.

Fixpoint url_normalize (s : string) : string :=
  match s with
  | EmptyString => EmptyString
  | String c r =>
      if url_keep c || (Ascii.eqb c "%" && two_hex r) then String c (url_normalize r)
      else (pct false c ++ url_normalize r)%string
  end.

(* the pipeline html/template installs for action="{{.RedirectURI}}" *)
Definition form_action (redirect : string) : string :=
  attr_escape (url_normalize (url_filter redirect)).

Fixpoint lookup (k : string) (l : pairs) : option string :=
  match l with
  | [] => None
  | (k', v) :: r => if String.eqb k k' then Some v else lookup k r
  end.

Definition nl : string := String LF "".

(* {{with .Params.NAME}}<input type="hidden" name="NAME" value="{{ index . 0 }}"TAIL{{end}} *)
Definition form_field (params : pairs) (name tail : string) : string :=
  match lookup name params with
  | Some v => ("<input type=""hidden"" name=""" ++ name ++ """ value=""" ++ attr_escape v ++ """" ++ tail)%string
  | None => EmptyString
  end.

(* the names the template knows, in document order *)
Definition form_fields : list string :=
  ["state"; "session_state"; "code"; "id_token"; "access_token"; "token_type"; "expires_in"].

Definition form_head : string :=
  ("<!doctype html>" ++ nl ++ "<html>" ++ nl ++ "<head><meta charset=""UTF-8"" /></head>" ++ nl
   ++ "<body onload=""javascript:document.forms[0].submit()"">" ++ nl
   ++ "<form method=""post"" action=""")%string.

(* session_state (fix Fxx-C11-1) is written "{{- with ...}}<newline><input .../>{{end}}"
   right after the state line: it brings its own leading newline and leaves the
   output unchanged when absent *)
Definition form_lines (params : pairs) : string :=
  (form_field params "state" "/>"
   ++ (match lookup "session_state" params with
       | Some _ => nl ++ form_field params "session_state" "/>"
       | None => "" end) ++ nl
   ++ form_field params "code" " />" ++ nl
   ++ form_field params "id_token" "/>" ++ nl
   ++ form_field params "access_token" " />" ++ nl
   ++ form_field params "token_type" " />" ++ nl
   ++ form_field params "expires_in" " />" ++ nl)%string.

Definition form_body (redirect : string) (params : pairs) : string :=
  (form_head ++ form_action redirect ++ """>" ++ nl
   ++ form_lines params
   ++ "</form>" ++ nl ++ "</body>" ++ nl ++ "</html>")%string.

(* ---------------- user agent ---------------- *)
Definition is_cont (c : ascii) : bool := between 128 191 c.

(* second byte ranges of UTF-8 (Unicode table 3-7), as utf8.DecodeRune accepts *)
Definition ok2 (a b : ascii) : bool := between 194 223 a && is_cont b.
Definition ok3 (a b c : ascii) : bool :=
  (((byte_n a =? 224)%N && between 160 191 b)
   || ((between 225 236 a || between 238 239 a) && is_cont b)
   || ((byte_n a =? 237)%N && between 128 159 b)) && is_cont c.
Definition ok4 (a b c d : ascii) : bool :=
  (((byte_n a =? 240)%N && between 144 191 b)
   || (between 241 243 a && is_cont b)
   || ((byte_n a =? 244)%N && between 128 143 b)) && is_cont c && is_cont d.

(* width of the well-formed sequence at the head of (a :: r); 0 = ill-formed *)
Definition rune_width (a : ascii) (r : string) : nat :=
  if (byte_n a <? 128)%N then 1
  else match r with
       | String b r2 =>
           if ok2 a b then 2
           else match r2 with
                | String c r3 =>
                    if ok3 a b c then 3
                    else match r3 with
                         | String d _ => if ok4 a b c d then 4 else 0
                         | EmptyString => 0
                         end
                | EmptyString => 0
                end
       | EmptyString => 0
       end.

(* copy [keep] more bytes of the current rune, then decode the next one; an
   ill-formed byte becomes U+FFFD (one per byte) *)
Fixpoint utf8_sanitize_from (keep : nat) (s : string) : string :=
  match s with
  | EmptyString => EmptyString
  | String a r =>
      match keep with
      | S k => String a (utf8_sanitize_from k r)
      | O => match rune_width a r with
             | O => (U_FFFD ++ utf8_sanitize_from 0 r)%string
             | S k => String a (utf8_sanitize_from k r)
             end
      end
  end.
Definition utf8_sanitize (s : string) : string := utf8_sanitize_from 0 s.

Fixpoint valid_utf8_from (keep : nat) (s : string) : bool :=
  match s with
  | EmptyString => true
  | String a r =>
      match keep with
      | S k => valid_utf8_from k r
      | O => match rune_width a r with
             | O => false
             | S k => valid_utf8_from k r
             end
      end
  end.
Definition valid_utf8 (s : string) : bool := valid_utf8_from 0 s.

(* HTML input-stream preprocessing: CR LF and lone CR become LF *)
Fixpoint nl_norm (s : string) : string :=
  match s with
  | EmptyString => EmptyString
  | String c r =>
      if Ascii.eqb c CR then
        String LF (match r with
                   | String d r' => if Ascii.eqb d LF then nl_norm r' else nl_norm r
                   | EmptyString => EmptyString
                   end)
      else String c (nl_norm r)
  end.

Fixpoint prefix_of (p s : string) : bool :=
  match p, s with
  | EmptyString, _ => true
  | String a p', String b s' => Ascii.eqb a b && prefix_of p' s'
  | String _ _, EmptyString => false
  end.

(* digits of a numeric reference: (value, number of digit bytes, next byte is ';') *)
Fixpoint read_digits (hex : bool) (acc : N) (n : nat) (s : string) : N * nat * bool :=
  match s with
  | EmptyString => (acc, n, false)
  | String c r =>
      if hex then
        if is_hex c then read_digits hex (acc * 16 + unhex c) (S n) r
        else (acc, n, Ascii.eqb c ";")
      else
        if between 48 57 c then read_digits hex (acc * 10 + (byte_n c - 48)) (S n) r
        else (acc, n, Ascii.eqb c ";")
  end.

(* r = text after '&'.  Some (c, k): a reference to the ASCII character c that
   occupies the next k bytes of r *)
Definition entity_at (r : string) : option (ascii * nat) :=
  if prefix_of "amp;" r then Some ("&"%char, 4)
  else if prefix_of "lt;" r then Some ("<"%char, 3)
  else if prefix_of "gt;" r then Some (">"%char, 3)
  else if prefix_of "quot;" r then Some (""""%char, 5)
  else if prefix_of "apos;" r then Some ("'"%char, 5)
  else match r with
       | String h r1 =>
           if Ascii.eqb h "#" then
             match r1 with
             | String x r2 =>
                 if Ascii.eqb x "x" || Ascii.eqb x "X" then
                   match read_digits true 0 0 r2 with
                   | (v, S n, true) => if ((0 <? v) && (v <? 128))%N then Some (ascii_of_N v, 3 + S n) else None
                   | _ => None
                   end
                 else
                   match read_digits false 0 0 r1 with
                   | (v, S n, true) => if ((0 <? v) && (v <? 128))%N then Some (ascii_of_N v, 2 + S n) else None
                   | _ => None
                   end
             | EmptyString => None
             end
           else None
       | EmptyString => None
       end.

Fixpoint attr_decode_from (skip : nat) (s : string) : string :=
  match s with
  | EmptyString => EmptyString
  | String c r =>
      match skip with
      | S k => attr_decode_from k r
      | O =>
          if Ascii.eqb c "&" then
            match entity_at r with
            | Some (ch, k) => String ch (attr_decode_from k r)
            | None => String c (attr_decode_from 0 r)
            end
          else String c (attr_decode_from 0 r)
      end
  end.
Definition attr_decode (s : string) : string := attr_decode_from 0 s.

(* what the user agent holds as the value of a double-quoted attribute whose
   source bytes are e *)
Definition ua_attr (e : string) : string := attr_decode (nl_norm (utf8_sanitize e)).

(* the value survives the HTML channel: well-formed UTF-8, no NUL, no CR *)
Definition text_ok (v : string) : bool :=
  valid_utf8 v && negb (mem_char (ascii_of_N 0) v) && negb (mem_char CR v).

(* nothing in e can end or restructure a quoted attribute: no quote, apostrophe
   or angle bracket, and every '&' starts one of attrEscaper's six references *)
Fixpoint attr_inert (e : string) : bool :=
  match e with
  | EmptyString => true
  | String c r =>
      negb (mem_char c """'<>")
      && (if Ascii.eqb c "&" then
            prefix_of "amp;" r || prefix_of "lt;" r || prefix_of "gt;" r
            || prefix_of "#34;" r || prefix_of "#39;" r || prefix_of "#43;" r
          else true)
      && attr_inert r
  end.

(* every byte is a URL code point html/template leaves alone, '%' only as a
   valid escape: then the normaliser is the identity *)
Fixpoint url_clean (s : string) : bool :=
  match s with
  | EmptyString => true
  | String c r => (url_keep c || (Ascii.eqb c "%" && two_hex r)) && url_clean r
  end.

(* percent-decoding that leaves malformed escapes alone *)
Fixpoint lenient_unescape (s : string) : string :=
  match s with
  | EmptyString => EmptyString
  | String c r =>
      if Ascii.eqb c "%" then
        match r with
        | String h1 (String h2 r') =>
            if is_hex h1 && is_hex h2
            then String (ascii_of_N (unhex h1 * 16 + unhex h2)) (lenient_unescape r')
            else String c (lenient_unescape r)
        | _ => String c (lenient_unescape r)
        end
      else String c (lenient_unescape r)
  end.
