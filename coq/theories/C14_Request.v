(* C14: signed request objects.

   Go correspondence:
     oidc.AuthRequest (the fields CopyRequestObjectToAuthRequest touches + client_id,
                       response_type)                  -> [authreq]
     oidc.RequestObject                                -> [reqobj]
     op.ParseRequestObject                             -> [parse_request_object]
     op.CopyRequestObjectToAuthRequest                 -> [copy_request_object]
     op.Authorize up to the ValidateAuthRequest call   -> [authorize_until_validation]
   A request is the pair (authreq, RequestParam still set?). *)
From OIDC Require Import Lib C14_Sig.

Record authreq := mkAR {
  ar_scopes : list string;
  ar_response_type : string;
  ar_client_id : string;
  ar_redirect_uri : string;
  ar_state : string;
  ar_nonce : string;
  ar_response_mode : string;
  ar_display : string;
  ar_prompt : list string;
  ar_max_age : option N;
  ar_ui_locales : list string;
  ar_id_token_hint : string;
  ar_login_hint : string;
  ar_acr_values : list string;
  ar_code_challenge : string;
  ar_code_challenge_method : string
}.

Record reqobj := mkRO { ro_iss : string; ro_aud : list string; ro_req : authreq }.

Definition nonempty (s : string) : bool := negb (String.eqb s "").
Definition pick (inner outer : string) : string := if nonempty inner then inner else outer.
Definition pickl (inner outer : list string) : list string :=
  match inner with [] => outer | _ => inner end.
Definition picko (inner outer : option N) : option N :=
  match inner with Some _ => inner | None => outer end.

Definition copy_request_object (outer inner : authreq) : authreq :=
  {| ar_scopes := if string_in "openid" (ar_scopes outer) then pickl (ar_scopes inner) (ar_scopes outer)
                  else ar_scopes outer;
     ar_response_type := ar_response_type outer;
     ar_client_id := ar_client_id outer;
     ar_redirect_uri := pick (ar_redirect_uri inner) (ar_redirect_uri outer);
     ar_state := pick (ar_state inner) (ar_state outer);
     ar_nonce := pick (ar_nonce inner) (ar_nonce outer);
     ar_response_mode := pick (ar_response_mode inner) (ar_response_mode outer);
     ar_display := pick (ar_display inner) (ar_display outer);
     ar_prompt := pickl (ar_prompt inner) (ar_prompt outer);
     ar_max_age := picko (ar_max_age inner) (ar_max_age outer);
     ar_ui_locales := pickl (ar_ui_locales inner) (ar_ui_locales outer);
     ar_id_token_hint := pick (ar_id_token_hint inner) (ar_id_token_hint outer);
     ar_login_hint := pick (ar_login_hint inner) (ar_login_hint outer);
     ar_acr_values := pickl (ar_acr_values inner) (ar_acr_values outer);
     ar_code_challenge := pick (ar_code_challenge inner) (ar_code_challenge outer);
     ar_code_challenge_method := pick (ar_code_challenge_method inner) (ar_code_challenge_method outer) |}.

Section Request.
  Variable verify : keyid -> sigdesc -> bool.

  (* Ok a = parameters overridden (a = the auth request afterwards, RequestParam cleared);
     Err _ = rejected, the auth request is untouched *)
  Definition parse_request_object (t : keytable) (issuer : string) (outer : authreq)
      (tok : token reqobj) : res authreq :=
    match tok with
    | TEmpty => Err EParse
    | TBadShape => Err EParse
    | TBadJson => Err EOther
    | TJws d ro =>
        let inner := ro_req ro in
        if nonempty (ar_client_id inner) && negb (String.eqb (ar_client_id inner) (ar_client_id outer))
        then Err EInvalidRequest
        else if nonempty (ar_response_type inner)
                && negb (String.eqb (ar_response_type inner) (ar_response_type outer))
        then Err EInvalidRequest
        else if negb (String.eqb (ro_iss ro) (ar_client_id inner)) then Err EInvalidRequest
        else if negb (string_in issuer (ro_aud ro)) then Err EInvalidRequest
        else match check_signature verify t (ro_iss ro) d with
             | Some e => Err e
             | None => Ok (copy_request_object outer inner)
             end
    end.

  (* (error, auth request afterwards, RequestParam cleared) *)
  Definition run_request_object (t : keytable) (issuer : string) (outer : authreq)
      (tok : token reqobj) : option err * authreq * bool :=
    match parse_request_object t issuer outer tok with
    | Ok a => (None, a, true)
    | Err e => (Some e, outer, false)
    end.

  (* op.Authorize with a non-empty `request` parameter, up to the validation step:
     what the validator gets to see (None = answered with an error before) *)
  Definition authorize_until_validation (supported : bool) (t : keytable) (issuer : string)
      (outer : authreq) (tok : token reqobj) : option (authreq * bool) :=
    let '(e, a, cleared) :=
      if supported then run_request_object t issuer outer tok else (None, outer, false) in
    match e with
    | Some _ => None
    | None =>
        if String.eqb (ar_client_id a) "" then None
        else if String.eqb (ar_redirect_uri a) "" then None
        else Some (a, cleared)
    end.
End Request.
