(* Shared vocabulary for every model / case file.  Stdlib only. *)
From Coq Require Export List String Ascii Bool Arith ZArith NArith Lia.
Export ListNotations.
Open Scope string_scope.
Open Scope nat_scope.
Open Scope list_scope.

(* byte strings written by the harness as numeric lists when not plain ASCII *)
(* The harness writes bytes as binary N numerals (a unary nat literal costs
   its value in constructors to type-check); nb/bs convert inside vm_compute. *)
Definition nb (l : list N) : list nat := map N.to_nat l.
Arguments nb l%N_scope.

Fixpoint bs_nat (l : list nat) : string :=
  match l with
  | [] => EmptyString
  | n :: r => String (ascii_of_nat n) (bs_nat r)
  end.
Definition bs (l : list N) : string := bs_nat (nb l).
Arguments bs l%N_scope.

Fixpoint bytes_of (s : string) : list nat :=
  match s with
  | EmptyString => []
  | String a r => nat_of_ascii a :: bytes_of r
  end.

Definition string_in (x : string) (l : list string) : bool :=
  existsb (String.eqb x) l.

Fixpoint list_eqb {A} (e : A -> A -> bool) (a b : list A) : bool :=
  match a, b with
  | [], [] => true
  | x :: a', y :: b' => e x y && list_eqb e a' b'
  | _, _ => false
  end.

Definition option_eqb {A} (e : A -> A -> bool) (a b : option A) : bool :=
  match a, b with
  | None, None => true
  | Some x, Some y => e x y
  | _, _ => false
  end.

Lemma list_eqb_spec {A} (e : A -> A -> bool) :
  (forall x y, e x y = true <-> x = y) ->
  forall a b, list_eqb e a b = true <-> a = b.
Proof.
  intros He a; induction a as [|x a IH]; intros [|y b]; cbn; split; intro H;
    try reflexivity; try discriminate.
  - apply andb_true_iff in H as [H1 H2]. apply He in H1. apply IH in H2. now subst.
  - inversion H; subst. apply andb_true_iff; split; [now apply He | now apply IH].
Qed.

(* ---- generic evaluation of a case list: (id, input, observed); ids are binary N
   (a unary nat id above ~30000 overflows coqc's stack when printed) ---- *)
Section Run.
  Context {I O : Type}.
  Variable model : I -> O.
  Variable spec  : I -> O -> bool.
  Variable oeqb  : O -> O -> bool.
  Variable path  : I -> O -> nat.   (* decision-path class of the model run; 0 = trivial *)

  Definition run_mismatches (cs : list (N * I * O)) : list N :=
    map (fun c => fst (fst c))
        (filter (fun c => negb (oeqb (model (snd (fst c))) (snd c))) cs).
  Definition run_violations (cs : list (N * I * O)) : list N :=
    map (fun c => fst (fst c))
        (filter (fun c => negb (spec (snd (fst c)) (snd c))) cs).
  Definition run_paths (cs : list (N * I * O)) : list nat :=
    map (fun c => path (snd (fst c)) (model (snd (fst c)))) cs.
End Run.
