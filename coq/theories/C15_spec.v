(* C15: token exchange needs live subject / actor tokens and returns what it declares.
   Same case vocabulary and model as C08 (histories over C08_OP); the ground-truth monitor
   (which tokens are live) is C08_spec.gstep; the judgement of each token-exchange answer is
   written here from the C15 text. *)
From OIDC Require Import Lib.
From OIDC Require Export C08_OP.
From OIDC Require C08_spec.

Definition input := hist_input.
Definition observed := list out.
Definition model : input -> observed := run_hist.

Import C08_spec.

(* the client is authenticated: the storage accepted the secret presented for it, or a
   private_key_jwt client presented a verified assertion *)
Definition client_ok (cl : list client) (c : cred) : bool :=
  match c with
  | NoCred | Assertion None _ => false
  | Assertion (Some x) _ =>
      match find_client cl x with Some k => match c_auth k with AMPkjwt => true | _ => false end | None => false end
  | Basic i s | Post i s | Both i s _ =>
      match find_client cl i with
      | None => false
      | Some k => nonempty s && String.eqb (c_secret k) s      (* a non-empty secret the storage accepted *)
      end
  end.

(* the subject a presented token speaks for *)
Definition subject_of (g : store) (typ : ttype) (t : tokstr) : string :=
  match typ, t with
  | TRefresh, Raw (RT m) => match find_rt m (rtoks g) with Some r => r_sub r | None => "" end
  | _, Opq _ sub => sub
  | _, Jwt _ _ _ _ sub _ => sub
  | _, Ext _ sub => sub
  | _, _ => ""
  end.

(* can the provider issue a token of the type the request ends up asking for (after the storage
   policy had its say)?  An absent type that nobody fills in is not issuable. *)
Definition issuable (pol : tepolicy) (req : ttype) : bool :=
  match req with
  | TUnknown => false       (* a type the library does not know is refused before the storage is asked *)
  | _ => match effective_type pol req with TAccess | TRefresh | TId => true | _ => false end
  end.

(* the record the storage policy (refstore) decides for the new token *)
Definition decided (cl : list client) (g : store) (c : cred) (subj : tokstr) (styp : ttype)
    (actor : option (tokstr * ttype)) (scopes aud : list string) : trec :=
  TRec (cred_id c) (decided_subject (policy g) (subject_of g styp subj))
       (match actor with Some (ta, atyp) => subject_of g atyp ta | None => "" end)
       (decided_scopes (policy g) scopes) aud (expired_of cl (cred_id c)).

(* "that token is live at the provider": a JWT the response contains (access token or ID token)
   is not born expired - unless its client is registered with a negative lifetime, the fixture's
   way of making expired tokens - and its exp - iat is the lifetime the client is registered with *)
Definition life_ok (want : trec) (l : tlife) : bool :=
  match l with TLife expired aslife => Bool.eqb expired (tr_expired want) && aslife end.

(* issued_token_type names what the response holds, and that token is stored as decided *)
Definition contained (pol : tepolicy) (want : trec) (issued : ttype) (access : xtok) (rt : sid) (rt_live : bool)
    (stored : option trec) : bool :=
  let at_ok := match access, stored with
               | XOpaque (AT _) sub, Some t => String.eqb sub (tr_sub want) && trec_eqb t want
               (* a JWT access token also carries the act claim the storage policy decided for the
                  request's actor - the actor's subject, a mapped id, a chain, or none *)
               | XJwt (AT _) sub actor l, Some t =>
                   String.eqb sub (tr_sub want) && String.eqb actor (decided_act pol true (tr_actor want)) && trec_eqb t want
                   && life_ok want l
               | _, _ => false
               end in
  match issued with
  | TAccess => at_ok
  | TRefresh => at_ok && match rt with RT _ => rt_live | _ => false end
  | TId => match access with
           | XIdTok sub azp actor l => String.eqb azp (tr_client want) && String.eqb sub (tr_sub want)
                                       && String.eqb actor (decided_act pol false (tr_actor want)) && life_ok want l
           | _ => false
           end
  | _ => false
  end.

(* a request the provider has to serve: Basic credentials the storage accepts, of a client
   registered for basic / post and for the token-exchange grant, live tokens of
   the declared types, an issuable (or absent) requested type, no veto *)
Definition promised (cl : list client) (g : store) (c : cred) (subj : tokstr) (styp : ttype)
    (actor : option (tokstr * ttype)) (req : ttype) (scopes : list string) : bool :=
  match c with
  | Basic i s | Both i s _ =>
      nonempty i && sec_ok cl i s
      && match find_client cl i with
         | Some k => c_exchange k && match c_auth k with AMBasic | AMPost => true | _ => false end
         | None => false
         end
  | _ => false
  end
  && subj_live false g styp subj && actor_live g actor && issuable (policy g) req && negb (vetoed (policy g) scopes).

Definition is_error (st : status) : bool :=
  match st with S400 | S401 | S403 | S500 => true | _ => false end.

Definition check (cl : list client) (g : store) (o : op) (x : out) : bool :=
  match o, x with
  | _, OPanic => false
  | Exchange _ c subj styp actor req scopes aud, OExch issued access rt rt_live sc stored =>
      client_ok cl c && subj_live false g styp subj && actor_live g actor
      && issuable (policy g) req && negb (vetoed (policy g) scopes)
      && strs_eqb sc (decided_scopes (policy g) scopes)
      && contained (policy g) (decided cl g c subj styp actor scopes aud) issued access rt rt_live stored
  | Exchange _ c subj styp actor req scopes _, OErr st oauth =>
      is_error st && oauth && negb (promised cl g c subj styp actor req scopes)
  | Exchange _ _ _ _ _ _ _ _, _ => false
  | _, _ => true            (* the other endpoints are C08's business; here they only move the ground truth *)
  end.

Fixpoint spec_run (cl : list client) (g : store) (ops : list op) (xs : list out) : bool :=
  match ops, xs with
  | [], [] => true
  | o :: ops', x :: xs' => check cl g o x && spec_run cl (gstep cl g o x) ops' xs'
  | _, _ => false
  end.

Definition spec (i : input) (o : observed) : bool :=
  match i with Hist cl pol ops => spec_run cl (Store [] [] pol) (located (designated (p_kopts pol)) ops) o end.

Definition obs_eqb (a b : observed) : bool := list_eqb out_eqb a b.

(* decision-path class: 0 = no exchange of the history succeeded *)
Definition exch_ok (x : out) : bool := match x with OExch _ _ _ _ _ _ => true | _ => false end.
Definition path (i : input) (o : observed) : nat :=
  if existsb exch_ok o then path_of o else 0.

Definition case_mismatches := run_mismatches model obs_eqb.
Definition case_violations := run_violations spec.
Definition case_paths := run_paths model path.
