(* C15: token exchange needs live subject / actor tokens and returns what it declares.
   Case vocabulary and model of the histories are C08's (histories over C08_OP); the ground-truth
   monitor (which tokens are live) is C08_spec.gstep; the judgement of each token-exchange answer
   is written here from the C15 text.
   Round 11: a second kind of case (IHelp) - after a history, ONE token-exchange request is BUILT
   AND SENT BY THE LIBRARY'S CLIENT HELPERS (C15_Helper.v); observed are the form at the HTTP
   transport, the provider's answer and the views of the request the provider hands to its
   storage through the getters of op.TokenExchangeRequest. *)
From OIDC Require Import Lib.
From OIDC Require Export C08_OP C15_Helper.
From OIDC Require C08_spec.
Import C08_spec.    (* the names input / observed / model / spec / ... defined below are C15's own *)

Inductive input :=
| IHist (h : hist_input)
(* clients, storage policy and history as in Hist; then, sent to host [host] while the key storage
   is up or not, through router r with the credential c the helper was given
   (NewTokenExchangerClientCredentials / httphelper.AuthorizeBasic: Basic; NewTokenExchanger: NoCred),
   the helper call *)
| IHelp (cl : list client) (pol : tepolicy) (ops : list (nat * bool * gop ptok))
        (host : nat) (keys_up : bool) (r : router) (c : cred) (call : hcall).
Inductive observed :=
| OHist (xs : list out)
(* the answers of the history followed by the answer to the helper's request (if one was sent);
   the form read at the transport (None: nothing was sent); the view at the entry of
   ValidateTokenExchangeRequest and the last view a later storage hook got (None: not reached) *)
| OHelp (xs : list out) (w : option wire) (v1 v2 : option view).

Definition model (i : input) : observed :=
  match i with
  | IHist h => OHist (run_hist h)
  | IHelp cl pol ops host ku r c call =>
      match dispatch call with
      | None => OHelp (run_hist (Hist cl pol ops)) None None None
      | Some w =>
          let q := parse w in
          match q_grant q with
          | GOther =>      (* unsupported_grant_type / grant_type missing: 400 on both routers *)
              OHelp (run_hist (Hist cl pol ops) ++ [OErr S400 true]) (Some w) None None
          | GExchange =>
              let kc := configure (p_kopts pol) in
              let g := fst (state_after cl (init pol) (located kc ops)) in
              let vs := match locate_op kc host ku (op_of r c q) with
                        | Exchange r' c' subj styp actor req scopes aud =>
                            exch_views cl r' g c' subj styp actor req scopes aud (q_resource q)
                        | _ => (None, None)
                        end in
              OHelp (run_hist (Hist cl pol (ops ++ [(host, ku, op_of r c q)]))) (Some w) (fst vs) (snd vs)
          end
      end
  end.

(* the client is authenticated: the storage accepted the secret presented for it, or a
   private_key_jwt client presented a verified assertion *)
Definition client_ok (cl : list client) (c : cred) : bool :=
  match c with
  | NoCred | Assertion None _ => false
  | Assertion (Some x) _ =>
      match find_client cl x with Some k => match c_auth k with AMPkjwt => true | _ => false end | None => false end
  | Basic i s | Post i s | Both i s _ =>
      match find_client cl i with
      | None => false
      | Some k => nonempty s && String.eqb (c_secret k) s      (* a non-empty secret the storage accepted *)
      end
  end.

(* the subject a presented token speaks for *)
Definition subject_of (g : store) (typ : ttype) (t : tokstr) : string :=
  match typ, t with
  | TRefresh, Raw (RT m) => match find_rt m (rtoks g) with Some r => r_sub r | None => "" end
  | _, Opq _ sub => sub
  | _, Jwt _ _ _ _ sub _ => sub
  | _, Ext _ sub => sub
  | _, _ => ""
  end.

(* can the provider issue a token of the type the request ends up asking for (after the storage
   policy had its say)?  An absent type that nobody fills in is not issuable. *)
Definition issuable (pol : tepolicy) (req : ttype) : bool :=
  match req with
  | TUnknown => false       (* a type the library does not know is refused before the storage is asked *)
  | _ => match effective_type pol req with TAccess | TRefresh | TId => true | _ => false end
  end.

(* the record the storage policy (refstore) decides for the new token *)
Definition decided (cl : list client) (g : store) (c : cred) (subj : tokstr) (styp : ttype)
    (actor : option (tokstr * ttype)) (scopes aud : list string) : trec :=
  TRec (cred_id c) (decided_subject (policy g) (subject_of g styp subj))
       (match actor with Some (ta, atyp) => subject_of g atyp ta | None => "" end)
       (decided_scopes (policy g) scopes) aud (expired_of cl (cred_id c)).

(* "that token is live at the provider": a JWT the response contains (access token or ID token)
   is not born expired - unless its client is registered with a negative lifetime, the fixture's
   way of making expired tokens - and its exp - iat is the lifetime the client is registered with *)
Definition life_ok (want : trec) (l : tlife) : bool :=
  match l with TLife expired aslife => Bool.eqb expired (tr_expired want) && aslife end.

(* issued_token_type names what the response holds, and that token is stored as decided *)
Definition contained (pol : tepolicy) (want : trec) (issued : ttype) (access : xtok) (rt : sid) (rt_live : bool)
    (stored : option trec) : bool :=
  let at_ok := match access, stored with
               | XOpaque (AT _) sub, Some t => String.eqb sub (tr_sub want) && trec_eqb t want
               (* a JWT access token also carries the act claim the storage policy decided for the
                  request's actor - the actor's subject, a mapped id, a chain, or none *)
               | XJwt (AT _) sub actor l, Some t =>
                   String.eqb sub (tr_sub want) && String.eqb actor (decided_act pol true (tr_actor want)) && trec_eqb t want
                   && life_ok want l
               | _, _ => false
               end in
  match issued with
  | TAccess => at_ok
  | TRefresh => at_ok && match rt with RT _ => rt_live | _ => false end
  | TId => match access with
           | XIdTok sub azp actor l => String.eqb azp (tr_client want) && String.eqb sub (tr_sub want)
                                       && String.eqb actor (decided_act pol false (tr_actor want)) && life_ok want l
           | _ => false
           end
  | _ => false
  end.

(* a request the provider has to serve: Basic credentials the storage accepts, of a client
   registered for basic / post and for the token-exchange grant, live tokens of
   the declared types, an issuable (or absent) requested type, no veto *)
Definition promised (cl : list client) (g : store) (c : cred) (subj : tokstr) (styp : ttype)
    (actor : option (tokstr * ttype)) (req : ttype) (scopes : list string) : bool :=
  match c with
  | Basic i s | Both i s _ =>
      nonempty i && sec_ok cl i s
      && match find_client cl i with
         | Some k => c_exchange k && match c_auth k with AMBasic | AMPost => true | _ => false end
         | None => false
         end
  | _ => false
  end
  && subj_live false g styp subj && actor_live g actor && issuable (policy g) req && negb (vetoed (policy g) scopes).

Definition is_error (st : status) : bool :=
  match st with S400 | S401 | S403 | S500 => true | _ => false end.

Definition check (cl : list client) (g : store) (o : op) (x : out) : bool :=
  match o, x with
  | _, OPanic => false
  | Exchange _ c subj styp actor req scopes aud, OExch issued access rt rt_live sc stored =>
      client_ok cl c && subj_live false g styp subj && actor_live g actor
      && issuable (policy g) req && negb (vetoed (policy g) scopes)
      && strs_eqb sc (decided_scopes (policy g) scopes)
      && contained (policy g) (decided cl g c subj styp actor scopes aud) issued access rt rt_live stored
  | Exchange _ c subj styp actor req scopes _, OErr st oauth =>
      is_error st && oauth && negb (promised cl g c subj styp actor req scopes)
  | Exchange _ _ _ _ _ _ _ _, _ => false
  | _, _ => true            (* the other endpoints are C08's business; here they only move the ground truth *)
  end.

Fixpoint spec_run (cl : list client) (g : store) (ops : list op) (xs : list out) : bool :=
  match ops, xs with
  | [], [] => true
  | o :: ops', x :: xs' => check cl g o x && spec_run cl (gstep cl g o x) ops' xs'
  | _, _ => false
  end.

Definition exch_ok (x : out) : bool := match x with OExch _ _ _ _ _ _ => true | _ => false end.

Definition spec_hist (h : hist_input) (o : list out) : bool :=
  match h with Hist cl pol ops => spec_run cl (Store [] [] pol) (located (designated (p_kopts pol)) ops) o end.

(* ---------------------------------------------------------------- helper-built requests *)

(* What the caller asked for, from the helper call as written: of the options of one kind the
   LAST one counts, an option changes nothing but its own parameter(s); without an option the
   documented default - grant type token-exchange, requested type access_token
   (NewTokenExchangeRequest; DelegationTokenRequest: an access token is exchanged for an access
   token), nothing else.  ExchangeToken: "SubjectToken and SubjectTokenType are required
   parameters" - without a type nothing may be sent (None). *)
Fixpoint last_of {A} (f : hopt -> option A) (opts : list hopt) : option A :=
  match opts with
  | [] => None
  | o :: r => match last_of f r with Some x => Some x | None => f o end
  end.
Definition or_default {A} (o : option A) (d : A) : A := match o with Some x => x | None => d end.
Definition intent_opts (subj : ptok) (styp : ttype) (opts : list hopt) : treq :=
  TReq (or_default (last_of (fun o => match o with WGrant g => Some g | _ => None end) opts) GExchange)
       subj styp
       (last_of (fun o => match o with WActor t typ => Some (t, typ) | _ => None end) opts)
       (or_default (last_of (fun o => match o with WResource l => Some l | _ => None end) opts) [])
       (or_default (last_of (fun o => match o with WAudience l => Some l | _ => None end) opts) [])
       (or_default (last_of (fun o => match o with WScope l => Some l | _ => None end) opts) [])
       (or_default (last_of (fun o => match o with WRequested t => Some t | _ => None end) opts) TAccess).
Definition intent (call : hcall) : option treq :=
  match call with
  | CallGrants subj styp opts => Some (intent_opts subj styp opts)
  | CallDelegation subj opts => Some (intent_opts subj TAccess opts)
  | CallClient subj styp actor res aud sc req =>
      match styp with TAbsent => None | _ => Some (TReq GExchange subj styp actor res aud sc req) end
  end.

(* the form goes to the token endpoint and carries exactly that: every parameter its value, subject token in the
   subject parameter and actor token in the actor parameter, every list complete and in order
   (scope: the words of all values of the parameter) *)
Definition wire_faithful (q : treq) (w : wire) : bool :=
  w_ep w && gtype_eqb (w_grant w) (q_grant q) && ptok_eqb (w_subj w) (q_subj q) && ttype_eqb (w_styp w) (q_styp q)
  && option_eqb ptyp_eqb (w_actor w) (q_actor q) && strs_eqb (w_resource w) (q_resource q)
  && strs_eqb (w_audience w) (q_audience q) && strs_eqb (flat_map words (w_scope w)) (q_scope q)
  && ttype_eqb (w_requested w) (q_requested q).

(* what the getters must show of a token presented as [typ]: the subject it speaks for, the
   declared type, its storage id (access tokens of the provider) or the token itself, and the
   claims of a JWT (none for opaque, refresh and third-party tokens) *)
Definition expect_tview (g : store) (typ : ttype) (t : tokstr) : tview :=
  TView (subject_of g typ t) typ
        (match t, typ with
         | Ext _ _, _ => VSelf
         | _, TAccess => VSid (as_access t)
         | _, _ => VSelf
         end)
        (match typ, t with (TAccess | TId), Jwt _ _ _ _ sub _ => Some sub | _, _ => None end).
(* the view at the entry of ValidateTokenExchangeRequest: the verified subject / actor data of
   THIS request (no actor data without an actor token), the lists and the requested type as the
   caller passed them, the authenticated client *)
Definition expect_view1 (g : store) (c : cred) (subj : tokstr) (styp : ttype) (actor : option (tokstr * ttype))
    (q : treq) : view :=
  View (subject_of g styp subj) (cred_id c) (expect_tview g styp subj)
       (match actor with Some (ta, atyp) => Some (expect_tview g atyp ta) | None => None end)
       (q_resource q) (q_audience q) (q_scope q) (q_requested q).
(* the view of the later hooks: the same token data; subject, scopes and requested type are the
   storage policy's decision *)
Definition expect_view2 (g : store) (c : cred) (subj : tokstr) (styp : ttype) (actor : option (tokstr * ttype))
    (q : treq) : view :=
  View (decided_subject (policy g) (subject_of g styp subj)) (cred_id c) (expect_tview g styp subj)
       (match actor with Some (ta, atyp) => Some (expect_tview g atyp ta) | None => None end)
       (q_resource q) (q_audience q) (decided_scopes (policy g) (q_scope q)) (effective_type (policy g) (q_requested q)).

Fixpoint split_last {A} (l : list A) : option (list A * A) :=
  match l with
  | [] => None
  | x :: r => match split_last r with Some (i, z) => Some (x :: i, z) | None => Some ([], x) end
  end.
(* the ground truth after a history *)
Fixpoint gafter (cl : list client) (g : store) (ops : list op) (xs : list out) : store :=
  match ops, xs with
  | o :: ops', x :: xs' => gafter cl (gstep cl g o x) ops' xs'
  | _, _ => g
  end.
Definition is_none {A} (o : option A) : bool := match o with None => true | Some _ => false end.

(* A helper-built request is answered exactly as the C15 text wants the request THE CALLER ASKED
   FOR to be answered (check on the intent: subject, actor, requested type, scopes, audience -
   nothing dropped, nothing swapped), the wire form is faithful, and whatever the storage was
   shown is the data of this request; a success consulted the storage at both hooks. *)
Definition spec_help (cl : list client) (pol : tepolicy) (ops : list (nat * bool * gop ptok))
    (host : nat) (ku : bool) (r : router) (c : cred) (call : hcall)
    (xs : list out) (w : option wire) (v1 v2 : option view) : bool :=
  let kc := designated (p_kopts pol) in
  let pre := located kc ops in
  let g0 := Store [] [] pol in
  match intent call with
  | None => is_none w && is_none v1 && is_none v2 && spec_run cl g0 pre xs
  | Some q =>
      match w with Some w' => wire_faithful q w' | None => false end &&
      match q_grant q with
      | GOther =>      (* no token exchange was asked for: an OAuth error, the storage is not consulted *)
          is_none v1 && is_none v2 &&
          match split_last xs with
          | Some (xs', OErr st oauth) => is_error st && oauth && spec_run cl g0 pre xs'
          | _ => false
          end
      | GExchange =>
          match locate_op kc host ku (op_of r c q) with
          | Exchange r' c' subj styp actor req scopes aud as fin =>
              spec_run cl g0 (pre ++ [fin]) xs &&
              let g := gafter cl g0 pre xs in
              let success := match split_last xs with Some (_, x) => exch_ok x | None => false end in
              match v1 with
              | Some v => view_eqb v (expect_view1 g c' subj styp actor q)
              | None => negb success && is_none v2
              end &&
              match v2 with
              | Some v => view_eqb v (expect_view2 g c' subj styp actor q)
              | None => negb success
              end
          | _ => false
          end
      end
  end.

Definition spec (i : input) (o : observed) : bool :=
  match i, o with
  | IHist h, OHist xs => spec_hist h xs
  | IHelp cl pol ops host ku r c call, OHelp xs w v1 v2 => spec_help cl pol ops host ku r c call xs w v1 v2
  | _, _ => false
  end.

Definition obs_eqb (a b : observed) : bool :=
  match a, b with
  | OHist x, OHist y => list_eqb out_eqb x y
  | OHelp x w v1 v2, OHelp y w' v1' v2' =>
      list_eqb out_eqb x y && option_eqb wire_eqb w w' && option_eqb view_eqb v1 v1' && option_eqb view_eqb v2 v2'
  | _, _ => false
  end.

(* decision-path class.  Histories: 0 = no exchange of the history succeeded.  Helper cases:
   0 = the request did not reach the storage, 1 = it reached the first hook only, else by answers *)
Definition path (i : input) (o : observed) : nat :=
  match o with
  | OHist xs => if existsb exch_ok xs then path_of xs else 0
  | OHelp xs _ None _ => 0
  | OHelp xs _ (Some _) None => 1
  | OHelp xs _ (Some _) (Some _) => 2 + path_of xs
  end.

Definition case_mismatches := run_mismatches model obs_eqb.
Definition case_violations := run_violations spec.
Definition case_paths := run_paths model path.
