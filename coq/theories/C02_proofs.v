(* C02: proofs about key selection, the signature check, the key sets and the
   five verifiers.  Statements are re-exported by coq/props/C02.v. *)
From OIDC Require Import Lib C02_Jws C01_Verifier C02_Verifiers C02_Ground C02_spec.

(* ---------- small facts ---------- *)
Lemma seqb_eq : forall a b, (a =s b) = true <-> a = b.
Proof. intros a b. apply String.eqb_eq. Qed.

Lemma seqb_refl : forall a, (a =s a) = true.
Proof. intro a. apply String.eqb_refl. Qed.

Lemma kty_eqb_eq : forall a b, kty_eqb a b = true <-> a = b.
Proof. intros a b; destruct a, b; cbn; split; intro H; try reflexivity; discriminate. Qed.

Lemma jwk_eqb_eq : forall a b, jwk_eqb a b = true <-> a = b.
Proof.
  intros [i1 u1 t1 m1] [i2 u2 t2 m2]; unfold jwk_eqb; cbn [k_id k_use k_ty k_mat]; split; intro H.
  - apply andb_true_iff in H as [H Hm]. apply andb_true_iff in H as [H Ht].
    apply andb_true_iff in H as [Hi Hu].
    apply seqb_eq in Hi. apply seqb_eq in Hu. apply kty_eqb_eq in Ht. apply N.eqb_eq in Hm.
    now subst.
  - inversion H; subst. rewrite !seqb_refl, N.eqb_refl.
    assert (Hk : kty_eqb t2 t2 = true) by now apply kty_eqb_eq. now rewrite Hk.
Qed.

Lemma jwk_eqb_refl : forall a, jwk_eqb a a = true.
Proof. intro a. now apply jwk_eqb_eq. Qed.

Lemma string_in_In : forall x l, string_in x l = true <-> In x l.
Proof.
  intros x l; unfold string_in; rewrite existsb_exists; split.
  - intros [y [Hy He]]. apply seqb_eq in He. now subst.
  - intro H. exists x. split; [assumption | apply seqb_refl].
Qed.

(* ---------- FindMatchingKey ---------- *)
Lemma find_scan_filters : forall kid use alg keys valid,
  find_scan kid use alg keys valid =
  match exact_keys kid use alg keys with
  | k :: _ => FOk k
  | [] => find_finish (valid ++ loose_keys kid use alg keys)
  end.
Proof.
  intros kid use alg keys; induction keys as [|k r IH]; intro valid.
  - cbn. now rewrite app_nil_r.
  - cbn [find_scan exact_keys loose_keys filter].
    destruct (candidate use alg k) eqn:Hc; cbn [andb].
    + destruct (exact_kid kid k) eqn:He.
      * reflexivity.
      * destruct (loose_kid kid k) eqn:Hl.
        -- rewrite IH. fold (exact_keys kid use alg r). fold (loose_keys kid use alg r).
           destruct (exact_keys kid use alg r); [|reflexivity].
           now rewrite <- app_assoc.
        -- rewrite IH. reflexivity.
    + rewrite IH. reflexivity.
Qed.

Lemma find_matching_key_filters : forall kid use alg keys,
  find_matching_key kid use alg keys =
  match exact_keys kid use alg keys with
  | k :: _ => FOk k
  | [] => find_finish (loose_keys kid use alg keys)
  end.
Proof. intros. unfold find_matching_key. now rewrite find_scan_filters. Qed.

Lemma find_finish_ok : forall l k, find_finish l = FOk k -> l = [k].
Proof. intros [|a [|b l]] k H; cbn in H; try discriminate. now inversion H. Qed.

Lemma exact_consistent : forall kid k, exact_kid kid k = true -> kid_consistent kid k = true.
Proof.
  intros kid k H. unfold exact_kid in H. apply andb_true_iff in H as [H _].
  unfold kid_consistent. now rewrite H.
Qed.

Lemma loose_consistent : forall kid k, loose_kid kid k = true -> kid_consistent kid k = true.
Proof.
  intros kid k H. unfold loose_kid in H. unfold kid_consistent.
  apply orb_true_iff in H as [H|H]; rewrite H; [now rewrite orb_true_r | now rewrite !orb_true_r].
Qed.

(* the selected key is in the list, may be used for signatures, has the type the
   algorithm needs, does not contradict the header's kid, and - unless its
   non-empty kid equals the header's - is the only key that could match *)
Theorem find_key_sound : forall kid use alg keys k,
  find_matching_key kid use alg keys = FOk k ->
  In k keys /\ use_ok use k = true /\ alg_fits (k_ty k) alg = true
  /\ kid_consistent kid k = true
  /\ (exact_kid kid k = false ->
      exact_keys kid use alg keys = [] /\ loose_keys kid use alg keys = [k]).
Proof.
  intros kid use alg keys k H. rewrite find_matching_key_filters in H.
  destruct (exact_keys kid use alg keys) as [|k' ex] eqn:Hex.
  - apply find_finish_ok in H.
    assert (Hin : In k (loose_keys kid use alg keys)) by (rewrite H; now left).
    unfold loose_keys in Hin. apply filter_In in Hin as [Hin Hp].
    apply andb_true_iff in Hp as [Hc Hl]. unfold candidate in Hc. apply andb_true_iff in Hc as [Hu Ha].
    split; [assumption|]. split; [assumption|]. split; [assumption|].
    split; [now apply loose_consistent|]. intros _. now split.
  - inversion H; subst k'.
    assert (Hin : In k (exact_keys kid use alg keys)) by (rewrite Hex; now left).
    unfold exact_keys in Hin. apply filter_In in Hin as [Hin Hp].
    apply andb_true_iff in Hp as [Hc He]. unfold candidate in Hc. apply andb_true_iff in Hc as [Hu Ha].
    split; [assumption|]. split; [assumption|]. split; [assumption|].
    split; [now apply exact_consistent|]. intro Hne. rewrite He in Hne. discriminate.
Qed.

(* no exact match and at least two keys that could match: ambiguity is reported *)
Theorem find_key_ambiguous : forall kid use alg keys,
  exact_keys kid use alg keys = [] ->
  2 <= List.length (loose_keys kid use alg keys) ->
  find_matching_key kid use alg keys = FMultiple.
Proof.
  intros kid use alg keys Hex Hl. rewrite find_matching_key_filters, Hex.
  destruct (loose_keys kid use alg keys) as [|a [|b l]]; cbn in Hl; try lia. reflexivity.
Qed.

Theorem find_key_none : forall kid use alg keys,
  exact_keys kid use alg keys = [] -> loose_keys kid use alg keys = [] ->
  find_matching_key kid use alg keys = FNone.
Proof. intros kid use alg keys Hex Hl. now rewrite find_matching_key_filters, Hex, Hl. Qed.

Theorem find_key_unique : forall kid use alg keys k,
  exact_keys kid use alg keys = [] -> loose_keys kid use alg keys = [k] ->
  find_matching_key kid use alg keys = FOk k.
Proof. intros kid use alg keys k Hex Hl. now rewrite find_matching_key_filters, Hex, Hl. Qed.

Lemma find_spec_model : forall kid use alg keys,
  find_spec kid use alg keys (find_matching_key kid use alg keys) = true.
Proof.
  intros. unfold find_spec. rewrite find_matching_key_filters.
  destruct (exact_keys kid use alg keys) as [|k ex].
  - destruct (loose_keys kid use alg keys) as [|a [|b l]]; cbn; try reflexivity. apply jwk_eqb_refl.
  - cbn. now rewrite jwk_eqb_refl.
Qed.

(* HS*, none and every other algorithm outside RS/PS/ES/EdDSA fit no key type *)
Definition asym_family (alg : string) : bool :=
  prefix "RS" alg || prefix "PS" alg || prefix "ES" alg || (alg =s "EdDSA").

Lemma alg_fits_family : forall t alg, alg_fits t alg = true -> asym_family alg = true.
Proof.
  intros t alg H. unfold alg_fits in H. unfold asym_family.
  destruct (prefix "RS" alg || prefix "PS" alg) eqn:H1; [reflexivity|].
  destruct (prefix "ES" alg) eqn:H2; [now rewrite orb_true_r|].
  destruct (alg =s "EdDSA") eqn:H3; [now rewrite orb_true_r | discriminate].
Qed.

Lemma hs_not_asym : forall alg, prefix "HS" alg = true -> asym_family alg = false.
Proof.
  intros alg H. destruct alg as [|a [|b r]]; cbn [prefix] in H; try discriminate.
  - destruct (ascii_dec "H" a); discriminate.
  - destruct (ascii_dec "H" a) as [Ha|Ha]; [|discriminate]. subst a.
    destruct (ascii_dec "S" b) as [Hb|Hb]; [|discriminate]. subst b.
    reflexivity.
Qed.

Lemma none_not_asym : asym_family "none" = false.
Proof. reflexivity. Qed.

(* ---------- key sets ---------- *)
Lemma profile_lookup_in : forall store client kid k,
  profile_lookup store client kid = Some k ->
  exists x, In x store /\ (fst (fst x) =s client) = true /\ (snd (fst x) =s kid) = true /\ snd x = k.
Proof.
  induction store as [|[[c i] k0] r IH]; intros client kid k H; cbn in H; [discriminate|].
  destruct ((c =s client) && (i =s kid)) eqn:Hm.
  - inversion H; subst. apply andb_true_iff in Hm as [Hc Hi].
    exists (c, i, k). cbn. repeat split; try assumption. now left.
  - destruct (IH _ _ _ H) as [x [Hin Hx]]. exists x. split; [now right | assumption].
Qed.

Lemma profile_lookup_filter : forall store client kid,
  profile_lookup store client kid =
  match filter (fun x => (fst (fst x) =s client) && (snd (fst x) =s kid)) store with
  | x :: _ => Some (snd x)
  | [] => None
  end.
Proof.
  induction store as [|[[c i] k0] r IH]; intros client kid; cbn; [reflexivity|].
  destruct ((c =s client) && (i =s kid)); cbn; [reflexivity | apply IH].
Qed.

Section Oracle.
  Variable verify : jwk -> sigentry -> string -> bool.

  Lemma verify_found_sound : forall r e p k,
    verify_found verify r e p = Some k -> r = FOk k /\ verify k e p = true.
  Proof.
    intros r e p k H. destruct r as [k'| |]; cbn in H; try discriminate.
    destruct (verify k' e p) eqn:Hv; [|discriminate]. inversion H; subst. now split.
  Qed.

  Lemma published_trusted : forall ks e keys k,
    published ks = true ->
    find_matching_key (se_kid e) "sig" (se_alg e) keys = FOk k ->
    In k keys /\ trusted_key ks e k = true.
  Proof.
    intros ks e keys k Hks H. apply find_key_sound in H as [Hin [Hu [Ha [Hk _]]]].
    split; [assumption|].
    destruct ks as [o|c s sk|c s|k0]; cbn in *; try discriminate; now rewrite Hu, Ha, Hk.
  Qed.

  (* whichever key set: the key that verified belongs to the set and may be
     used for this signature entry *)
  Lemma keyset_verify_sound : forall ks e p k,
    keyset_verify verify ks e p = Some k ->
    In k (ks_keys ks) /\ trusted_key ks e k = true /\ verify k e p = true.
  Proof.
    intros ks e p k H. destruct ks as [keys|cached served skip|client store|k0]; cbn [keyset_verify] in H.
    - destruct keys as [l|]; cbn in H; [|discriminate].
      apply verify_found_sound in H as [Hf Hv].
      apply (published_trusted (KSOpenID (Some l))) in Hf as [Hin Ht]; [|reflexivity].
      cbn [ks_keys]. repeat split; assumption.
    - assert (Hfetch : forall k0, remote_fetch_verify verify served e p = Some k0 ->
                In k0 (ks_keys (KSRemote cached served skip))
                /\ trusted_key (KSRemote cached served skip) e k0 = true /\ verify k0 e p = true).
      { intros k0 H0. destruct served as [l|]; cbn in H0; [|discriminate].
        apply verify_found_sound in H0 as [Hf Hv].
        apply (published_trusted (KSRemote cached (Some l) skip)) in Hf as [Hin Ht]; [|reflexivity].
        cbn [ks_keys]. repeat split; try assumption. apply in_or_app. now right. }
      unfold remote_verify in H. destruct cached as [|c0 cr] eqn:Hc; [now apply Hfetch|].
      rewrite <- Hc in *.
      destruct (find_matching_key (se_kid e) "sig" (se_alg e) cached) as [k'| |] eqn:Hf;
        try (now apply Hfetch).
      destruct (verify k' e p) eqn:Hv.
      + inversion H; subst k'.
        apply (published_trusted (KSRemote cached served skip)) in Hf as [Hin Ht]; [|reflexivity].
        repeat split; try assumption.
        destruct served; cbn [ks_keys]; [apply in_or_app; now left | assumption].
      + destruct (remote_exact skip (k_id k') (se_kid e)); [discriminate | now apply Hfetch].
    - unfold profile_verify in H.
      destruct (profile_lookup store client (se_kid e)) as [k'|] eqn:Hl; [|discriminate].
      destruct (verify k' e p) eqn:Hv; [|discriminate]. inversion H; subst k'.
      apply profile_lookup_in in Hl as [x [Hin [Hc [Hi Hx]]]].
      repeat split; try assumption.
      + cbn [ks_keys]. apply in_map_iff. exists x. now split.
      + cbn [trusted_key]. apply existsb_exists. exists x. split; [assumption|].
        rewrite Hc, Hi, Hx. apply jwk_eqb_refl.
    - destruct (verify k0 e p) eqn:Hv; [|discriminate]. inversion H; subst k0.
      cbn. repeat split; auto. apply jwk_eqb_refl.
  Qed.

  (* ---------- CheckSignature ---------- *)
  Theorem check_signature_sound : forall allowed ks t parsed alg,
    check_signature verify allowed ks t parsed = Ok alg ->
    exists e k,
      tok_sigs t = [e] /\ tok_payload t = Some parsed /\ alg = se_alg e
      /\ string_in alg (effective_algs allowed) = true
      /\ In k (ks_keys ks) /\ trusted_key ks e k = true
      /\ verify k e parsed = true.
  Proof.
    intros allowed ks t parsed alg H. unfold check_signature in H.
    destruct t as [e p|sigs p|]; cbn [jose_parse] in H.
    - destruct (string_in (se_alg e) (effective_algs allowed)) eqn:Ha; [|discriminate].
      destruct (keyset_verify verify ks e p) as [k|] eqn:Hk; [|discriminate].
      destruct (p =s parsed) eqn:Hp; [|discriminate]. apply seqb_eq in Hp. subst p.
      inversion H; subst alg. apply keyset_verify_sound in Hk as [Hin [Ht Hv]].
      exists e, k. cbn. repeat split; assumption.
    - destruct (all_algs_allowed (effective_algs allowed) sigs) eqn:Ha; [|discriminate].
      destruct sigs as [|e [|e2 r]]; try discriminate.
      destruct (keyset_verify verify ks e p) as [k|] eqn:Hk; [|discriminate].
      destruct (p =s parsed) eqn:Hp; [|discriminate]. apply seqb_eq in Hp. subst p.
      inversion H; subst alg. apply keyset_verify_sound in Hk as [Hin [Ht Hv]].
      cbn in Ha. rewrite andb_true_r in Ha.
      exists e, k. cbn. repeat split; assumption.
    - discriminate.
  Qed.

  Lemma check_signature_inv_gen : forall allowed ks t parsed alg,
    check_signature verify allowed ks t parsed = Ok alg ->
    exists e p k, tok_sigs t = [e] /\ tok_payload t = Some p /\ keyset_verify verify ks e p = Some k.
  Proof.
    intros allowed ks t parsed alg H. unfold check_signature in H.
    destruct t as [e p|sigs p|]; cbn [jose_parse] in H.
    - destruct (string_in (se_alg e) (effective_algs allowed)); [|discriminate].
      destruct (keyset_verify verify ks e p) as [k|] eqn:Hk; [|discriminate].
      exists e, p, k. now repeat split.
    - destruct (all_algs_allowed (effective_algs allowed) sigs); [|discriminate].
      destruct sigs as [|e [|e2 r]]; try discriminate.
      destruct (keyset_verify verify ks e p) as [k|] eqn:Hk; [|discriminate].
      exists e, p, k. now repeat split.
    - discriminate.
  Qed.

  (* a published key set (provider's own or remote JWKS) never accepts HS*, none
     or anything outside RS / PS / ES / EdDSA, whatever the allow-list says *)
  Theorem hmac_rejected : forall allowed ks t parsed alg,
    published ks = true ->
    check_signature verify allowed ks t parsed = Ok alg ->
    asym_family alg = true /\ prefix "HS" alg = false /\ alg <> "none".
  Proof.
    intros allowed ks t parsed alg Hks H.
    apply check_signature_sound in H as [e [k [_ [_ [Ha [_ [_ [Ht _]]]]]]]].
    assert (Hf : asym_family alg = true).
    { destruct ks as [o|c s sk|c s|k0]; try discriminate; cbn in Ht;
        apply andb_true_iff in Ht as [Ht _]; apply andb_true_iff in Ht as [_ Ht];
        subst alg; now apply alg_fits_family in Ht. }
    split; [assumption|]. split.
    - destruct (prefix "HS" alg) eqn:Hh; [|reflexivity]. apply hs_not_asym in Hh. congruence.
    - intro Hn. subst alg. rewrite Hn in Hf. discriminate.
  Qed.

  (* with the default allow-list (what assertions and request objects get) only
     RS256, ES256 or PS256 pass *)
  Theorem default_algs_only : forall ks t parsed alg,
    check_signature verify [] ks t parsed = Ok alg ->
    alg = "RS256" \/ alg = "ES256" \/ alg = "PS256".
  Proof.
    intros ks t parsed alg H.
    apply check_signature_sound in H as [e [k [_ [_ [_ [Ha _]]]]]].
    apply string_in_In in Ha. cbn in Ha. intuition.
  Qed.

  (* ---------- the five verifiers ---------- *)
  Definition outcome_claims (o : outcome) : option (claims * string) :=
    match o with
    | Accept c a => Some (c, a)
    | AcceptExpired c a _ => Some (c, a)
    | Reject _ => None
    end.

  Ltac peel H :=
    repeat match type of H with
           | context [andthen ?a _] => destruct a; cbn [andthen outcome_claims] in H; [discriminate|]
           end.

  (* every verifier hands back claims only after CheckSignature succeeded on
     the bytes those claims were decoded from, with the verifier's allow-list
     and key set - including VerifyIDTokenHint's expired-token answers *)
  Theorem each_verifier : forall k v ks t m now c' alg,
    outcome_claims (run_verifier verify k v ks t m now) = Some (c', alg) ->
    exists bytes c sa,
      m = MidOk bytes c /\ c' = returned_claims k c
      /\ check_signature verify (verifier_algs k v) (verifier_keyset k ks c) t bytes = Ok sa
      /\ (alg = sa \/ alg = "").
  Proof.
    intros k v ks t m now c' alg H.
    destruct k as [| | |dg|a]; cbn [run_verifier] in H.
    - unfold verify_id_token in H. destruct m as [| | | |bytes c]; try discriminate.
      peel H.
      destruct (check_signature verify (v_algs v) ks t bytes) as [sa|] eqn:Hs; [|discriminate].
      peel H. cbn in H. inversion H; subst. exists bytes, c', alg. cbn. repeat split; auto.
    - unfold verify_access_token in H. destruct m as [| | | |bytes c]; try discriminate.
      peel H.
      destruct (check_signature verify (v_algs v) ks t bytes) as [sa|] eqn:Hs; [|discriminate].
      peel H. cbn in H. inversion H; subst. exists bytes, c', alg. cbn. repeat split; auto.
    - unfold verify_id_token_hint in H. destruct m as [| | | |bytes c]; try discriminate.
      peel H.
      destruct (check_signature verify (v_algs v) ks t bytes) as [sa|] eqn:Hs; [|discriminate].
      peel H.
      exists bytes, c, sa. cbn [returned_claims verifier_algs verifier_keyset].
      destruct (chk_expiration c (v_offset v) now);
        [|destruct (chk_issued_at c (v_max_iat v) (v_offset v) now);
          [|destruct (chk_auth_time c (v_max_age v) now)]];
        cbn in H; inversion H; subst; repeat split; auto.
    - unfold verify_jwt_assertion in H. destruct m as [| | | |bytes c]; try discriminate.
      peel H.
      destruct (check_signature verify [] (bind_profile ks (c_iss c)) t bytes) as [sa|] eqn:Hs; [|discriminate].
      cbn in H. inversion H; subst. exists bytes, c', sa. cbn. repeat split; auto.
    - unfold parse_request_object in H. destruct m as [| | | |bytes c]; try discriminate.
      peel H.
      destruct (check_signature verify [] (bind_profile ks (c_iss c)) t bytes) as [sa|] eqn:Hs; [|discriminate].
      cbn in H. inversion H; subst. exists bytes, c, sa. cbn. repeat split; auto.
  Qed.

  (* the claims handed back are the decoding of exactly the bytes that one
     trusted signature covers *)
  Theorem payload_binding : forall k v ks t m now c' alg,
    outcome_claims (run_verifier verify k v ks t m now) = Some (c', alg) ->
    exists bytes c e key,
      m = MidOk bytes c /\ c' = returned_claims k c
      /\ tok_sigs t = [e] /\ tok_payload t = Some bytes
      /\ string_in (se_alg e) (effective_algs (verifier_algs k v)) = true
      /\ In key (ks_keys (verifier_keyset k ks c))
      /\ trusted_key (verifier_keyset k ks c) e key = true
      /\ verify key e bytes = true.
  Proof.
    intros k v ks t m now c' alg H.
    apply each_verifier in H as [bytes [c [sa [Hm [Hc [Hs _]]]]]].
    apply check_signature_sound in Hs as [e [key [H1 [H2 [H3 [H4 [H5 [H6 H7]]]]]]]].
    exists bytes, c, e, key. subst sa. repeat split; assumption.
  Qed.

  (* JSON-serialisation smuggling: middle segment decoding to other bytes than
     the signed payload never yields claims *)
  Theorem smuggling_rejected : forall k v ks t m now p bytes c,
    tok_payload t = Some p -> m = MidOk bytes c -> bytes <> p ->
    outcome_claims (run_verifier verify k v ks t m now) = None.
  Proof.
    intros k v ks t m now p bytes c Hp Hm Hne.
    destruct (outcome_claims (run_verifier verify k v ks t m now)) as [[c' alg]|] eqn:H; [|reflexivity].
    apply payload_binding in H as [b2 [c2 [e [key [Hm2 [_ [_ [Hp2 _]]]]]]]].
    rewrite Hm in Hm2. inversion Hm2; subst. rewrite Hp in Hp2. inversion Hp2 as [Heq].
    exfalso. apply Hne. now symmetry.
  Qed.
  (* ---------- whose request object: the client of the authorization request ---------- *)
  Lemma lookup_unnamed_none : forall store kid,
    forallb (fun x => negb (fst (fst x) =s "")) store = true -> profile_lookup store "" kid = None.
  Proof.
    intros store kid Hn. destruct (profile_lookup store "" kid) as [k|] eqn:Hl; [|reflexivity].
    apply profile_lookup_in in Hl as [x [Hin [Hc _]]].
    rewrite forallb_forall in Hn. apply Hn in Hin. rewrite Hc in Hin. discriminate.
  Qed.

  (* ParseRequestObject hands back claims only if the object was verified with the
     key set bound to the client of the AUTHORIZATION REQUEST (no client has the
     empty id): naming another registered client as issuer - with or without a
     client_id claim - and signing with that client's key is not believed *)
  Theorem request_object_bound : forall a issuer ks t m c' alg,
    store_named ks = true ->
    parse_request_object verify a issuer ks t m = Accept c' alg ->
    exists bytes c sa,
      m = MidOk bytes c /\ c' = ro_project a c
      /\ bind_profile ks (c_iss c) = bind_profile ks (a_client a)
      /\ check_signature verify [] (bind_profile ks (a_client a)) t bytes = Ok sa.
  Proof.
    intros a issuer ks t m c' alg Hn H. unfold parse_request_object in H.
    destruct m as [| | | |bytes c]; try discriminate.
    destruct (negb (c_client_id c =s "") && negb (c_client_id c =s a_client a)) eqn:H1;
      cbn [andthen] in H; [discriminate|].
    destruct (negb (c_rtype c =s "") && negb (c_rtype c =s a_rtype a)); cbn [andthen] in H; [discriminate|].
    destruct (c_iss c =s c_client_id c) eqn:H2; cbn [andthen] in H; [|discriminate].
    destruct (string_in issuer (c_aud c)); cbn [andthen] in H; [|discriminate].
    destruct (check_signature verify [] (bind_profile ks (c_iss c)) t bytes) as [sa|] eqn:Hs; [|discriminate].
    inversion H; subst c' alg. apply seqb_eq in H2.
    assert (Hb : bind_profile ks (c_iss c) = bind_profile ks (a_client a)).
    { apply andb_false_iff in H1 as [H1|H1]; apply negb_false_iff in H1; apply seqb_eq in H1.
      - (* no client_id claim: then no issuer either, and client "" has no key *)
        rewrite H1 in H2. rewrite H2 in Hs |- *.
        destruct ks as [o|cc s sk|client store|k0]; try reflexivity.
        exfalso. cbn [bind_profile store_named] in *.
        apply check_signature_inv_gen in Hs as [e [p [k [_ [_ Hk]]]]].
        cbn [keyset_verify] in Hk. unfold profile_verify in Hk.
        now rewrite (lookup_unnamed_none _ _ Hn) in Hk.
      - now rewrite H2, H1. }
    exists bytes, c, sa. split; [reflexivity|]. split; [reflexivity|]. split; [exact Hb|]. now rewrite <- Hb.
  Qed.

  Theorem request_object_client_bound : forall a issuer x store t m c' alg,
    forallb (fun y => negb (fst (fst y) =s "")) store = true ->
    parse_request_object verify a issuer (KSProfile x store) t m = Accept c' alg ->
    exists bytes c e key,
      m = MidOk bytes c /\ c' = ro_project a c /\ c_iss c = a_client a
      /\ tok_sigs t = [e] /\ tok_payload t = Some bytes
      /\ In (a_client a, se_kid e, key) store
      /\ verify key e bytes = true.
  Proof.
    intros a issuer x store t m c' alg Hn H.
    apply request_object_bound in H as [bytes [c [sa [Hm [Hc [Hb Hs]]]]]]; [|exact Hn].
    cbn [bind_profile] in Hb, Hs. inversion Hb as [Hiss].
    pose proof Hs as Hs0. apply check_signature_sound in Hs0 as [e [k [H1 [H2 [_ [_ [_ [_ Hv]]]]]]]].
    apply check_signature_inv_gen in Hs as [e' [p [k' [H1' [H2' Hk]]]]].
    rewrite H1 in H1'. inversion H1'; subst e'. rewrite H2 in H2'. inversion H2'; subst p.
    cbn [keyset_verify] in Hk. unfold profile_verify in Hk.
    destruct (profile_lookup store (a_client a) (se_kid e)) as [k2|] eqn:Hl; [|discriminate].
    destruct (verify k2 e bytes) eqn:Hv2; [|discriminate]. inversion Hk; subst k'.
    apply profile_lookup_in in Hl as [[[cl kid] kk] [Hin [Hcl [Hkid Hkk]]]]. cbn [fst snd] in *.
    apply seqb_eq in Hcl. apply seqb_eq in Hkid. subst cl kid kk.
    exists bytes, c, e, k2. repeat split; try assumption. now rewrite Hiss.
  Qed.

  (* ---------- the per-client storage key set: the storage designates the key ---------- *)
  (* the key the storage returns for (client, kid of the header - possibly none)
     decides; the key id written inside that JWK is no input *)
  Theorem profile_keyset_complete : forall allowed client store t e p k,
    tok_sigs t = [e] -> tok_payload t = Some p ->
    string_in (se_alg e) (effective_algs allowed) = true ->
    profile_lookup store client (se_kid e) = Some k -> verify k e p = true ->
    check_signature verify allowed (KSProfile client store) t p = Ok (se_alg e).
  Proof.
    intros allowed client store t e p k Hs Hp Ha Hl Hv. unfold check_signature.
    destruct t as [e' p'|sigs p'|]; cbn in Hs, Hp; try discriminate.
    - inversion Hs; inversion Hp; subst. cbn [jose_parse]. rewrite Ha.
      cbn [keyset_verify]. unfold profile_verify. now rewrite Hl, Hv, seqb_refl.
    - inversion Hp; subst. cbn [jose_parse all_algs_allowed]. rewrite Ha. cbn [andb].
      cbn [keyset_verify]. unfold profile_verify. now rewrite Hl, Hv, seqb_refl.
  Qed.

  Theorem profile_keyset_sound : forall allowed client store t p alg,
    check_signature verify allowed (KSProfile client store) t p = Ok alg ->
    exists e k, tok_sigs t = [e] /\ tok_payload t = Some p /\ alg = se_alg e
      /\ profile_lookup store client (se_kid e) = Some k /\ verify k e p = true.
  Proof.
    intros allowed client store t p alg H.
    pose proof H as H0. apply check_signature_sound in H0 as [e [k [H1 [H2 [H3 _]]]]].
    apply check_signature_inv_gen in H as [e' [p' [k' [H1' [H2' Hk]]]]].
    rewrite H1 in H1'. inversion H1'; subst e'. rewrite H2 in H2'. inversion H2'; subst p'.
    cbn [keyset_verify] in Hk. unfold profile_verify in Hk.
    destruct (profile_lookup store client (se_kid e)) as [k2|] eqn:Hl; [|discriminate].
    destruct (verify k2 e p) eqn:Hv; [|discriminate].
    exists e, k2. now repeat split.
  Qed.

  (* rewriting the key ids INSIDE the stored JWKs (registration untouched) changes
     no answer, for any oracle that looks at type and material only *)
  Definition rekid (f : jwk -> string) (store : list (string * string * jwk)) :=
    map (fun x => (fst x, mkJwk (f (snd x)) (k_use (snd x)) (k_ty (snd x)) (k_mat (snd x)))) store.

  Theorem profile_key_id_no_input : forall f allowed client store t p,
    (forall k id e q, verify (mkJwk id (k_use k) (k_ty k) (k_mat k)) e q = verify k e q) ->
    match check_signature verify allowed (KSProfile client (rekid f store)) t p,
          check_signature verify allowed (KSProfile client store) t p with
    | Ok a, Ok b => a = b
    | Err a, Err b => a = b
    | _, _ => False
    end.
  Proof.
    intros f allowed client store t p Hv.
    assert (Hl : forall kid, profile_lookup (rekid f store) client kid =
                 match profile_lookup store client kid with
                 | Some k => Some (mkJwk (f k) (k_use k) (k_ty k) (k_mat k)) | None => None end).
    { intro kid. induction store as [|[[c i] k0] r IH]; cbn; [reflexivity|].
      destruct ((c =s client) && (i =s kid)); [reflexivity | exact IH]. }
    assert (Hk : forall e q, match keyset_verify verify (KSProfile client (rekid f store)) e q,
                                   keyset_verify verify (KSProfile client store) e q with
                             | Some _, Some _ | None, None => True | _, _ => False end).
    { intros e q. cbn [keyset_verify]. unfold profile_verify. rewrite Hl.
      destruct (profile_lookup store client (se_kid e)) as [k|]; [|exact I].
      simpl. rewrite Hv. destruct (verify k e q); exact I. }
    unfold check_signature.
    destruct (jose_parse (effective_algs allowed) t) as [| |sigs signed]; try reflexivity.
    destruct sigs as [|e [|e2 r]]; try reflexivity.
    specialize (Hk e signed).
    destruct (keyset_verify verify (KSProfile client (rekid f store)) e signed),
             (keyset_verify verify (KSProfile client store) e signed); try contradiction; try reflexivity.
    destruct (signed =s p); reflexivity.
  Qed.
End Oracle.

(* ---------- the symbolic instance: spec (model) = true ---------- *)
Lemma check_signature_genuine : forall allowed ks t parsed alg,
  check_signature sym_verify allowed ks t parsed = Ok alg ->
  sig_genuine allowed ks t parsed = true /\ alg = sig_alg t.
Proof.
  intros allowed ks t parsed alg H.
  apply check_signature_sound in H as [e [k [H1 [H2 [H3 [H4 [H5 [H6 H7]]]]]]]].
  unfold sig_genuine, sig_alg. rewrite H1, H2. subst alg. split; [|reflexivity].
  rewrite H4, seqb_refl. cbn [andb]. rewrite andb_true_r.
  apply existsb_exists. exists k. split; [assumption|]. now rewrite H7, H6.
Qed.

(* ---------- ambiguity is never resolved by guessing ---------- *)
Lemma find_designated : forall kid alg keys k,
  find_matching_key kid "sig" alg keys = FOk k -> In k keys /\ designated kid alg keys k = true.
Proof.
  intros kid alg keys k H. split; [now apply find_key_sound in H as [Hin _]|].
  rewrite find_matching_key_filters in H. unfold designated.
  destruct (exact_keys kid "sig" alg keys) as [|k' ex].
  - apply find_finish_ok in H. rewrite H. apply jwk_eqb_refl.
  - inversion H; subst k'. cbn. now rewrite jwk_eqb_refl.
Qed.

Section Designated.
  Variable verify : jwk -> sigentry -> string -> bool.

  (* a published list answers only through the key FindMatchingKey designates among ALL its keys *)
  Lemma verify_found_designated : forall keys e p k,
    verify_found verify (find_matching_key (se_kid e) "sig" (se_alg e) keys) e p = Some k ->
    In k keys /\ designated (se_kid e) (se_alg e) keys k = true /\ verify k e p = true.
  Proof.
    intros keys e p k H. apply verify_found_sound in H as [Hf Hv].
    apply find_designated in Hf as [Hin Hd]. now repeat split.
  Qed.

  Theorem openid_designated : forall keys e p k,
    openid_verify verify (Some keys) e p = Some k ->
    In k keys /\ designated (se_kid e) (se_alg e) keys k = true /\ verify k e p = true.
  Proof. intros keys e p k H. cbn in H. now apply verify_found_designated. Qed.

  (* two or more possible keys and no exact match: the provider's key set and the
     remote key set (from its cache as from a download) accept nothing *)
  Theorem keyset_ambiguity_rejected : forall e p keys,
    exact_keys (se_kid e) "sig" (se_alg e) keys = [] ->
    2 <= List.length (loose_keys (se_kid e) "sig" (se_alg e) keys) ->
    openid_verify verify (Some keys) e p = None
    /\ (forall skip, remote_verify verify [] (Some keys) skip e p = None)
    /\ (forall skip, remote_verify verify keys None skip e p = None).
  Proof.
    intros e p keys Hex Hl.
    pose proof (find_key_ambiguous _ _ _ _ Hex Hl) as Hm.
    split; [cbn; now rewrite Hm|]. split; intro skip.
    - cbn. now rewrite Hm.
    - unfold remote_verify. destruct keys; [reflexivity|]. now rewrite Hm.
  Qed.

  (* remote key set: the designating list is the one held after the call *)
  Lemma remote_verify_designated : forall cached served skip e p k,
    remote_verify verify cached served skip e p = Some k ->
    let held := if remote_needs_fetch verify cached skip e p
                then match served with Some l => l | None => cached end else cached in
    In k held /\ designated (se_kid e) (se_alg e) held k = true /\ verify k e p = true.
  Proof.
    intros cached served skip e p k H.
    assert (Hfetch : remote_fetch_verify verify served e p = Some k ->
              let held := match served with Some l => l | None => cached end in
              In k held /\ designated (se_kid e) (se_alg e) held k = true /\ verify k e p = true).
    { intro H0. destruct served as [l|]; cbn in H0; [|discriminate]. now apply verify_found_designated. }
    unfold remote_verify in H. unfold remote_needs_fetch.
    destruct cached as [|c0 cr] eqn:Hc; [now apply Hfetch|]. rewrite <- Hc in *.
    destruct (find_matching_key (se_kid e) "sig" (se_alg e) cached) as [k'| |] eqn:Hf;
      try (now apply Hfetch).
    destruct (verify k' e p) eqn:Hv.
    - inversion H; subst k'. apply find_designated in Hf as [Hin Hd]. now repeat split.
    - destruct (remote_exact skip (k_id k') (se_kid e)); [discriminate|]. cbn [negb]. now apply Hfetch.
  Qed.
End Designated.

Lemma unambiguous_intro : forall e p keys k,
  In k keys -> designated (se_kid e) (se_alg e) keys k = true -> sym_verify k e p = true ->
  unambiguous_in e p keys = true.
Proof.
  intros e p keys k Hin Hd Hv. unfold unambiguous_in. apply existsb_exists. exists k.
  split; [assumption|]. now rewrite Hd, Hv.
Qed.

Lemma keyset_verify_unambiguous : forall ks e p k,
  keyset_verify sym_verify ks e p = Some k ->
  match ks with
  | KSOpenID (Some keys) => unambiguous_in e p keys
  | KSOpenID None => false
  | KSRemote cached served _ =>
      unambiguous_in e p cached || match served with Some l => unambiguous_in e p l | None => false end
  | _ => true
  end = true.
Proof.
  intros ks e p k H. destruct ks as [[keys|]|cached served skip|client store|k0]; cbn [keyset_verify] in H;
    try reflexivity; try discriminate.
  - apply openid_designated in H as [Hin [Hd Hv]]. now apply (unambiguous_intro _ _ _ k).
  - apply remote_verify_designated in H as [Hin [Hd Hv]].
    destruct (remote_needs_fetch sym_verify cached skip e p).
    + destruct served as [l|].
      * rewrite (unambiguous_intro _ _ _ k Hin Hd Hv). apply orb_true_r.
      * now rewrite (unambiguous_intro _ _ _ k Hin Hd Hv).
    + now rewrite (unambiguous_intro _ _ _ k Hin Hd Hv).
Qed.

Lemma check_signature_inv : forall verify allowed ks t parsed alg,
  check_signature verify allowed ks t parsed = Ok alg ->
  exists e p k, tok_sigs t = [e] /\ tok_payload t = Some p /\ keyset_verify verify ks e p = Some k.
Proof.
  intros verify allowed ks t parsed alg H. unfold check_signature in H.
  destruct t as [e p|sigs p|]; cbn [jose_parse] in H.
  - destruct (string_in (se_alg e) (effective_algs allowed)); [|discriminate].
    destruct (keyset_verify verify ks e p) as [k|] eqn:Hk; [|discriminate].
    exists e, p, k. now repeat split.
  - destruct (all_algs_allowed (effective_algs allowed) sigs); [|discriminate].
    destruct sigs as [|e [|e2 r]]; try discriminate.
    destruct (keyset_verify verify ks e p) as [k|] eqn:Hk; [|discriminate].
    exists e, p, k. now repeat split.
  - discriminate.
Qed.

Lemma check_signature_unambiguous : forall allowed ks t parsed alg,
  check_signature sym_verify allowed ks t parsed = Ok alg -> sig_unambiguous ks t = true.
Proof.
  intros allowed ks t parsed alg H. apply check_signature_inv in H as [e [p [k [H1 [H2 H3]]]]].
  unfold sig_unambiguous. rewrite H1, H2. now apply keyset_verify_unambiguous in H3.
Qed.

Lemma check_signature_believable : forall allowed ks t parsed alg,
  check_signature sym_verify allowed ks t parsed = Ok alg ->
  sig_believable allowed ks t parsed = true /\ alg = sig_alg t.
Proof.
  intros allowed ks t parsed alg H. pose proof (check_signature_unambiguous _ _ _ _ _ H) as Hu.
  apply check_signature_genuine in H as [Hg Ha]. unfold sig_believable. now rewrite Hg, Hu.
Qed.

Lemma selectable_find : forall kid alg keys k,
  selectable kid alg keys k = true -> find_matching_key kid "sig" alg keys = FOk k.
Proof.
  intros kid alg keys k H. unfold selectable in H. rewrite find_matching_key_filters.
  destruct (exact_keys kid "sig" alg keys) as [|k1 [|k2 ex]].
  - destruct (loose_keys kid "sig" alg keys) as [|a [|b l]]; try discriminate.
    apply jwk_eqb_eq in H. now subst.
  - apply jwk_eqb_eq in H. now subst.
  - discriminate.
Qed.

Lemma no_compatible_find : forall kid alg keys,
  no_compatible kid alg keys = true -> find_matching_key kid "sig" alg keys = FNone.
Proof.
  intros kid alg keys H. unfold no_compatible in H. rewrite find_matching_key_filters.
  destruct (exact_keys kid "sig" alg keys); [|discriminate].
  destruct (loose_keys kid "sig" alg keys); [reflexivity | discriminate].
Qed.

Lemma check_signature_complete : forall allowed ks t parsed,
  sig_complete allowed ks t parsed = true ->
  check_signature sym_verify allowed ks t parsed = Ok (sig_alg t).
Proof.
  intros allowed ks t parsed H. unfold sig_complete in H. unfold sig_alg.
  destruct (tok_sigs t) as [|e [|e2 r]] eqn:Hs; try discriminate.
  destruct (tok_payload t) as [p|] eqn:Hp; [|discriminate].
  apply andb_true_iff in H as [H Hks]. apply andb_true_iff in H as [Ha Hpp].
  apply seqb_eq in Hpp. subst p.
  assert (Hkv : exists k, keyset_verify sym_verify ks e parsed = Some k).
  { destruct ks as [[keys|]|cached [served|] skip|client store|k0]; try discriminate.
    - apply existsb_exists in Hks as [k [_ Hk]]. apply andb_true_iff in Hk as [Hsel Hv].
      exists k. cbn. rewrite (selectable_find _ _ _ _ Hsel). cbn. now rewrite Hv.
    - apply existsb_exists in Hks as [k [_ Hk]]. apply andb_true_iff in Hk as [Hk Hc].
      apply andb_true_iff in Hk as [Hsel Hv].
      assert (Hf : remote_fetch_verify sym_verify (Some served) e parsed = Some k).
      { cbn. rewrite (selectable_find _ _ _ _ Hsel). cbn. now rewrite Hv. }
      exists k. cbn [keyset_verify]. unfold remote_verify.
      destruct cached as [|c0 cr] eqn:Hcd; [assumption|]. rewrite <- Hcd in *.
      apply orb_true_iff in Hc as [Hc|Hc].
      + now rewrite (no_compatible_find _ _ _ Hc).
      + rewrite (selectable_find _ _ _ _ Hc). now rewrite Hv.
    - unfold registered_once in Hks. exists
        (match filter (fun x => (fst (fst x) =s client) && (snd (fst x) =s se_kid e)) store with
         | x :: _ => snd x | [] => mkJwk "" "" KOther 0 end).
      cbn [keyset_verify]. unfold profile_verify. rewrite profile_lookup_filter.
      destruct (filter (fun x => (fst (fst x) =s client) && (snd (fst x) =s se_kid e)) store)
        as [|x [|y l]]; try discriminate. now rewrite Hks.
    - exists k0. cbn. now rewrite Hks. }
  destruct Hkv as [k Hk]. unfold check_signature.
  destruct t as [e' p'|sigs p'|]; cbn in Hs, Hp; try discriminate.
  - inversion Hs; inversion Hp; subst. cbn [jose_parse]. rewrite Ha, Hk, seqb_refl. reflexivity.
  - inversion Hp; subst. cbn [jose_parse all_algs_allowed]. rewrite Ha. cbn [andb].
    rewrite Hk, seqb_refl. reflexivity.
Qed.

Lemma list_string_eqb_refl : forall l, list_eqb String.eqb l l = true.
Proof. induction l as [|a l IH]; cbn; [reflexivity | now rewrite seqb_refl, IH]. Qed.

Lemma claims_eqb_refl : forall c, claims_eqb c c = true.
Proof.
  intro c. unfold claims_eqb. now rewrite !seqb_refl, !Z.eqb_refl, list_string_eqb_refl.
Qed.

(* ---------- one remote key set instance over a rotation sequence ---------- *)
Section RemoteSeq.
  Variable verify : jwk -> sigentry -> string -> bool.

  (* the key that verified comes from the cache when no download was needed, and
     from the freshly served list otherwise: never from a list that has been replaced *)
  Lemma remote_verify_sharp : forall cached served skip e p k,
    remote_verify verify cached served skip e p = Some k ->
    In k (if remote_needs_fetch verify cached skip e p
          then match served with Some l => l | None => cached end else cached)
    /\ trusted_key (KSOpenID None) e k = true /\ verify k e p = true.
  Proof.
    intros cached served skip e p k H.
    assert (Hfetch : remote_fetch_verify verify served e p = Some k ->
              In k (match served with Some l => l | None => cached end)
              /\ trusted_key (KSOpenID None) e k = true /\ verify k e p = true).
    { intro H0. destruct served as [l|]; cbn in H0; [|discriminate].
      apply verify_found_sound in H0 as [Hf Hv].
      apply (published_trusted (KSOpenID None)) in Hf as [Hin Ht]; [|reflexivity].
      repeat split; assumption. }
    unfold remote_verify in H. unfold remote_needs_fetch.
    destruct cached as [|c0 cr] eqn:Hc; [now apply Hfetch|]. rewrite <- Hc in *.
    destruct (find_matching_key (se_kid e) "sig" (se_alg e) cached) as [k'| |] eqn:Hf;
      try (now apply Hfetch).
    destruct (verify k' e p) eqn:Hv.
    - inversion H; subst k'.
      apply (published_trusted (KSOpenID None)) in Hf as [Hin Ht]; [|reflexivity].
      repeat split; assumption.
    - destruct (remote_exact skip (k_id k') (se_kid e)); [discriminate|]. cbn [negb]. now apply Hfetch.
  Qed.

  (* the state after a call: the served list iff a download succeeded *)
  Lemma remote_after_state : forall allowed skip cached served t,
    let st := remote_after verify allowed skip cached served t in
    fst st = (if snd st then match served with Some l => l | None => cached end else cached)
    /\ (snd st = true -> served <> None).
  Proof.
    intros allowed skip cached served t. unfold remote_after.
    destruct (jose_parse (effective_algs allowed) t) as [| |[|e [|e2 r]] p]; cbn; try (split; [reflexivity | discriminate]).
    destruct (remote_needs_fetch verify cached skip e p); cbn; [|split; [reflexivity | discriminate]].
    destruct served; cbn; split; try reflexivity; try discriminate.
  Qed.

  (* CheckSignature on a remote key set believes a signature only under a key
     of the list the key set holds AFTER the call (= last successful download) *)
  Theorem remote_check_sound : forall allowed skip cached served t parsed alg,
    check_signature verify allowed (KSRemote cached served skip) t parsed = Ok alg ->
    exists e k,
      tok_sigs t = [e] /\ tok_payload t = Some parsed /\ alg = se_alg e
      /\ string_in alg (effective_algs allowed) = true
      /\ In k (fst (remote_after verify allowed skip cached served t))
      /\ trusted_key (KSOpenID None) e k = true
      /\ verify k e parsed = true.
  Proof.
    intros allowed skip cached served t parsed alg H. unfold check_signature in H. unfold remote_after.
    destruct t as [e p|sigs p|]; cbn [jose_parse] in *.
    - destruct (string_in (se_alg e) (effective_algs allowed)) eqn:Ha; [|discriminate].
      cbn [keyset_verify] in H.
      destruct (remote_verify verify cached served skip e p) as [k|] eqn:Hk; [|discriminate].
      destruct (p =s parsed) eqn:Hp; [|discriminate]. apply seqb_eq in Hp. subst p.
      inversion H; subst alg. apply remote_verify_sharp in Hk as [Hin [Ht Hv]].
      exists e, k. cbn [tok_sigs tok_payload]. repeat split; try assumption.
      destruct (remote_needs_fetch verify cached skip e parsed); [|assumption].
      destruct served; assumption.
    - destruct (all_algs_allowed (effective_algs allowed) sigs) eqn:Ha; [|discriminate].
      destruct sigs as [|e [|e2 r]]; try discriminate.
      cbn [keyset_verify] in H.
      destruct (remote_verify verify cached served skip e p) as [k|] eqn:Hk; [|discriminate].
      destruct (p =s parsed) eqn:Hp; [|discriminate]. apply seqb_eq in Hp. subst p.
      inversion H; subst alg. apply remote_verify_sharp in Hk as [Hin [Ht Hv]].
      cbn in Ha. rewrite andb_true_r in Ha.
      exists e, k. cbn [tok_sigs tok_payload]. repeat split; try assumption.
      destruct (remote_needs_fetch verify cached skip e parsed); [|assumption].
      destruct served; assumption.
    - discriminate.
  Qed.

  (* every accepting call of a run is justified by the list held at that moment *)
  Fixpoint run_justified (allowed : list string) (held : list jwk) (steps : list rstep)
           (outs : list (result string * bool)) : Prop :=
    match steps, outs with
    | [], [] => True
    | s :: r, (res, f) :: ro =>
        let held' := if f then match rs_served s with Some l => l | None => held end else held in
        (f = true -> rs_served s <> None)
        /\ (forall alg, res = Ok alg ->
            exists e k, tok_sigs (rs_tok s) = [e] /\ tok_payload (rs_tok s) = Some (rs_parsed s)
                        /\ alg = se_alg e /\ string_in alg (effective_algs allowed) = true
                        /\ In k held' /\ trusted_key (KSOpenID None) e k = true
                        /\ verify k e (rs_parsed s) = true)
        /\ run_justified allowed held' r ro
    | _, _ => False
    end.

  Theorem remote_rotation_sound : forall allowed skip steps cached,
    run_justified allowed cached steps (remote_run verify allowed skip cached steps).
  Proof.
    intros allowed skip steps. induction steps as [|s r IH]; intro cached; cbn [remote_run run_justified]; [exact I|].
    destruct (remote_after_state allowed skip cached (rs_served s) (rs_tok s)) as [Hst Hf].
    rewrite <- Hst. split; [assumption|]. split; [|apply IH].
    intros alg Ha. now apply remote_check_sound in Ha.
  Qed.
End RemoteSeq.

(* on a remote key set the designating list is the one held after the call *)
Lemma remote_check_unambiguous : forall allowed skip cached served t parsed alg,
  check_signature sym_verify allowed (KSRemote cached served skip) t parsed = Ok alg ->
  sig_unambiguous (KSOpenID (Some (fst (remote_after sym_verify allowed skip cached served t)))) t = true.
Proof.
  intros allowed skip cached served t parsed alg H. unfold check_signature in H. unfold remote_after, sig_unambiguous.
  destruct t as [e p|sigs p|]; cbn [jose_parse tok_sigs tok_payload] in *.
  - destruct (string_in (se_alg e) (effective_algs allowed)) eqn:Ha; [|discriminate].
    cbn [keyset_verify] in H.
    destruct (remote_verify sym_verify cached served skip e p) as [k|] eqn:Hk; [|discriminate].
    apply remote_verify_designated in Hk as [Hin [Hd Hv]].
    destruct (remote_needs_fetch sym_verify cached skip e p); [destruct served|]; cbn [fst];
      now apply (unambiguous_intro _ _ _ k).
  - destruct (all_algs_allowed (effective_algs allowed) sigs) eqn:Ha; [|discriminate].
    destruct sigs as [|e [|e2 r]]; try discriminate.
    cbn [keyset_verify] in H.
    destruct (remote_verify sym_verify cached served skip e p) as [k|] eqn:Hk; [|discriminate].
    apply remote_verify_designated in Hk as [Hin [Hd Hv]].
    destruct (remote_needs_fetch sym_verify cached skip e p); [destruct served|]; cbn [fst];
      now apply (unambiguous_intro _ _ _ k).
  - discriminate.
Qed.

Lemma remote_seq_model : forall allowed skip steps cached,
  remote_seq_spec allowed skip cached steps (remote_run sym_verify allowed skip cached steps) = true.
Proof.
  intros allowed skip steps. induction steps as [|s r IH]; intro cached; cbn [remote_run remote_seq_spec]; [reflexivity|].
  destruct (remote_after_state sym_verify allowed skip cached (rs_served s) (rs_tok s)) as [Hst Hf].
  rewrite <- Hst. rewrite IH, andb_true_r.
  apply andb_true_iff; split.
  - destruct (snd (remote_after sym_verify allowed skip cached (rs_served s) (rs_tok s))); [|reflexivity].
    cbn. destruct (rs_served s); [reflexivity|]. exfalso. now apply Hf.
  - destruct (check_signature sym_verify allowed (KSRemote cached (rs_served s) skip) (rs_tok s) (rs_parsed s))
      as [alg|e] eqn:H.
    + pose proof (remote_check_unambiguous _ _ _ _ _ _ _ H) as Hu.
      apply remote_check_sound in H as [e [k [H1 [H2 [H3 [H4 [H5 [H6 H7]]]]]]]].
      unfold sig_believable. rewrite Hu, andb_true_r.
      unfold sig_genuine, sig_alg. rewrite H1, H2. subst alg. rewrite H4, !seqb_refl. cbn [andb].
      rewrite !andb_true_r. apply existsb_exists. exists k. split; [assumption|].
      cbn [trusted_key] in *. now rewrite H7, H6.
    + destruct (sig_complete allowed (KSRemote cached (rs_served s) skip) (rs_tok s) (rs_parsed s)) eqn:Hc;
        [|reflexivity].
      apply check_signature_complete in Hc. congruence.
Qed.

(* the key set the model verifies with IS the configured one: for a request
   object the consistency checks force iss = client of the authorization request *)
Lemma trusted_keyset_run : forall k v ks t bytes c now0 c' alg,
  step_wf k ks = true ->
  outcome_claims (run_verifier sym_verify k v ks t (MidOk bytes c) now0) = Some (c', alg) ->
  trusted_keyset k ks c = verifier_keyset k ks c.
Proof.
  intros k v ks t bytes c now0 c' alg Hwf H. destruct k as [| | |dg|a]; try reflexivity.
  cbn [trusted_keyset verifier_keyset]. cbn [run_verifier] in H. cbn [step_wf] in Hwf.
  destruct (parse_request_object sym_verify a (v_issuer v) ks t (MidOk bytes c)) as [c2 a2|c2 a2 e2|e2] eqn:Hr;
    cbn in H; try discriminate.
  - apply request_object_bound in Hr as [b2 [c0 [sa2 [Hm [_ [Hb _]]]]]]; [|exact Hwf].
    inversion Hm; subst. now symmetry.
  - exfalso. unfold parse_request_object in Hr.
    repeat match type of Hr with context [andthen ?a _] => destruct a; cbn [andthen] in Hr; [discriminate|] end.
    destruct (check_signature sym_verify [] (bind_profile ks (c_iss c)) t bytes); discriminate.
Qed.

Lemma verify_step_model : forall k v ks t m now0,
  step_wf k ks = true ->
  verify_step_ok k v ks t m (run_verifier sym_verify k v ks t m now0) = true.
Proof.
  intros k v ks t m now0 Hwf.
  destruct (run_verifier sym_verify k v ks t m now0) as [c' alg|c' alg e|e] eqn:H; cbn [verify_step_ok]; [| |reflexivity].
  + assert (Ho : outcome_claims (run_verifier sym_verify k v ks t m now0) = Some (c', alg))
      by now rewrite H.
    pose proof Ho as Ho2.
    apply each_verifier in Ho as [bytes [c [sa [Hm [Hc [Hs Ha]]]]]].
    unfold accept_ok. subst m c'. rewrite claims_eqb_refl.
    rewrite (trusted_keyset_run _ _ _ _ _ _ _ _ _ Hwf Ho2).
    apply check_signature_believable in Hs as [Hg Hsa]. rewrite Hg. cbn [andb].
    (* the reported algorithm *)
    destruct k as [| | |dg|a]; cbn [run_verifier] in H; cbn [alg_reported].
    * unfold verify_id_token in H.
      repeat match type of H with context [andthen ?a _] => destruct a; cbn [andthen] in H; [discriminate|] end.
      destruct (check_signature sym_verify (v_algs v) ks t bytes) as [s2|] eqn:H2; [|discriminate].
      repeat match type of H with context [andthen ?a _] => destruct a; cbn [andthen] in H; [discriminate|] end.
      inversion H; subst. apply check_signature_genuine in H2 as [_ H2]. subst. apply seqb_refl.
    * unfold verify_access_token in H.
      repeat match type of H with context [andthen ?a _] => destruct a; cbn [andthen] in H; [discriminate|] end.
      destruct (check_signature sym_verify (v_algs v) ks t bytes) as [s2|] eqn:H2; [|discriminate].
      repeat match type of H with context [andthen ?a _] => destruct a; cbn [andthen] in H; [discriminate|] end.
      inversion H; subst. apply check_signature_genuine in H2 as [_ H2]. subst. apply seqb_refl.
    * unfold verify_id_token_hint in H.
      repeat match type of H with context [andthen ?a _] => destruct a; cbn [andthen] in H; [discriminate|] end.
      destruct (check_signature sym_verify (v_algs v) ks t bytes) as [s2|] eqn:H2; [|discriminate].
      repeat match type of H with context [andthen ?a _] => destruct a; cbn [andthen] in H; [discriminate|] end.
      destruct (chk_expiration c (v_offset v) now0); [discriminate|].
      destruct (chk_issued_at c (v_max_iat v) (v_offset v) now0); [discriminate|].
      destruct (chk_auth_time c (v_max_age v) now0); [discriminate|].
      inversion H; subst. apply check_signature_genuine in H2 as [_ H2]. subst. apply seqb_refl.
    * unfold verify_jwt_assertion in H.
      repeat match type of H with context [andthen ?a _] => destruct a; cbn [andthen] in H; [discriminate|] end.
      destruct (check_signature sym_verify [] (bind_profile ks (c_iss c)) t bytes); [|discriminate].
      inversion H; subst. reflexivity.
    * unfold parse_request_object in H.
      repeat match type of H with context [andthen ?a _] => destruct a; cbn [andthen] in H; [discriminate|] end.
      destruct (check_signature sym_verify [] (bind_profile ks (c_iss c)) t bytes); [|discriminate].
      inversion H; subst. reflexivity.
  + assert (Ho : outcome_claims (run_verifier sym_verify k v ks t m now0) = Some (c', alg))
      by now rewrite H.
    apply each_verifier in Ho as [bytes [c [sa [Hm [Hc [Hs Ha]]]]]].
    destruct k as [| | |dg|a]; cbn [run_verifier] in H.
    * exfalso. unfold verify_id_token in H. subst m.
      repeat match type of H with context [andthen ?a _] => destruct a; cbn [andthen] in H; [discriminate|] end.
      destruct (check_signature sym_verify (v_algs v) ks t bytes); [|discriminate].
      repeat match type of H with context [andthen ?a _] => destruct a; cbn [andthen] in H; [discriminate|] end.
      discriminate.
    * exfalso. unfold verify_access_token in H. subst m.
      repeat match type of H with context [andthen ?a _] => destruct a; cbn [andthen] in H; [discriminate|] end.
      destruct (check_signature sym_verify (v_algs v) ks t bytes); [|discriminate].
      repeat match type of H with context [andthen ?a _] => destruct a; cbn [andthen] in H; [discriminate|] end.
      discriminate.
    * unfold accept_ok. subst m c'. rewrite claims_eqb_refl.
      cbn [verifier_algs verifier_keyset] in Hs.
      pose proof Hs as Hs2. apply check_signature_believable in Hs2 as [Hg Hsa].
      cbn [verifier_algs verifier_keyset trusted_keyset]. rewrite Hg. cbn [andb alg_reported].
      unfold verify_id_token_hint in H.
      repeat match type of H with context [andthen ?a _] => destruct a; cbn [andthen] in H; [discriminate|] end.
      rewrite Hs in H.
      repeat match type of H with context [andthen ?a _] => destruct a; cbn [andthen] in H; [discriminate|] end.
      destruct (chk_expiration c (v_offset v) now0);
        [|destruct (chk_issued_at c (v_max_iat v) (v_offset v) now0);
          [|destruct (chk_auth_time c (v_max_age v) now0)]];
        inversion H; subst; apply seqb_refl.
    * exfalso. unfold verify_jwt_assertion in H. subst m.
      repeat match type of H with context [andthen ?a _] => destruct a; cbn [andthen] in H; [discriminate|] end.
      destruct (check_signature sym_verify [] (bind_profile ks (c_iss c)) t bytes); discriminate.
    * exfalso. unfold parse_request_object in H. subst m.
      repeat match type of H with context [andthen ?a _] => destruct a; cbn [andthen] in H; [discriminate|] end.
      destruct (check_signature sym_verify [] (bind_profile ks (c_iss c)) t bytes); discriminate.
Qed.

Lemma provider_step_model : forall p store s,
  provider_step_ok p store s (run_provider_step sym_verify p store s) = true.
Proof.
  intros p store s. unfold provider_step_ok, run_provider_step.
  destruct (ps_kind s); unfold run_provider_verifier.
  - replace (configured_keyset p false) with (provider_keyset p false) by reflexivity.
    now apply verify_step_model.
  - replace (configured_keyset p true) with (provider_keyset p true) by reflexivity.
    now apply verify_step_model.
  - now apply verify_step_model.
Qed.

Theorem spec_model : forall i, wf i = true -> spec i (model i) = true.
Proof.
  intros [kid use alg keys|allowed ks t parsed|k v ks t m now0 now1|allowed skip steps|k v ks steps|p hint t m now0 now1|ks t parsed|p store steps|hint allowed ov calls] Hwf;
    cbn [model spec]; cbn [wf] in Hwf.
  - apply find_spec_model.
  - destruct (check_signature sym_verify allowed ks t parsed) as [alg|e] eqn:H.
    + apply check_signature_believable in H as [Hg Ha]. rewrite Hg. subst alg. now rewrite seqb_refl.
    + destruct (sig_complete allowed ks t parsed) eqn:Hc; [|reflexivity].
      apply check_signature_complete in Hc. congruence.
  - now apply verify_step_model.
  - apply remote_seq_model.
  - induction steps as [|s r IH]; cbn [map verify_seq_spec]; [reflexivity|].
    now rewrite (verify_step_model _ _ _ _ _ _ Hwf), IH.
  - unfold run_provider_verifier.
    replace (configured_keyset p hint) with (provider_keyset p hint)
      by (unfold configured_keyset, provider_keyset; destruct hint; reflexivity).
    apply verify_step_model. now destruct hint.
  - destruct (check_signature sym_verify [] ks t parsed) as [alg|e] eqn:H.
    + apply check_signature_believable in H as [Hg Ha]. now rewrite Hg.
    + destruct (sig_complete [] ks t parsed) eqn:Hc; [|reflexivity].
      apply check_signature_complete in Hc. congruence.
  - induction steps as [|s r IH]; cbn [map provider_seq_spec]; [reflexivity|].
    now rewrite provider_step_model, IH.
  - induction calls as [|c r IH]; cbn [map tenants_spec]; [reflexivity|].
    rewrite verify_step_model, IH; [reflexivity | now destruct hint].
Qed.

Lemma hint_at_issuer : forall verify (hint : bool) v ks t m now c' alg,
  outcome_claims (run_verifier verify (if hint then VIDTokenHint else VAccessToken) v ks t m now) = Some (c', alg) ->
  c_iss c' = v_issuer v.
Proof.
  intros verify hint v ks t m now c' alg H. pose proof H as H0.
  apply each_verifier in H0 as [bytes [c0 [sa [Hm [Hc _]]]]]. subst m.
  assert (c' = c0) by (destruct hint; exact Hc). subst c0.
  destruct hint; cbn [run_verifier] in H; unfold verify_id_token_hint, verify_access_token in H;
    destruct (chk_issuer c' (v_issuer v)) eqn:E; cbn [andthen outcome_claims] in H; try discriminate;
    unfold chk_issuer in E; destruct (c_iss c' =s v_issuer v) eqn:E2; try discriminate; now apply seqb_eq in E2.
Qed.

(* a multi-tenant provider (storage keys depend on the issuer of the call): an
   answer with claims is justified by a key of the storage keys of THAT call's
   issuer; the other calls of the list - earlier, later or overlapping - are no
   input of it *)
Theorem tenant_own_keys : forall verify (hint : bool) allowed c c' alg,
  outcome_claims (run_verifier verify (if hint then VIDTokenHint else VAccessToken)
                    (tenant_verifier allowed c) (KSOpenID (tc_keys c)) (tc_tok c) (tc_mid c) (tc_now0 c))
  = Some (c', alg) ->
  exists bytes e key keys,
    tc_mid c = MidOk bytes c' /\ c_iss c' = tc_issuer c
    /\ tc_keys c = Some keys /\ In key keys
    /\ tok_sigs (tc_tok c) = [e] /\ verify key e bytes = true.
Proof.
  intros verify hint allowed c c' alg H.
  pose proof (hint_at_issuer _ _ _ _ _ _ _ _ _ H) as Hi. cbn [tenant_verifier v_issuer] in Hi.
  apply payload_binding in H as [bytes [c0 [e [key [H1 [H2 [H3 [H4 [H5 [H6 [H7 H8]]]]]]]]]]].
  assert (c' = c0) by (destruct hint; exact H2). subst c0.
  assert (Hk : exists keys, tc_keys c = Some keys /\ In key keys).
  { destruct hint; cbn [verifier_keyset ks_keys] in H6; destruct (tc_keys c) as [keys|]; try contradiction;
      exists keys; now split. }
  destruct Hk as [keys [Hk1 Hk2]].
  exists bytes, e, key, keys. repeat split; assumption.
Qed.

(* a provider's id_token_hint verifier believes a hint only under a key of the
   key set configured for hints (WithIDTokenHintKeySet, else the storage keys) -
   never under the access-token key set, and vice versa *)
Theorem provider_own_keyset : forall verify p hint t m now c' alg,
  outcome_claims (run_provider_verifier verify p hint t m now) = Some (c', alg) ->
  exists bytes e key,
    m = MidOk bytes c'
    /\ tok_sigs t = [e] /\ tok_payload t = Some bytes
    /\ string_in (se_alg e) (effective_algs (if hint then p_hint_algs p else p_at_algs p)) = true
    /\ In key (ks_keys (match (if hint then p_hint_keyset p else p_at_keyset p) with
                        | Some k => k | None => KSOpenID (p_storage_keys p) end))
    /\ verify key e bytes = true.
Proof.
  intros verify p hint t m now c' alg H. unfold run_provider_verifier in H.
  apply payload_binding in H as [bytes [c [e [key [H1 [H2 [H3 [H4 [H5 [H6 [H7 H8]]]]]]]]]]].
  exists bytes, e, key. destruct hint; cbn in *; subst; repeat split; assumption.
Qed.

(* ---------- one provider, several calls ---------- *)
(* what justifies claims handed back at a step of kind k: the key set and
   allow-list configured for THAT kind; for an assertion the key the storage has
   registered for (the issuer the assertion names, kid of its header) *)
Definition step_justified (verify : jwk -> sigentry -> string -> bool) (p : provider)
           (store : list (string * string * jwk)) (s : pstep) (c' : claims) : Prop :=
  exists bytes e key,
    ps_mid s = MidOk bytes c' /\ tok_sigs (ps_tok s) = [e] /\ tok_payload (ps_tok s) = Some bytes
    /\ verify key e bytes = true
    /\ match ps_kind s with
       | PAssertion => In (c_iss c', se_kid e, key) store /\ c_sub c' = c_iss c'
       | PAccess =>
           string_in (se_alg e) (effective_algs (p_at_algs p)) = true
           /\ In key (ks_keys (match p_at_keyset p with Some k => k | None => KSOpenID (p_storage_keys p) end))
       | PHint =>
           string_in (se_alg e) (effective_algs (p_hint_algs p)) = true
           /\ In key (ks_keys (match p_hint_keyset p with Some k => k | None => KSOpenID (p_storage_keys p) end))
       end.

Lemma assertion_registered_key : forall verify v store t m now c' alg,
  outcome_claims (run_verifier verify (VJWTAssertion false) v (KSProfile "" store) t m now) = Some (c', alg) ->
  exists bytes e key,
    m = MidOk bytes c' /\ tok_sigs t = [e] /\ tok_payload t = Some bytes
    /\ verify key e bytes = true /\ In (c_iss c', se_kid e, key) store /\ c_sub c' = c_iss c'.
Proof.
  intros verify v store t m now c' alg H. pose proof H as H0.
  apply payload_binding in H0 as [bytes [c [e [key [H1 [H2 [H3 [H4 [_ [_ [H7 H8]]]]]]]]]]].
  cbn [returned_claims] in H2. subst c m.
  cbn [verifier_keyset bind_profile trusted_key] in H7.
  apply existsb_exists in H7 as [[[cl kid] kk] [Hin Hx]]. cbn [fst snd] in Hx.
  apply andb_true_iff in Hx as [Hx Hk]. apply andb_true_iff in Hx as [Hc Hi].
  apply seqb_eq in Hc. apply seqb_eq in Hi. apply jwk_eqb_eq in Hk. subst cl kid kk.
  exists bytes, e, key. repeat split; try assumption.
  cbn [run_verifier] in H. unfold verify_jwt_assertion in H.
  repeat match type of H with
         | context [andthen (if ?b then None else Some ESubjectIssuer) _] =>
             destruct b eqn:Hsub; cbn [andthen outcome_claims] in H; [|discriminate]
         | context [andthen ?a _] => destruct a; cbn [andthen outcome_claims] in H; [discriminate|]
         end.
  cbn [orb] in Hsub. apply seqb_eq in Hsub. now symmetry.
Qed.

(* ONE provider, any sequence of calls to the verifiers it hands out: claims handed
   back at position n are justified by the configuration of the verifier kind of
   step n alone - no earlier step (a verifier of another kind handed out first, a
   key looked up for another client) is an input *)
Theorem provider_seq_justified : forall verify p store steps n s o c' alg,
  nth_error steps n = Some s ->
  nth_error (map (run_provider_step verify p store) steps) n = Some o ->
  outcome_claims o = Some (c', alg) ->
  step_justified verify p store s c'.
Proof.
  intros verify p store steps n s o c' alg Hs Ho Hc.
  rewrite nth_error_map, Hs in Ho. cbn in Ho. inversion Ho; subst o. clear Ho.
  unfold run_provider_step in Hc. unfold step_justified.
  destruct (ps_kind s) eqn:Hk.
  - apply (provider_own_keyset verify p false) in Hc as [bytes [e [key [H1 [H2 [H3 [H4 [H5 H6]]]]]]]].
    exists bytes, e, key. repeat split; assumption.
  - apply (provider_own_keyset verify p true) in Hc as [bytes [e [key [H1 [H2 [H3 [H4 [H5 H6]]]]]]]].
    exists bytes, e, key. repeat split; assumption.
  - apply assertion_registered_key in Hc as [bytes [e [key [H1 [H2 [H3 [H4 [H5 H6]]]]]]]].
    exists bytes, e, key. repeat split; assumption.
Qed.

(* ---------- one instance, several tokens: nothing carries over ---------- *)
(* A remote key set whose endpoint keeps serving the same list l is stateless as
   far as answers go: whether its cache is still empty or already holds l, every
   call is answered as by a fresh key set.  (What an instance verified earlier is
   no input of a later answer - no memo of verified signatures, no pinned key.) *)
Section Steady.
  Variable verify : jwk -> sigentry -> string -> bool.

  Lemma remote_verify_steady : forall l skip e p,
    remote_verify verify l (Some l) skip e p = remote_verify verify [] (Some l) skip e p.
  Proof.
    intros l skip e p. unfold remote_verify. destruct l as [|k0 l0] eqn:Hl; [reflexivity|]. rewrite <- Hl.
    cbn [remote_fetch_verify].
    destruct (find_matching_key (se_kid e) "sig" (se_alg e) l) as [k| |]; try reflexivity.
    cbn [verify_found]. destruct (verify k e p); [reflexivity|].
    destruct (remote_exact skip (k_id k) (se_kid e)); reflexivity.
  Qed.

  Lemma check_signature_steady : forall allowed l skip cached t parsed,
    cached = [] \/ cached = l ->
    check_signature verify allowed (KSRemote cached (Some l) skip) t parsed
    = check_signature verify allowed (KSRemote [] (Some l) skip) t parsed.
  Proof.
    intros allowed l skip cached t parsed [Hc|Hc]; subst cached; [reflexivity|].
    unfold check_signature.
    destruct (jose_parse (effective_algs allowed) t) as [| |sigs signed]; try reflexivity.
    destruct sigs as [|e [|e2 r]]; try reflexivity.
    cbn [keyset_verify]. now rewrite remote_verify_steady.
  Qed.

  Lemma remote_after_steady : forall allowed skip l cached t,
    cached = [] \/ cached = l ->
    fst (remote_after verify allowed skip cached (Some l) t) = []
    \/ fst (remote_after verify allowed skip cached (Some l) t) = l.
  Proof.
    intros allowed skip l cached t Hc. unfold remote_after.
    destruct (jose_parse (effective_algs allowed) t) as [| |[|e [|e2 r]] p]; cbn [fst]; try exact Hc.
    destruct (remote_needs_fetch verify cached skip e p); cbn [fst]; [now right | exact Hc].
  Qed.

  Theorem remote_steady_stateless : forall allowed skip l steps cached,
    cached = [] \/ cached = l ->
    Forall (fun s => rs_served s = Some l) steps ->
    map fst (remote_run verify allowed skip cached steps)
    = map (fun s => check_signature verify allowed (KSRemote [] (Some l) skip) (rs_tok s) (rs_parsed s)) steps.
  Proof.
    intros allowed skip l steps. induction steps as [|s r IH]; intros cached Hc Hs; [reflexivity|].
    inversion Hs as [|? ? Hs1 Hsr]; subst. cbn [remote_run map fst]. rewrite Hs1.
    rewrite (check_signature_steady allowed l skip cached _ _ Hc). f_equal.
    apply IH; [|assumption]. now apply remote_after_steady.
  Qed.

  (* the same for each of the five verifiers standing on such a key set *)
  Theorem verifier_steady : forall k v l skip t m now,
    run_verifier verify k v (KSRemote l (Some l) skip) t m now
    = run_verifier verify k v (KSRemote [] (Some l) skip) t m now.
  Proof.
    intros k v l skip t m now.
    assert (E : forall allowed parsed,
               check_signature verify allowed (KSRemote l (Some l) skip) t parsed
               = check_signature verify allowed (KSRemote [] (Some l) skip) t parsed)
      by (intros; apply check_signature_steady; now right).
    destruct k as [| | |dg|a]; cbn [run_verifier];
      unfold verify_id_token, verify_access_token, verify_id_token_hint, verify_jwt_assertion, parse_request_object;
      destruct m as [| | | |bytes c]; try reflexivity; cbn [bind_profile]; now rewrite E.
  Qed.
End Steady.

(* Under the symbolic reading of signature values (a value verifies only under
   the key material, algorithm, protected header bytes and payload bytes it was
   made for) an accepted token carries a signature made for exactly ITS header
   and ITS payload: a signature segment lifted from another - however often
   verified - token onto a different payload or header is never believed. *)
Lemma sym_verify_binds : forall k e p,
  sym_verify k e p = true -> se_sig e = SigBy (k_mat k) (se_alg e) (se_prot e) p.
Proof.
  intros k e p H. unfold sym_verify in H. destruct (se_sig e) as [m a pr pl|]; [|discriminate].
  apply andb_true_iff in H as [H Hp]. apply andb_true_iff in H as [H Hr]. apply andb_true_iff in H as [Hm Ha].
  apply N.eqb_eq in Hm. apply seqb_eq in Ha. apply seqb_eq in Hr. apply seqb_eq in Hp. now subst.
Qed.

Theorem signature_not_transferable : forall allowed ks t parsed alg,
  check_signature sym_verify allowed ks t parsed = Ok alg ->
  exists e k,
    tok_sigs t = [e] /\ In k (ks_keys ks) /\ trusted_key ks e k = true
    /\ se_sig e = SigBy (k_mat k) alg (se_prot e) parsed.
Proof.
  intros allowed ks t parsed alg H.
  apply check_signature_sound in H as [e [k [H1 [H2 [H3 [H4 [H5 [H6 H7]]]]]]]].
  exists e, k. subst alg. repeat split; try assumption. now apply sym_verify_binds.
Qed.

Theorem verifier_signature_not_transferable : forall k v ks t m now c' alg,
  outcome_claims (run_verifier sym_verify k v ks t m now) = Some (c', alg) ->
  exists bytes c e key,
    m = MidOk bytes c /\ c' = returned_claims k c
    /\ tok_sigs t = [e] /\ In key (ks_keys (verifier_keyset k ks c))
    /\ se_sig e = SigBy (k_mat key) (se_alg e) (se_prot e) bytes.
Proof.
  intros k v ks t m now c' alg H.
  apply payload_binding in H as [bytes [c [e [key [H1 [H2 [H3 [H4 [H5 [H6 [H7 H8]]]]]]]]]]].
  exists bytes, c, e, key. repeat split; try assumption. now apply sym_verify_binds.
Qed.

(* ... at any position of any history of one remote key set instance (whatever it
   verified, downloaded or cached before) *)
Theorem remote_history_no_transfer : forall allowed skip steps cached n s alg f,
  nth_error steps n = Some s ->
  nth_error (remote_run sym_verify allowed skip cached steps) n = Some (Ok alg, f) ->
  exists e mat, tok_sigs (rs_tok s) = [e] /\ se_sig e = SigBy mat alg (se_prot e) (rs_parsed s).
Proof.
  intros allowed skip steps. induction steps as [|s0 r IH]; intros cached n s alg f Hs Hr.
  - destruct n; discriminate.
  - destruct n as [|n]; cbn [nth_error remote_run] in *.
    + inversion Hs; subst s0. inversion Hr as [[Hc Hf]].
      apply signature_not_transferable in Hc as [e [k [H1 [_ [_ H4]]]]]. now exists e, (k_mat k).
    + eapply IH; eassumption.
Qed.

Theorem replayed_signature_rejected : forall allowed skip steps cached n s e mat a pr pl res f,
  nth_error steps n = Some s ->
  tok_sigs (rs_tok s) = [e] -> se_sig e = SigBy mat a pr pl ->
  pr <> se_prot e \/ pl <> rs_parsed s ->
  nth_error (remote_run sym_verify allowed skip cached steps) n = Some (res, f) ->
  exists er, res = Err er.
Proof.
  intros allowed skip steps cached n s e mat a pr pl res f Hs He Hsig Hne Hr.
  destruct res as [alg|er]; [|now exists er]. exfalso.
  destruct (remote_history_no_transfer _ _ _ _ _ _ _ _ Hs Hr) as [e' [mat' [He' Hsig']]].
  rewrite He in He'. inversion He'; subst e'. rewrite Hsig in Hsig'. inversion Hsig'; subst.
  destruct Hne as [Hne|Hne]; now apply Hne.
Qed.

(* ---------- non-vacuity: concrete inputs meeting the theorems' hypotheses ---------- *)
Definition ex_key : jwk := mkJwk "k1" "sig" KRsa 0.
Definition ex_key2 : jwk := mkJwk "" "" KRsa 1.
Definition ex_entry : sigentry := mkSig "RS256" "k1" "{""alg"":""RS256""}" (SigBy 0 "RS256" "{""alg"":""RS256""}" "P").
Definition ex_claims : claims := mkClaims "iss" "sub" ["c"] "" 2000000000 1700000000 0 "" "" "" "" "" "".
Definition ex_verifier : verifier := mkVerifier "iss" "c" 0 0 0 None None [].

Example check_signature_nonvacuous :
  check_signature sym_verify [] (KSOpenID (Some [ex_key])) (TCompact ex_entry "P") "P" = Ok "RS256".
Proof. vm_compute. reflexivity. Qed.

Example find_key_sound_nonvacuous :
  find_matching_key "" "sig" "RS256" [ex_key2] = FOk ex_key2 /\ exact_kid "" ex_key2 = false.
Proof. vm_compute. split; reflexivity. Qed.

Example find_key_ambiguous_nonvacuous :
  exact_keys "" "sig" "RS256" [ex_key; ex_key2] = []
  /\ 2 <= List.length (loose_keys "" "sig" "RS256" [ex_key; ex_key2]).
Proof. vm_compute. split; [reflexivity | apply le_n]. Qed.

Example each_verifier_nonvacuous :
  outcome_claims (run_verifier sym_verify VIDTokenHint ex_verifier (KSOpenID (Some [ex_key]))
                               (TCompact ex_entry "P") (MidOk "P" ex_claims) 1900000000000000000)
  = Some (ex_claims, "RS256").
Proof. vm_compute. reflexivity. Qed.

(* the expired-hint path still hands back claims *)
Example each_verifier_expired_nonvacuous :
  run_verifier sym_verify VIDTokenHint ex_verifier (KSOpenID (Some [ex_key]))
               (TCompact ex_entry "P") (MidOk "P" ex_claims) 2100000000000000000
  = AcceptExpired ex_claims "RS256" EExpired.
Proof. vm_compute. reflexivity. Qed.

(* a genuine token, then its signature on another payload: accepted, rejected *)
Example replay_nonvacuous :
  map fst (remote_run sym_verify [] false []
     [mkRStep (Some [ex_key]) (TCompact ex_entry "P") "P";
      mkRStep (Some [ex_key]) (TCompact ex_entry "EVIL") "EVIL"])
  = [Ok "RS256"; Err ESigInvalid].
Proof. vm_compute. reflexivity. Qed.

Example smuggling_nonvacuous :
  run_verifier sym_verify VAccessToken ex_verifier (KSOpenID (Some [ex_key]))
               (TJson [ex_entry] "P") (MidOk "EVIL" ex_claims) 1900000000000000000
  = Reject ESigPayload.
Proof. vm_compute. reflexivity. Qed.

(* ---------- round 11: whose request object, and the storage key set ---------- *)
Definition ex_evil_key : jwk := mkJwk "k1" "sig" KRsa 1.
Definition ex_evil_entry : sigentry := mkSig "RS256" "k1" "{""alg"":""RS256""}" (SigBy 1 "RS256" "{""alg"":""RS256""}" "P").
Definition ex_store : list (string * string * jwk) := [("victim", "k1", ex_key); ("evil", "k1", ex_evil_key)].
Definition ex_ro (iss cid : string) : claims := mkClaims iss "" ["op"] "" 0 0 0 "n" "" "" cid "code" "st".
Definition ex_authreq : authreq := mkAuthReq "victim" "code" "n0" "s0".
Definition ex_op : verifier := mkVerifier "op" "" 0 0 0 None None [].

(* the victim's own object is believed; an object naming client "evil" as issuer
   (no client_id claim) and signed with evil's registered key is not; the guard holds *)
Example request_object_nonvacuous :
  run_verifier sym_verify (VRequestObject ex_authreq) ex_op (KSProfile "" ex_store)
               (TCompact ex_entry "P") (MidOk "P" (ex_ro "victim" "victim")) 0
  = Accept (ro_project ex_authreq (ex_ro "victim" "victim")) ""
  /\ run_verifier sym_verify (VRequestObject ex_authreq) ex_op (KSProfile "" ex_store)
               (TCompact ex_evil_entry "P") (MidOk "P" (ex_ro "evil" "")) 0
  = Reject EReq
  /\ wf (IVerify (VRequestObject ex_authreq) ex_op (KSProfile "" ex_store)
                 (TCompact ex_evil_entry "P") (MidOk "P" (ex_ro "evil" "")) 0 0) = true
  /\ spec (IVerify (VRequestObject ex_authreq) ex_op (KSProfile "" ex_store)
                   (TCompact ex_evil_entry "P") (MidOk "P" (ex_ro "evil" "")) 0 0)
          (OVerify (Accept (ro_project ex_authreq (ex_ro "evil" "")) "")) = false.
Proof. vm_compute. repeat split; reflexivity. Qed.

(* a token WITHOUT key id, the storage answers the kid-less lookup with the
   client's key, which carries its own id "key-1": accepted; a foreign key: rejected *)
Definition ex_kidless : sigentry := mkSig "RS256" "" "{""alg"":""RS256""}" (SigBy 0 "RS256" "{""alg"":""RS256""}" "P").
Definition ex_kidless_foreign : sigentry := mkSig "RS256" "" "{""alg"":""RS256""}" (SigBy 1 "RS256" "{""alg"":""RS256""}" "P").
Example profile_keyset_nonvacuous :
  check_signature sym_verify [] (KSProfile "svc" [("svc", "", mkJwk "key-1" "sig" KRsa 0)]) (TCompact ex_kidless "P") "P" = Ok "RS256"
  /\ check_signature sym_verify [] (KSProfile "svc" [("svc", "", mkJwk "key-1" "sig" KRsa 0)]) (TCompact ex_kidless_foreign "P") "P" = Err ESigInvalid
  /\ spec (IProfileSig (KSProfile "svc" [("svc", "", mkJwk "key-1" "sig" KRsa 0)]) (TCompact ex_kidless "P") "P") (OSig (Err ESigInvalid)) = false.
Proof. vm_compute. repeat split; reflexivity. Qed.

(* the symbolic oracle meets the hypothesis of profile_key_id_no_input *)
Example key_id_no_input_nonvacuous : forall k id e q,
  sym_verify (mkJwk id (k_use k) (k_ty k) (k_mat k)) e q = sym_verify k e q.
Proof. intros k id e q. reflexivity. Qed.

(* one provider whose hint key set and access-token key set differ: a hint signed
   by the hint key is accepted, then an access token signed by that same key is
   rejected; client svc2 (kid "a") authenticates, then an assertion naming client
   svc under kid "2a" signed with svc2's key is rejected *)
Definition ex_prov : provider :=
  mkProvider "iss" (Some [ex_key]) None (Some (KSOpenID (Some [ex_evil_key]))) [] [].
Definition ex_assert (who : string) : claims := mkClaims who who ["iss"] "" 2000000000 1899999990 0 "" "" "" "" "" "".
Definition ex_sig (kid : string) (mat : N) : sigentry :=
  mkSig "RS256" kid "{""alg"":""RS256""}" (SigBy mat "RS256" "{""alg"":""RS256""}" "P").
Example provider_seq_nonvacuous :
  map (run_provider_step sym_verify ex_prov [("svc2", "a", mkJwk "a" "sig" KRsa 1)])
      [mkPStep PHint (TCompact ex_evil_entry "P") (MidOk "P" ex_claims) 1900000000000000000 0;
       mkPStep PAccess (TCompact ex_evil_entry "P") (MidOk "P" ex_claims) 1900000000000000000 0;
       mkPStep PAssertion (TCompact (ex_sig "a" 1) "P") (MidOk "P" (ex_assert "svc2")) 1900000000000000000 0;
       mkPStep PAssertion (TCompact (ex_sig "2a" 1) "P") (MidOk "P" (ex_assert "svc")) 1900000000000000000 0]
  = [Accept ex_claims "RS256"; Reject ESigInvalid; Accept (ex_assert "svc2") ""; Reject ESigInvalid].
Proof. vm_compute. reflexivity. Qed.
