(* C09 layer (c'): client authentication by client_assertion on every endpoint that accepts client
   credentials, both routers, private_key_jwt enabled or not.
     pkg/op/token_code.go AuthorizeCodeClient, token_refresh.go AuthorizeRefreshClient,
     token_request.go AuthorizePrivateJWTKey, client.go ClientIDFromRequest / ClientJWTAuth,
     token_revocation.go ParseTokenRevocationRequest, device.go deviceAccessToken / deviceClientAuthenticated,
     token_intospection.go, token_client_credentials.go, token_exchange.go (assertion ignored),
     server_http.go parseClientCredentials / withClient / introspectionHandler,
     server_legacy.go VerifyClient / authenticateResourceClient.
   op.VerifyJWTAssertion returns (nil, err) for every assertion that does not verify; the three functions that
   call it must return before they read the profile. *)
From OIDC Require Import Lib C09_Handler.

Inductive atype := ATJwt | ATAbsent | ATWrong.   (* client_assertion_type: jwt-bearer / absent or empty / another value *)

Inductive akind :=
| AAbsent     (* no client_assertion (or an empty one) *)
| AValid      (* verifies; issuer = a client registered for private_key_jwt *)
| APreFail    (* fails before the key lookup: not a JWT, payload null / {} / array, expired, wrong audience, iss <> sub ... *)
| AKeyFail.   (* fails at the key lookup / signature: unknown issuer, unknown key id, foreign key, broken signature *)

(* The rest of the request is valid: live code / refresh token / device code / token of the client that
   authenticates (the private_key_jwt client when the assertion is valid, else the Basic client).
   au_basic: valid Basic credentials of a client_secret_basic client are sent as well. *)
Record ashape := {
  au_entry : entry; au_ep : endpoint; au_pkjwt : bool;
  au_type : atype; au_assert : akind; au_basic : bool }.

Definition is_jwt (t : atype) : bool := match t with ATJwt => true | _ => false end.
Definition sent (a : akind) : bool := match a with AAbsent => false | _ => true end.
Definition verifies (a : akind) : bool := match a with AValid => true | _ => false end.

(* the three callers of VerifyJWTAssertion *)
Inductive asite := SPrivateJWTKey | SClientJWTAuth | SRevocation.

Section Auth.
  (* [aret s]: the caller at site s returns when VerifyJWTAssertion reports an error *)
  Variable aret : asite -> bool.

  Definition verify_assertion (s : asite) (a : akind) (st : nat) (c : errcode) : list check :=
    [if verifies a then CPass else CFail st c (aret s); CDeref (verifies a)].

  Definition provider_auth (a : ashape) : list check :=
    let P := au_pkjwt a in
    let J := is_jwt (au_type a) in
    let ne := sent (au_assert a) in
    let B := au_basic a in
    match au_ep a with
    | ECode =>
        if J then chk P 401 EInvalidClient :: verify_assertion SPrivateJWTKey (au_assert a) 400 EServerError
        else [chk B 401 EInvalidClient]                      (* GetClientByClientID("") *)
    | ERefresh =>
        if J then chk P 400 EServerError :: verify_assertion SPrivateJWTKey (au_assert a) 400 EServerError
        else [chk B 400 EServerError]
    | EClientCred | ETokenExchange => [chk B 401 EInvalidClient]   (* the assertion is not looked at *)
    | EDeviceToken =>                                         (* ClientIDFromRequest, then deviceClientAuthenticated *)
        if ne then verify_assertion SClientJWTAuth (au_assert a) 400 EUnauthorizedClient ++ [chk P 401 EInvalidClient]
        else [chk B 401 EInvalidClient]
    | EDeviceAuthz =>
        if ne then verify_assertion SClientJWTAuth (au_assert a) 400 EUnauthorizedClient
        else [chk B 401 EInvalidClient]
    | EIntrospect =>
        if ne then verify_assertion SClientJWTAuth (au_assert a) 401 ENoCode
        else [chk B 401 ENoCode]
    | ERevoke =>
        if J then chk P 401 EInvalidClient :: verify_assertion SRevocation (au_assert a) 500 EServerError
        else [chk B 401 EInvalidClient]
    | _ => []
    end.

  Definition legacy_auth (a : ashape) : list check :=
    let P := au_pkjwt a in
    let J := is_jwt (au_type a) in
    let ne := sent (au_assert a) in
    let B := au_basic a in
    (* parseClientCredentials *)
    [chk (B || ne) 400 EInvalidRequest; chk (negb ne || J) 400 EInvalidRequest] ++
    match au_ep a with
    | EIntrospect =>
        chk (B || ne) 400 EInvalidClient ::
        (if ne then verify_assertion SClientJWTAuth (au_assert a) 400 EUnauthorizedClient else [])
    | EClientCred => [chk B 500 EServerError]                (* ClientCredentialsStorage.ClientCredentials(id, secret) *)
    | _ =>
        if J then chk P 400 EInvalidClient :: verify_assertion SPrivateJWTKey (au_assert a) 500 EServerError
        else []
    end.

  Definition achecks (a : ashape) : list check :=
    match au_entry a with
    | ViaLegacy => legacy_auth a
    | _ => provider_auth a
    end.

  Definition ahandler (a : ashape) : outcome := run (achecks a).
End Auth.

Definition accepts_credentials (e : endpoint) : bool :=
  match e with
  | ECode | ERefresh | EClientCred | ETokenExchange | EDeviceToken | ERevoke | EIntrospect | EDeviceAuthz => true
  | _ => false
  end.

(* what the driver generates: one of the eight endpoints; never a second credential next to a valid assertion *)
Definition ashape_wf (a : ashape) : bool :=
  accepts_credentials (au_ep a) && negb (verifies (au_assert a) && au_basic a)
  && match au_entry a with Direct => false | _ => true end.

Definition all_return (_ : asite) : bool := true.
Definition all_but (s : asite) (x : asite) : bool :=
  match s, x with
  | SPrivateJWTKey, SPrivateJWTKey | SClientJWTAuth, SClientJWTAuth | SRevocation, SRevocation => false
  | _, _ => true
  end.
