(* C07: refresh tokens stay bound to their client and can only narrow scope. *)
From OIDC Require Export C04_Hist.

Definition input := hinput.
Definition observed := hobserved.
Definition model : input -> observed := hmodel.

(* the property on what the implementation answered (C04_Ledger.c07_ok) *)
Definition spec (i : input) (o : observed) : bool :=
  match o with
  | Obs xs => check (c07_ok (i_cfg i)) ledger0 (i_ops i) xs
  end.

Definition obs_eqb := hobs_eqb.
Definition path := hpath.

Definition case_mismatches := run_mismatches model obs_eqb.
Definition case_violations := run_violations spec.
Definition case_paths := run_paths model path.
