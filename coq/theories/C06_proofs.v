(* C06 proofs, part 1: the opaque-token round trip and acceptance of the issued
   JWTs by the verifier models of C01/C02 (abstract signature oracle and hash). *)
From OIDC Require Import Lib Base64 Base64_proofs Cipher Cipher_proofs
     C02_Jws C01_Verifier C02_Verifiers C06_Token C06_spec.
From Coq Require Import ZifyBool ZifyNat ZifyN.
Ltac Zify.zify_post_hook ::= Z.div_mod_to_equations.

(* ---------------- strings and bytes ---------------- *)
Lemma bytes_of_bytes s : all_bytesP (bytes_of s).
Proof.
  induction s as [|a r IH]; cbn; constructor; [|exact IH].
  apply nat_ascii_bounded.
Qed.

Lemma bs_nat_bytes_of s : bs_nat (bytes_of s) = s.
Proof.
  induction s as [|a r IH]; cbn; [reflexivity|]. now rewrite ascii_nat_embedding, IH.
Qed.

Fixpoint no_colon (s : string) : bool :=
  match s with
  | EmptyString => true
  | String a r => negb (Ascii.eqb a ":"%char) && no_colon r
  end.

Lemma read_bearer_plain tid sub :
  no_colon tid = true -> read_bearer (bearer_plain tid sub) = Some (tid, sub).
Proof.
  unfold bearer_plain. induction tid as [|a r IH]; intro H; [reflexivity|].
  cbn [no_colon] in H. apply andb_true_iff in H as [Ha Hr]. apply negb_true_iff in Ha.
  change (String a r ++ ":" ++ sub)%string with (String a (r ++ ":" ++ sub)%string).
  cbn [read_bearer]. rewrite Ha. now rewrite (IH Hr).
Qed.

Section Roundtrip.
  Variable E : list nat -> list nat.
  Hypothesis E_len : forall b, List.length (E b) = 16.
  Hypothesis E_bytes : forall b, all_bytesP (E b).

  Lemma open_mk_bearer iv tid sub :
    List.length iv = 16 -> all_bytesP iv ->
    open E (mk_bearer E iv tid sub) = Some (bytes_of (bearer_plain tid sub)).
  Proof.
    intros Hl Hb. unfold mk_bearer. apply open_seal; auto using bytes_of_bytes.
  Qed.

  (* the provider reads back exactly (token id, subject), whatever the subject *)
  Theorem opaque_roundtrip iv tid sub :
    List.length iv = 16 -> all_bytesP iv -> no_colon tid = true ->
    reader E (mk_bearer E iv tid sub) = Some (tid, sub).
  Proof.
    intros Hl Hb Hc. unfold reader. rewrite open_mk_bearer by assumption.
    rewrite bs_nat_bytes_of. now apply read_bearer_plain.
  Qed.
End Roundtrip.

(* ---------------- acceptance by the verifiers ---------------- *)
Lemma eqb_refl_s s : (s =s s) = true.
Proof. apply String.eqb_refl. Qed.

Lemma eqb_eq_s a b : (a =s b) = true <-> a = b.
Proof. apply String.eqb_eq. Qed.

Lemma eqb_neq_s a b : (a =s b) = false <-> a <> b.
Proof. apply String.eqb_neq. Qed.

Section Accept.
  Variable verify : jwk -> sigentry -> string -> bool.
  Variable H : hkind -> string -> list nat.

  (* the oracle accepts what key k signed, under k's public key however it is
     labelled in a key set (completeness of the signature scheme) *)
  Definition sign_complete (k : sigkey) : Prop :=
    forall pk, k_mat pk = sk_mat k ->
      verify pk (mkSig (sk_alg k) (sk_kid k) "H" (SigBy (sk_mat k) (sk_alg k) "H" "P")) "P" = true.

  Definition key_ok (k : sigkey) : bool :=
    negb (sk_kid k =s "") && alg_fits (sk_ty k) (sk_alg k).

  (* FindMatchingKey returns the first usable key with exactly this kid *)
  Definition exact_cand (kid alg : string) (x : jwk) : bool :=
    candidate "sig" alg x && exact_kid kid x.

  Lemma find_scan_exact kid alg x : forall keys valid,
    filter (exact_cand kid alg) keys = [x] -> find_scan kid "sig" alg keys valid = FOk x.
  Proof.
    induction keys as [|y r IH]; intros valid Hf; [discriminate|].
    cbn [filter] in Hf. unfold exact_cand in Hf at 1. cbn [find_scan].
    destruct (candidate "sig" alg y); cbn [andb] in Hf.
    - destruct (exact_kid kid y).
      + (* y is the first exact candidate, hence x *) now inversion Hf.
      + destruct (loose_kid kid y); now apply IH.
    - now apply IH.
  Qed.

  (* key types are determined by the algorithm *)
  Lemma alg_fits_kty t t' alg : alg_fits t alg = true -> alg_fits t' alg = kty_eqb t' t.
  Proof.
    unfold alg_fits.
    destruct (prefix "RS" alg || prefix "PS" alg); [destruct t, t'; try discriminate; reflexivity|].
    destruct (prefix "ES" alg); [destruct t, t'; try discriminate; reflexivity|].
    destruct (alg =s "EdDSA"); [destruct t, t'; try discriminate; reflexivity|]. discriminate.
  Qed.

  Lemma published_once_find k keys :
    key_ok k = true -> published_once k keys = true ->
    exists pk, find_matching_key (sk_kid k) "sig" (sk_alg k) keys = FOk pk /\ k_mat pk = sk_mat k.
  Proof.
    intros Hk Hp. apply andb_true_iff in Hk as [Hkid Hfit]. apply negb_true_iff in Hkid.
    unfold published_once in Hp.
    assert (Hext : forall x, ((k_id x =s sk_kid k) && ((k_use x =s "sig") || (k_use x =s ""))
                               && kty_eqb (k_ty x) (sk_ty k))
                             = exact_cand (sk_kid k) (sk_alg k) x).
    { intro x. unfold exact_cand, candidate, use_ok, exact_kid.
      rewrite (alg_fits_kty _ (k_ty x) _ Hfit), Hkid. cbn [negb].
      destruct (k_id x =s sk_kid k), (k_use x =s "sig"), (k_use x =s ""), (kty_eqb (k_ty x) (sk_ty k)); reflexivity. }
    rewrite (filter_ext _ _ Hext) in Hp.
    destruct (filter (exact_cand (sk_kid k) (sk_alg k)) keys) as [|x [|? ?]] eqn:Ef; try discriminate.
    exists x. split; [|now apply N.eqb_eq]. unfold find_matching_key. now apply find_scan_exact.
  Qed.

  Lemma check_signature_issued k keys algs :
    sign_complete k -> key_ok k = true -> published_once k keys = true ->
    string_in (sk_alg k) (effective_algs algs) = true ->
    check_signature verify algs (KSOpenID (Some (served_keys keys)))
                    (sym_token (sign_desc k)) "P" = Ok (sk_alg k).
  Proof.
    intros Hs Hk Hp Ha.
    destruct (published_once_find k keys Hk Hp) as (pk & Hfind & Hmat).
    unfold check_signature, sym_token, sign_desc, jose_parse. cbn [j_alg j_kid j_mat se_alg].
    rewrite Ha. unfold served_keys. cbn [keyset_verify openid_verify se_kid se_alg].
    rewrite Hfind. cbn [verify_found]. rewrite (Hs pk Hmat). reflexivity.
  Qed.

  Lemma round_s_ge m x : (m * ns <= x)%Z -> (m * ns <= round_s x)%Z.
  Proof. unfold round_s, ns. intro Hx. lia. Qed.

  (* rp.VerifyIDToken accepts claims c signed by k *)
  Lemma verify_id_accepts v k keys (c : claims) vnow :
    sign_complete k -> key_ok k = true -> published_once k keys = true ->
    string_in (sk_alg k) (effective_algs (v_algs v)) = true ->
    c_sub c <> "" -> c_iss c = v_issuer v ->
    string_in (v_client v) (c_aud c) = true ->
    c_azp c = v_client v -> v_client v <> "" ->
    (0 <= vnow + v_offset v)%Z ->
    (vnow + v_offset v < c_exp c * ns)%Z ->
    (0 < c_iat c)%Z -> (c_iat c * ns <= vnow + v_offset v)%Z ->
    v_max_iat v = 0%Z -> v_max_age v = 0%Z ->
    (match v_nonce v with None => True | Some n => c_nonce c = n end) ->
    (match v_acr v with None => True | Some l => string_in (c_acr c) l = true end) ->
    verify_id_token verify v (KSOpenID (Some (served_keys keys)))
                    (sym_token (sign_desc k)) (MidOk "P" c) vnow = Accept c (sk_alg k).
  Proof.
    intros Hs Hk Hp Ha Hsub Hiss Haud Hazp Hcl H0 Hexp Hiat0 Hiat Hmi Hma Hn Hacr.
    unfold verify_id_token.
    unfold chk_subject. apply eqb_neq_s in Hsub. rewrite Hsub. cbn [andthen].
    unfold chk_issuer. rewrite Hiss, eqb_refl_s. cbn [andthen].
    unfold chk_audience. rewrite Haud. cbn [andthen].
    unfold chk_azp. rewrite Hazp. apply eqb_neq_s in Hcl. rewrite Hcl, eqb_refl_s.
    rewrite andb_false_r. cbn [negb andb andthen].
    rewrite (check_signature_issued k keys (v_algs v) Hs Hk Hp Ha).
    unfold chk_expiration, instant.
    assert (Hexp0 : Z.eqb (c_exp c) 0 = false) by (apply Z.eqb_neq; unfold ns in *; lia).
    rewrite Hexp0. apply Z.ltb_lt in Hexp. rewrite Hexp. cbn [andthen].
    unfold chk_issued_at, is_zero_time, instant.
    assert (Hi0 : Z.eqb (c_iat c) 0 = false) by (apply Z.eqb_neq; lia). rewrite Hi0.
    assert (Hz : Z.eqb (c_iat c * ns) (zero_unix * ns) = false)
      by (apply Z.eqb_neq; unfold zero_unix, ns; lia).
    rewrite Hz.
    assert (Hr : Z.ltb (round_s (vnow + v_offset v)) (c_iat c * ns) = false).
    { apply Z.ltb_ge. now apply round_s_ge. }
    rewrite Hr, Hmi. cbn [Z.eqb andthen].
    unfold chk_nonce. destruct (v_nonce v) as [n|].
    - rewrite Hn, eqb_refl_s. cbn [andthen].
      unfold chk_acr. destruct (v_acr v) as [l|]; [rewrite Hacr|]; cbn [andthen];
        unfold chk_auth_time; rewrite Hma; reflexivity.
    - cbn [andthen].
      unfold chk_acr. destruct (v_acr v) as [l|]; [rewrite Hacr|]; cbn [andthen];
        unfold chk_auth_time; rewrite Hma; reflexivity.
  Qed.

  (* rp.VerifyTokens: additionally at_hash, computed over exactly this access token *)
  Lemma verify_tokens_accepts v k keys (c : claims) access vnow :
    verify_id_token verify v (KSOpenID (Some (served_keys keys)))
                    (sym_token (sign_desc k)) (MidOk "P" c) vnow = Accept c (sk_alg k) ->
    c_at_hash c = (if access =s "" then "" else claim_hash H (sk_alg k) access) ->
    hash_of_alg (sk_alg k) <> None ->
    verify_tokens verify H v (KSOpenID (Some (served_keys keys)))
                  (sym_token (sign_desc k)) (MidOk "P" c) access vnow = Accept c (sk_alg k).
  Proof.
    intros Hv Hh Hk. unfold verify_tokens. rewrite Hv. unfold chk_at_hash. rewrite Hh.
    destruct (access =s "") eqn:Ea; [reflexivity|].
    unfold claim_hash. destruct (hash_of_alg (sk_alg k)) as [hk|]; [|congruence].
    destruct (b64_encode (left_half (H hk access)) =s "") eqn:Eh; [reflexivity|].
    now rewrite eqb_refl_s.
  Qed.

  (* op.VerifyAccessToken accepts a JWT access token signed by k *)
  Lemma verify_access_accepts issuer algs k keys (c : claims) vnow :
    sign_complete k -> key_ok k = true -> published_once k keys = true ->
    string_in (sk_alg k) (effective_algs algs) = true ->
    c_iss c = issuer -> (0 <= vnow)%Z -> (vnow < c_exp c * ns)%Z ->
    verify_access_token verify (mkVerifier issuer "" 0 0 0 None None algs)
                        (KSOpenID (Some (served_keys keys)))
                        (sym_token (sign_desc k)) (MidOk "P" c) vnow = Accept c (sk_alg k).
  Proof. clear H.
    intros Hs Hk Hp Ha Hiss H0 Hexp. unfold verify_access_token. cbn [v_issuer v_algs v_offset].
    unfold chk_issuer. rewrite Hiss, eqb_refl_s. cbn [andthen].
    rewrite (check_signature_issued k keys algs Hs Hk Hp Ha).
    unfold chk_expiration, instant.
    assert (Hexp0 : Z.eqb (c_exp c) 0 = false) by (apply Z.eqb_neq; unfold ns in Hexp |- *; lia).
    rewrite Hexp0, Z.add_0_r. apply Z.ltb_lt in Hexp. now rewrite Hexp.
  Qed.
End Accept.

Lemma sym_sign_complete k : sign_complete sym_verify k.
Proof.
  unfold sign_complete, sym_verify. intros pk Hm. cbn. rewrite Hm. now rewrite N.eqb_refl, !eqb_refl_s.
Qed.
