(* C12, round 11: proofs about the extension model (C12_Ext.v). *)
From OIDC Require Import Lib C12_spec C12_Codec_proofs.

(* ---------- strings ---------- *)
Lemma sapp_assoc a b c :
  String.append (String.append a b) c = String.append a (String.append b c).
Proof. induction a as [| x r IH]; cbn; [reflexivity | now rewrite IH]. Qed.

Lemma sapp_nil_r a : String.append a "" = a.
Proof. induction a as [| x r IH]; cbn; [reflexivity | now rewrite IH]. Qed.

Lemma slen_app_single r c : String.length (String.append r (String c "")) = S (String.length r).
Proof. induction r as [| x r IH]; cbn; [reflexivity | now rewrite IH]. Qed.

Lemma aeqb_refl c : Ascii.eqb c c = true.
Proof. apply Ascii.eqb_eq. reflexivity. Qed.

Lemma ends_with_app c s : ends_with c (String.append s (String c "")) = true.
Proof.
  induction s as [| x r IH]; [cbn; apply aeqb_refl |].
  destruct r as [| y r']; [cbn; apply aeqb_refl |]. exact IH.
Qed.

Lemma set_last_app c d s :
  set_last c (String.append s (String d "")) = String.append s (String c "").
Proof.
  induction s as [| x r IH]; [reflexivity |].
  destruct r as [| y r']; [reflexivity |].
  change (String x (set_last c (String.append (String y r') (String d ""))) =
          String x (String.append (String y r') (String c ""))).
  now rewrite IH.
Qed.

(* ---------- ConcatenateJSON ---------- *)
Lemma join_comma_empty ms :
  forallb nonempty ms = true -> join_comma ms = "" -> ms = [].
Proof.
  destruct ms as [| x r]; [reflexivity |]. cbn [forallb]. intros H E. exfalso.
  apply andb_true_iff in H as [Hx _]. unfold nonempty in Hx.
  destruct x as [| c x']; [discriminate |].
  cbn in E. destruct r; cbn in E; discriminate.
Qed.

Lemma join_comma_app a b :
  a <> [] -> b <> [] ->
  join_comma (a ++ b) = String.append (join_comma a) (String ","%char (join_comma b)).
Proof.
  intros Ha Hb. induction a as [| x r IH]; [congruence |].
  destruct r as [| y r'].
  - cbn [app join_comma]. destruct b; [congruence | reflexivity].
  - change (join_comma ((x :: y :: r') ++ b)) with
      (String.append x (String ","%char (join_comma ((y :: r') ++ b)))).
    rewrite IH by discriminate.
    change (join_comma (x :: y :: r')) with (String.append x (String ","%char (join_comma (y :: r')))).
    rewrite sapp_assoc. reflexivity.
Qed.

Lemma render_len_two ms :
  forallb nonempty ms = true -> (String.length (render ms) =? 2) = match ms with [] => true | _ => false end.
Proof.
  intros H. unfold render. cbn [String.length]. rewrite slen_app_single.
  destruct ms as [| x r]; [reflexivity |].
  destruct (join_comma (x :: r)) as [| c j] eqn:E.
  - apply join_comma_empty in E; [discriminate | exact H].
  - reflexivity.
Qed.

(* byte splicing = appending the member lists *)
Theorem concat_members ms1 ms2 :
  forallb nonempty ms1 = true -> forallb nonempty ms2 = true ->
  fst (concat_json (render ms1) (render ms2)) = Some (render (ms1 ++ ms2)).
Proof.
  intros H1 H2. unfold concat_json.
  assert (He : ends_with "}"%char (render ms1) = true).
  { unfold render. change (String "{"%char (String.append (join_comma ms1) "}"))
      with (String.append (String "{"%char (join_comma ms1)) (String "}"%char "")). apply ends_with_app. }
  rewrite He. cbn [negb]. change (starts_with "{"%char (render ms2)) with true. cbn [negb].
  rewrite (render_len_two ms1 H1), (render_len_two ms2 H2).
  destruct ms1 as [| x1 r1]; [reflexivity |].
  destruct ms2 as [| x2 r2]; [now rewrite app_nil_r |].
  cbn [fst]. f_equal. unfold render at 1 2.
  change (String "{"%char (String.append (join_comma (x1 :: r1)) "}"))
    with (String.append (String "{"%char (join_comma (x1 :: r1))) (String "}"%char "")).
  rewrite set_last_app. cbn [tail]. unfold render.
  rewrite join_comma_app by discriminate.
  cbn [String.append]. f_equal. rewrite !sapp_assoc. reflexivity.
Qed.

Theorem concat_rejects a b :
  ends_with "}"%char a = false \/ starts_with "{"%char b = false ->
  concat_json a b = (None, a).
Proof.
  intros [H | H]; unfold concat_json; rewrite H; cbn [negb]; [reflexivity |].
  destruct (negb (ends_with "}"%char a)); reflexivity.
Qed.

Lemma overlay_app a b c : overlay (a ++ b) c = overlay b (overlay a c).
Proof. unfold overlay. apply fold_left_app. Qed.

(* a decoder that keeps the last of equal keys: the second object wins, the
   first one's other members survive, nothing else is there *)
Theorem concat_second_wins x y k :
  NoDup (keys x) -> NoDup (keys y) ->
  lookup k (members_obj (x ++ y)) =
  match lookup k y with Some v => Some v | None => lookup k x end.
Proof.
  intros Hx Hy. unfold members_obj. rewrite overlay_app.
  rewrite (lookup_overlay k y _ Hy). destruct (lookup k y); [reflexivity |].
  rewrite (lookup_overlay k x _ Hx). destruct (lookup k x); reflexivity.
Qed.

Lemma in_oremove k kv o : In kv (oremove k o) -> In kv o.
Proof.
  induction o as [| [k' v'] r IH]; cbn; [tauto |].
  destruct (String.eqb k k'); cbn; intuition.
Qed.

Lemma in_oinsert k v kv o : In kv (oinsert k v o) -> kv = (k, v) \/ In kv o.
Proof.
  induction o as [| [k' v'] r IH]; cbn; [intuition |].
  destruct (String.ltb k k'); cbn; intuition.
Qed.

Lemma in_overlay kv l : forall acc, In kv (overlay l acc) -> In kv l \/ In kv acc.
Proof.
  unfold overlay. induction l as [| [k v] r IH]; intros acc H; cbn in H; [now right |].
  apply IH in H as [H | H]; [left; now right |].
  unfold oset in H. cbn [fst snd] in H. apply in_oinsert in H as [H | H].
  - left. left. now symmetry.
  - right. eapply in_oremove, H.
Qed.

Lemma in_lookup_nodup k v o : NoDup (keys o) -> In (k, v) o -> lookup k o = Some v.
Proof.
  induction o as [| [k' v'] r IH]; cbn; [tauto |]. intros Hnd [H | H].
  - inversion H; subst. now rewrite seqb_refl.
  - inversion Hnd as [| ? ? Hni Hnd']; subst.
    destruct (String.eqb k k') eqn:E; [| now apply IH].
    apply seqb_eq in E. subst. exfalso. apply Hni. unfold keys.
    change k' with (fst (k', v)). apply in_map, H.
Qed.

Lemma lookup_in_keys k o v : lookup k o = Some v -> string_in k (keys o) = true.
Proof.
  induction o as [| [k' v'] r IH]; cbn; [discriminate |].
  destruct (String.eqb k k'); [reflexivity | exact IH].
Qed.

(* ---------- SpaceDelimitedArray: Value, then Scan ---------- *)
Lemma join_sp_two x y r : join_sp (x :: y :: r) <> "".
Proof. cbn. destruct x; discriminate. Qed.

Theorem sda_value_scan init l :
  forallb space_free l = true -> l <> [] -> l <> [""] ->
  sda_scan init (DStr (sda_value (Some l))) = (true, Some l) /\
  sda_scan init (DBytes (sda_value (Some l))) = (true, Some l).
Proof.
  intros Hsf Hne Hne'. unfold sda_scan, sda_value.
  assert (E : String.eqb (join_sp l) "" = false).
  { apply seqb_neq. destruct l as [| x [| y r]]; [congruence | | apply join_sp_two].
    cbn. intro; subst. congruence. }
  rewrite E, split_join by assumption. split; reflexivity.
Qed.

Theorem sda_value_scan_empty init l :
  l = None \/ l = Some [] \/ l = Some [""] ->
  sda_scan init (DStr (sda_value l)) = (true, Some []).
Proof. intros [-> | [-> | ->]]; reflexivity. Qed.

Theorem sda_scan_total init d :
  match d with
  | DNil => sda_scan init d = (true, None)
  | DStr s | DBytes s => exists l, sda_scan init d = (true, Some l) /\ (s = "" -> l = []) /\ (s <> "" -> join_sp l = s)
  | _ => sda_scan init d = (false, init)
  end.
Proof.
  assert (J : forall s, join_sp (split_sp s) = s).
  { induction s as [| c r IH]; [reflexivity |]. cbn [split_sp].
    destruct (split_sp r) as [| h t] eqn:Er; [now apply split_sp_nonempty in Er |].
    destruct (is_space c) eqn:Ec.
    - unfold is_space in Ec. apply Ascii.eqb_eq in Ec. subst c.
      change (join_sp ("" :: h :: t)) with (String " "%char (join_sp (h :: t))). now rewrite IH.
    - destruct t; cbn [join_sp] in *; cbn [String.append]; now rewrite IH. }
  destruct d; cbn [sda_scan]; try reflexivity.
  - destruct (String.eqb s "") eqn:E.
    + exists []. apply seqb_eq in E. subst. repeat split; congruence.
    + exists (split_sp s). apply seqb_neq in E. repeat split; [congruence | intros _; apply J].
  - destruct (String.eqb s "") eqn:E.
    + exists []. apply seqb_eq in E. subst. repeat split; congruence.
    + exists (split_sp s). apply seqb_neq in E. repeat split; [congruence | intros _; apply J].
Qed.

(* ---------- oidc.Time <-> time.Time ---------- *)
Theorem time_as_from ts :
  from_time (fst (as_time ts)) (snd (as_time ts)) = if (ts =? zero_sec)%Z then 0%Z else ts.
Proof.
  unfold as_time, from_time. destruct (ts =? 0)%Z eqn:E0; cbn [fst snd].
  - apply Z.eqb_eq in E0. subst. reflexivity.
  - rewrite andb_true_r. reflexivity.
Qed.

Theorem time_from_as s n :
  as_time (from_time s n) =
  if ((s =? zero_sec)%Z && (n =? 0)%Z) || (s =? 0)%Z then (zero_sec, 0%Z) else (s, 0%Z).
Proof.
  unfold as_time, from_time. destruct ((s =? zero_sec)%Z && (n =? 0)%Z); cbn [orb]; [reflexivity |].
  reflexivity.
Qed.

(* ---------- the enum codecs ---------- *)
Lemma in_range_cases e n :
  enum_in_range e n = true ->
  match e with EApp => n = 0 \/ n = 1 \/ n = 2 | ETok => n = 0 \/ n = 1 end%Z.
Proof. unfold enum_in_range, enum_count. destruct e; cbn; lia. Qed.

Theorem enum_roundtrip e n :
  enum_in_range e n = true -> enum_parse e (enum_string e n) = Some n.
Proof.
  intros H. pose proof (in_range_cases e n H) as C.
  destruct e; repeat destruct C as [C | C]; subst; reflexivity.
Qed.

Lemma enum_string_out e n :
  enum_in_range e n = false ->
  enum_string e n = String.append (enum_type e) (String.append "(" (String.append (z_dec n) ")")).
Proof. intros H. unfold enum_string. now rewrite H. Qed.

Theorem enum_out_of_range e n :
  enum_in_range e n = false ->
  enum_parse e (enum_string e n) = None /\ string_in (enum_string e n) (enum_names e) = false.
Proof.
  intros H. rewrite (enum_string_out e n H). destruct e; split; reflexivity.
Qed.

Theorem enum_parse_sound e s v :
  enum_parse e s = Some v ->
  enum_in_range e v = true /\ lower_norm s = lower_norm (enum_string e v).
Proof.
  unfold enum_parse. destruct e; cbn [enum_names find_name];
    repeat match goal with
           | |- context [String.eqb (lower_norm s) ?x] =>
               let E := fresh "E" in destruct (String.eqb (lower_norm s) x) eqn:E;
               [apply seqb_eq in E; intros Hv; inversion Hv; subst; split; [reflexivity | exact E] |]
           end; discriminate.
Qed.

Theorem enum_exact_name_accepted e s :
  string_in s (enum_names e) = true -> exists v, enum_parse e s = Some v /\ enum_string e v = s.
Proof.
  unfold string_in. destruct e; cbn [enum_names existsb];
    repeat match goal with
           | |- context [String.eqb s ?x] =>
               let E := fresh "E" in destruct (String.eqb s x) eqn:E;
               [apply seqb_eq in E; subst; intros _; eexists; split; reflexivity |]
           end; discriminate.
Qed.

(* what an Unmarshal* / Scan leaves in the destination *)
Theorem enum_unmarshal_outcome e init src :
  let r := enum_unmarshal e init src in
  if fst r then src = SScan DNil /\ snd r = init \/ enum_in_range e (snd r) = true
  else snd r = init \/ snd r = 0%Z.
Proof.
  assert (A : forall s, let r := assign_parse e s in
              if fst r then enum_in_range e (snd r) = true else snd r = 0%Z).
  { intros s. unfold assign_parse. destruct (enum_parse e s) eqn:E; cbn; [| reflexivity].
    now apply enum_parse_sound in E. }
  assert (B : forall s, let r := match enum_parse e s with Some v => (true, v) | None => (false, init) end in
              if fst r then enum_in_range e (snd r) = true else snd r = init).
  { intros s. destruct (enum_parse e s) eqn:E; cbn; [| reflexivity]. now apply enum_parse_sound in E. }
  destruct src as [s | s | [] s | d | d | j]; cbn [enum_unmarshal].
  - specialize (A s). cbn in A. destruct (fst (assign_parse e s)); auto.
  - specialize (A s). cbn in A. destruct (fst (assign_parse e s)); auto.
  - specialize (A s). cbn in A. destruct (fst (assign_parse e s)); auto.
  - cbn. auto.
  - destruct d; cbn; auto. specialize (A s). cbn in A. destruct (fst (assign_parse e s)); auto.
  - destruct d; cbn [fst snd]; auto; specialize (B s); cbn in B;
      destruct (enum_parse e s); cbn in *; auto.
  - destruct j; cbn [fst snd]; auto.
    + specialize (A ""). cbn in A. destruct (fst (assign_parse e "")); auto.
    + specialize (A s). cbn in A. destruct (fst (assign_parse e s)); auto.
Qed.

(* ---------- GetUserInfo ---------- *)
Lemma field_eqb_sound a b : field_eqb a b = true -> a = b.
Proof.
  destruct a as [n k o], b as [n' k' o']. unfold field_eqb. cbn [fname fkind fomit].
  intros H. apply andb_true_iff in H as [H Ho]. apply andb_true_iff in H as [Hn Hk].
  apply seqb_eq in Hn. apply Bool.eqb_prop in Ho. subst.
  destruct k, k'; try discriminate; reflexivity.
Qed.

Lemma userinfo_fields_in_id f : In f (schema_of TUserInfo) -> In f (schema_of TID).
Proof.
  assert (H : forallb (fun f => existsb (field_eqb f) (schema_of TID)) (schema_of TUserInfo) = true)
    by (vm_compute; reflexivity).
  intros Hin. rewrite forallb_forall in H. specialize (H f Hin).
  apply existsb_exists in H as [g [Hg E]]. apply field_eqb_sound in E. now subst.
Qed.

Lemma get_val_in sch : forall vals d f,
  List.length sch = List.length vals -> NoDup (map fname sch) -> In f sch ->
  In (f, get_val (fname f) sch vals d) (combine sch vals).
Proof.
  induction sch as [| a s IH]; intros [| v r] d f Hl Hnd Hin; cbn in Hl; try discriminate; [destruct Hin |].
  cbn [get_val combine]. inversion Hnd as [| ? ? Hni Hnd']; subst.
  destruct Hin as [-> | Hin].
  - rewrite seqb_refl. now left.
  - destruct (String.eqb (fname a) (fname f)) eqn:E.
    + apply seqb_eq in E. exfalso. apply Hni. rewrite E. now apply in_map.
    + right. apply IH; [now inversion Hl | exact Hnd' | exact Hin].
Qed.

Lemma get_val_map (g : field -> fval) sch : forall d f,
  NoDup (map fname sch) -> In f sch -> get_val (fname f) sch (map g sch) d = g f.
Proof.
  induction sch as [| a s IH]; intros d f Hnd Hin; [destruct Hin |].
  cbn [map get_val]. inversion Hnd as [| ? ? Hni Hnd']; subst.
  destruct Hin as [-> | Hin]; [now rewrite seqb_refl |].
  destruct (String.eqb (fname a) (fname f)) eqn:E.
  - apply seqb_eq in E. exfalso. apply Hni. rewrite E. now apply in_map.
  - now apply IH.
Qed.

Lemma combine_map_in {A B} (g : A -> B) l f : In f l -> In (f, g f) (combine l (map g l)).
Proof. induction l as [| a r IH]; cbn; [tauto |]. intros [-> | H]; [now left | right; now apply IH]. Qed.

(* every UserInfo member is the ID-token member of its name *)
Theorem getuserinfo_members vals claims f d :
  In f (schema_of TUserInfo) ->
  get_val (fname f) (schema_of TUserInfo) (fst (get_userinfo vals claims)) d =
  get_val (fname f) (schema_of TID) vals (zero_of (fkind f)).
Proof.
  intros Hin. unfold get_userinfo. cbn [fst].
  apply (get_val_map (fun f => get_val (fname f) (schema_of TID) vals (zero_of (fkind f))));
    [apply schema_nodup | exact Hin].
Qed.

(* the UserInfo document made from an ID token's claims says, under every
   UserInfo member name, what the ID token itself says under that name *)
Theorem getuserinfo_doc_agrees vals claims f :
  List.length vals = List.length (schema_of TID) -> In f (schema_of TUserInfo) ->
  lookup (fname f) (encode_T TUserInfo (fst (get_userinfo vals claims)) (snd (get_userinfo vals claims))) =
  lookup (fname f) (encode_T TID vals claims).
Proof.
  intros Hl Hin. unfold encode_T. cbn [pre snd]. unfold get_userinfo at 1. cbn [fst].
  rewrite (lookup_encode_reg (schema_of TUserInfo) _ claims f
             (get_val (fname f) (schema_of TID) vals (zero_of (fkind f))));
    [| apply schema_nodup | apply schema_fold_distinct
     | apply (combine_map_in (fun f => get_val (fname f) (schema_of TID) vals (zero_of (fkind f)))), Hin].
  rewrite (lookup_encode_reg (schema_of TID) vals claims f
             (get_val (fname f) (schema_of TID) vals (zero_of (fkind f))));
    [reflexivity | apply schema_nodup | apply schema_fold_distinct |].
  apply get_val_in; [now symmetry | apply schema_nodup | now apply userinfo_fields_in_id].
Qed.

(* ---------- NewLogoutTokenClaims ---------- *)
Definition nil_if_empty (o : option (list string)) : option (list string) :=
  match o with Some [] => None | _ => o end.

Lemma logout_norm_field rfc lt lp f v :
  match v with VLocale _ | VActor _ => False | _ => True end ->
  norm_field rfc lt lp [] (f, v) = Ok (if fomit f && is_empty v then zero_of (fkind f) else v).
Proof.
  intros Hv. unfold norm_field, marshal_field.
  destruct (fomit f && is_empty v); [reflexivity |].
  destruct v; cbn; try reflexivity; contradiction.
Qed.

(* the value the constructor builds comes back from Marshal + Unmarshal as it
   was built (an empty audience as the nil audience) *)
Theorem new_logout_roundtrip rfc lt lp iss sub aud es en jti sid skew now :
  let v := new_logout iss sub aud es en jti sid skew now in
  decode rfc lt lp (schema_of TLogout) (JObj (encode_T TLogout v [])) =
  Ok (new_logout iss sub (nil_if_empty aud) es en jti sid skew now, encode_T TLogout v []).
Proof.
  intros v.
  unfold encode_T. cbn [pre].
  rewrite (roundtrip rfc lt lp (schema_of TLogout) v [] (schema_nodup TLogout) (schema_fold_distinct TLogout)
             eq_refl).
  unfold norm. subst v. unfold new_logout at 1. cbn [schema_of combine mapM].
  rewrite !logout_norm_field by exact I. cbn [bind].
  f_equal. f_equal. unfold new_logout.
  cbn [fomit fo fkind is_empty zero_of andb].
  repeat match goal with
         | |- context [String.eqb ?s ""] =>
             let H := fresh "E" in destruct (String.eqb s "") eqn:H; [apply seqb_eq in H; subst |]
         end;
  repeat match goal with
         | |- context [Z.eqb ?z 0] =>
             let H := fresh "E" in destruct (Z.eqb z 0) eqn:H; [apply Z.eqb_eq in H; rewrite ?H |]
         end;
  destruct aud as [[| a l] |]; reflexivity.
Qed.

(* ---------- non-vacuity ---------- *)
Example ext_nonvacuous :
  (* two non-empty compact objects with a common key: hypotheses of concat_members hold *)
  forallb nonempty ["""a"":1"] = true /\ forallb nonempty ["""a"":2"; """b"":3"] = true /\
  fst (concat_json (render ["""a"":1"]) (render ["""a"":2"; """b"":3"])) = Some "{""a"":1,""a"":2,""b"":3}" /\
  lookup "a" (members_obj ([("a", JNum 1 "")] ++ [("a", JNum 2 ""); ("b", JNum 3 "")])) = Some (JNum 2 "") /\
  (* one side empty, a malformed side *)
  concat_json "{}" "{""b"":3}" = (Some "{""b"":3}", "{}") /\
  concat_json "{""a"":1} " "{}" = (None, "{""a"":1} ") /\
  (* the enum codecs: declared, case variants, undeclared, out of range *)
  enum_parse EApp "user_agent" = Some 1%Z /\ enum_parse EApp "NATIVE" = Some 2%Z /\
  enum_parse ETok "jwt" = Some 1%Z /\ enum_parse ETok "web" = None /\
  enum_parse EApp (bs [110;97;116;196;176;118;101]%N) = Some 2%Z /\
  enum_in_range ETok 2 = false /\ enum_string ETok 2 = "AccessTokenType(2)" /\
  enum_string EApp (-1) = "ApplicationType(-1)" /\
  enum_unmarshal EApp 2 (SText "nope") = (false, 0%Z) /\
  enum_unmarshal EApp 2 (SScan (DStr "nope")) = (false, 2%Z) /\
  (* scope lists through the database codec *)
  forallb space_free ["openid"; "profile"] = true /\
  sda_scan None (DBytes (sda_value (Some ["openid"; "profile"]))) = (true, Some ["openid"; "profile"]) /\
  sda_scan (Some ["x"]) (DInt 5) = (false, Some ["x"]) /\
  (* the instant the two time conversions do not preserve *)
  from_time (fst (as_time zero_sec)) (snd (as_time zero_sec)) = 0%Z /\
  (* the constructor with an empty (non-nil) audience *)
  nil_if_empty (Some []) = None /\
  get_val "iat" (schema_of TLogout) (new_logout "i" "s" (Some ["c"]) 1700000600 0 "j" "sid" 5000000000 1700000000123456789) (VTime 0)
    = VTime 1699999995.
Proof. vm_compute. repeat split. Qed.
