(* C03: case vocabulary, model runner, property predicate. *)
From OIDC Require Export Lib C03_Redirect C03_Handlers.

(* oracle tables filled by the driver with the real functions' answers *)
Record tables := {
  t_glob : list (string * string * gres);      (* doublestar.Match glob uri *)
  t_uri  : list (string * uinfo) }.            (* per URI string *)

Fixpoint glob_of (t : list (string * string * gres)) (g u : string) : gres :=
  match t with
  | [] => GNoMatch
  | (g', u', r) :: rest => if String.eqb g g' && String.eqb u u' then r else glob_of rest g u
  end.

Definition no_info : uinfo := {| u_loop := None; u_canon := None; u_form := None; u_truth := None |}.

Fixpoint info_of (t : list (string * uinfo)) (u : string) : uinfo :=
  match t with
  | [] => no_info
  | (u', i) :: rest => if String.eqb u u' then i else info_of rest u
  end.

Inductive input :=
| IValidate (c : client) (u rt : string) (t : tables)            (* op.ValidateAuthReqRedirectURI *)
| IHistory (reqobj_supported : bool) (notfound : errkind) (cs : list client) (t : tables) (ops : list op).

Inductive observed :=
| OValidate (r : vres)
| OValidateOther            (* an error that is neither of the two redirect-disabled kinds *)
| OHistory (outs : list out)
| OCrash.

Definition model (i : input) : observed :=
  match i with
  | IValidate c u rt t =>
      OValidate (validate_redirect (glob_of (t_glob t)) (fun u => u_loop (info_of (t_uri t) u)) c u rt)
  | IHistory ro nf cs t ops =>
      OHistory (run (glob_of (t_glob t)) (info_of (t_uri t)) ro nf cs [] ops)
  end.

(* ------------------------------------------------------------------ property *)
Section Spec.
  Variable glob : string -> string -> gres.
  Variable info : string -> uinfo.
  Variable cs : list client.

  (* "registered" of the property text: loopback is the GROUND TRUTH u_truth (host exactly localhost,
     or an IP literal in 127.0.0.0/8 or ::1), not what the library's classifier says *)
  Definition registered (c : client) (u rt : string) : bool :=
    registeredb glob (fun u => u_truth (info u)) c u rt.
  Definition matching (c : client) (u : string) : bool :=
    matches glob (fun u => u_truth (info u)) c u.

  Definition is_page (x : out) : bool := match x with OPage _ _ => true | _ => false end.

  (* x sends the user agent nowhere but to one of the URIs the request itself mentioned
     (cands), and only if that URI is registered for (client id, rt) *)
  Definition target_ok (cid : string) (cands : list string) (rt : string) (x : out) : bool :=
    match x with
    | ORedirect fr _ t =>
        match find_client cs cid with
        | Some c =>
            existsb (fun u => match u_canon (info u) with
                              | Some (cq, cf) => registered c u rt && String.eqb t (if fr then cf else cq)
                              | None => false
                              end) cands
        | None => false
        end
    | OForm t =>
        match find_client cs cid with
        | Some c =>
            existsb (fun u => match u_form (info u) with
                              | Some t' => registered c u rt && String.eqb t t'
                              | None => false
                              end) cands
        | None => false
        end
    | OPanic => false
    | _ => true
    end.

  Definition no_redirect (x : out) : bool :=
    match x with ORedirect _ _ _ | OForm _ | OLogin _ | OPanic => false | _ => true end.

  (* missing / unknown client (every way the client lookup can fail: not registered, or the
     storage call itself fails) / non-matching redirect URI: no URI the request mentions
     (plain parameter, request object) matches anything registered *)
  Definition must_page_with (lp : string -> option (string * string)) (q : areq) : bool :=
    match q_fault q with AF_GetClient _ => true | _ => false end ||
    match find_client cs (q_client q) with
    | None => true
    | Some c => forallb (fun u => String.eqb u "" || negb (matches glob lp c u)) (candidates q)
    end.
  Definition must_page := must_page_with (fun u => u_truth (info u)).

  Definition login_ok (q : areq) (x : out) : bool :=
    match x with
    | OLogin p => match find_client cs (q_client q) with
                  | Some c => String.eqb p (c_login c)
                  | None => false
                  end
    | _ => true
    end.

  Definition is_login (x : out) : bool := match x with OLogin _ => true | _ => false end.

  (* the requests a callback mentions: every non-empty value of its `id` parameter, wherever it
     travels (form body, URL query, repeated), resolved against the requests accepted so far *)
  Definition cb_mentioned (i : cbids) : list nat :=
    flat_map (fun x => match x with Some k => [k] | None => [] end) (cb_all i).
  Definition resolve (created : list (string * list string * string)) (ks : list nat) :=
    flat_map (fun k => match nth_error created k with Some e => [e] | None => [] end) ks.

  (* x follows nothing but the stored URI of s (readable corollary C03_callback_addressed) *)
  Definition points_to (s : sreq) (x : out) : bool :=
    match x with
    | ORedirect fr _ t =>
        match u_canon (info (s_uri s)) with
        | Some (cq, cf) => String.eqb t (if fr then cf else cq)
        | None => false
        end
    | OForm t => match u_form (info (s_uri s)) with Some t' => String.eqb t t' | None => false end
    | OLogin _ | OPanic | OOther => false
    | _ => true
    end.

  (* created = (client id, redirect URIs mentioned, response type) of the requests the
     implementation accepted so far (those it answered with the login redirect) *)
  Fixpoint spec_hist (created : list (string * list string * string)) (ops : list op) (outs : list out) : bool :=
    match ops, outs with
    | [], [] => true
    | o :: ops', x :: outs' =>
        match o with
        | Authorize _ q _ =>
            (if must_page q then is_page x else true)
            && target_ok (q_client q) (candidates q) (q_rt q) x && login_ok q x
            && spec_hist (if is_login x then created ++ [(q_client q, candidates q, q_rt q)] else created) ops' outs'
        | Login _ => spec_hist created ops' outs'
        | Callback _ ids _ _ =>
            (* the answer may send the user agent only to a registered URI of a request the callback
               itself names (whichever of several ids the implementation reads); none named or known: nowhere *)
            match resolve created (cb_mentioned ids) with
            | [] => no_redirect x
            | rs => existsb (fun e => let '(cid, u, rt) := e in target_ok cid u rt x) rs && negb (is_login x)
            end && spec_hist created ops' outs'
        end
    | _, _ => false
    end.

  (* readable form: where any answer of any history can send the user agent *)
  Definition safe_out (x : out) : Prop :=
    match x with
    | ORedirect fr _ t =>
        exists c u rt cq cf, In c cs /\ Registered glob (fun u => u_loop (info u)) c u rt /\
          u_canon (info u) = Some (cq, cf) /\ t = (if fr then cf else cq)
    | OForm t =>
        exists c u rt, In c cs /\ Registered glob (fun u => u_loop (info u)) c u rt /\ u_form (info u) = Some t
    | OPanic | OOther => False
    | _ => True
    end.

End Spec.

(* the guard of C03_spec_holds: on every URI of the case the library's loopback classification
   equals the ground truth. The driver does NOT enforce it: a case that breaks it is judged by
   `spec` like any other (and flagged as soon as the difference lets a URI through). *)
Definition opq_eqb (a b : option (string * string)) : bool :=
  match a, b with
  | Some x, Some y => pq_eqb x y
  | None, None => true
  | _, _ => false
  end.
Definition loop_agree (t : list (string * uinfo)) : bool :=
  forallb (fun e => opq_eqb (u_truth (snd e)) (u_loop (snd e))) t.
Definition wf (i : input) : bool :=
  match i with
  | IValidate _ _ _ t => loop_agree (t_uri t)
  | IHistory _ _ _ t _ => loop_agree (t_uri t)
  end.

Definition vres_eqb (a b : vres) : bool :=
  match a, b with VOk, VOk | VBad, VBad | VGlobErr, VGlobErr => true | _, _ => false end.

Definition spec (i : input) (o : observed) : bool :=
  match i, o with
  | IValidate c u rt t, OValidate r =>
      let glob := glob_of (t_glob t) in
      let info := info_of (t_uri t) in
      (* accepted => registered; redirect-disabled rejections are always fine *)
      match r with VOk => registered glob info c u rt | _ => true end
  | IValidate c u rt t, OValidateOther =>
      (* a redirectable error is acceptable only for a URI that is registered *)
      registered (glob_of (t_glob t)) (info_of (t_uri t)) c u rt
  | IHistory _ _ cs t ops, OHistory outs =>
      spec_hist (glob_of (t_glob t)) (info_of (t_uri t)) cs [] ops outs
  | _, _ => false
  end.

Definition out_eqb (a b : out) : bool :=
  match a, b with
  | OPage s c, OPage s' c' => N.eqb s s' && String.eqb c c'
  | OLogin p, OLogin p' => String.eqb p p'
  | ORedirect f c t, ORedirect f' c' t' => Bool.eqb f f' && String.eqb c c' && String.eqb t t'
  | OForm t, OForm t' => String.eqb t t'
  | OFormBlocked, OFormBlocked | OUndelivered, OUndelivered | ONone, ONone | OPanic, OPanic | OOther, OOther => true
  | _, _ => false
  end.

Definition obs_eqb (a b : observed) : bool :=
  match a, b with
  | OValidate r, OValidate r' => vres_eqb r r'
  | OValidateOther, OValidateOther => true
  | OHistory l, OHistory l' => list_eqb out_eqb l l'
  | OCrash, OCrash => true
  | _, _ => false
  end.

(* decision-path class; 0 = first-guard reject *)
Definition out_class (x : out) : nat :=
  match x with
  | OPage _ _ => 0 | ONone => 0
  | OLogin _ => 1
  | ORedirect _ c _ => if String.eqb c "" then 3 else 2
  | OForm _ => 4 | OFormBlocked => 5 | OPanic => 6 | OOther => 7 | OUndelivered => 8
  end.

Definition path (i : input) (o : observed) : nat :=
  match i, o with
  | IValidate c u rt t, OValidate r =>
      if String.eqb u "" then 0 else
      match r with
      | VOk => if string_in u (c_redirects c) then 1
               else if glob_match (glob_of (t_glob t)) c u then 2 else 3
      | VBad => 4 + (if is_http u then 1 else 0) + (match c_app c with Native => 2 | _ => 0 end)
      | VGlobErr => 8
      end
  | IHistory _ _ _ _ _, OHistory outs =>
      fold_left (fun acc x => acc + out_class x) outs 0
  | _, _ => 0
  end.

Definition case_mismatches := run_mismatches model obs_eqb.
Definition case_violations := run_violations spec.
Definition case_paths := run_paths model path.
