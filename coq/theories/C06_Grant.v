(* C06 model, part 2: the refresh grant behind a refresh token and the refresh
   requests made on it, one after the other.

   Go (pkg/op/token_refresh.go) <-> Gallina
     ValidateRefreshTokenScopes(requested, request)   validate_refresh_scopes
       nothing requested: the request keeps the grant's scopes; otherwise every
       requested scope must be among request.GetScopes(), and only AFTER that
       loop request.SetCurrentScopes(requested) is called.  invalid_scope = None:
       nothing was set.
     ValidateRefreshTokenRequest                        grant_step
       AuthorizeRefreshClient, TokenRequestByRefreshToken, then
       client.GetID() != request.GetClientID() -> invalid_grant BEFORE the scopes
       are looked at, then ValidateRefreshTokenScopes.
   refstore: an accepted refresh rotates the token; the new refresh token stands
   for the request's CURRENT scopes (CreateAccessAndRefreshTokens stores
   request.GetScopes()), so a narrowing persists.  A refused request changes
   nothing in the store - also when TokenRequestByRefreshToken hands out the
   LIVE stored record (refstore.SetLiveRefreshGrants, as example/server/storage
   does: SetCurrentScopes writes into the stored refresh token), because
   SetCurrentScopes is not reached on a refused request. *)
From OIDC Require Import Lib.

Definition subset_of (a b : list string) : bool := forallb (fun s => string_in s b) a.

Definition validate_refresh_scopes (requested granted : list string) : option (list string) :=
  match requested with
  | [] => Some granted
  | _ => if subset_of requested granted then Some requested else None
  end.

(* an earlier refresh request on the grant (each presents the refresh token that
   is valid at that moment) *)
Record earlier_req := mkEarlier {
  e_owner : bool;            (* made by the client the grant belongs to (false: another,
                                correctly authenticated, client presents the token) *)
  e_scopes : list string     (* its scope parameter; [] = none *)
}.

(* the scopes the stored grant stands for after one more request *)
Definition grant_step (granted : list string) (e : earlier_req) : list string :=
  if e_owner e
  then match validate_refresh_scopes (e_scopes e) granted with
       | Some s => s          (* accepted: the rotated refresh token stands for the request's scopes *)
       | None => granted      (* invalid_scope: nothing set, nothing stored *)
       end
  else granted.               (* invalid_grant before the scopes are looked at *)

Definition grant_after (g0 : list string) (earlier : list earlier_req) : list string :=
  fold_left grant_step earlier g0.

(* GetScopes() of the request the token endpoint builds its response from:
   the grant g0 of the authorization, the earlier requests on it, the scope
   parameter of the request under consideration; None = refused (invalid_scope) *)
Definition refresh_scopes (g0 : list string) (earlier : list earlier_req) (requested : list string)
  : option (list string) :=
  validate_refresh_scopes requested (grant_after g0 earlier).
