(* C01: the decision theorems of C01_proofs lifted to verifiers described by
   the option list given to rp.NewIDTokenVerifier, and to what the accessors of
   the returned claims report. *)
From OIDC Require Import Lib Base64 C02_Jws C01_Verifier C02_Ground C02_proofs C01_Options C01_spec
  C01_options_proofs C01_proofs.

Section Oracle.
  Variable verify : jwk -> sigentry -> string -> bool.
  Variable H : hkind -> string -> list nat.

  Theorem options_sound : forall issuer client opts ks t m now c alg,
    verify_id_token verify (new_id_token_verifier issuer client opts) ks t m now = Accept c alg ->
    (exists bytes e k,
        m = MidOk bytes c
        /\ tok_sigs t = [e] /\ tok_payload t = Some bytes
        /\ alg = se_alg e
        /\ string_in alg (effective_algs (v_algs (configured issuer client opts))) = true
        /\ In k (ks_keys ks) /\ trusted_key ks e k = true /\ verify k e bytes = true)
    /\ id_token_valid (configured issuer client opts) c now.
  Proof.
    intros issuer client opts ks t m now c alg A. rewrite options_configured in A.
    now apply id_token_sound in A.
  Qed.

  Theorem options_complete : forall issuer client opts ks t bytes c now alg,
    check_signature verify (v_algs (configured issuer client opts)) ks t bytes = Ok alg ->
    id_token_margin (configured issuer client opts) c now ->
    verify_id_token verify (new_id_token_verifier issuer client opts) ks t (MidOk bytes c) now = Accept c alg.
  Proof.
    intros issuer client opts ks t bytes c now alg Hs M. rewrite options_configured.
    now apply id_token_complete.
  Qed.

  Theorem options_tokens_sound : forall issuer client opts ks t m access_token now c alg,
    verify_tokens verify H (new_id_token_verifier issuer client opts) ks t m access_token now = Accept c alg ->
    id_token_valid (configured issuer client opts) c now /\ at_hash_matches H c alg access_token.
  Proof.
    intros issuer client opts ks t m access_token now c alg A. rewrite options_configured in A.
    apply tokens_sound in A as [A Hh]. apply id_token_sound in A as [_ V]. now split.
  Qed.

  Theorem options_tokens_complete : forall issuer client opts ks t bytes c access_token now alg,
    check_signature verify (v_algs (configured issuer client opts)) ks t bytes = Ok alg ->
    id_token_margin (configured issuer client opts) c now ->
    at_hash_matches H c alg access_token ->
    verify_tokens verify H (new_id_token_verifier issuer client opts) ks t (MidOk bytes c) access_token now
    = Accept c alg.
  Proof.
    intros issuer client opts ks t bytes c access_token now alg Hs M A. rewrite options_configured.
    now apply tokens_complete.
  Qed.

  (* WithAuthTimeMaxAge d, not overridden later, d <> 0: an accepted token carries
     an auth_time not before round(now - d) *)
  Theorem options_auth_age_enforced : forall issuer client l1 d l2 ks t m now c alg,
    (forall o, In o l2 -> opt_kind o <> KMaxAge) -> d <> 0%Z ->
    verify_id_token verify (new_id_token_verifier issuer client (l1 ++ WithAuthTimeMaxAge d :: l2)) ks t m now
    = Accept c alg ->
    is_zero_time (c_auth_time c) = false /\ (round_s (now - d) <= instant (c_auth_time c))%Z.
  Proof.
    intros issuer client l1 d l2 ks t m now c alg Hn Hd A.
    apply verify_id_token_accept in A as [bytes [_ [_ V]]].
    unfold id_token_valid in V. rewrite (options_max_age issuer client l1 d l2 Hn) in V.
    destruct V as (_ & _ & _ & _ & _ & _ & _ & _ & _ & _ & _ & V12). now apply V12.
  Qed.

  (* WithIssuedAtMaxAge d, not overridden later, d <> 0: iat not before round(now - d) *)
  Theorem options_iat_age_enforced : forall issuer client l1 d l2 ks t m now c alg,
    (forall o, In o l2 -> opt_kind o <> KMaxIat) -> d <> 0%Z ->
    verify_id_token verify (new_id_token_verifier issuer client (l1 ++ WithIssuedAtMaxAge d :: l2)) ks t m now
    = Accept c alg ->
    is_zero_time (c_iat c) = false /\ (round_s (now - d) <= instant (c_iat c))%Z.
  Proof.
    intros issuer client l1 d l2 ks t m now c alg Hn Hd A.
    apply verify_id_token_accept in A as [bytes [_ [_ V]]].
    unfold id_token_valid in V. rewrite (options_max_iat issuer client l1 d l2 Hn) in V.
    destruct V as (_ & _ & _ & _ & _ & _ & V7 & _ & V9 & _). split; [assumption | now apply V9].
  Qed.

  (* what the relying party reads through the accessors of accepted claims is
     the parsed payload, and it satisfies what was validated *)
  Theorem accepted_getters : forall v ks t m now c alg p,
    verify_id_token verify v ks t m now = Accept c alg ->
    let g := getters c alg p in
    (exists bytes, m = MidOk bytes c)
    /\ getters_report c alg p g = true
    /\ g_iss g = v_issuer v /\ g_sub g <> "" /\ ui_sub g = g_sub g /\ In (v_client v) (g_aud g)
    /\ (g_azp g <> "" -> g_azp g = v_client v)
    /\ gt_zero (g_iat g) = false /\ gt_unix (g_iat g) = c_iat c
    /\ ((zero_unix * ns <= now + v_offset v)%Z ->
        gt_zero (g_exp g) = false /\ gt_unix (g_exp g) = c_exp c /\ (now + v_offset v < gt_unix (g_exp g) * ns)%Z)
    /\ (v_max_age v <> 0%Z -> gt_zero (g_auth_time g) = false /\ gt_unix (g_auth_time g) = c_auth_time c).
  Proof.
    intros v ks t m now c alg p A g.
    apply verify_id_token_accept in A as [bytes [Hm [_ V]]].
    destruct V as (V1 & V2 & V3 & V4 & V5 & V6 & V7 & V8 & V9 & V10 & V11 & V12).
    split; [now exists bytes|]. split; [apply getters_report_getters|].
    subst g. unfold getters. cbn [g_iss g_sub ui_sub g_aud g_azp g_iat g_exp g_auth_time].
    split; [assumption|]. split; [assumption|]. split; [reflexivity|]. split; [assumption|].
    split; [assumption|].
    destruct (not_zero_time _ V7) as [N7 _].
    split; [exact V7|]. split.
    { rewrite as_time_unix. apply Z.eqb_neq in N7. now rewrite N7. }
    split.
    { intro Hz. rewrite as_time_unix, as_time_zero.
      assert (N6 : c_exp c <> 0%Z).
      { intro E. rewrite E in V6. unfold instant in V6. cbn in V6. unfold zero_unix, ns in *. lia. }
      assert (Z6 : is_zero_time (c_exp c) = false).
      { unfold is_zero_time, instant in *. apply Z.eqb_neq in N6. rewrite N6 in *. apply Z.eqb_neq. lia. }
      pose proof N6 as N6'. apply Z.eqb_neq in N6'. rewrite N6'.
      unfold instant in V6. rewrite N6' in V6. now repeat split. }
    intro Hm'. destruct (V12 Hm') as [Z12 _]. destruct (not_zero_time _ Z12) as [N12 _].
    split; [exact Z12|]. rewrite as_time_unix. apply Z.eqb_neq in N12. now rewrite N12.
  Qed.
  (* a payload that does not decode as ID-token claims (no three segments, no
     base64url, no JSON object, a member whose JSON type does not fit its claim)
     is refused by both entry points, whatever the configuration and the clock:
     there is no "best effort" set of claims to check or to return *)
  Theorem undecodable_rejected : forall v ks t m now,
    (forall bytes c, m <> MidOk bytes c) ->
    verify_id_token verify v ks t m now = Reject (mid_error m)
    /\ forall access_token, verify_tokens verify H v ks t m access_token now = Reject (mid_error m).
  Proof.
    intros v ks t m now Hm.
    assert (A : verify_id_token verify v ks t m now = Reject (mid_error m)).
    { destruct m as [| | | |bytes c]; try reflexivity. exfalso. now apply (Hm bytes c). }
    split; [exact A|]. intro a. unfold verify_tokens. now rewrite A.
  Qed.
End Oracle.

(* non-vacuity: a concrete option list (offset given twice, both max ages) whose
   verifier accepts a concrete token, and the accessors of the result *)
Definition ex_opts : list vopt :=
  [WithIssuedAtOffset 0; WithAuthTimeMaxAge 3600000000000; WithNonce (Some "n");
   WithACRVerifier (Some ["gold"]); WithIssuedAtMaxAge 3600000000000; WithIssuedAtOffset 1000000000].

Example options_nonvacuous :
  new_id_token_verifier "iss" "c" ex_opts = ex_v
  /\ verify_id_token sym_verify (new_id_token_verifier "iss" "c" ex_opts) (KSOpenID (Some [ex_key]))
       (TCompact ex_entry "P") (MidOk "P" ex_c) ex_now = Accept ex_c "RS256"
  /\ gt_unix (g_exp (getters ex_c "RS256" (mkProfile "N" "" "" "" "e@x" true "" false None 0 9%N))) = 1700003600%Z.
Proof. vm_compute. repeat split; reflexivity. Qed.

Example options_last_wins_nonvacuous :
  new_id_token_verifier "iss" "c" ex_opts
  = new_id_token_verifier "iss" "c" (tl ex_opts).
Proof. vm_compute. reflexivity. Qed.
